import PyAirtouch.Lemmas.SockRetry
/-!
# C02, last clause — "A single transient write failure does not lose an idempotent command: it is re-sent first on the
next connection"

Model: `PyAirtouch.Model.Sock`, whose `drainLoop` starts every iteration with the test
`if self._writer is None or self._writer.is_closing(): return` of the repaired `_drain_message_queue`.
Proofs: `Lemmas/SockRetry.lean`.  Vocabulary:

* `down c` — the number of transports of `c.conns` that are no longer open (`dying` or `dead`);
  `pot c w = down c + 1` if transport `w` is still open, `down c` otherwise.
* `isFault l` — `l` is an environment fault: `envLost _` (the peer resets a transport) or `envFailWrites _ true` (the
  next write on a transport will fail).
* `gentle s l` / `runG` — histories in which a transport only goes down through such a fault: no `apiClose` /
  `apiReset`; a reader is woken with `readBad` / `readEof` / `readErr` only on a transport that is already down; and
  wake-ups are prompt: at `openOk` no task is blocked (`drainAwait w` / `readWait w`) on a transport that is down.
  Pausing (`envPause`), refusals, any number of sends, any schedule otherwise.

Results:

* (a) `C02_no_write_on_lost_connection`: the trace of a reachable state contains no `deadWrite`;
  `C02_attempts_are_frames_or_faults`: hence `writeAttempts = wireCount + writeFaults` and
  `failedAttempts = writeFaults`; `C02_drain_never_raises`.
* (b) `C02_attempts_need_faults`: the retries a message has used up are bounded by the number of transports that went
  down; `C02_faults_bound_down`: along a gentle history that number is bounded by the number of fault labels;
  `C02_kept_across_single_fault`: the Spec monitor `keptAcrossSingleFault`, with the harness marker `fault` inserted
  anywhere, accepts the trace of every gentle history with at most one fault label.
  `C02_single_fault_cascade`: the promptness hypothesis cannot be dropped - with one `envLost`, congestion and late
  wake-ups a message accepted with one retry is dropped for `maxRetries`.
* (c) `C02_requeued_first`, `C02_requeued_stays_ahead`, `C02_requeued_prefix`.
-/
namespace PyAirtouch.Props.C02
open PyAirtouch.Model.Sock PyAirtouch.Spec.Trace PyAirtouch.Lemmas.Sock PyAirtouch.Lemmas.SockRetry

/-! ### (a) no write on a lost connection -/

/-- **(a)** No write attempt is ever made on a transport that is closing or lost: the trace contains no `deadWrite`
    event.  (Holds for every `Reachable` state, in particular for every `ReachableWF` one.) -/
theorem C02_no_write_on_lost_connection {s : Sys} (h : Reachable s) :
    ∀ ev ∈ s.core.trace, ∀ cid sid t, ev ≠ .deadWrite cid sid t := by
  intro ev hev cid sid t heq
  have := noDW_reachable h ev hev
  rw [heq] at this; cases this

theorem C02_no_write_on_lost_connection_wf {s : Sys} (h : ReachableWF s) :
    ∀ ev ∈ s.core.trace, ∀ cid sid t, ev ≠ .deadWrite cid sid t :=
  C02_no_write_on_lost_connection h.reachable

/-- … so every attempt is a whole frame on an open transport or a write fault (a real failure of an open
    transport), and the failed attempts the monitors count are exactly the write faults -/
theorem C02_attempts_are_frames_or_faults {s : Sys} (h : Reachable s) (sid : Nat) :
    writeAttempts s.core.trace sid = wireCount s.core.trace sid + writeFaults s.core.trace sid ∧
    failedAttempts s.core.trace sid = writeFaults s.core.trace sid :=
  writeAttempts_split (noDW_reachable h) sid

/-- the drain loop never reaches its `except OSError` arm through `_write` itself: a retry is only ever spent when a
    `drain()` that was blocked fails (label `drainErr`, enabled only on a transport that is down) -/
theorem C02_drain_never_raises (c : Core) (w : Nat) (q : List Entry) (e : Entry) : (drainLoop c w q).2 ≠ .raised e :=
  drainLoop_not_raised w q c e

/-- the drain loop leaves the queue alone when the transport is not open -/
theorem C02_drain_skips_lost_transport (c : Core) (w : Nat) (q : List Entry)
    (h : (c.conns[w]?.map ConnSt.isLive).getD false = false) :
    (drainLoop c w q).1.queue = q ∧ (drainLoop c w q).1.trace = c.trace := by
  cases q with
  | nil => exact ⟨rfl, rfl⟩
  | cons e rest => simp [drainLoop, h]

def lostThenSend : List Label :=
  [.apiOpen, .run 1 .go, .run 1 .openOk, .run 1 .go, .run 2 .go, .envLost 0, .apiSend 1 1 240 true, .apiSend 2 1 240 true]

/-- non-vacuity: the peer resets the transport, then two sends (before the reset the client used to write both to the
    dead stream and burn a retry each): no attempt at all, both stay queued with their retries; after the reset and the
    reconnect both are written, in order, each exactly once -/
example : ∃ s, ReachableWF s ∧ s.core.isConnected = true ∧
    writeAttempts s.core.trace 1 = 0 ∧ writeAttempts s.core.trace 2 = 0 ∧
    s.core.queue.map (fun e => (e.sid, e.retries)) = [(1, 1), (2, 1)] ∧
    ∃ s', run s [.run 2 .readErr, .envLostRan 0, .run 2 .go, .run 2 .go, .run 5 .go, .run 5 .openOk, .run 5 .go] = some s' ∧
      s'.core.queue = [] ∧ wiredSids s'.core.trace = [1, 2] ∧ writeAttempts s'.core.trace 1 = 1 ∧
      writeAttempts s'.core.trace 2 = 1 :=
  ⟨_, ⟨lostThenSend, by decide, rfl⟩, by decide, by decide, by decide, by decide, _, rfl, by decide, by decide,
    by decide, by decide⟩

/-! ### (b) retries are spent on transports that went down -/

/-- **(b)** Retries are only spent on real failures.  With `r` the number of retries granted at acceptance:
    * an entry in the queue has used up at most `down` retries (`r ≤ retries + down`);
    * an entry written to transport `w` whose `drain()` has not returned has used up at most `down` retries, not counting
      the attempt in progress while `w` is open, counting it once `w` is down (`r + 1 ≤ retries + pot w`);
    * a message dropped for `maxRetries` has `r + 1 ≤ down`: each of its `r + 1` failed attempts was made on a different
      transport, open when written to, that went down before `drain()` returned. -/
theorem C02_attempts_need_faults {s : Sys} (h : ReachableWF s) :
    (∀ x ∈ s.core.queue, ∀ t e r ok, acceptedAt s.core.trace x.sid = some (t, e, r, ok) → r ≤ x.retries + down s.core) ∧
    (∀ k ∈ s.tasks, ∀ w x ret, k.pc = .drainAwait w x ret → ∀ t e r ok,
      acceptedAt s.core.trace x.sid = some (t, e, r, ok) → r + 1 ≤ x.retries + pot s.core w) ∧
    (∀ sid t, Ev.qdrop sid t .maxRetries ∈ s.core.trace → ∀ t0 e r ok,
      acceptedAt s.core.trace sid = some (t0, e, r, ok) → r + 1 ≤ down s.core) :=
  retries_spent_bounded h

/-- along a gentle history the number of transports that went down is at most the number of environment faults
    (`envLost`, `envFailWrites _ true`) in the label sequence -/
theorem C02_faults_bound_down {ls : List Label} {s : Sys} (h : runG init ls = some s) :
    down s.core ≤ ls.countP isFault :=
  down_runG h

/-- a gentle history with at most one environment fault: no message accepted with `retries ≥ 1` is ever dropped for
    `maxRetries` -/
theorem C02_single_fault_keeps_retryable {ls : List Label} {s : Sys} (hnd : (sendSids ls).Nodup)
    (hr : runG init ls = some s) (hf : ls.countP isFault ≤ 1) :
    ∀ sid t, Ev.qdrop sid t .maxRetries ∈ s.core.trace → ∀ t0 e r ok,
      acceptedAt s.core.trace sid = some (t0, e, r, ok) → r = 0 :=
  kept_single_fault hnd hr hf

/-- the Spec monitor `keptAcrossSingleFault` accepts the trace of every gentle history with at most one fault label,
    wherever the harness marker `fault tf` is put (the model does not emit `fault`; without the marker the monitor is
    trivially true) -/
theorem C02_kept_across_single_fault {ls : List Label} {s : Sys} (hnd : (sendSids ls).Nodup)
    (hr : runG init ls = some s) (hf : ls.countP isFault ≤ 1) (pre post : List Ev) (tf : Nat)
    (htr : s.core.trace = pre ++ post) : keptAcrossSingleFault (pre ++ Ev.fault tf :: post) = true :=
  keptAcrossSingleFault_marked (kept_single_fault hnd hr hf) pre post tf htr

/-- the same for every `ReachableWF` state (any schedule, any user calls) in which at most one transport has gone
    down -/
theorem C02_kept_while_one_transport_down {s : Sys} (h : ReachableWF s) (hd : down s.core ≤ 1) (pre post : List Ev)
    (tf : Nat) (htr : s.core.trace = pre ++ post) : keptAcrossSingleFault (pre ++ Ev.fault tf :: post) = true :=
  keptAcrossSingleFault_marked (kept_of_down_le_one h hd) pre post tf htr

/-- one write fault; message 1 (one retry) is hit by it, message 2 is sent while the transport is closing, message 3
    (no retry) while the reader resets the connection; reconnect -/
def singleFault : List Label :=
  [.apiOpen, .run 1 .go, .run 1 .openOk, .run 1 .go, .run 2 .go,
   .envFailWrites 0 true, .apiSend 1 1 240 true, .apiSend 2 1 240 true, .envLostRan 0, .run 3 .drainErr,
   .run 2 .readErr, .apiSend 3 0 240 true, .run 3 .go, .run 3 .go, .run 2 .go,
   .run 6 .go, .run 6 .openOk, .run 6 .go, .run 7 .go, .run 8 .go]

/-- non-vacuity of (b): the history is gentle and has one fault label; one transport went down (the bound of
    `C02_faults_bound_down` is attained); message 1 was attempted twice - one write fault, one frame - and no message is
    dropped; the monitors `keptAcrossSingleFault` and `resentFirst` see the marker and accept -/
example : ∃ s, runG init singleFault = some s ∧ (sendSids singleFault).Nodup ∧ singleFault.countP isFault = 1 ∧
    down s.core = 1 ∧ writeFaults s.core.trace 1 = 1 ∧ wireCount s.core.trace 1 = 1 ∧
    s.core.trace.all (fun ev => match ev with | .qdrop .. => false | _ => true) = true ∧
    faultCount (s.core.trace.take 5 ++ Ev.fault 0 :: s.core.trace.drop 5) = 1 ∧
    keptAcrossSingleFault (s.core.trace.take 5 ++ Ev.fault 0 :: s.core.trace.drop 5) = true ∧
    resentFirst (s.core.trace.take 5 ++ Ev.fault 0 :: s.core.trace.drop 5) = true :=
  ⟨_, rfl, by decide, by decide, by decide, by decide, by decide,
    by decide, by decide,
    C02_kept_across_single_fault (ls := singleFault) (by decide) rfl (by decide) _ _ 0 (List.take_append_drop 5 _).symm,
    by decide⟩

/-- the bound of `C02_attempts_need_faults` is attained in the middle of that history: after the failed `drain()` entry 1
    is back in the queue with `retries = 0 = 1 - down` -/
example : ∃ s, runG init (singleFault.take 10) = some s ∧ down s.core = 1 ∧
    s.core.queue.map (fun e => (e.sid, e.retries, e.requeued)) = [(1, 0, true), (2, 1, false)] :=
  ⟨_, rfl, by decide, by decide⟩

/-- the monitor's `r == 0` case does occur: a message without retries hit by the single fault is dropped -/
example : ∃ s, runG init [.apiOpen, .run 1 .go, .run 1 .openOk, .envFailWrites 0 true, .apiSend 1 0 240 true,
      .envLostRan 0, .run 2 .drainErr] = some s ∧
    Ev.qdrop 1 0 .maxRetries ∈ s.core.trace ∧ acceptedAt s.core.trace 1 = some (0, 240, 0, true) ∧
    keptAcrossSingleFault (Ev.fault 0 :: s.core.trace) = true :=
  ⟨_, rfl, by decide, by decide, by decide⟩

/-- … and the monitor does reject the loss of a retryable message -/
example : keptAcrossSingleFault [.accept 1 0 240 1 true, .fault 0, .writeFault 0 1 0, .qdrop 1 0 .maxRetries] = false := by
  decide

/-- one `envLost`, no other fault label, no `apiClose` / `apiReset`, no error handed to a reader of an open transport -
    but congestion (`envPause _ true`) and late wake-ups: the send task of message 1, blocked in `drain()` on transport 0,
    is resumed only after transport 1 is up and resets *that* connection; the send task of message 3, blocked on
    transport 1, is resumed only after transport 2 is up and resets that one -/
def cascade : List Label :=
  [.apiOpen, .run 1 .go, .run 1 .openOk, .run 1 .go, .run 2 .go,
   .envPause 0 true, .apiSend 1 1 240 true,
   .envLost 0, .run 2 .readErr, .envLostRan 0, .run 2 .go, .run 2 .go,
   .run 4 .go, .run 4 .openOk, .run 4 .go, .envPause 1 true, .apiSend 2 1 240 true, .apiSend 3 1 240 true,
   .run 3 .drainErr, .run 6 .drainErr, .envLostRan 1, .run 3 .go, .run 3 .go,
   .run 8 .go, .run 8 .openOk, .envPause 2 true, .run 8 .go, .run 7 .drainErr, .run 8 .drainErr]

/-- **the promptness hypothesis is necessary.**  With a single environment fault, message 2 - accepted with one retry
    *after* the fault, on the healthy transport 1 - is dropped for `maxRetries`: both its attempts were whole frames on
    open transports that the client then closed itself (`clientClose 1`, `clientClose 2`) from the
    `reset_connection()` of a send task that had been blocked on an older, lost transport.  The history is not gentle
    (the `openOk` of transport 1 happens while task 3 is still blocked on transport 0), three transports are down, and
    the monitor `keptAcrossSingleFault` rejects the trace. -/
theorem C02_single_fault_cascade :
    ∃ s, run init cascade = some s ∧ (sendSids cascade).Nodup ∧ cascade.countP isFault = 1 ∧
      cascade.all (fun l => l ≠ .apiClose && l ≠ .apiReset) = true ∧ runG init cascade = none ∧
      acceptedAt s.core.trace 2 = some (0, 240, 1, true) ∧ Ev.qdrop 2 0 .maxRetries ∈ s.core.trace ∧
      down s.core = 3 ∧
      s.core.trace.all (fun ev => match ev with | .deadWrite .. | .writeFault .. => false | _ => true) = true ∧
      keptAcrossSingleFault (s.core.trace.take 6 ++ Ev.fault 0 :: s.core.trace.drop 6) = false :=
  ⟨_, rfl, by decide, by decide, by decide, by decide, by decide, by decide, by decide, by decide, by decide⟩

/-! ### (c) re-queued entries go first -/

/-- **(c), first half.**  The failed-write path (`drain()` raises) puts the entry back at the head of the queue, with
    one retry fewer and the re-queued mark. -/
theorem C02_requeued_first {s s' : Sys} {t w : Nat} {e : Entry} {r : Ret} (hp : pcAt s t = some (.drainAwait w e r))
    (hk : e.retries ≠ 0) (h : step s (.run t .drainErr) = some s') :
    s'.core.queue = { e with retries := e.retries - 1, requeued := true } :: s.core.queue :=
  drainErr_requeues hp hk h

/-- how the queue evolves along any run from any state: in front, entries re-queued since; then what is left of the old
    queue, in its old order; at the back, entries accepted since -/
theorem C02_queue_evolution {ls : List Label} {s s' : Sys} (h : run s ls = some s') :
    ∃ pre mid post, s'.core.queue = pre ++ mid ++ post ∧ mid.Sublist s.core.queue ∧
      (∀ x ∈ pre, x.requeued = true) ∧ (∀ y ∈ post, y.requeued = false) :=
  run_qrel ls h

/-- **(c), second half.**  A re-queued entry stays ahead of every entry accepted later, for as long as it is in the
    queue (i.e. until it is written or dropped): whatever happens between `s` and `s'`, if `x` (re-queued) is still
    queued in `s'` and `y` is an entry of `s'` that was not queued in `s` and is not a re-queued one, then `x` comes
    before `y`. -/
theorem C02_requeued_stays_ahead {ls : List Label} {s s' : Sys} (h : run s ls = some s') {x y : Entry}
    (hx : x ∈ s'.core.queue) (hxr : x.requeued = true)
    (hy : y ∈ s'.core.queue) (hyn : y ∉ s.core.queue) (hyr : y.requeued = false) :
    ∃ l1 l2, s'.core.queue = l1 ++ l2 ∧ x ∈ l1 ∧ y ∈ l2 :=
  requeued_stays_ahead h hx hxr hy hyn hyr

/-- in every reachable state the re-queued entries form a prefix of the queue: no entry that was never attempted is
    ever ahead of one that is waiting for its retry -/
theorem C02_requeued_prefix {s : Sys} (h : Reachable s) :
    ∃ pre post, s.core.queue = pre ++ post ∧ (∀ x ∈ pre, x.requeued = true) ∧ (∀ y ∈ post, y.requeued = false) :=
  requeued_prefix h

/-- non-vacuity of (c): in `singleFault`, step 10 is the failed `drain()` of message 1 (hypotheses of
    `C02_requeued_first` hold, queue before: `[2]`, after: `[1', 2]`); message 3 is accepted later and goes behind; on the
    next transport the frames go out in the order 1, 2, 3 and message 1 is the first frame on it -/
example : ∃ s s' s'', run init (singleFault.take 9) = some s ∧ pcAt s 3 = some (.drainAwait 0 ⟨1, 1, 240, true, false⟩ .done) ∧
    step s (.run 3 .drainErr) = some s' ∧ s.core.queue.map (·.sid) = [2] ∧
    s'.core.queue = [⟨1, 0, 240, true, true⟩, ⟨2, 1, 240, true, false⟩] ∧
    run s' (singleFault.drop 10) = some s'' ∧ wiredSids s''.core.trace = [1, 2, 3] ∧
    firstWireOn s''.core.trace 1 = some 1 ∧
    ∃ m, run s' [.run 2 .readErr, .apiSend 3 0 240 true] = some m ∧ m.core.queue.map (·.sid) = [1, 2, 3] :=
  ⟨_, _, _, rfl, by decide, rfl, by decide, by decide, rfl, by decide, by decide, _, rfl, by decide⟩

end PyAirtouch.Props.C02
