import PyAirtouch.Lemmas.ApiEquiv
/-!
# C19 — the unified API behaves the same over AirTouch 4 and AirTouch 5

Statement: for consoles of the two generations describing equivalent installations and states, the unified API exposes
equal values for every attribute both generations support, accepts and rejects the same requests, and each accepted
request has the same protocol meaning on its own wire format.  Differences are confined to the documented ones
(set-point resolution, away / sleep and intelligent-auto support, bypass reporting, per-mode limits).

Restatements only; definitions and proofs are in `Lemmas/ApiEquiv.lean`.  The two models are `Model.Api4` / `Model.Api5`.

## Reading guide

1. **Common description** — `AbsAc` (`AbsAcInfo`, `AbsAcStatus`, timers, error text), `AbsZone` (`AbsZoneStatus`, name);
   embeddings `….to4` / `….to5` into the record types of the message models; `….WF` = transmittable by both codecs
   (`C19_*_expressible`).  `IsAt4Ac a o` / `IsAt5Ac a o` / `IsAt4Zone` / `IsAt5Zone`: the API object `o` holds the
   embedded records of `a` (the constructors produce such objects: `C19_mkAc_embedded`, `C19_newAc_embedded`).
2. **Attributes** — `C19_ac_attributes_at4/at5`, `C19_zone_attributes_at4/at5`: every getter of either model returns the
   abstract value; hence `C19_ac_attributes_equal`, `C19_zone_attributes_equal` on the projections `AcView` / `ZoneView`.
   `C19_view*_render`: the models' VIEW text is a rendering of the projection, parameterised by exactly the three
   attributes left out (model, `target_temperature_resolution`, `supported_power_controls`).
3. **States** — `Rel s4 s5` (heaps related index by index, same handshake state, sockets open, same identification).
   `C19_step_rel`: one embedded console message keeps `Rel`; `C19_rel_after_init`: base case; `C19_fresh_run_rel` /
   `C19_fresh_run_view`: whole runs from fresh objects; `C19_view_rel`, `C19_view_eq_of_allTurbo`,
   `C19_view_text_of_allTurbo`: what `Rel` means for the VIEW.  One side condition (`AbsMsg.Admissible`): an ability
   message with a *single* AC must give it exactly the named zones (`C19_single_ac_needs_covering_range`);
   `C19_handshake_admissible` discharges it for canonical handshakes.
4. **Requests** — `SameOutcome o4 o5`: same exception, or one send each with the same retry policy and
   `SameMeaning` (`AcCmdCorr` / `ZoneCmdCorr` between `meaning2C` ↔ `meaningC022`, `meaning2A` ↔ `meaningC020` through the
   explicit word maps `acPower45`, `acMode45`, `acFan45`, `acSetpoint45`, `zonePower45`, `zoneSetting45`).
   `C19_*_alike` per call; `C19_*_on_the_wire`: with C04, the same about the bytes each generation writes.

## Differences

Documented (`…_documented_difference`): resolution, away / sleep (controls and states), intelligent auto, bypass,
per-mode limits.  NOT documented, found here:
* zone `supported_power_states` / `set_power(TURBO)`: AirTouch 4 honours the console's turbo-support bit, AirTouch 5 has
  no such report and always offers / sends TURBO (`C19_zone_supported_power_states_needs_turbo`,
  `C19_zone_set_power_turbo_needs_support`);
* AirTouch 4 group control sets the control method together with a percentage / set-point, AirTouch 5's message has no
  control-type field (`ZoneCmdCorr.method4` / `.controlType5`, in every zone statement);
* a zone set-point outside 10 … 35 °C is sent by AirTouch 4 and cannot be encoded by AirTouch 5
  (`C19_zone_set_point_wire_asymmetry`);
* a single AirTouch 4 AC without group bitmap owns every named group; with a bitmap the order of `ac.zones` is CPython's
  set order (`C19_single_ac_needs_covering_range`, `C19_at4_bitmap_zone_order`).
-/
set_option linter.unusedVariables false
namespace PyAirtouch.Props.C19
open PyAirtouch PyAirtouch.Model PyAirtouch.Gen PyAirtouch.Lemmas.ApiEquiv
open PyAirtouch.Model.TimerCommon (AcTimerState AcTimerStatusData)
open PyAirtouch.Lemmas.SpecCmd

/-! ## 1. the common description is expressible in both protocols -/
theorem C19_acInfo_expressible : type_of% @acInfo_expressible := @acInfo_expressible
theorem C19_acStatus_expressible : type_of% @acStatus_expressible := @acStatus_expressible
theorem C19_zoneStatus_expressible : type_of% @zoneStatus_expressible := @zoneStatus_expressible
theorem C19_acStatus_embeddings_agree : type_of% @AbsAcStatus.to4_eq_iff_to5_eq := @AbsAcStatus.to4_eq_iff_to5_eq
theorem C19_mkAc_embedded : type_of% @mkAc_embedded := @mkAc_embedded
theorem C19_newAc_embedded : type_of% @newAc_embedded := @newAc_embedded
theorem C19_mkZone_embedded : type_of% @mkZone_embedded := @mkZone_embedded
theorem C19_newZone_embedded : type_of% @newZone_embedded := @newZone_embedded
theorem C19_mem_supportedModes : type_of% @mem_supportedModes := @mem_supportedModes
theorem C19_mem_supportedFanSpeeds : type_of% @mem_supportedFanSpeeds := @mem_supportedFanSpeeds
theorem C19_intelligentAuto_not_supported : type_of% @intelligentAuto_not_supported := @intelligentAuto_not_supported

/-! ## 2. equal attributes -/
theorem C19_ac_attributes_at4 : type_of% @ac_attributes_at4 := @ac_attributes_at4
theorem C19_ac_attributes_at5 : type_of% @ac_attributes_at5 := @ac_attributes_at5
theorem C19_zone_attributes_at4 : type_of% @zone_attributes_at4 := @zone_attributes_at4
theorem C19_zone_attributes_at5 : type_of% @zone_attributes_at5 := @zone_attributes_at5
theorem C19_ac_attributes_equal : type_of% @ac_attributes_equal := @ac_attributes_equal
theorem C19_zone_attributes_equal : type_of% @zone_attributes_equal := @zone_attributes_equal
theorem C19_zone_supported_power_states_iff : type_of% @zone_supported_power_states_iff := @zone_supported_power_states_iff
theorem C19_zone_supported_power_states_needs_turbo : type_of% @zone_supported_power_states_needs_turbo :=
  @zone_supported_power_states_needs_turbo
/-- the projection is faithful: the VIEW text of either model is `render… (projection)` -/
theorem C19_viewZone4_render : type_of% @viewZone4_render := @viewZone4_render
theorem C19_viewZone5_render : type_of% @viewZone5_render := @viewZone5_render
theorem C19_viewAc4_render : type_of% @viewAc4_render := @viewAc4_render
theorem C19_viewAc5_render : type_of% @viewAc5_render := @viewAc5_render
theorem C19_viewAt4_render : type_of% @viewAt4_render := @viewAt4_render
theorem C19_viewAt5_render : type_of% @viewAt5_render := @viewAt5_render

/-! ## 3. lifting to states and runs -/
theorem C19_view_rel : type_of% @view_rel := @view_rel
theorem C19_view_eq_of_allTurbo : type_of% @view_eq_of_allTurbo := @view_eq_of_allTurbo
theorem C19_view_text_of_allTurbo : type_of% @view_text_of_allTurbo := @view_text_of_allTurbo
theorem C19_onMessage_rel : type_of% @onMessage_rel := @onMessage_rel
theorem C19_step_rel : type_of% @step_rel := @step_rel
theorem C19_rel_after_init : type_of% @rel_after_init := @rel_after_init
theorem C19_run_rel : type_of% @run_rel := @run_rel
theorem C19_fresh_run_rel : type_of% @fresh_run_rel := @fresh_run_rel
theorem C19_fresh_run_view : type_of% @fresh_run_view := @fresh_run_view
theorem C19_admissibleRun_of_no_single : type_of% @admissibleRun_of_no_single := @admissibleRun_of_no_single
theorem C19_handshake_admissible : type_of% @handshake_admissible := @handshake_admissible
theorem C19_single_ac_needs_covering_range : type_of% @single_ac_needs_covering_range := @single_ac_needs_covering_range
theorem C19_at4_bitmap_zone_order : type_of% @at4_bitmap_zone_order := @at4_bitmap_zone_order
/-- the per-record lemmas behind `C19_step_rel` -/
theorem C19_acStatusStep_rel : type_of% @acStatusStep_rel := @acStatusStep_rel
theorem C19_acTimerStep_rel : type_of% @acTimerStep_rel := @acTimerStep_rel
theorem C19_errInfoStep_rel : type_of% @errInfoStep_rel := @errInfoStep_rel
theorem C19_zoneStatusStep_rel : type_of% @zoneStatusStep_rel := @zoneStatusStep_rel
theorem C19_names_rel : type_of% @names_rel := @names_rel
theorem C19_abilities_rel : type_of% @abilities_rel := @abilities_rel

/-! ## 4. requests -/
theorem C19_ac_set_power_alike : type_of% @ac_set_power_alike := @ac_set_power_alike
theorem C19_ac_set_mode_alike : type_of% @ac_set_mode_alike := @ac_set_mode_alike
theorem C19_ac_set_fan_speed_alike : type_of% @ac_set_fan_speed_alike := @ac_set_fan_speed_alike
theorem C19_ac_set_target_temperature_alike : type_of% @ac_set_target_temperature_alike :=
  @ac_set_target_temperature_alike
theorem C19_ac_set_target_temperature_accepted_alike : type_of% @ac_set_target_temperature_accepted_alike :=
  @ac_set_target_temperature_accepted_alike
theorem C19_roundsAlike_whole : type_of% @roundsAlike_whole := @roundsAlike_whole
theorem C19_clip_whole : type_of% @clip_whole := @clip_whole
theorem C19_zone_set_power_alike : type_of% @zone_set_power_alike := @zone_set_power_alike
theorem C19_zone_set_power_turbo_needs_support : type_of% @zone_set_power_turbo_needs_support :=
  @zone_set_power_turbo_needs_support
theorem C19_zone_set_damper_alike : type_of% @zone_set_damper_alike := @zone_set_damper_alike
theorem C19_zone_set_target_temperature_alike : type_of% @zone_set_target_temperature_alike :=
  @zone_set_target_temperature_alike
theorem C19_zone_set_target_temperature_accepted_alike : type_of% @zone_set_target_temperature_accepted_alike :=
  @zone_set_target_temperature_accepted_alike

/-! ### the documented differences -/
theorem C19_supported_power_controls_documented_difference : type_of% @supported_power_controls_documented_difference :=
  @supported_power_controls_documented_difference
theorem C19_resolution_documented_difference : type_of% @resolution_documented_difference :=
  @resolution_documented_difference
theorem C19_set_point_resolution_documented_difference : type_of% @set_point_resolution_documented_difference :=
  @set_point_resolution_documented_difference
theorem C19_set_point_resolution_bound : type_of% @set_point_resolution_bound := @set_point_resolution_bound
theorem C19_set_power_away_sleep_documented_difference : type_of% @set_power_away_sleep_documented_difference :=
  @set_power_away_sleep_documented_difference
theorem C19_power_state_documented_difference : type_of% @power_state_documented_difference :=
  @power_state_documented_difference
theorem C19_intelligent_auto_documented_difference : type_of% @intelligent_auto_documented_difference :=
  @intelligent_auto_documented_difference
theorem C19_bypass_documented_difference : type_of% @bypass_documented_difference := @bypass_documented_difference
theorem C19_per_mode_limits_documented_difference : type_of% @per_mode_limits_documented_difference :=
  @per_mode_limits_documented_difference

/-! ### on the wire (with C04) -/
theorem C19_ac_same_meaning_on_the_wire : type_of% @ac_same_meaning_on_the_wire := @ac_same_meaning_on_the_wire
theorem C19_zone_same_meaning_on_the_wire : type_of% @zone_same_meaning_on_the_wire := @zone_same_meaning_on_the_wire
theorem C19_ac_control_wf : type_of% @ac_control_wf := @ac_control_wf
theorem C19_ac_set_point_wf : type_of% @ac_set_point_wf := @ac_set_point_wf
theorem C19_zone_set_point_wire_asymmetry : type_of% @zone_set_point_wire_asymmetry := @zone_set_point_wire_asymmetry

/-! ## Non-vacuity: one installation, described to both generations

Two zones ("L" with a sensor, "B" without), one AC "M" covering both, HEAT / COOL, LOW / HIGH, 16 … 30 °C. -/

def exInfo : AbsAcInfo :=
  { number := 0, name := [77], modes := [.HEAT, .COOL], fans := [.LOW, .HIGH], minSetPoint := 16, maxSetPoint := 30
    firstZone := 0, zoneCount := 2 }

def exAcStatus : AbsAcStatus :=
  { number := 0, powerOn := true, mode := .AUTO_HEAT, fan := .LOW, setPoint := 22, temperature := 215, spill := false
    timerSet := true, errorCode := 5 }

def exTimers : AcTimerStatusData := { ac_number := 0, on_timer := ⟨false, 6, 45⟩, off_timer := ⟨true, 0, 0⟩ }

def exZone0 : AbsZoneStatus :=
  { number := 0, power := .ON, method := .TEMPERATURE, damper := 80, setPoint := some 22, sensor := true
    temperature := some 220, batteryLow := false, spill := false, turbo := true }

def exZone1 : AbsZoneStatus :=
  { number := 1, power := .OFF, method := .DAMPER, damper := 0, setPoint := none, sensor := false, temperature := none
    batteryLow := false, spill := true, turbo := true }

/-- the console's side of the handshake and two later reports -/
def exMsgs : List AbsMsg :=
  [.version false [[49]], .names [(0, [76]), (1, [66])], .abilities [exInfo], .acStatus [exAcStatus],
   .acTimers [exTimers], .zoneStatus [exZone0, exZone1], .errInfo 0 (some [69]),
   .zoneStatus [{ exZone1 with power := .ON, damper := 55 }]]

-- the description is within what both codecs carry
theorem exInfo_wf : exInfo.WF :=
  ⟨by decide, ⟨by decide, by decide, by decide, by intro b hb; simp [exInfo] at hb; subst hb; decide⟩, by decide, by decide⟩
example : exAcStatus.WF := ⟨by decide, by decide, by decide, by decide⟩
example : exZone0.WF ∧ exZone1.WF :=
  ⟨⟨by decide, by decide, fun _ => ⟨22, rfl, by decide, by decide⟩, by decide, by decide⟩,
   ⟨by decide, by decide, by decide, fun _ => ⟨rfl, rfl⟩, by decide⟩⟩
example : At4.FF11.WFRec exInfo.to4 ∧ At5.FF11.WFRec exInfo.to5 :=
  C19_acInfo_expressible exInfo exInfo_wf

-- the side condition of the run theorem holds for this handshake (single AC = exactly the named zones)
theorem exAdmissible : AdmissibleRun (Api4.run Api4.State.initial [.init, .conn true]).1 exMsgs :=
  C19_handshake_admissible false [[49]] [(0, [76]), (1, [66])] [exInfo] _ (by decide)
    (by intro _ i hi; simp only [List.mem_singleton] at hi; subst hi; decide)
    (by intro m hm l hl; subst hl; simp at hm)

/-- the two models, run on the two embeddings of the same console, end in related states … -/
theorem exRel : Rel (Api4.run Api4.State.initial (script4 exMsgs)).1 (Api5.run fresh5 (script5 0xB0 exMsgs)).1 :=
  C19_fresh_run_rel 0xB0 exMsgs exAdmissible

/-- … both CONNECTED and initialised … -/
example : (Api4.run Api4.State.initial (script4 exMsgs)).1.st = .CONNECTED ∧
    (Api5.run fresh5 (script5 0xB0 exMsgs)).1.st = .CONNECTED ∧
    (Api5.run fresh5 (script5 0xB0 exMsgs)).1.initialised = true := by decide

/-- … with the same projected view (every zone reports turbo support), which is this: -/
example : atView4 (Api4.run Api4.State.initial (script4 exMsgs)).1 = atView5 (Api5.run fresh5 (script5 0xB0 exMsgs)).1 :=
  C19_view_eq_of_allTurbo exRel (by unfold AllTurbo; decide)

example : (atView5 (Api5.run fresh5 (script5 0xB0 exMsgs)).1).map
      (fun v => (v.initialised, v.updateAvailable, v.consoleVersions, v.airConditioners)) = some
    (true, false, [[49]], [
        { acId := 0, name := [77], supportedModes := [.HEAT, .COOL], supportedFanSpeeds := [.LOW, .HIGH]
          powerState := .ON, selectedMode := .AUTO, activeMode := .HEAT, selectedFanSpeed := .LOW
          activeFanSpeed := .LOW, currentTemperature := 215, targetTemperature := 220, minTargetTemperature := 160
          maxTargetTemperature := 300, spillState := .NONE, offTimer := none, onTimer := some (6, 45)
          errorInfo := some (5, some [69])
          zones := [
            { zoneId := 0, name := [76], supportedPowerStates := [.OFF, .ON, .TURBO], powerState := .ON
              controlMethod := .TEMPERATURE, hasTempSensor := true, sensorBatteryStatus := .NORMAL
              currentTemperature := some 220, targetTemperature := some 220, currentDamperPercentage := 80
              spillActive := false },
            { zoneId := 1, name := [66], supportedPowerStates := [.OFF, .ON, .TURBO], powerState := .ON
              controlMethod := .DAMPER, hasTempSensor := false, sensorBatteryStatus := .NORMAL
              currentTemperature := none, targetTemperature := none, currentDamperPercentage := 55
              spillActive := true }] }]) := by decide

/-- the stated asymmetry: before the first zone status (zones still at the constructor's "no turbo") AirTouch 4
    offers OFF / ON, AirTouch 5 OFF / ON / TURBO - everything else in the views is equal (`C19_view_rel`) -/
example :
    ((atView4 (Api4.run Api4.State.initial (script4 (exMsgs.take 5))).1).map fun v =>
        v.airConditioners.map fun a => a.zones.map (·.supportedPowerStates)) = some [[[.OFF, .ON], [.OFF, .ON]]] ∧
    ((atView5 (Api5.run fresh5 (script5 0xB0 (exMsgs.take 5))).1).map fun v =>
        v.airConditioners.map fun a => a.zones.map (·.supportedPowerStates)) =
      some [[[.OFF, .ON, .TURBO], [.OFF, .ON, .TURBO]]] := by decide

/-! ### requests on these states -/

abbrev exS4 : Api4.State := (Api4.run Api4.State.initial (script4 exMsgs)).1
abbrev exS5 : Api5.State := (Api5.run fresh5 (script5 0xB0 exMsgs)).1

example : SameOutcome (Api4.apiStep exS4 (.call (.acSetMode 0 .HEAT true))).2
    (Api5.apiStep exS5 (.callAc 0 (.setMode .HEAT true))).2 :=
  C19_ac_set_mode_alike exRel.heap (by decide) 0 .HEAT true

/-- … concretely: accepted, one message each, "mode heat, power on" -/
example :
    (Api4.apiStep exS4 (.call (.acSetMode 0 .HEAT true))).2 =
      [.send .idempotent (.reg (.acCtrl ⟨0, .TURN_ON, .HEAT, .UNCHANGED, .none⟩)), .result "OK"] ∧
    (Api5.apiStep exS5 (.callAc 0 (.setMode .HEAT true))).2 =
      [.send .idempotent (Api5.msgAcControl ⟨0, .TURN_ON, .HEAT, .UNCHANGED, none⟩) false, .result "OK"] ∧
    (meaning2C ⟨0, .TURN_ON, .HEAT, .UNCHANGED, .none⟩).mode = .set .heat ∧
    (meaningAcRec ⟨0, .TURN_ON, .HEAT, .UNCHANGED, none⟩).mode = .heat := by decide

/-- DRY is not supported: refused by both -/
example : (Api4.apiStep exS4 (.call (.acSetMode 0 .DRY false))).2 = [.result "ValueError"] ∧
    (Api5.apiStep exS5 (.callAc 0 (.setMode .DRY false))).2 = [.result "ValueError"] := by decide

/-- 31 °C: both clip to the limit 30 °C and say "set-point := set(300)" -/
example :
    (Api4.apiStep exS4 (.call (.acSetTemp 0 3100))).2 =
      [.send .idempotent (.reg (.acCtrl ⟨0, .UNCHANGED, .UNCHANGED, .UNCHANGED, .value 30⟩)), .result "OK"] ∧
    (Api5.apiStep exS5 (.callAc 0 (.setTargetTemperature 3100))).2 =
      [.send .idempotent (Api5.msgAcControl ⟨0, .UNCHANGED, .UNCHANGED, .UNCHANGED, some 300⟩) true, .result "OK"] ∧
    (meaning2C ⟨0, .UNCHANGED, .UNCHANGED, .UNCHANGED, .value 30⟩).setpoint = .set 300 ∧
    (meaningAcRec ⟨0, .UNCHANGED, .UNCHANGED, .UNCHANGED, some 300⟩).setpoint = .set 300 := by decide

example : SameOutcome (Api4.apiStep exS4 (.call (.acSetTemp 0 3100))).2
    (Api5.apiStep exS5 (.callAc 0 (.setTargetTemperature 3100))).2 :=
  C19_ac_set_target_temperature_alike exRel.heap (by decide) 0 3100 (C19_roundsAlike_whole 31)

/-- the documented difference on the same state: 21.5 °C goes out as 22 °C and as 21.5 °C -/
example :
    (Api4.apiStep exS4 (.call (.acSetTemp 0 2150))).2 =
      [.send .idempotent (.reg (.acCtrl ⟨0, .UNCHANGED, .UNCHANGED, .UNCHANGED, .value 22⟩)), .result "OK"] ∧
    (Api5.apiStep exS5 (.callAc 0 (.setTargetTemperature 2150))).2 =
      [.send .idempotent (Api5.msgAcControl ⟨0, .UNCHANGED, .UNCHANGED, .UNCHANGED, some 215⟩) false, .result "OK"] := by
  decide

/-- zone 1, 40 %: the noted asymmetry - AirTouch 4 also switches the group to percentage control -/
example :
    (Api4.apiStep exS4 (.call (.zoneSetDamper 1 40))).2 =
      [.send .idempotent (.reg (.groupCtrl ⟨1, .UNCHANGED, .DAMPER, .damper 40⟩)), .result "OK"] ∧
    (Api5.apiStep exS5 (.callZone 1 (.setDamperPercentage 40))).2 =
      [.send .idempotent (Api5.msgZoneControl ⟨1, .UNCHANGED, some (.damper 40)⟩) false, .result "OK"] ∧
    (meaning2A ⟨1, .UNCHANGED, .DAMPER, .damper 40⟩).controlMethod = .percentage ∧
    (meaningZoneRec ⟨1, .UNCHANGED, some (.damper 40)⟩).controlType = .keep := by decide

example : SameOutcome (Api4.apiStep exS4 (.call (.zoneSetDamper 1 40))).2
    (Api5.apiStep exS5 (.callZone 1 (.setDamperPercentage 40))).2 :=
  C19_zone_set_damper_alike exRel.heap (by decide) 1 40

/-- zone 1 has no sensor: a set-point is refused by both; zone 0 accepts 23 °C -/
example : (Api4.apiStep exS4 (.call (.zoneSetTemp 1 2300))).2 = [.result "ValueError"] ∧
    (Api5.apiStep exS5 (.callZone 1 (.setTargetTemperature 2300))).2 = [.result "ValueError"] ∧
    (Api4.apiStep exS4 (.call (.zoneSetTemp 0 2300))).2 =
      [.send .idempotent (.reg (.groupCtrl ⟨0, .UNCHANGED, .TEMPERATURE, .setPoint 23⟩)), .result "OK"] ∧
    (Api5.apiStep exS5 (.callZone 0 (.setTargetTemperature 2300))).2 =
      [.send .idempotent (Api5.msgZoneControl ⟨0, .UNCHANGED, some (.setPoint 230)⟩) false, .result "OK"] := by decide

/-- away: refused by AirTouch 4, sent by AirTouch 5 -/
example : (Api4.apiStep exS4 (.call (.acSetPower 0 .SET_TO_AWAY))).2 = [.result "ValueError"] ∧
    (Api5.apiStep exS5 (.callAc 0 (.setPower .SET_TO_AWAY))).2 =
      [.send .idempotent (Api5.msgAcControl ⟨0, .SET_TO_AWAY, .UNCHANGED, .UNCHANGED, none⟩) false, .result "OK"] := by
  decide

/-- on the wire: the frames of the 31 °C request, read by each vendor's reader, carry corresponding commands -/
example : ∃ fr4 fr5 f c5,
    At4.Registry.frameOf 1 (.acCtrl ⟨0, .UNCHANGED, .UNCHANGED, .UNCHANGED, .value 30⟩) = .ok fr4 ∧
    Spec.At4.readWire fr4 = some (.acControl (meaning2C ⟨0, .UNCHANGED, .UNCHANGED, .UNCHANGED, .value 30⟩)) ∧
    At5.Registry.frameOf 1 (.controlStatus (.acCtrl ⟨[⟨0, .UNCHANGED, .UNCHANGED, .UNCHANGED, some 300⟩]⟩)) = .ok fr5 ∧
    Spec.At5.readFrame (fr5.drop 10) = some f ∧ Spec.At5.frameOk (fr5.drop 10) = true ∧
    Spec.At5.readControlStatus f.data = some (.acControl [c5]) ∧
    AcCmdCorr (meaning2C ⟨0, .UNCHANGED, .UNCHANGED, .UNCHANGED, .value 30⟩) c5 :=
  C19_ac_same_meaning_on_the_wire 1 1 (by decide) (by decide) _ _ (by decide) (by decide)
    ⟨_, rfl, ⟨rfl, rfl, rfl, rfl, rfl⟩⟩

end PyAirtouch.Props.C19
