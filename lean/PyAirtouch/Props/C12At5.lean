import PyAirtouch.Lemmas.Api5Out
import PyAirtouch.Lemmas.Api5Subs
/-!
# C12 (AirTouch 5) — subscriber notifications

A subscriber is identified by its `sid` within one subscriber set (the AirTouch object's, an AC's general or
AC-state set, a zone's).  All statements hold for every state of the model; "object `r`" is the AC / zone object a
dict entry or the public look-up resolves to.

* a report that changes nothing notifies nobody, a report that changes an entity notifies exactly that entity's
  subscribers (once each), with that entity's id;
* a zone change is forwarded to the *general* subscribers of the AC objects the zone is attached to, with the AC's id,
  never to AC-state subscribers;
* subscribing twice is subscribing once; after unsubscribing the subscriber is in the set no more, so it is not
  notified again;
* whether a subscriber raises is not part of the model's state: `apiStep` ignores the flag (the differential run
  checks that the real object behaves like that).
-/
namespace PyAirtouch.Props.C12
open PyAirtouch.Model PyAirtouch.Model.Api5 PyAirtouch.Model.At5 PyAirtouch.Model.At5.Registry
open PyAirtouch.Model.TimerCommon (AcTimerState AcTimerStatusData)
open PyAirtouch.Gen PyAirtouch.Gen.Api5 PyAirtouch.Lemmas.Api5

/-! ## 1. notified iff changed, with the right id -/

/-- one zone record while CONNECTED: silent when nothing changed; otherwise the zone's subscribers with the zone id and
the general subscribers of the attached AC objects -/
theorem C12_zone_notified_iff_changed_at5 (s : State) (toAddr : Nat) (d : C021.ZoneStatusData) (r : Nat) (z : ZoneObj)
    (hsub : s.sockSubscribed = true) (hst : s.st = .CONNECTED)
    (hr : s.zones.lookup d.zone_number = some r) (hz : s.zobjs[r]? = some z) :
    (apiStep s (.msg toAddr (.controlStatus (.zoneStatus (.status [d]))))).2 =
      if z.status = d then []
      else z.subs.map (fun sid => Out.notifyZone d.zone_number sid) ++ fwdNotify s.aobjs z.fwd := by
  rw [apiStep_zoneStatus_connected s toAddr [d] hsub hst]
  simp [runSteps, zoneStatusStep, hr, hz, zoneStatusOut, zoneNotify, zoneAfterStatus, ZoneObj.id]

/-- forwarding reaches general subscribers only, and carries the AC's id -/
theorem C12_zone_forwarding_general_only_at5 (aobjs : List AcObj) (fwd : List Nat) (o : Out) :
    o ∈ fwdNotify aobjs fwd ↔
      ∃ r ∈ fwd, ∃ a, aobjs[r]? = some a ∧ ∃ sid ∈ a.subs, o = .notifyAc a.id false sid :=
  mem_fwdNotify aobjs fwd o

def exAbility : FF11.AcAbility :=
  { ac_number := 1, ac_name := [], start_zone := 0, zone_count := 1, ac_mode_support := [], fan_speed_support := [],
    min_cool_set_point := 17, max_cool_set_point := 30, min_heat_set_point := 16, max_heat_set_point := 28 }

def exAc : AcObj := { newAc exAbility [0] [.HEAT] [.LOW] with subs := ["g"], subsState := ["t"] }

/-- AC 1 (general subscriber "g", state subscriber "t") with zone 3 (subscriber "z"); AirTouch subscriber "a" -/
def exState : State :=
  { State.new [97] [] [] [] with
    st := .CONNECTED, sockOpen := true, sockSubscribed := true, subs := ["a"],
    aobjs := [exAc], acs := [(1, 0)],
    zobjs := [{ newZone 3 [] with fwd := [0], subs := ["z"] }], zones := [(3, 0)] }

def exZoneRec (damper : Nat) : C021.ZoneStatusData := { (newZone 3 []).status with damper_percentage := damper }

/-- a changed zone record notifies "z" with zone id 3 and "g" (not "t") with AC id 1; the same record again is silent -/
example :
    (apiStep exState (.msg 176 (.controlStatus (.zoneStatus (.status [exZoneRec 40]))))).2 =
      [.notifyZone 3 "z", .notifyAc 1 false "g"] ∧
    (apiStep (apiStep exState (.msg 176 (.controlStatus (.zoneStatus (.status [exZoneRec 40]))))).1
      (.msg 176 (.controlStatus (.zoneStatus (.status [exZoneRec 40]))))).2 = [] := by decide

/-- one AC status record while CONNECTED: silent when nothing changed; otherwise (after the error-information request,
if the record has an error code) the AC's general and AC-state subscribers, with the AC id -/
theorem C12_ac_notified_iff_changed_at5 (s : State) (toAddr : Nat) (d : C023.AcStatusData) (r : Nat) (a : AcObj)
    (hsub : s.sockSubscribed = true) (hst : s.st = .CONNECTED) (hopen : s.sockOpen = true)
    (hr : s.acRef d.ac_number = some r) (ha : s.aobjs[r]? = some a) :
    (apiStep s (.msg toAddr (.controlStatus (.acStatus (.status [d]))))).2 =
      if a.status = d then []
      else (if d.error_code ≠ 0 then [.send .connected (msgErrInfoRequest d.ac_number) false] else []) ++
        (a.subs.map (fun sid => Out.notifyAc d.ac_number false sid) ++
         a.subsState.map (fun sid => Out.notifyAc d.ac_number true sid)) := by
  rw [apiStep_acStatus_connected s toAddr [d] hsub hst hopen]
  simp only [runSteps, acStatusStep, hr, ha, acStatusOut, List.append_nil]
  by_cases h1 : a.status = d
  · simp [h1]
  · by_cases h2 : d.error_code ≠ 0 <;>
      simp [h1, h2, acNotifyAll, acNotifyGeneral, acAfterStatus, AcObj.id]

example :
    (apiStep exState (.msg 176 (.controlStatus (.acStatus (.status [{ exAc.status with set_point := 215 }]))))).2 =
      [.notifyAc 1 false "g", .notifyAc 1 true "t"] ∧
    (apiStep exState (.msg 176 (.controlStatus (.acStatus (.status [exAc.status]))))).2 = [] := by decide

/-- one AC timer record while CONNECTED -/
theorem C12_ac_timer_notified_iff_changed_at5 (s : State) (toAddr : Nat) (d : AcTimerStatusData) (r : Nat) (a : AcObj)
    (hsub : s.sockSubscribed = true) (hst : s.st = .CONNECTED)
    (hr : s.acRef d.ac_number = some r) (ha : s.aobjs[r]? = some a) :
    (apiStep s (.msg toAddr (.controlStatus (.acTimerStatus (.status [d]))))).2 =
      if a.timer = d then []
      else a.subs.map (fun sid => Out.notifyAc a.id false sid) ++ a.subsState.map (fun sid => Out.notifyAc a.id true sid) := by
  rw [apiStep_acTimer_connected s toAddr [d] hsub hst]
  simp only [runSteps, acTimerStep, hr, ha, acTimerOut, List.append_nil]
  by_cases h1 : a.timer = d <;> simp [h1, acNotifyAll, acNotifyGeneral, acAfterTimer, AcObj.id]

example : (apiStep exState (.msg 176 (.controlStatus (.acTimerStatus (.status [⟨1, ⟨false, 7, 0⟩, ⟨true, 0, 0⟩⟩]))))).2 =
    [.notifyAc 1 false "g", .notifyAc 1 true "t"] := by decide

/-- error information (any state) -/
theorem C12_error_info_notified_iff_changed_at5 (s : State) (toAddr : Nat) (e : FF10.AcErrorInformationMessage)
    (r : Nat) (a : AcObj) (hsub : s.sockSubscribed = true)
    (hr : s.acRef e.ac_number = some r) (ha : s.aobjs[r]? = some a) :
    (apiStep s (.msg toAddr (.extended (.errInfo (.message e))))).2 =
      if a.errInfo = e.error_info then []
      else a.subs.map (fun sid => Out.notifyAc a.id false sid) ++ a.subsState.map (fun sid => Out.notifyAc a.id true sid) := by
  simp only [apiStep, doMsg, hsub, handleMessage, isHeartbeatResponse, ExtSub.messageId, processErrInfo, hr,
    updateAcErrInfo_spec _ ha, if_true]
  by_cases h1 : a.errInfo = e.error_info <;>
    simp [h1, excOut, acErrInfoOut, acNotifyAll, acNotifyGeneral, acAfterErrInfo, AcObj.id,
      Gen.At5.X1FFF10ErrInfo.MESSAGE_ID, Gen.At5.X1FFF30ConsoleVer.MESSAGE_ID]

example : (apiStep exState (.msg 176 (.extended (.errInfo (.message ⟨1, some [69]⟩))))).2 =
    [.notifyAc 1 false "g", .notifyAc 1 true "t"] := by decide

/-- console version while CONNECTED: the AirTouch object's subscribers are notified iff it changed -/
theorem C12_console_version_notified_iff_changed_at5 (s : State) (toAddr : Nat) (v : FF30.ConsoleVersionMessage)
    (hsub : s.sockSubscribed = true) (hst : s.st = .CONNECTED) (o : Out) (ho : o.isNotify = true) :
    o ∈ (apiStep s (.msg toAddr (.extended (.consoleVer (.message v))))).2 ↔
      (s.consoleVersion ≠ v ∧ ∃ sid ∈ s.subs, o = .notifyAt sid) := by
  simp only [apiStep]
  rw [doMsg_notify_mem s toAddr _ o ho]
  simp only [hsub, true_and, handleMessage, hst, reduceCtorEq, if_false, if_true, processConsoleVersionUpdate]
  by_cases hv : s.consoleVersion = v
  · simp [hv]
  · simp only [hv, if_false, List.mem_map, ne_eq, not_false_eq_true, true_and]
    constructor
    · rintro ⟨x, hx, rfl⟩; exact ⟨x, hx, rfl⟩
    · rintro ⟨x, hx, rfl⟩; exact ⟨x, hx, rfl⟩

example : (apiStep exState (.msg 176 (.extended (.consoleVer (.message ⟨true, [[49]]⟩))))).2 = [.notifyAt "a"] := by decide

/-! ## 2. subscribe is idempotent -/

theorem C12_subscribe_idempotent_at5 (s : State) (t : Target) (sid : String) (r r' : Bool) :
    (apiStep (apiStep s (.sub t sid r)).1 (.sub t sid r')).1 = (apiStep s (.sub t sid r)).1 ∧
    (apiStep (apiStep s (.sub t sid r)).1 (.sub t sid r')).2 = (apiStep s (.sub t sid r)).2 := by
  simp only [apiStep, subTarget]
  cases t with
  | «at» => simp [subAdd_idem]
  | ac id st =>
    cases h : s.ac? id with
    | none => simp [h]
    | some ra =>
      obtain ⟨ref, a⟩ := ra
      cases st
      · simp only [h, Bool.false_eq_true, if_false]
        have h2 := ac?_setAc (a' := { a with subs := subAdd a.subs sid }) h
        simp only [h2, setAc_setAc, subAdd_idem, and_self]
      · simp only [h, if_true]
        have h2 := ac?_setAc (a' := { a with subsState := subAdd a.subsState sid }) h
        simp only [h2, setAc_setAc, subAdd_idem, and_self]
  | zone id =>
    cases h : s.zone? id with
    | none => simp [h]
    | some rz =>
      obtain ⟨ref, z⟩ := rz
      simp only [h]
      have h2 := zone?_setZone (z' := { z with subs := subAdd z.subs sid }) h rfl
      simp only [h2, setZone_setZone, subAdd_idem, and_self]

/-- the set after subscribing contains the subscriber exactly once when it was duplicate-free -/
theorem C12_subscribe_set_at5 (l : List Sub) (sid : Sub) (h : l.Nodup) :
    (subAdd l sid).Nodup ∧ (∀ y, y ∈ subAdd l sid ↔ y ∈ l ∨ y = sid) :=
  ⟨subAdd_nodup l sid h, mem_subAdd l sid⟩

example : (apiStep (apiStep exState (.sub (.zone 3) "y" false)).1 (.sub (.zone 3) "y" true)).1.zobjs[0]?.map (·.subs) =
    some ["z", "y"] := by decide

/-! ## 3. unsubscribe stops notifications -/

/-- after `unsub` the subscriber is not in the target's set (and nothing else about the target changes) -/
theorem C12_unsubscribe_removes_at5 (s : State) (sid : String) :
    (sid ∉ (apiStep s (.unsub .at sid)).1.subs) ∧
    (∀ id st ref a, s.ac? id = some (ref, a) →
      (apiStep s (.unsub (.ac id st) sid)).1.ac? id =
        some (ref, if st then { a with subsState := subDel a.subsState sid } else { a with subs := subDel a.subs sid })) ∧
    (∀ id ref z, s.zone? id = some (ref, z) →
      (apiStep s (.unsub (.zone id) sid)).1.zone? id = some (ref, { z with subs := subDel z.subs sid })) := by
  refine ⟨?_, ?_, ?_⟩
  · simp [apiStep, subTarget, not_mem_subDel]
  · intro id st ref a h
    simp only [apiStep, subTarget, h]
    exact ac?_setAc h
  · intro id ref z h
    simp only [apiStep, subTarget, h]
    exact zone?_setZone h rfl

/-- … hence a later change of that zone does not notify it: no `NOTIFY zone … sid` for that object -/
theorem C12_unsubscribed_zone_silent_at5 (s : State) (toAddr : Nat) (sid : String) (id ref : Nat) (z : ZoneObj)
    (d : C021.ZoneStatusData) (hsub : s.sockSubscribed = true) (hst : s.st = .CONNECTED)
    (hz : s.zone? id = some (ref, z)) (hr : s.zones.lookup d.zone_number = some ref) :
    Out.notifyZone d.zone_number sid ∉
      (apiStep (apiStep s (.unsub (.zone id) sid)).1 (.msg toAddr (.controlStatus (.zoneStatus (.status [d]))))).2 := by
  have h1 : (apiStep s (.unsub (.zone id) sid)).1 = s.setZone ref { z with subs := subDel z.subs sid } := by
    simp [apiStep, subTarget, hz]
  rw [h1]
  have hz' := (zone?_eq.1 (zone?_setZone (z' := { z with subs := subDel z.subs sid }) hz rfl)).2
  rw [C12_zone_notified_iff_changed_at5 (s.setZone ref { z with subs := subDel z.subs sid }) toAddr d ref _ hsub hst hr hz']
  split
  · simp
  · simp only [List.mem_append, List.mem_map, not_or]
    refine ⟨?_, ?_⟩
    · rintro ⟨x, hx, hxe⟩
      cases hxe
      exact not_mem_subDel _ _ hx
    · intro h
      obtain ⟨_, _, _, _, _, _, he⟩ := (mem_fwdNotify _ _ _).1 h
      cases he

example : (apiStep (apiStep exState (.unsub (.zone 3) "z")).1
    (.msg 176 (.controlStatus (.zoneStatus (.status [exZoneRec 40]))))).2 = [.notifyAc 1 false "g"] := by decide

/-! ## 4. a raising subscriber is isolated -/

/-- the model's state has no record of whether a subscriber raises, and `sub` ignores the flag: nothing the model does
afterwards can depend on it -/
theorem C12_raising_subscriber_isolated_at5 (s : State) (t : Target) (sid : String) :
    apiStep s (.sub t sid true) = apiStep s (.sub t sid false) := rfl

example : (apiStep (apiStep exState (.sub (.zone 3) "y" true)).1
    (.msg 176 (.controlStatus (.zoneStatus (.status [exZoneRec 40]))))).2 =
    [.notifyZone 3 "z", .notifyZone 3 "y", .notifyAc 1 false "g"] := by decide

end PyAirtouch.Props.C12
