import PyAirtouch.Lemmas.Api4Shutdown
/-!
# C15 (AirTouch 4 API object): shutdown is final, leak-free and reversible

Vocabulary (`PyAirtouch.Lemmas.Api4Shutdown`):

* `Closed s` - state `CLOSED`, initialised event clear, both dictionaries and the object heap empty, no current poll task,
  heartbeat manager stopped (`hbIdle`: no pending beat, no pending deadline), socket not open;
* `quietClosed e` - `e` is not a `SEND`, not a `NOTIFY`, not `HBSTART`, not `RESET`, not `OPEN`, not `RESULT init True`;
  `op.afterShutdown` - every op except `init`; `isInitResult e` - `RESULT init True` / `RESULT init False`;
* `FreshSim a b` - the simulation relation between a re-initialised object and a fresh one (everything equal, heartbeat
  managers `HbEquiv`, the console version may differ while the state is `CLOSED` / `CONNECTING` / `INIT_VERSION`);
* `HbWf0 s` - the embedded heartbeat manager has the API object's clock, the default configuration and the socket's
  connection flag (an invariant of every run from `State.initial`);
* `freshAt c` - a fresh object with `c`'s constructor arguments, clock, AirTouch-level subscribers and socket
  connection flag;
* `NoOrphan s` - no orphaned poll task and a current poll task only in state `CONNECTED`; `disciplined true ops` -
  `init` occurs only first or after a `shutdown` with no `init` in between.

**Findings** (proved below as `…_refuted_at4`): `shutdown()` cancels only the *current* poll task and does not touch
`init()` callers blocked in `wait_for`:
(a) orphaned poll tasks (they arise when `init()` is called on a connected object without `shutdown()`) survive
    `shutdown()`, stay scheduled while the object is closed and send group-status requests after the next `init()`;
(b) a pending `init()` waiter survives `shutdown()`: it returns `False` when its 5 s are over - after `shutdown()`
    returned - or `True` if a later `init()` completes the handshake in time.
-/
set_option linter.unusedVariables false
set_option linter.unusedSimpArgs false
namespace PyAirtouch.Props.C15
open PyAirtouch.Model PyAirtouch.Model.Api4 PyAirtouch.Model.At4 PyAirtouch.Lemmas.Api4 PyAirtouch.Gen
open PyAirtouch.Lemmas.Heartbeat (HbEquiv)

/-! ## 1. the state after `shutdown()` -/

/-- `shutdown()` from EVERY state: the object is `Closed`, the socket neither open nor connected (the heartbeat manager
    knows), the outputs are exactly `HBSTOP`, `CLOSE`, `RESULT shutdown OK` - the connection is closed, nothing is
    sent - and exactly this persists: the AirTouch-level subscribers, the stored console version, the socket
    subscription, the clock, the constructor arguments - and the pending `init()` waiters and the orphaned poll
    tasks (the two findings). -/
theorem shutdown_state_at4 : type_of% @shutdown_state := @shutdown_state

example : ¬ Closed demo := fun h => by have := h.st; rw [demo_connected] at this; cases this
example : (apiStep demo .shutdown).2 = [Ev.hbStop, Ev.closed, Ev.result "shutdown OK"] := (shutdown_state_at4 demo).2.2.2.1
example : hbIdle demo.hb = false ∧ demo.pollCur = some 2400 ∧ demo.acDict ≠ [] ∧ demo.sockOpen = true := by decide

/-- positive part of the findings: `shutdown()` creates neither an orphan nor a waiter -/
theorem shutdown_keeps_clean_at4 (s : State) :
    (s.pollOrphans = [] → (apiStep s .shutdown).1.pollOrphans = []) ∧
    (s.initWaits = [] → (apiStep s .shutdown).1.initWaits = []) :=
  ⟨fun h => h, fun h => h⟩

/-! ### finding (a): orphaned poll tasks -/

/-- a poll task at its timeout: socket not connected - silently re-armed 300 s ahead (open or not); connected but not
    open - the task dies silently; connected and open - it sends a group-status request and re-arms -/
theorem orphan_poll_cases_at4 : type_of% @firePoll_cases := @firePoll_cases

/-- one tick of a `Closed` object treats every orphan by `firePoll` with `sockOpen = false`: none sends; while
    the socket is not connected they stay scheduled for ever -/
theorem orphans_while_closed_at4 : type_of% @tick_closed_orphans := @tick_closed_orphans

/-- the only place where a poll task is orphaned is the transition to `CONNECTED`, and only if a poll task is alive -/
theorem orphans_only_from_enterConnected_at4 : type_of% @enterConnected_orphans := @enterConnected_orphans

/-- every op preserves "no orphan, poll task only while `CONNECTED`" - except `init()` while a poll task is alive -/
theorem no_orphan_step_at4 : type_of% @NoOrphan_apiStep := @NoOrphan_apiStep

/-- when `init()` is only called on a fresh object or after `shutdown()`, no poll task is ever orphaned -/
theorem no_orphans_disciplined_at4 : type_of% @noOrphans_disciplined := @noOrphans_disciplined

example : disciplined true (demoOps ++ [.shutdown, .init, .adv 3, .shutdown, .adv 5, .init]) = true := by decide
example : disciplined true orphanOps = false := by decide

/-- **REFUTED: "no timer or task of the client remains scheduled"** - a complete handshake, `init()` again without
    `shutdown()`, the handshake again, `shutdown()`: the object is `Closed` but the first poll task (deadline tick
    2400 = 300 s) is still there.  Consequence: after a later `init()` and connection, at 300 s the orphan sends a
    group-status request that the fresh object does not send. -/
theorem shutdown_orphans_refuted_at4 :
    Closed orphanState ∧ HbWf0 orphanState ∧ orphanState.initWaits = [] ∧
    orphanState.pollOrphans = [2400] ∧ orphanState.pollOrphans ≠ [] ∧
    (run orphanState [.init, .conn true, .adv 2400]).2 =
      [Ev.opened, Ev.send .connected versionRequest, initFalse, pollEv] ∧
    (run (freshAt orphanState) [.init, .conn true, .adv 2400]).2 =
      [Ev.opened, Ev.send .connected versionRequest, initFalse] := by
  have h := shutdown_reachable_wf (demoOps ++ [.init, .conn true] ++ demoAnswers.map Op.recv)
  refine ⟨h.1, h.2, by decide, by decide, by decide, by decide +kernel, by decide +kernel⟩

/-- while closed and not connected the orphan is re-armed, silently, every 300 s -/
example : (apiStep orphanState (.adv 2400)).2 = [] ∧ (apiStep orphanState (.adv 2400)).1.pollOrphans = [4800] := by
  decide +kernel

/-! ### finding (b): pending `init()` waiters -/

/-- **REFUTED: "no timer … remains scheduled" / "shutdown is final"** - `init()`, `shutdown()` before the 5 s are
    over: the object is `Closed` but the waiter (deadline tick 40) is still pending; it answers `RESULT init False`
    at tick 40, after `shutdown()` returned; and if instead a new `init()` completes the handshake in time, the
    *first* call returns `True` as well (two `RESULT init True` where a fresh object gives one). -/
theorem shutdown_initWaits_refuted_at4 :
    Closed waiterState ∧ HbWf0 waiterState ∧ waiterState.pollOrphans = [] ∧ waiterState.initWaits = [40] ∧
    (run State.initial [.init, .shutdown, .adv 40]).2 =
      [Ev.opened, Ev.hbStop, Ev.closed, Ev.result "shutdown OK", initFalse] ∧
    (apiStep waiterState (.adv 39)).2 = [] ∧ (apiStep waiterState (.adv 40)).2 = [initFalse] ∧
    (run waiterState ([.init, .conn true] ++ demoAnswers.map Op.recv)).2.count (Ev.result "init True") = 2 ∧
    (run (freshAt waiterState) ([.init, .conn true] ++ demoAnswers.map Op.recv)).2.count (Ev.result "init True") = 1 := by
  have h := shutdown_reachable_wf [.init]
  exact ⟨h.1, h.2, by decide, by decide, by decide, by decide, by decide, by decide, by decide⟩

/-! ## 2. quiet after shutdown -/

/-- a message arrives: no output, nothing changes but the stopped heartbeat manager's clock field -/
theorem closed_recv_at4 {s : State} (hc : Closed s) (m : RMsg) :
    (apiStep s (.recv m)).2 = [] ∧ Closed (apiStep s (.recv m)).1 ∧
    ((apiStep s (.recv m)).1 = s ∨ (apiStep s (.recv m)).1 = { s with hb := { s.hb with now := s.now } }) :=
  ⟨(recv_closed hc m).1, recv_closed_state hc m, (recv_closed hc m).2⟩

/-- a frame arrives: nothing, or `UNDECODABLE` -/
theorem closed_msg_at4 {s : State} (hc : Closed s) (mid : Nat) (payload : Bytes) :
    ((apiStep s (.msg mid payload)).2 = [] ∨ ∃ cls, (apiStep s (.msg mid payload)).2 = [Ev.undecodable cls]) ∧
    Closed (apiStep s (.msg mid payload)).1 := by
  refine ⟨?_, (closed_step hc _ rfl).1⟩
  simp only [apiStep]
  split
  · exact Or.inl (recv_closed hc _).1
  · next cls _ => exact Or.inr ⟨cls, rfl⟩

/-- the socket reports a connection change: only the two flags change; if the connection came up the connection
    handler's `send` raises `NotOpenError` (when the object ever subscribed to the socket), nothing is sent -/
theorem closed_conn_at4 {s : State} (hc : Closed s) (up : Bool) :
    (apiStep s (.conn up)).2 = (if up && s.subscribed then [Ev.subscriberExc "NotOpenError"] else []) ∧
    (apiStep s (.conn up)).1 =
      { s with sockConnected := up, hb := hbApply { s.hb with now := s.now } (.conn up) } ∧
    Closed (apiStep s (.conn up)).1 :=
  ⟨(conn_closed hc up).1, (conn_closed hc up).2, conn_closed_state hc up⟩

/-- the socket subscription made by the first `init()` is never undone: a connection event delivered to a shut-down
    object reaches the connection handler, whose `send` raises `NotOpenError` (logged by the socket); an object that was
    never initialised has no handler.  (Only while closed; `init()` subscribes anyway.) -/
theorem closed_conn_subscription_persists_at4 :
    (apiStep (apiStep demo .shutdown).1 (.conn true)).2 = [Ev.subscriberExc "NotOpenError"] ∧
    (apiStep State.initial (.conn true)).2 = [] := by decide

/-- one tick: the only possible outputs are `RESULT init False` of pending `init()` calls falling due -/
theorem closed_tick_at4 : type_of% @tick_closed := @tick_closed

/-- time passes: exactly one `RESULT init False` for every pending `init()` call that falls due - nothing when none is
    pending; in particular no orphaned poll task sends -/
theorem closed_adv_at4 {s : State} (hc : Closed s) (n : Nat) :
    Closed (apiStep s (.adv n)).1 ∧
    (0 < n → (apiStep s (.adv n)).2 =
        List.replicate (s.initWaits.filter (fun d => decide (d ≤ s.now + n))).length initFalse ∧
      (apiStep s (.adv n)).1.initWaits = s.initWaits.filter (fun d => !decide (d ≤ s.now + n))) ∧
    (s.initWaits = [] → (apiStep s (.adv n)).2 = [] ∧ (apiStep s (.adv n)).1.initWaits = []) :=
  ⟨(advance_closed n hc).1, (advance_closed n hc).2.2, advance_closed_noWaits n hc⟩

/-- **sending raises the not-open error**; the entity calls find no entity (the model is empty) -/
theorem closed_call_at4 {s : State} (hc : Closed s) (c : Call) :
    apiStep s (.call c) = (s, [Ev.result (if c = .atCheckForUpdates then "NotOpenError" else "KeyError")]) := by
  simp only [apiStep, call_closed hc]

/-- subscriptions: the AirTouch-level set is still there, no air-conditioner / zone exists -/
theorem closed_sub_at4 {s : State} (hc : Closed s) (t : Target) (sid : String) (raises : Bool) :
    apiStep s (.sub t sid raises) =
      (match t with
       | .airtouch => ({ s with subs := subAdd s.subs { sid := sid, raises := raises } }, [])
       | _ => (s, [Ev.result "KeyError"])) ∧
    apiStep s (.unsub t sid) =
      (match t with
       | .airtouch => ({ s with subs := subRemove s.subs sid }, [])
       | _ => (s, [Ev.result "KeyError"])) :=
  ⟨subUnsub_closed hc t (subAdd · { sid := sid, raises := raises }), subUnsub_closed hc t (subRemove · sid)⟩

/-- the view: not initialised, no air-conditioners, the stored console version -/
theorem closed_view_at4 {s : State} (hc : Closed s) : apiStep s .view = (s, [Ev.view (closedViewText s)]) := by
  simp only [apiStep, viewAt_closed hc]

/-- one op other than `init` -/
theorem closed_step_at4 : type_of% @closed_step := @closed_step

/-- **quiet after shutdown**: from a `Closed` state, under EVERY sequence of ops other than `init` - messages, frames,
    connection changes, time, calls, subscriptions, views, further shutdowns - the object stays `Closed` and every
    output is quiet: no `SEND`, no `NOTIFY`, no `HBSTART`, no `RESET`, no `OPEN`, no `RESULT init True` (the only
    exception is the harness echoing `callBad "init True"`).  Holds also with orphaned poll tasks and pending
    waiters present. -/
theorem quiet_after_shutdown_at4 {s : State} (hc : Closed s) (ops : List Op)
    (hops : ∀ op ∈ ops, op.afterShutdown = true) :
    Closed (run s ops).1 ∧
    ∀ e ∈ (run s ops).2, quietClosed e = true ∨ (e = Ev.result "init True" ∧ Op.callBad "init True" ∈ ops) :=
  ⟨(closed_run hc ops hops).1, (closed_run hc ops hops).2.1⟩

/-- without pending waiters: none appears, and no result of an `init()` call is ever output (except by the harness
    echoing a `callBad`) -/
theorem quiet_after_shutdown_noWaits_at4 {s : State} (hc : Closed s) (hw : s.initWaits = []) (ops : List Op)
    (hops : ∀ op ∈ ops, op.afterShutdown = true) :
    (run s ops).1.initWaits = [] ∧
    ∀ e ∈ (run s ops).2, isInitResult e = true → ∃ cls, Op.callBad cls ∈ ops ∧ e = Ev.result cls :=
  (closed_run hc ops hops).2.2 hw

/-- after `shutdown()` from any state whatsoever -/
theorem quiet_after_any_shutdown_at4 (s : State) (ops : List Op) (hops : ∀ op ∈ ops, op.afterShutdown = true) :
    Closed (run s (.shutdown :: ops)).1 ∧
    ∀ e ∈ (run (apiStep s .shutdown).1 ops).2,
      quietClosed e = true ∨ (e = Ev.result "init True" ∧ Op.callBad "init True" ∈ ops) :=
  quiet_after_shutdown_at4 (shutdown_state s).1 ops hops

/-- non-vacuity: a shut-down demo installation; a script with every kind of op; the orphan state too -/
def closedDemo : State := (apiStep demoSub .shutdown).1

def quietScript : List Op :=
  [.conn true, .recv demoGroupMsg, .recv demoVersionMsg, .msg 0x2B [1], .adv 3000, .call .atCheckForUpdates,
   .call (.acSetPower 0 .TURN_ON), .sub (.ac 0 true) "x" false, .sub .airtouch "y" false, .unsub (.zone 1) "z", .view,
   .conn false, .callBad "KeyError", .shutdown, .adv 10]

example : Closed closedDemo := (shutdown_state demoSub).1
example : ∀ op ∈ quietScript, op.afterShutdown = true := by decide
example : closedDemo.subscribed = true ∧ closedDemo.subs.length = 1 := by decide
example : (run closedDemo quietScript).2.length = 11 ∧
    (run closedDemo quietScript).2.take 4 =
      [Ev.subscriberExc "NotOpenError", Ev.undecodable "DecodeError", Ev.result "NotOpenError", Ev.result "KeyError"] := by
  decide +kernel
example : (run orphanState [.conn true, .adv 2400]).2 = [Ev.subscriberExc "NotOpenError"] ∧
    (run orphanState [.conn true, .adv 2400]).1.pollOrphans = [] := by decide +kernel

/-! ## 3. `init()` again -/

/-- **the simulation, one op**: related states have related successors under EVERY op; the outputs are equal for every
    op other than `view`; once the console versions agree the outputs are equal for `view` too and the versions
    agree for ever -/
theorem freshSim_step_at4 : type_of% @freshSim_step := @freshSim_step

/-- … over op lists -/
theorem freshSim_run_at4 : type_of% @freshSim_run := @freshSim_run

/-- … `ops₁` without `view`, after which the versions agree, then any `ops₂` (with `view`) -/
theorem freshSim_run_split_at4 : type_of% @freshSim_run_split := @freshSim_run_split

/-- the console-version answer (in `INIT_VERSION`, or an update in `CONNECTED`) makes the versions agree -/
theorem freshSim_version_answer_at4 : type_of% @freshSim_version_answer := @freshSim_version_answer

example : FreshSim demo demo := FreshSim.refl demo

/-- the well-formedness of the embedded heartbeat manager is an invariant -/
theorem hbWf0_invariant_at4 :
    HbWf0 State.initial ∧ (∀ s op, HbWf0 s → HbWf0 (apiStep s op).1) ∧ ∀ ops, HbWf0 (run State.initial ops).1 :=
  ⟨HbWf0_initial, fun s op k => HbWf0_apiStep k op, fun ops => HbWf0_run HbWf0_initial ops⟩

/-- why `freshAt` is "fresh": on a fresh object `adv n` outputs nothing and only moves the two clocks to `n`; and
    `freshAt` of that state is that state -/
theorem advance_fresh_at4 (n : Nat) :
    apiStep State.initial (.adv n) =
      ({ State.initial with now := n, hb := { State.initial.hb with now := n } }, []) ∧
    freshAt (apiStep State.initial (.adv n)).1 = (apiStep State.initial (.adv n)).1 :=
  ⟨advance_initial n, freshAt_of_initial n⟩

/-- **a later `init()` works as on a fresh object**: `c` `Closed`, no pending waiter, no orphaned poll task
    (well-formed heartbeat manager - an invariant): `init()` outputs exactly `OPEN` on `c` and on the fresh object
    `freshAt c`, and the successor states are related by the simulation relation -/
theorem reinit_as_fresh_at4 : type_of% @reinit_fresh := @reinit_fresh

/-- … so every later behaviour is that of the fresh object: all outputs of any continuation without `view`; and with
    `view` from the moment the console versions agree -/
theorem reinit_behaviour_at4 {c : State} (hc : Closed c) (hw : c.initWaits = []) (ho : c.pollOrphans = [])
    (hb : HbWf0 c) :
    (∀ ops, FreshSim (run c (.init :: ops)).1 (run (freshAt c) (.init :: ops)).1 ∧
      ((∀ op ∈ ops, op ≠ .view) → (run c (.init :: ops)).2 = (run (freshAt c) (.init :: ops)).2)) ∧
    (∀ ops₁ ops₂, (∀ op ∈ ops₁, op ≠ .view) →
      (run c (.init :: ops₁)).1.version = (run (freshAt c) (.init :: ops₁)).1.version →
      (run c (.init :: (ops₁ ++ ops₂))).2 = (run (freshAt c) (.init :: (ops₁ ++ ops₂))).2) :=
  ⟨fun ops => reinit_run hc hw ho hb ops, fun o1 o2 h1 hv => reinit_run_split hc hw ho hb o1 o2 h1 hv⟩

/-- the hypotheses `Closed` and `HbWf0` hold after every `shutdown()` reachable from a fresh object; what remains to
    be assumed is exactly the absence of the two leaks -/
theorem reinit_applies_at4 : type_of% @shutdown_reachable_wf := @shutdown_reachable_wf

/-- the state in which the demo installation was shut down -/
def demoClosed : State := (run State.initial (demoOps ++ [.shutdown])).1

example : Closed demoClosed ∧ HbWf0 demoClosed := shutdown_reachable_wf demoOps
example : demoClosed.initWaits = [] ∧ demoClosed.pollOrphans = [] := by decide

/-- the whole second session - handshake, a view, a status change, a poll, a call - equals the fresh object's -/
example :
    (run demoClosed (.init :: ([.conn true, .recv demoVersionMsg] ++ ([.view] ++ (demoAnswers.drop 1).map Op.recv ++
        [.view, .call (.acSetPower 0 .TURN_ON), .adv 50])))).2 =
    (run (freshAt demoClosed) (.init :: ([.conn true, .recv demoVersionMsg] ++ ([.view] ++
        (demoAnswers.drop 1).map Op.recv ++ [.view, .call (.acSetPower 0 .TURN_ON), .adv 50])))).2 :=
  (reinit_behaviour_at4 (shutdown_reachable_wf demoOps).1 (by decide) (by decide) (shutdown_reachable_wf demoOps).2).2
    _ _ (by intro op hop h; subst h; simp at hop) (by decide)

/-- **what legitimately persists and shows**: the console version of the previous session is still stored (and shown by
    `view`) until the first answer of the new handshake overwrites it; a fresh object shows none -/
theorem reinit_stale_version_at4 :
    (run demoClosed [.init, .view]).2 = [Ev.opened, Ev.view (closedViewText demoClosed)] ∧
    (run (freshAt demoClosed) [.init, .view]).2 = [Ev.opened, Ev.view (closedViewText (freshAt demoClosed))] ∧
    demoClosed.version.versions = [[49]] ∧ (freshAt demoClosed).version.versions = [] ∧
    closedViewText demoClosed ≠ closedViewText (freshAt demoClosed) ∧
    (run demoClosed [.init, .conn true, .recv demoVersionMsg, .view]).2 =
      (run (freshAt demoClosed) [.init, .conn true, .recv demoVersionMsg, .view]).2 := by
  decide +kernel

end PyAirtouch.Props.C15
