import PyAirtouch.Model.Sock
/-! placeholder until the proof files are merged -/
namespace PyAirtouch.Props.C16
theorem C16_placeholder : True := trivial
end PyAirtouch.Props.C16
