import PyAirtouch.Lemmas.SockQueue
/-!
# C16 — bounded buffer

Theorems about the model `PyAirtouch.Model.Sock` of `AirTouchSocket`: the message queue is bounded,
overflow and not-open are reported explicitly, expired entries are discarded before the capacity
test.  Every statement holds for every schedule and every environment behaviour.
-/
namespace PyAirtouch.Props.C16
open PyAirtouch.Model.Sock PyAirtouch.Spec.Trace PyAirtouch.Lemmas.Sock

/-- entries that were never put back by the retry path never exceed the capacity -/
theorem C16_fresh_bound {s : Sys} :
    Reachable s → (s.core.queue.filter (fun e => !e.requeued)).length ≤ CAP :=
  fresh_bound_of_reachable

/-- ten sends while the link is down: the bound is attained -/
example : ∃ s, Reachable s ∧ (s.core.queue.filter (fun e => !e.requeued)).length = CAP :=
  ⟨_, ⟨.apiOpen :: (List.range 10).map (fun i => .apiSend i 2 240 true), rfl⟩, by decide⟩

/-- as long as nothing has been re-queued the queue holds at most ten messages -/
theorem C16_bound {s : Sys} :
    Reachable s → (∀ e ∈ s.core.queue, e.requeued = false) → s.core.queue.length ≤ 10 := by
  intro h hq
  have := C16_fresh_bound h
  rwa [List.filter_eq_self.2 (fun e he => by simp [hq e he])] at this

example : ∃ s, Reachable s ∧ (∀ e ∈ s.core.queue, e.requeued = false) ∧ s.core.queue.length = 10 :=
  ⟨_, ⟨.apiOpen :: (List.range 10).map (fun i => .apiSend i 2 240 true), rfl⟩, by decide⟩


/-- a send that finds the buffer full (after discarding what has expired) is rejected explicitly:
    nothing is queued, nothing is written, the connection is untouched -/
theorem C16_overflow_explicit {s s' : Sys} {sid r l : Nat} {ok : Bool}
    (hopen : s.core.isOpen = true) (hfull : CAP ≤ (purged s.core.now s.core.queue).length)
    (hs : step s (.apiSend sid r l ok) = some s') :
    s'.core.queue = purged s.core.now s.core.queue ∧
    s'.core.trace = s.core.trace ++ purgeEvents s.core.now s.core.queue ++ [.reject sid s.core.now .overflow] ∧
    s'.core.conns = s.core.conns ∧ s'.core.rw = s.core.rw ∧ s'.core.isConnected = s.core.isConnected := by
  simp only [step, hopen, Bool.not_true, Bool.false_eq_true, ↓reduceIte, ge_iff_le, hfull,
    Option.some.injEq] at hs
  subst hs
  simp [spawnApi, Core.emit]

/-- eleven sends while the link is down: the eleventh is rejected with `overflow` -/
example : ∃ s s', Reachable s ∧ s.core.isOpen = true ∧ CAP ≤ (purged s.core.now s.core.queue).length ∧
    step s (.apiSend 10 2 240 true) = some s' ∧ s'.core.trace.getLast? = some (.reject 10 0 .overflow) :=
  ⟨_, _, ⟨.apiOpen :: (List.range 10).map (fun i => .apiSend i 2 240 true), rfl⟩, by decide, by decide, rfl, by decide⟩

/-- a send on a socket that is not open is rejected explicitly and changes nothing -/
theorem C16_not_open {s s' : Sys} {sid r l : Nat} {ok : Bool}
    (hclosed : s.core.isOpen = false) (hs : step s (.apiSend sid r l ok) = some s') :
    s'.core.queue = s.core.queue ∧ s'.core.trace = s.core.trace ++ [.reject sid s.core.now .notOpen] := by
  simp only [step, hclosed, Bool.not_false, ↓reduceIte, Option.some.injEq] at hs
  subst hs
  simp [spawnApi, Core.emit]

example : ∃ s s', Reachable s ∧ s.core.isOpen = false ∧ step s (.apiSend 7 2 240 true) = some s' :=
  ⟨_, _, ⟨[.apiOpen, .apiSend 1 2 240 true, .apiClose], rfl⟩, by decide, rfl⟩

/-- with room in the buffer and no connection the message is queued behind the unexpired ones -/
theorem C16_accept_when_room {s s' : Sys} {sid r l : Nat} {ok : Bool}
    (hopen : s.core.isOpen = true) (hroom : (purged s.core.now s.core.queue).length < CAP)
    (hdown : s.core.isConnected = false) (hs : step s (.apiSend sid r l ok) = some s') :
    s'.core.queue = purged s.core.now s.core.queue ++ [⟨sid, r, s.core.now + l, ok, false⟩] ∧
    s'.core.trace = s.core.trace ++ purgeEvents s.core.now s.core.queue ++
      [.accept sid s.core.now (s.core.now + l) r ok] := by
  have hroom' : ¬ CAP ≤ (purged s.core.now s.core.queue).length := by omega
  simp only [step, hopen, Bool.not_true, Bool.false_eq_true, ↓reduceIte, ge_iff_le, hroom',
    Option.some.injEq] at hs
  subst hs
  simp [spawnApi, Core.emit, FUEL, exec, hdown]

/-- two sends with a short life, the clock passes their expiry, a third send purges them -/
example : ∃ s s', Reachable s ∧ s.core.isOpen = true ∧ (purged s.core.now s.core.queue).length < CAP ∧
    s.core.isConnected = false ∧ step s (.apiSend 3 2 240 true) = some s' ∧
    s.core.queue.length = 2 ∧ s'.core.queue = [⟨3, 2, 250, true, false⟩] :=
  ⟨_, _, ⟨[.apiOpen, .apiSend 1 0 8 true, .apiSend 2 0 8 true, .advance 10], rfl⟩,
    by decide, by decide, by decide, rfl, by decide, by decide⟩

/-- "expired entries are discarded first": the purge removes exactly the entries whose expiry has
    been reached, keeps the others in order, and logs one `expired` drop per removed entry -/
theorem C16_purged_are_expired_only (now : Nat) (q : List Entry) :
    (purged now q).Sublist q ∧
    (∀ e ∈ q, (e ∈ purged now q ↔ now < e.expiry) ∧ (e ∉ purged now q ↔ e.expiry ≤ now)) ∧
    (∀ ev ∈ purgeEvents now q, ∃ e ∈ q, e.expiry ≤ now ∧ e ∉ purged now q ∧ ev = .qdrop e.sid now .expired) ∧
    (∀ e ∈ q, e.expiry ≤ now → Ev.qdrop e.sid now .expired ∈ purgeEvents now q) := by
  refine ⟨List.filter_sublist, ?_, ?_, ?_⟩
  · intro e he
    simp only [purged, List.mem_filter, he, true_and, decide_eq_true_eq]
    omega
  · intro ev hev
    simp only [purgeEvents, List.mem_map, List.mem_filter, List.mem_reverse, decide_eq_true_eq] at hev
    obtain ⟨e, ⟨he, hexp⟩, rfl⟩ := hev
    refine ⟨e, he, hexp, ?_, rfl⟩
    simp only [purged, List.mem_filter, he, true_and, decide_eq_true_eq]
    omega
  · intro e he hexp
    simp only [purgeEvents, List.mem_map, List.mem_filter, List.mem_reverse, decide_eq_true_eq]
    exact ⟨e, ⟨he, hexp⟩, rfl⟩

example : purged 10 [⟨1, 0, 8, true, false⟩, ⟨2, 0, 20, true, false⟩, ⟨3, 0, 10, true, false⟩] = [⟨2, 0, 20, true, false⟩] ∧
    purgeEvents 10 [⟨1, 0, 8, true, false⟩, ⟨2, 0, 20, true, false⟩, ⟨3, 0, 10, true, false⟩] =
      [.qdrop 3 10 .expired, .qdrop 1 10 .expired] := by decide

/-! ### the window behind the two known findings (C08 skipped heartbeat, C14 refresh refused)

`_connect` sets `is_connected`, tells the subscribers, and only then flushes the backlog.  A send made from inside that
notification (the API objects' refresh requests, a heartbeat whose timer fires there) meets the backlog still in the buffer:
with ten commands held it is refused.  The state below is reachable in the model - the refusal is what the code does, the
bound itself (`C16_bound`) is not violated; what suffers are C08 / C14 (see `known_findings.txt`). -/

private theorem eq_some_getD {α : Type} (o : Option α) (d : α) (h : o.isSome = true) : o = some (o.getD d) := by
  cases o <;> simp_all

/-- the history: open, one refused attempt, ten commands, the retry after 2 s succeeds (the block that issues `notify true`) -/
def windowRun : List Label :=
  [.apiOpen, .run 1 .go, .run 1 .openRefused] ++ (List.range 10).map (fun i => .apiSend i 2 240 true)
    ++ [.advance 16, .run 2 .go, .run 2 .openOk]

def windowState : Sys := (run init windowRun).getD init
def windowAfterSend : Sys := (step windowState (.apiSend 99 0 8 true)).getD init

/-- ten commands accepted while the link is down, the connection comes up: the connected notification has been issued
    (`notify true`), the socket calls itself connected, the ten commands are still held, nothing has been written - and a
    request submitted at this very moment is rejected for overflow -/
theorem C16_notify_before_flush_window :
    Reachable windowState ∧ windowState.core.isConnected = true ∧ windowState.core.queue.length = CAP ∧
      Ev.notify true 16 ∈ windowState.core.trace ∧ (∀ c sid t, Ev.wire c sid t ∉ windowState.core.trace) ∧
      step windowState (.apiSend 99 0 8 true) = some windowAfterSend ∧
      Ev.reject 99 16 .overflow ∈ windowAfterSend.core.trace ∧ windowAfterSend.core.queue.length = CAP := by
  have hw : windowState.core.trace.all (fun e => match e with | .wire _ _ _ => false | _ => true) = true := by decide
  refine ⟨⟨windowRun, eq_some_getD _ _ (by decide)⟩, by decide, by decide, by decide, ?_, eq_some_getD _ _ (by decide), by decide, by decide⟩
  intro c sid t h
  have := List.all_eq_true.1 hw _ h
  simp at this

end PyAirtouch.Props.C16

