import PyAirtouch.Lemmas.HeartbeatXInv
import PyAirtouch.Props.C08
/-!
# C08 with refused heartbeats (the send buffer is full when a heartbeat is due)

Model: `PyAirtouch.Model.Heartbeat` extended by `Model/HeartbeatX.lean` with the label `beatRefused` - the heartbeat
loop's sleep is over, the link is up, and `socket.send()` raises `QueueOverflowError`.  `stepX` is the repaired code
(`/repo` 481ce10: the request is skipped, the loop goes on), `stepOld` the code before the repair (the exception
escaped through `asyncio.gather` and ended the task of `_heartbeat_loop`).  All statements quantify over `ReachableX`
states: every interleaving of the two tasks, the environment and the clock, and any number of refusals, for
arbitrary `interval` and `timeout`.  Proofs: `Lemmas/HeartbeatXInv.lean` (the `base` case of every induction is the
existing per-step lemma of the base model, the `beatRefused` case is new).

**The heartbeat loop is never ended by a refusal** (section 1).  **The timeout side of C08 holds verbatim**
(sections 2-6: `Props/C08.lean` restated for the extended system).  What a refusal still costs is that one
request: nothing is outstanding at the console, so unless a response arrives for another reason the deadline
armed by the last response expires and the (healthy) connection is reset once - the residual known finding
`C08:api:skipped-beat-full-buffer`; the last example of section 1 is exactly that history, and it shows that the
heartbeats go on afterwards.  **The code before the repair is refuted** (section 7).
-/
namespace PyAirtouch.Props.C08X
open PyAirtouch.Model.Heartbeat PyAirtouch.Spec.Heartbeat PyAirtouch.Lemmas.Heartbeat
open PyAirtouch.Lemmas.HeartbeatX

/-! ## 0. the extension -/

/-- every state of the base model is a state of the extended one -/
theorem C08X_extends_base {i t : Nat} {h : HB} : Reachable i t h → ReachableX i t h :=
  reachableX_of_reachable

/-- a heartbeat can be refused exactly when an iteration of the heartbeat loop is due and the link is up -/
theorem C08X_refused_enabled_iff {h : HB} :
    (stepX h .beatRefused).isSome = true ↔ (step h .hlBeat).isSome = true ∧ h.connected = true :=
  refused_enabled_iff

/-! ## 1. a refusal does not end the heartbeat loop -/

/-- a refused heartbeat schedules the next iteration `interval` later and changes nothing else: not the timeout
loop, not the record (no `beat` event), no other field -/
theorem C08X_refused_keeps_loop {h h' : HB} (hs : stepX h .beatRefused = some h') :
    h'.hl = .sleeping (h.now + h.interval) ∧ h'.tl = h.tl ∧ h'.trace = h.trace ∧
      h' = { h with hl := .sleeping (h.now + h.interval) } := by
  obtain ⟨u, _, _, _, rfl⟩ := refused_eq hs
  exact ⟨rfl, rfl, rfl, rfl⟩

/-- … it happens exactly at the wake-up time of the heartbeat loop, while the link is up -/
theorem C08X_refused_at_wake {i t : Nat} {h h' : HB} (hr : ReachableX i t h)
    (hs : stepX h .beatRefused = some h') :
    h.hl = .sleeping h.now ∧ h.connected = true ∧ h'.hl = .sleeping (h.now + i) := by
  obtain ⟨u, hu, hle, hc, rfl⟩ := refused_eq hs
  have b := reachableX_basic hr
  have := (b.wake u hu).1
  have hi := b.interval_eq
  have : u = h.now := by omega
  subst this
  exact ⟨hu, hc, by rw [← hi]⟩

/-- the invariant `HlAlive`: in every reachable state of the extended system, monitoring is started (the latest
`start` / `stop` event of the record is a `start`) iff the heartbeat loop is alive (`.sleeping _`), iff the timeout
loop is alive -/
theorem C08X_loop_alive_iff_started {i t : Nat} {h : HB} (hr : ReachableX i t h) :
    (started h.trace = true ↔ ∃ u, h.hl = .sleeping u) ∧ (started h.trace = true ↔ h.tl ≠ .idle) :=
  have a := reachableX_hlAlive hr
  ⟨a.hl, a.tl⟩

/-- along any extended label sequence without `stop` - any number of refusals included - a heartbeat loop that is
alive stays alive -/
theorem C08X_refusals_never_end_loop {h h' : HB} {ls : List LabelX} (hrun : runX h ls = some h')
    (hls : ∀ l ∈ ls, l ≠ .base .stop) (hu : ∃ u, h.hl = .sleeping u) : ∃ u', h'.hl = .sleeping u' :=
  runX_keeps_loop ls h h' hrun hls hu

/-- … and therefore after any such continuation of a started reachable state the next iteration is pending at some
`u'` with `now ≤ u' ≤ now + interval`, and as soon as the clock is there `hlBeat` is enabled, sends a request iff the
link is up, and schedules the iteration after it -/
theorem C08X_beat_after_refusals {i t : Nat} {h h' : HB} {ls : List LabelX} (hr : ReachableX i t h)
    (hst : started h.trace = true) (hrun : runX h ls = some h') (hls : ∀ l ∈ ls, l ≠ .base .stop) :
    ∃ u', h'.hl = .sleeping u' ∧ h'.now ≤ u' ∧ u' ≤ h'.now + i ∧
      (h'.now = u' → ∃ h'', stepX h' (.base .hlBeat) = some h'' ∧ h''.hl = .sleeping (u' + i) ∧
        (h'.connected = true → h''.trace = h'.trace ++ [.beat u']) ∧
        (h'.connected = false → h''.trace = h'.trace)) := by
  obtain ⟨u', hu'⟩ := runX_keeps_loop ls h h' hrun hls ((reachableX_hlAlive hr).hl.1 hst)
  have b := reachableX_basic (reachableX_run hr hrun)
  have hw := b.wake u' hu'
  have hi := b.interval_eq
  refine ⟨u', hu', hw.1, by omega, fun hn => ?_⟩
  cases hc : h'.connected <;> simp [stepX, step, hu', hn, hc, hi, HB.emit]

/-- the first heartbeat (at 0) is refused: the loop is alive, and at 2400 the heartbeat is sent -/
example : ∃ h h', runX (init 2400 2640) exRefusedFirst = some h ∧ h.hl = .sleeping 2400 ∧ h.trace = [.conn true 0, .start 0] ∧
    runX h [.base (.advance 2400), .base .hlBeat] = some h' ∧ h'.trace = [.conn true 0, .start 0, .beat 2400] :=
  ⟨_, _, rfl, by decide, by decide, rfl, by decide⟩

/-- three refusals in a row (0, 2400, 4800; the link is down at the two expiries in between … so no reset), then the
heartbeat of 7200 is sent -/
example : ∃ h, runX (init 2400 2640)
      [.base (.conn true), .base .start, .beatRefused, .base (.advance 2400), .beatRefused,
       .base (.advance 2640), .base (.conn false), .base .tlFire, .base (.conn true),
       .base (.advance 4800), .beatRefused, .base (.advance 5280), .base (.conn false), .base .tlFire, .base (.conn true),
       .base (.advance 7200), .base .hlBeat] = some h ∧
    h.trace = [.conn true 0, .start 0, .conn false 2640, .conn true 2640, .conn false 5280, .conn true 5280,
               .beat 7200] ∧ h.hl = .sleeping 9600 :=
  ⟨_, rfl, by decide, by decide⟩

/-- **non-vacuity, and the residual finding.**  Interval 2400, timeout 2640: start; heartbeat at 0, answered; link
lost at 2352, back at 2400 with a full send buffer: the heartbeat of 2400 is refused; the deadline 2640 expires with the
link up: reset (this single reset of a healthy connection is the residual known finding
`C08:api:skipped-beat-full-buffer`); the reset completes; at 4800 the heartbeat loop is still there and sends. -/
example : ∃ h h', runX (init 2400 2640) exOverflow = some h ∧ ReachableX 2400 2640 h ∧
    h.now = 4800 ∧ h.hl = .sleeping 4800 ∧ h.connected = true ∧ started h.trace = true ∧
    stepX h (.base .hlBeat) = some h' ∧
    h'.trace = [.conn true 0, .start 0, .beat 0, .resp 0, .conn false 2352, .conn true 2400, .reset 2640,
                .resetDone 2640, .beat 4800] ∧
    h'.hl = .sleeping 7200 :=
  ⟨_, _, rfl, ⟨exOverflow, rfl⟩, by decide, by decide, by decide, by decide, rfl, by decide, by decide⟩

/-- the refusal in that history: enabled at 2400 (and `hlBeat` too: the two are alternatives), not enabled while
the link is down or before the wake-up time -/
example : ∃ h, runX (init 2400 2640) (exOverflow.take 9) = some h ∧ (stepX h .beatRefused).isSome = true ∧
      (stepX h (.base .hlBeat)).isSome = true ∧
    (∃ h1, runX (init 2400 2640) (exOverflow.take 8) = some h1 ∧ h1.connected = false ∧ stepX h1 .beatRefused = none) ∧
    (∃ h2, runX (init 2400 2640) (exOverflow.take 6) = some h2 ∧ h2.now = 2352 ∧ stepX h2 .beatRefused = none) :=
  ⟨_, rfl, by decide, by decide, ⟨_, rfl, by decide, by decide⟩, ⟨_, rfl, by decide, by decide⟩⟩

/-! ## 2. the deadline (as `Props/C08.lean` section 1) -/

/-- time never passes a pending deadline, and the deadline is exactly `timeout` after the latest arm point; the
parameters never change -/
theorem C08X_deadline_never_missed {i t : Nat} {h : HB} (hr : ReachableX i t h) :
    (∀ d, h.tl = .waiting d → h.now ≤ d ∧ d = h.lastArm + h.timeout) ∧ h.timeout = t ∧ h.interval = i :=
  have b := reachableX_basic hr
  ⟨b.deadline, b.timeout_eq, b.interval_eq⟩

example : ∃ h, ReachableX 2400 2640 h ∧ h.tl = .waiting 2640 ∧ h.now = 2400 ∧ h.lastArm = 0 ∧ h.hl = .sleeping 4800 :=
  ⟨_, ⟨exOverflow.take 10, rfl⟩, by decide⟩

/-! ## 3. arm points (section 2) -/

/-- the latest arm point only moves at `start`, when a response is consumed, when a reset completes and at an expiry
while the link is down - and then it moves to the current instant; never at a refusal -/
theorem C08X_arm_points {h h' : HB} {l : LabelX} (hs : stepX h l = some h')
    (hne : h'.lastArm ≠ h.lastArm) :
    (l = .base .start ∨ l = .base .tlWake ∨ l = .base .tlResetDone ∨
      (l = .base .tlFire ∧ h.connected = false)) ∧ h'.lastArm = h.now := by
  cases l with
  | base l =>
    obtain ⟨a, b⟩ := C08.C08_arm_points hs hne
    refine ⟨?_, b⟩
    rcases a with a | a | a | ⟨a, c⟩
    · exact .inl (by rw [a])
    · exact .inr (.inl (by rw [a]))
    · exact .inr (.inr (.inl (by rw [a])))
    · exact .inr (.inr (.inr ⟨by rw [a], c⟩))
  | beatRefused =>
    obtain ⟨u, _, _, _, rfl⟩ := refused_eq hs
    exact absurd rfl hne

example : ∃ h h', ReachableX 2400 2640 h ∧ stepX h (.base .tlResetDone) = some h' ∧ h'.lastArm ≠ h.lastArm :=
  ⟨_, _, ⟨exOverflow.take 12, rfl⟩, rfl, by decide⟩

/-! ## 4. a reset only after a full `timeout` of silence (section 3) -/

/-- an expiry while the link is up issues a reset, exactly `timeout` after the latest arm point -/
theorem C08X_reset_at_deadline {i t : Nat} {h h' : HB} (hr : ReachableX i t h)
    (hs : stepX h (.base .tlFire) = some h') (hc : h.connected = true) :
    h'.trace = h.trace ++ [.reset h.now] ∧ h.now = h.lastArm + t := by
  have b := reachableX_basic hr
  have hd := b.deadline
  have ht := b.timeout_eq
  simp only [stepX, step, HB.emit, enterTimeout] at hs
  repeat' split at hs
  all_goals (first | cases hs | skip)
  all_goals grind

example : ∃ h h', ReachableX 2400 2640 h ∧ stepX h (.base .tlFire) = some h' ∧ h.connected = true :=
  ⟨_, _, ⟨exOverflow.take 11, rfl⟩, rfl, by decide⟩

/-- conversely the only extended step that adds a `reset` event is an expiry while the link is up -/
theorem C08X_reset_only_by_expiry {h h' : HB} {l : LabelX} {r : Nat} (hs : stepX h l = some h')
    (hin : HEv.reset r ∈ h'.trace) (hout : HEv.reset r ∉ h.trace) :
    l = .base .tlFire ∧ h.connected = true ∧ r = h.now ∧ h'.trace = h.trace ++ [.reset h.now] :=
  stepX_reset hs hin hout

example : ∃ h h' l r, ReachableX 2400 2640 h ∧ stepX h l = some h' ∧ HEv.reset r ∈ h'.trace ∧
    HEv.reset r ∉ h.trace :=
  ⟨_, _, .base .tlFire, 2640, ⟨exOverflow.take 11, rfl⟩, rfl, by decide, by decide⟩

/-- in the recorded events: a reset never comes earlier than `timeout`, and no response lies in the `timeout` ticks
before it -/
theorem C08X_reset_only_after_full_silence {i t : Nat} {h : HB} (hr : ReachableX i t h) :
    ∀ r, HEv.reset r ∈ h.trace → t ≤ r ∧ ∀ x, HEv.resp x ∈ h.trace → ¬ (r - t < x ∧ x < r) := by
  intro r hrm
  have k := reachableX_traceInv hr
  refine ⟨k.reset_ge r hrm, fun x hx => ?_⟩
  have := k.reset_quiet r x hrm hx
  omega

example : ∃ h, ReachableX 2400 2640 h ∧ HEv.reset 2640 ∈ h.trace ∧ HEv.resp 0 ∈ h.trace :=
  ⟨_, ⟨exOverflow, rfl⟩, by decide, by decide⟩

/-- every recorded reset comes a whole number `k + 1` of timeouts after a recorded arm point `a` (a `start`, a
response, a completed reset; `k` expiries in between found the link down), and no response at all lies strictly
between `a` and the reset -/
theorem C08X_reset_origin {i t : Nat} {h : HB} (hr : ReachableX i t h) :
    ∀ r, HEv.reset r ∈ h.trace → ∃ k a, r = a + (k + 1) * t ∧
      (HEv.start a ∈ h.trace ∨ HEv.resp a ∈ h.trace ∨ HEv.resetDone a ∈ h.trace) ∧
      ∀ x, HEv.resp x ∈ h.trace → x ≤ a ∨ r ≤ x :=
  (reachableX_armInv hr).reset_origin

/-! ## 5. silence is detected (section 4) -/

/-- the clock cannot be moved past a pending deadline … -/
theorem C08X_silence_detected {h h' : HB} {d t' : Nat} (hw : h.tl = .waiting d)
    (hs : stepX h (.base (.advance t')) = some h') : t' ≤ d :=
  C08.C08_silence_detected hw hs

/-- … on any extended path: without an expiry, a consumed response or `stop` the same deadline stays pending and
the clock stays on this side of it - refusals do not move it -/
theorem C08X_silence_detected_run {i t : Nat} {h h' : HB} {d : Nat} {ls : List LabelX}
    (hr : ReachableX i t h) (hw : h.tl = .waiting d) (hrun : runX h ls = some h')
    (hls : ∀ l ∈ ls, l ≠ .base .tlFire ∧ l ≠ .base .tlWake ∧ l ≠ .base .stop) :
    h'.tl = .waiting d ∧ h'.now ≤ d ∧ h'.lastArm = h.lastArm :=
  runX_keeps_deadline ls h h' hrun hw ((reachableX_basic hr).deadline d hw).1 hls

example : ∃ h h' ls, ReachableX 2400 2640 h ∧ h.tl = .waiting 2640 ∧ runX h ls = some h' ∧ ls.length = 5 ∧
    LabelX.beatRefused ∈ ls ∧ ∀ l ∈ ls, l ≠ .base .tlFire ∧ l ≠ .base .tlWake ∧ l ≠ .base .stop :=
  ⟨_, _, (exOverflow.drop 5).take 5, ⟨exOverflow.take 5, rfl⟩, by decide, rfl, rfl, by decide, by decide⟩

/-- when the deadline is reached the expiry is enabled; it resets the connection iff the link is up, and otherwise
starts a new period at once -/
theorem C08X_expiry_enabled {h : HB} {d : Nat} (hw : h.tl = .waiting d) (hn : h.now = d) :
    ∃ h', stepX h (.base .tlFire) = some h' ∧
      (h.connected = true → h'.trace = h.trace ++ [.reset d] ∧ h'.tl = .resetting) ∧
      (h.connected = false → h'.trace = h.trace ∧ h'.tl = .waiting (d + h.timeout) ∧ h'.lastArm = d) :=
  C08.C08_expiry_enabled hw hn

example : ∃ h, ReachableX 2400 2640 h ∧ h.tl = .waiting 2640 ∧ h.now = 2640 :=
  ⟨_, ⟨exOverflow.take 11, rfl⟩, by decide⟩

/-! ## 6. the period, and no false reset (sections 5 and 6) -/

/-- time never passes a pending wake-up of the heartbeat loop -/
theorem C08X_wake_never_missed {i t : Nat} {h : HB} {u : Nat} (hr : ReachableX i t h)
    (hu : h.hl = .sleeping u) : h.now ≤ u :=
  ((reachableX_basic hr).wake u hu).1

/-- every iteration of the heartbeat loop in which the socket takes the request happens exactly at its wake-up time,
schedules the next one `interval` later, and sends a request iff the link is up -/
theorem C08X_period {i t : Nat} {h h' : HB} (hr : ReachableX i t h) (hs : stepX h (.base .hlBeat) = some h') :
    ∃ u, h.hl = .sleeping u ∧ h.now = u ∧ h'.hl = .sleeping (u + i) ∧
      (h.connected = true → h'.trace = h.trace ++ [.beat u]) ∧
      (h.connected = false → h'.trace = h.trace) := by
  have b := reachableX_basic hr
  have hw := b.wake
  have hi := b.interval_eq
  simp only [stepX, step, HB.emit] at hs
  repeat' split at hs
  all_goals (first | cases hs | skip)
  all_goals grind

example : ∃ h h', ReachableX 2400 2640 h ∧ stepX h (.base .hlBeat) = some h' ∧ h.now = 4800 :=
  ⟨_, _, ⟨exOverflow, rfl⟩, rfl, by decide⟩

/-- If every iteration of the heartbeat loop - a refused one included - at an instant `b` is followed by a consumed
response before time reaches `b + (timeout − interval)` (`GoodRunX`, a check on the label sequence alone), the
connection is never reset and the deadline is never even reached.  (After a refused iteration no request is
outstanding: only a response that arrives for another reason can keep such a run good - hence the residual
finding.) -/
theorem C08X_no_false_reset {i t : Nat} (hit : i < t) :
    ∀ ls h, runX (init i t) ls = some h → GoodRunX (t - i) ls →
      (∀ r, HEv.reset r ∉ h.trace) ∧ h.tl ≠ .resetting ∧ ∀ d, h.tl = .waiting d → h.now < d := by
  intro ls h hr hg
  obtain ⟨s', hsim⟩ := sim_runX (m := t - i) (by omega) (by omega) ls _ h _ (sim_init i t (t - i)) hr hg
  exact ⟨hsim.no_reset, hsim.not_resetting, sim_lt (by omega) hsim⟩

/-- the heartbeat of 2400 is refused, a stray response at 2500 keeps the run good -/
example : ∃ h, runX (init 2400 2640)
      [.base (.conn true), .base .start, .base .hlBeat, .base .response, .base .tlWake, .base (.advance 2400),
       .beatRefused, .base (.advance 2500), .base .response, .base .tlWake, .base (.advance 4800), .base .hlBeat] = some h ∧
    GoodRunX (2640 - 2400)
      [.base (.conn true), .base .start, .base .hlBeat, .base .response, .base .tlWake, .base (.advance 2400),
       .beatRefused, .base (.advance 2500), .base .response, .base .tlWake, .base (.advance 4800), .base .hlBeat] ∧
    beats h.trace = [0, 4800] ∧ h.tl = .waiting 5140 :=
  ⟨_, rfl, by decide, by decide, by decide⟩

/-- … and `exOverflow` (no such response) is not a good run: its reset is not excluded -/
example : ¬ GoodRunX (2640 - 2400) exOverflow := by decide

/-! ## 7. the code before the repair -/

/-- **Under the unrepaired code (`stepOld`: a refused heartbeat ends the task of the heartbeat loop) the property
"started ⇒ the heartbeat loop is alive" is false**: the first heartbeat refused gives a reachable state in which
monitoring is started, the timeout loop is waiting, and the heartbeat loop is gone; and along every continuation
without `stop` (a further `start` changes nothing: "already started") it stays gone - neither kind of iteration is ever
enabled again and no `beat` event is ever added to the record. -/
theorem C08X_pre_fix_behaviour_refuted :
    ∃ h, ReachableOld 2400 2640 h ∧ started h.trace = true ∧ h.connected = true ∧ h.tl = .waiting 2640 ∧
      h.hl = .idle ∧
      ∀ ls h', runOld h ls = some h' → (∀ l ∈ ls, l ≠ .base .stop) →
        h'.hl = .idle ∧ stepOld h' (.base .hlBeat) = none ∧ stepOld h' .beatRefused = none ∧
        beats h'.trace = [] := by
  refine ⟨_, ⟨exRefusedFirst, rfl⟩, by decide, by decide, by decide, by decide, ?_⟩
  intro ls h' hrun hls
  obtain ⟨hd, hb⟩ := runOld_dead ls _ h' ⟨by decide, by decide⟩ hrun hls
  obtain ⟨n1, n2⟩ := dead_no_iteration hd
  exact ⟨hd.1, n1, n2, hb.trans (by decide)⟩

/-- the same run under the repaired code: the heartbeat loop is alive and the heartbeat of 2400 is sent -/
example : ∃ h h', runX (init 2400 2640) exRefusedFirst = some h ∧ started h.trace = true ∧ h.hl = .sleeping 2400 ∧
    runX h [.base (.advance 2400), .base .hlBeat] = some h' ∧ beats h'.trace = [2400] :=
  ⟨_, _, rfl, by decide, by decide, rfl, by decide⟩

/-- … while under the unrepaired code the healthy connection is then reset every `timeout`: 2640, 5280, … and not one
heartbeat is sent -/
example : ∃ h, runOld (init 2400 2640)
      (exRefusedFirst ++ [.base (.advance 2640), .base .tlFire, .base .tlResetDone,
        .base (.advance 5280), .base .tlFire, .base .tlResetDone]) = some h ∧
    h.trace = [.conn true 0, .start 0, .reset 2640, .resetDone 2640, .reset 5280, .resetDone 5280] ∧ h.hl = .idle :=
  ⟨_, rfl, by decide, by decide⟩

end PyAirtouch.Props.C08X
