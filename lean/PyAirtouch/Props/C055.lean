import PyAirtouch.Lemmas.SpecAgree5
/-!
# C05 (AirTouch 5): the decoder's reading equals the vendor reading

Restatements (nothing else) of the theorems of `PyAirtouch.Lemmas.SpecAgree5`, one section per message kind, each
with non-vacuity examples (the vendor document's own example payload decoded by both sides).

* model of the implementation's decoders: `PyAirtouch.Model.At5.*` (`decode`);
* vendor readers: `PyAirtouch.Spec.At5.*` (`readZoneStatus`, `readAcStatus`, `readZoneNames`, `readAcError`,
  `readConsoleVersion`, `readAcAbility`);
* `Agree<Kind>` (in `Lemmas.SpecAgree5`): the field correspondence of `harness/specmap.py`, relaxations as disjuncts;
* `RecordWise R xs ys`: same number of records, same order, `R` on each pair;
* `subHeader sub nr rl rc`: the 8 bytes `[sub, 0, nr_hi, nr_lo, rl_hi, rl_lo, rc_hi, rc_lo]` of a 0xC0 message.

0x1F kinds are decoded as the receive path does it: `message_length` = number of bytes present.

Hypotheses that had to be added to the literal "decoder ok ⟹ vendor reader ok and equal" (each necessary, see the
`…_needs_length` / `…_refuted` theorems):
* C021, C023: the announced data is present (`nr + rl * rc ≤ |b|`);
* FF10, FF30: the string length byte does not exceed the bytes present;
* FF11: none (the decoder advances by each record's "following data length", as the vendor reader does);
* FF13: none.
The `…_of_spec` forms need none of them: whenever BOTH sides read a payload they read the same.
-/
namespace PyAirtouch.Props.C05
open PyAirtouch.Model PyAirtouch.Lemmas PyAirtouch.Lemmas.SpecAgree5

/-! ## Zone status (0xC0 / 0x21) -/
section C021
open PyAirtouch.Model.At5.C021 PyAirtouch.Gen.At5.XC021ZoneStatus
open PyAirtouch.Spec.At5 (ZoneStatus readZoneStatus readZoneStatusRecord)

/-- **Zone status.**  For every sub data `b` of bytes and every header `(nr, rl, rc)`: if the decoder returns a status
message and consumes everything, the vendor reader applied to the 8-byte sub-header followed by `b` returns records
that agree with it one by one.  ADDED HYPOTHESIS `hlen` (the announced data is present: `nr + rl * rc ≤ |b|`):
without it the statement is false, see `decode_agrees_C021_needs_length` — the decoder reads the known 8 bytes of a
last record whose announced stride runs past the end, or zero records after announced normal data that is not
there, where the document's "Data length = 8 + normal + repeat length * repeat count" makes the vendor reader refuse. -/
theorem C05_g5_decode_agrees_C021 (b : Bytes) (nr rl rc : Nat) (hb : AllBytes b)
    (hlen : nr + rl * rc ≤ b.length) (zs : List ZoneStatusData)
    (h : decode b nr rl rc = .ok (.status zs, [])) :
    ∃ ss, readZoneStatus (subHeader 0x21 nr rl rc ++ b) = some ss ∧ RecordWise AgreeC021 zs ss :=
  SpecAgree5.decode_agrees_C021 b nr rl rc hb hlen zs h

/-- Whenever both sides read the payload, they read the same records. -/
theorem C05_g5_decode_agrees_C021_of_spec (b : Bytes) (nr rl rc : Nat) (hb : AllBytes b)
    (zs : List ZoneStatusData) (rest : Bytes) (ss : List ZoneStatus)
    (h : decode b nr rl rc = .ok (.status zs, rest))
    (hs : readZoneStatus (subHeader 0x21 nr rl rc ++ b) = some ss) : RecordWise AgreeC021 zs ss :=
  SpecAgree5.decode_agrees_C021_of_spec b nr rl rc hb zs rest ss h hs

/-- An undefined zone power code (Byte1 Bit8-7 = 10, vendor reading `other n`) in any record makes the decoder raise. -/
theorem C05_g5_undefined_rejected_C021 (b : Bytes) (nr rl rc : Nat) (hb : AllBytes b) (ss : List ZoneStatus)
    (hs : readZoneStatus (subHeader 0x21 nr rl rc ++ b) = some ss)
    (hu : ∃ s ∈ ss, ∃ n, s.power = .other n) : ∃ e, decode b nr rl rc = .error e :=
  SpecAgree5.undefined_rejected_C021 b nr rl rc hb ss hs hu

/-- **Stride clause, decoder side.**  When the zone status decoder returns a message, the announced stride is at
least the known record size 8, there is one record per announced count, record `i` is what `decRec` reads at
offset `nonRepeat + i * stride` of the sub data, and what is left is everything after
`nonRepeat + stride * count`. -/
theorem C05_g5_stride_offsets_C021 (b : Bytes) (nr rl rc : Nat) (zs : List ZoneStatusData) (rest : Bytes)
    (h : decode b nr rl rc = .ok (.status zs, rest)) :
    8 ≤ rl ∧ zs.length = rc ∧ rest = b.drop (nr + rl * rc) ∧
      ∀ i, i < rc → ∃ z, zs[i]? = some z ∧ decRec (b.drop (nr + i * rl)) = .ok z :=
  SpecAgree5.stride_offsets_C021 b nr rl rc zs rest h

/-- **Stride clause, decoder side, converse**: for EVERY announced stride ≥ 8 (and a non-request header), if each
of the `count` offsets `nonRepeat + i * stride` holds a decodable record, the decoder returns a message. -/
theorem C05_g5_stride_accepted_C021 (b : Bytes) (nr rl rc : Nat) (h8 : 8 ≤ rl)
    (hrec : ∀ i, i < rc → ∃ z, decRec (b.drop (nr + i * rl)) = .ok z) :
    ∃ zs, decode b nr rl rc = .ok (.status zs, b.drop (nr + rl * rc)) :=
  SpecAgree5.stride_accepted_C021 b nr rl rc h8 hrec

/-- **Stride clause: a stride below the known record size is rejected** (unless the header is the request form
`repeat_length = 0 ∧ repeat_count = 0`). -/
theorem C05_g5_stride_below_known_size_rejected_C021 (b : Bytes) (nr rl rc : Nat) (h8 : rl < 8)
    (hreq : ¬ (rl = 0 ∧ rc = 0)) : decode b nr rl rc = .error .decodeError :=
  SpecAgree5.stride_below_known_size_rejected_C021 b nr rl rc h8 hreq

/-- **Stride clause, vendor side**: record `i` of the vendor reading is the documented 8-byte prefix of the block
of `stride` bytes at offset `normal + i * stride`. -/
theorem C05_g5_spec_stride_offsets_C021 (b : Bytes) (nr rl rc : Nat) (ss : List ZoneStatus)
    (h : readZoneStatus (subHeader 0x21 nr rl rc ++ b) = some ss) :
    8 ≤ rl ∧ b.length = nr + rl * rc ∧ ss.length = rc ∧
      ∀ i, i < rc → ∃ s, ss[i]? = some s ∧ readZoneStatusRecord (rawRec b nr rl i) = some s :=
  SpecAgree5.spec_stride_offsets_C021 b nr rl rc ss h

/-- the vendor reader rejects a stride below 8 as well -/
theorem C05_g5_spec_stride_below_known_size_rejected_C021 (b : Bytes) (nr rl rc : Nat) (h8 : rl < 8) :
    readZoneStatus (subHeader 0x21 nr rl rc ++ b) = none :=
  SpecAgree5.spec_stride_below_known_size_rejected_C021 b nr rl rc h8

/-- what the decoder reads as the request form is not a status message for the vendor reader either; with no
normal data announced it is the vendor's request form -/
theorem C05_g5_request_form_C021 (b : Bytes) (nr rl rc : Nat) (h : decode b nr rl rc = .ok (.request, [])) :
    readZoneStatus (subHeader 0x21 nr rl rc ++ b) = none ∧
      (nr = 0 → PyAirtouch.Spec.At5.isZoneStatusRequest (subHeader 0x21 nr rl rc ++ b) = true) :=
  SpecAgree5.request_form_C021 b nr rl rc h

/-- The length hypothesis of `decode_agrees_C021` cannot be dropped: announced stride 10, one record, but only the
8 known bytes present.  The decoder returns the zone and consumes everything; the vendor reader refuses
("Data length = 8 + normal + repeat length * repeat count"). -/
theorem C05_g5_decode_agrees_C021_needs_length :
    decode [0x40, 0x80, 0x96, 0x80, 0x02, 0xE7, 0x00, 0x00] 0 10 1 =
        .ok (.status [{ zone_number := 0, power_state := .ON, spill_active := false, control_method := .TEMPERATURE,
                        has_sensor := true, battery_status := .NORMAL, temperature := some 243,
                        damper_percentage := 0, set_point := some 250 }], []) ∧
      readZoneStatus (subHeader 0x21 0 10 1 ++ [0x40, 0x80, 0x96, 0x80, 0x02, 0xE7, 0x00, 0x00]) = none :=
  SpecAgree5.decode_agrees_C021_needs_length

/-! ### non-vacuity: the document's own response (4.a.ii, repeat count corrected to 2) -/

/-- the sub data (after the 8-byte sub-header) of the document's two-zone example -/
def exC021 : Bytes :=
  [0x40, 0x80, 0x96, 0x80, 0x02, 0xE7, 0x00, 0x00, 0x01, 0x64, 0xFF, 0x00, 0x07, 0xFF, 0x00, 0x00]

example : subHeader 0x21 0 8 2 ++ exC021 = PyAirtouch.Spec.At5.exZoneStatusData := by decide
example : decode exC021 0 8 2 = .ok (.status
    [{ zone_number := 0, power_state := .ON, spill_active := false, control_method := .TEMPERATURE, has_sensor := true,
       battery_status := .NORMAL, temperature := some 243, damper_percentage := 0, set_point := some 250 },
     { zone_number := 1, power_state := .OFF, spill_active := false, control_method := .DAMPER, has_sensor := false,
       battery_status := .NORMAL, temperature := none, damper_percentage := 100, set_point := none }], []) := by rfl
/-- the theorem applies to it (all hypotheses hold) -/
example : ∃ zs, decode exC021 0 8 2 = .ok (.status zs, []) ∧
    ∃ ss, readZoneStatus (subHeader 0x21 0 8 2 ++ exC021) = some ss ∧ RecordWise AgreeC021 zs ss :=
  ⟨_, by rfl, C05_g5_decode_agrees_C021 exC021 0 8 2 (by unfold AllBytes; decide) (by decide) _ (by rfl)⟩

/-- the same two zones in 10-byte records after 3 bytes of normal data (a hypothetical newer console): stride and
normal length honoured by both sides -/
def exC021Stride : Bytes :=
  [0xAA, 0xBB, 0xCC, 0x40, 0x80, 0x96, 0x80, 0x02, 0xE7, 0x00, 0x00, 0x11, 0x22,
   0x01, 0x64, 0xFF, 0x00, 0x07, 0xFF, 0x00, 0x00, 0x33, 0x44]
example : ∃ zs, decode exC021Stride 3 10 2 = .ok (.status zs, []) ∧ decode exC021 0 8 2 = .ok (.status zs, []) ∧
    ∃ ss, readZoneStatus (subHeader 0x21 3 10 2 ++ exC021Stride) = some ss ∧ RecordWise AgreeC021 zs ss :=
  ⟨_, by rfl, by rfl, C05_g5_decode_agrees_C021 exC021Stride 3 10 2 (by unfold AllBytes; decide) (by decide) _ (by rfl)⟩

/-- the relaxation AT5_C021_TEMPERATURE_ABSENT_WITHOUT_SENSOR at work: no sensor (Byte4 Bit8 = 0) but a valid
temperature field: the vendor reading has 24.3 °C, the decoder `None` -/
example : decode [0x01, 0x64, 0xFF, 0x00, 0x02, 0xE7, 0x00, 0x00] 0 8 1 = .ok (.status
    [{ zone_number := 1, power_state := .OFF, spill_active := false, control_method := .DAMPER, has_sensor := false,
       battery_status := .NORMAL, temperature := none, damper_percentage := 100, set_point := none }], []) ∧
    (readZoneStatus (subHeader 0x21 0 8 1 ++ [0x01, 0x64, 0xFF, 0x00, 0x02, 0xE7, 0x00, 0x00])).map
      (·.map (·.temperature)) = some [some 243] := ⟨by rfl, by decide⟩

/-- an undefined power code (Bit8-7 = 10) is rejected -/
example : decode [0x80, 0x64, 0xFF, 0x00, 0x02, 0xE7, 0x00, 0x00] 0 8 1 = .error .valueError := by rfl

end C021

/-! ## AC status (0xC0 / 0x23) -/
section C023
open PyAirtouch.Model.At5.C023 PyAirtouch.Gen.At5.XC023AcStatus
open PyAirtouch.Spec.At5 (AcStatus readAcStatus readAcStatusRecord)

/-- **AC status.**  As `decode_agrees_C021`; the same ADDED HYPOTHESIS `hlen` (announced data present), necessary by
`decode_agrees_C023_needs_length`. -/
theorem C05_g5_decode_agrees_C023 (b : Bytes) (nr rl rc : Nat) (hb : AllBytes b)
    (hlen : nr + rl * rc ≤ b.length) (zs : List AcStatusData)
    (h : decode b nr rl rc = .ok (.status zs, [])) :
    ∃ ss, readAcStatus (subHeader 0x23 nr rl rc ++ b) = some ss ∧ RecordWise AgreeC023 zs ss :=
  SpecAgree5.decode_agrees_C023 b nr rl rc hb hlen zs h

/-- Whenever both sides read the payload, they read the same records. -/
theorem C05_g5_decode_agrees_C023_of_spec (b : Bytes) (nr rl rc : Nat) (hb : AllBytes b)
    (zs : List AcStatusData) (rest : Bytes) (ss : List AcStatus)
    (h : decode b nr rl rc = .ok (.status zs, rest))
    (hs : readAcStatus (subHeader 0x23 nr rl rc ++ b) = some ss) : RecordWise AgreeC023 zs ss :=
  SpecAgree5.decode_agrees_C023_of_spec b nr rl rc hb zs rest ss h hs

/-- KNOWN FINDINGS `C05:sentinel:AT5_C023_SETPOINT_HAS_NO_ABSENT_VALUE` / `..._TEMPERATURE_HAS_NO_ABSENT_VALUE`, as a theorem about
    the model of the decoder: "the documented not-available sentinels decode to absent values" FAILS for the AC status record
    `10 41 ff 00 07 ff 00 00` - the vendor reading has neither set-point (Byte3 = 255) nor temperature (VALUE = 2047), the decoder
    (plain numbers) returns 35.5 degC and 154.7 degC.  This is why `AgreeC023` carries the two extra disjuncts. -/
theorem C05_g5_sentinels_decode_to_numbers_C023 :
    (readAcStatusRecord [0x10, 0x41, 0xFF, 0x00, 0x07, 0xFF, 0, 0]).map (fun s => (s.setpoint, s.temperature)) = some (none, none) ∧
    (match decRec [0x10, 0x41, 0xFF, 0x00, 0x07, 0xFF, 0, 0] with
      | .ok z => some (z.set_point, z.temperature) | .error _ => none) = some (355, 1547) := by
  constructor <;> rfl

/-- An undefined AC power, mode or fan speed code ("Other: Not available", vendor reading `notAvailable n`) in any
record makes the decoder raise. -/
theorem C05_g5_undefined_rejected_C023 (b : Bytes) (nr rl rc : Nat) (hb : AllBytes b) (ss : List AcStatus)
    (hs : readAcStatus (subHeader 0x23 nr rl rc ++ b) = some ss)
    (hu : ∃ s ∈ ss, (∃ n, s.power = .notAvailable n) ∨ (∃ n, s.mode = .notAvailable n) ∨
      (∃ n, s.fanSpeed = .notAvailable n)) : ∃ e, decode b nr rl rc = .error e :=
  SpecAgree5.undefined_rejected_C023 b nr rl rc hb ss hs hu

/-- **Stride clause, decoder side.**  When the AC status decoder returns a message, the announced stride is at
least the known record size 8, there is one record per announced count, record `i` is what `decRec` reads at
offset `nonRepeat + i * stride` of the sub data, and what is left is everything after
`nonRepeat + stride * count`. -/
theorem C05_g5_stride_offsets_C023 (b : Bytes) (nr rl rc : Nat) (zs : List AcStatusData) (rest : Bytes)
    (h : decode b nr rl rc = .ok (.status zs, rest)) :
    8 ≤ rl ∧ zs.length = rc ∧ rest = b.drop (nr + rl * rc) ∧
      ∀ i, i < rc → ∃ z, zs[i]? = some z ∧ decRec (b.drop (nr + i * rl)) = .ok z :=
  SpecAgree5.stride_offsets_C023 b nr rl rc zs rest h

/-- **Stride clause, decoder side, converse**: for EVERY announced stride ≥ 8 (and a non-request header), if each
of the `count` offsets `nonRepeat + i * stride` holds a decodable record, the decoder returns a message. -/
theorem C05_g5_stride_accepted_C023 (b : Bytes) (nr rl rc : Nat) (h8 : 8 ≤ rl)
    (hrec : ∀ i, i < rc → ∃ z, decRec (b.drop (nr + i * rl)) = .ok z) :
    ∃ zs, decode b nr rl rc = .ok (.status zs, b.drop (nr + rl * rc)) :=
  SpecAgree5.stride_accepted_C023 b nr rl rc h8 hrec

/-- **Stride clause: a stride below the known record size is rejected** (unless the header is the request form
`repeat_length = 0 ∧ repeat_count = 0`). -/
theorem C05_g5_stride_below_known_size_rejected_C023 (b : Bytes) (nr rl rc : Nat) (h8 : rl < 8)
    (hreq : ¬ (rl = 0 ∧ rc = 0)) : decode b nr rl rc = .error .decodeError :=
  SpecAgree5.stride_below_known_size_rejected_C023 b nr rl rc h8 hreq

/-- **Stride clause, vendor side**: record `i` of the vendor reading is the documented 8-byte prefix of the block
of `stride` bytes at offset `normal + i * stride`. -/
theorem C05_g5_spec_stride_offsets_C023 (b : Bytes) (nr rl rc : Nat) (ss : List AcStatus)
    (h : readAcStatus (subHeader 0x23 nr rl rc ++ b) = some ss) :
    8 ≤ rl ∧ b.length = nr + rl * rc ∧ ss.length = rc ∧
      ∀ i, i < rc → ∃ s, ss[i]? = some s ∧ readAcStatusRecord (rawRec b nr rl i) = some s :=
  SpecAgree5.spec_stride_offsets_C023 b nr rl rc ss h

/-- the vendor reader rejects a stride below 8 as well -/
theorem C05_g5_spec_stride_below_known_size_rejected_C023 (b : Bytes) (nr rl rc : Nat) (h8 : rl < 8) :
    readAcStatus (subHeader 0x23 nr rl rc ++ b) = none :=
  SpecAgree5.spec_stride_below_known_size_rejected_C023 b nr rl rc h8

/-- what the decoder reads as the request form is not a status message for the vendor reader either; with no
normal data announced it is the vendor's request form -/
theorem C05_g5_request_form_C023 (b : Bytes) (nr rl rc : Nat) (h : decode b nr rl rc = .ok (.request, [])) :
    readAcStatus (subHeader 0x23 nr rl rc ++ b) = none ∧
      (nr = 0 → PyAirtouch.Spec.At5.isAcStatusRequest (subHeader 0x23 nr rl rc ++ b) = true) :=
  SpecAgree5.request_form_C023 b nr rl rc h

/-- The length hypothesis of `decode_agrees_C023` cannot be dropped: the first AC of the document's example with
announced stride 10 but only the 8 known bytes present.  The decoder returns the AC and consumes everything; the
vendor reader refuses ("Data length = 8 + normal + repeat length * repeat count"). -/
theorem C05_g5_decode_agrees_C023_needs_length :
    decode [0x10, 0x12, 0x78, 0xC0, 0x02, 0xDA, 0x00, 0x00] 0 10 1 =
        .ok (.status [{ ac_number := 0, power_state := .ON, mode := .HEAT, fan_speed := .LOW, turbo_active := false,
                        bypass_active := false, spill_active := false, timer_set := false, set_point := 220,
                        temperature := 230, error_code := 0 }], []) ∧
      readAcStatus (subHeader 0x23 0 10 1 ++ [0x10, 0x12, 0x78, 0xC0, 0x02, 0xDA, 0x00, 0x00]) = none :=
  SpecAgree5.decode_agrees_C023_needs_length

/-! ### non-vacuity: the document's own response for 2 ACs (4.a.iv), 10-byte records -/

def exC023 : Bytes :=
  [0x10, 0x12, 0x78, 0xC0, 0x02, 0xDA, 0x00, 0x00, 0x80, 0x00,
   0x01, 0x42, 0x64, 0xC0, 0x02, 0xE4, 0x00, 0x00, 0x80, 0x00]

example : subHeader 0x23 0 10 2 ++ exC023 = PyAirtouch.Spec.At5.exAcStatusData := by decide
example : decode exC023 0 10 2 = .ok (.status
    [{ ac_number := 0, power_state := .ON, mode := .HEAT, fan_speed := .LOW, turbo_active := false,
       bypass_active := false, spill_active := false, timer_set := false, set_point := 220, temperature := 230,
       error_code := 0 },
     { ac_number := 1, power_state := .OFF, mode := .COOL, fan_speed := .LOW, turbo_active := false,
       bypass_active := false, spill_active := false, timer_set := false, set_point := 200, temperature := 240,
       error_code := 0 }], []) := by rfl
example : ∃ zs, decode exC023 0 10 2 = .ok (.status zs, []) ∧
    ∃ ss, readAcStatus (subHeader 0x23 0 10 2 ++ exC023) = some ss ∧ RecordWise AgreeC023 zs ss :=
  ⟨_, by rfl, C05_g5_decode_agrees_C023 exC023 0 10 2 (by unfold AllBytes; decide) (by decide) _ (by rfl)⟩

/-- an undefined mode code (0101) is rejected -/
example : decode [0x10, 0x52, 0x78, 0xC0, 0x02, 0xDA, 0x00, 0x00] 0 8 1 = .error .valueError := by rfl

end C023

/-! ## Zone names (0x1F / 0xFF13) -/
section FF13
open PyAirtouch.Model.At5.FF13
open PyAirtouch.Spec.At5 (ZoneName readZoneNames)

/-- **Zone names.**  No extra hypothesis: called as the receive path calls it (`message_length` = the bytes present) the
decoder either raises or consumes everything, and then the vendor reader returns the records the mapping was
filled from. -/
theorem C05_g5_decode_agrees_FF13 (b : Bytes) (m : ZoneNamesMessage) (rest : Bytes)
    (h : decode b b.length = .ok (.message m, rest)) :
    rest = [] ∧ ∃ ss, readZoneNames ([0xFF, 0x13] ++ b) = some ss ∧ AgreeFF13 m ss :=
  SpecAgree5.decode_agrees_FF13 b m rest h

/-- what the decoder reads as a request (no byte: all zones; one byte: that zone) is the vendor's request of the
same meaning -/
theorem C05_g5_request_form_FF13 (b : Bytes) (r : ZoneNamesRequest) (rest : Bytes)
    (h : decode b b.length = .ok (.request r, rest)) :
    rest = [] ∧ PyAirtouch.Spec.At5.readExtendedRequest ([0xFF, 0x13] ++ b) =
      some (match r.zone_number with
        | none => .zoneNamesAll
        | some z => .zoneName z) :=
  SpecAgree5.request_form_FF13 b r rest h

/-! ### non-vacuity: the document's three-zone example (4.b.iii) and a repeated zone number -/

def exFF13 : Bytes :=
  [0x00, 0x06, 0x4C, 0x69, 0x76, 0x69, 0x6E, 0x67, 0x01, 0x07, 0x4B, 0x69, 0x74, 0x63, 0x68, 0x65, 0x6E,
   0x02, 0x07, 0x42, 0x65, 0x64, 0x72, 0x6F, 0x6F, 0x6D]

example : [0xFF, 0x13] ++ exFF13 = PyAirtouch.Spec.At5.exZoneNamesData := by decide
theorem exFF13_decodes : decode exFF13 exFF13.length = .ok (.message ⟨[(0, [0x4C, 0x69, 0x76, 0x69, 0x6E, 0x67]),
    (1, [0x4B, 0x69, 0x74, 0x63, 0x68, 0x65, 0x6E]), (2, [0x42, 0x65, 0x64, 0x72, 0x6F, 0x6F, 0x6D])]⟩, []) := by
  have v1 : utf8Valid [0x4C, 0x69, 0x76, 0x69, 0x6E, 0x67] = true := by decide
  have v2 : utf8Valid [0x4B, 0x69, 0x74, 0x63, 0x68, 0x65, 0x6E] = true := by decide
  have v3 : utf8Valid [0x42, 0x65, 0x64, 0x72, 0x6F, 0x6F, 0x6D] = true := by decide
  simp [exFF13, decode, decNames, dictInsert, v1, v2, v3]
/-- the theorem applies to it -/
example : ∃ ss, readZoneNames ([0xFF, 0x13] ++ exFF13) = some ss ∧ AgreeFF13 ⟨[(0, [0x4C, 0x69, 0x76, 0x69, 0x6E, 0x67]),
    (1, [0x4B, 0x69, 0x74, 0x63, 0x68, 0x65, 0x6E]), (2, [0x42, 0x65, 0x64, 0x72, 0x6F, 0x6F, 0x6D])]⟩ ss :=
  (C05_g5_decode_agrees_FF13 exFF13 _ [] exFF13_decodes).2
/-- zone 0 named twice ("A", then "B"): the vendor reading has two records, the mapping one entry with the last
name — relaxation NAMES_DUPLICATE_NUMBER_LAST_WINS -/
example : decode [0, 1, 0x41, 0, 1, 0x42] 6 = .ok (.message ⟨[(0, [0x42])]⟩, []) ∧
    readZoneNames ([0xFF, 0x13] ++ [0, 1, 0x41, 0, 1, 0x42]) = some [⟨0, [0x41]⟩, ⟨0, [0x42]⟩] := by
  have v1 : utf8Valid [0x41] = true := by decide
  have v2 : utf8Valid [0x42] = true := by decide
  exact ⟨by simp [decode, decNames, dictInsert, v1, v2], by decide⟩
example : AgreeFF13 ⟨[(0, [0x42])]⟩ [⟨0, [0x41]⟩, ⟨0, [0x42]⟩] := Or.inr ⟨by decide, by decide⟩

end FF13

/-! ## AC error information (0x1F / 0xFF10) -/
section FF10
open PyAirtouch.Model.At5.FF10
open PyAirtouch.Spec.At5 (AcError readAcError)

/-- **AC error information.**  ADDED HYPOTHESIS `hlen` (Byte4, the string length, does not exceed the bytes present):
without it the statement is false, see `decode_agrees_FF10_needs_length` — the decoder returns the short slice,
the vendor reader ("exactly as long as Byte4 says") refuses. -/
theorem C05_g5_decode_agrees_FF10 (b : Bytes) (hlen : ∀ n, b[1]? = some n → 2 + n ≤ b.length)
    (m : AcErrorInformationMessage) (h : decode b b.length = .ok (.message m, [])) :
    ∃ s, readAcError ([0xFF, 0x10] ++ b) = some s ∧ AgreeFF10 m s :=
  SpecAgree5.decode_agrees_FF10 b hlen m h

/-- Whenever both sides read the payload, they read the same. -/
theorem C05_g5_decode_agrees_FF10_of_spec (b : Bytes) (m : AcErrorInformationMessage) (rest : Bytes) (s : AcError)
    (h : decode b b.length = .ok (.message m, rest)) (hs : readAcError ([0xFF, 0x10] ++ b) = some s) :
    AgreeFF10 m s ∧ rest = [] :=
  SpecAgree5.decode_agrees_FF10_of_spec b m rest s h hs

/-- what the decoder reads as the request (one byte) is the vendor's request for that AC -/
theorem C05_g5_request_form_FF10 (b : Bytes) (r : AcErrorInformationRequest) (rest : Bytes)
    (h : decode b b.length = .ok (.request r, rest)) :
    rest = [] ∧ PyAirtouch.Spec.At5.readExtendedRequest ([0xFF, 0x10] ++ b) = some (.acError r.ac_number) :=
  SpecAgree5.request_form_FF10 b r rest h

/-- The length hypothesis of `decode_agrees_FF10` cannot be dropped: `ff10 01 01` announces a one-byte string
that is not there.  The decoder returns the (empty) short slice; the vendor reader refuses. -/
theorem C05_g5_decode_agrees_FF10_needs_length :
    decode [0x01, 0x01] 2 = .ok (.message ⟨1, some []⟩, []) ∧ readAcError ([0xFF, 0x10] ++ [0x01, 0x01]) = none :=
  SpecAgree5.decode_agrees_FF10_needs_length

/-! ### non-vacuity: the document's example "ER: FFFE" (4.b.ii) and "no error" -/

def exFF10 : Bytes := [0x00, 0x08, 0x45, 0x52, 0x3A, 0x20, 0x46, 0x46, 0x46, 0x45]

example : [0xFF, 0x10] ++ exFF10 = PyAirtouch.Spec.At5.exAcErrorData := by decide
example : decode exFF10 exFF10.length =
    .ok (.message ⟨0, some [0x45, 0x52, 0x3A, 0x20, 0x46, 0x46, 0x46, 0x45]⟩, []) := by rfl
example : ∃ s, readAcError ([0xFF, 0x10] ++ exFF10) = some s ∧
    AgreeFF10 ⟨0, some [0x45, 0x52, 0x3A, 0x20, 0x46, 0x46, 0x46, 0x45]⟩ s :=
  C05_g5_decode_agrees_FF10 exFF10 (by intro n hn; cases hn; decide) _ (by rfl)
/-- "If no error, will be 0": `None` against the empty string -/
example : decode [0x02, 0x00] 2 = .ok (.message ⟨2, none⟩, []) ∧
    readAcError ([0xFF, 0x10] ++ [0x02, 0x00]) = some ⟨2, []⟩ := ⟨by rfl, by decide⟩

end FF10

/-! ## Console version (0x1F / 0xFF30) -/
section FF30
open PyAirtouch.Model.At5.FF30
open PyAirtouch.Spec.At5 (ConsoleVersion readConsoleVersion)

/-- **Console version.**  ADDED HYPOTHESIS `hlen` (Byte4, the string length, does not exceed the bytes present); necessary
by `decode_agrees_FF30_needs_length`. -/
theorem C05_g5_decode_agrees_FF30 (b : Bytes) (hlen : ∀ n, b[1]? = some n → 2 + n ≤ b.length)
    (m : ConsoleVersionMessage) (h : decode b b.length = .ok (.message m, [])) :
    ∃ s, readConsoleVersion ([0xFF, 0x30] ++ b) = some s ∧ AgreeFF30 m s :=
  SpecAgree5.decode_agrees_FF30 b hlen m h

/-- Whenever both sides read the payload, they read the same. -/
theorem C05_g5_decode_agrees_FF30_of_spec (b : Bytes) (m : ConsoleVersionMessage) (rest : Bytes) (s : ConsoleVersion)
    (h : decode b b.length = .ok (.message m, rest)) (hs : readConsoleVersion ([0xFF, 0x30] ++ b) = some s) :
    AgreeFF30 m s ∧ rest = [] :=
  SpecAgree5.decode_agrees_FF30_of_spec b m rest s h hs

/-- what the decoder reads as the request (no byte) is the vendor's console version request -/
theorem C05_g5_request_form_FF30 (b : Bytes) (rest : Bytes) (h : decode b b.length = .ok (.request, rest)) :
    rest = [] ∧ PyAirtouch.Spec.At5.readExtendedRequest ([0xFF, 0x30] ++ b) = some .consoleVersion :=
  SpecAgree5.request_form_FF30 b rest h

/-- The length hypothesis of `decode_agrees_FF30` cannot be dropped: `ff30 b3 ce` announces 206 bytes that are
not there.  The decoder returns the short (empty) slice as one empty version; the vendor reader refuses. -/
theorem C05_g5_decode_agrees_FF30_needs_length :
    decode [0xB3, 0xCE] 2 = .ok (.message ⟨true, [[]]⟩, []) ∧
      readConsoleVersion ([0xFF, 0x30] ++ [0xB3, 0xCE]) = none :=
  SpecAgree5.decode_agrees_FF30_needs_length

/-! ### non-vacuity: the document's example "1.0.3,1.0.3" (4.b.iv) -/

def exFF30 : Bytes := [0x00, 0x0B, 0x31, 0x2E, 0x30, 0x2E, 0x33, 0x2C, 0x31, 0x2E, 0x30, 0x2E, 0x33]

example : [0xFF, 0x30] ++ exFF30 = PyAirtouch.Spec.At5.exConsoleVersionData := by decide
example : decode exFF30 exFF30.length =
    .ok (.message ⟨false, [[0x31, 0x2E, 0x30, 0x2E, 0x33], [0x31, 0x2E, 0x30, 0x2E, 0x33]]⟩, []) := by rfl
example : ∃ s, readConsoleVersion ([0xFF, 0x30] ++ exFF30) = some s ∧
    AgreeFF30 ⟨false, [[0x31, 0x2E, 0x30, 0x2E, 0x33], [0x31, 0x2E, 0x30, 0x2E, 0x33]]⟩ s :=
  C05_g5_decode_agrees_FF30 exFF30 (by intro n hn; cases hn; decide) _ (by rfl)

end FF30

/-! ## AC ability (0x1F / 0xFF11) -/
section FF11
open PyAirtouch.Model.At5.FF11
open PyAirtouch.Spec.At5 (readAcAbility)

/-- **AC ability.**  For EVERY following length (the decoder advances by the "following data length" byte, Byte4 of
each record, as the vendor reader does; formerly a recorded defect kept out by a hypothesis): whenever the decoder
accepts a payload as an ability message, all of the payload is consumed, the vendor reader reads it too, and the
decoder's reading is the vendor reading, record by record.  Every record's following length is at least the 24
described bytes. -/
theorem C05_g5_decode_agrees_FF11 (b : Bytes)
    (acs : List AcAbility) (rest : Bytes) (h : decode b b.length = .ok (.ability acs, rest)) :
    rest = [] ∧ ∃ ss, readAcAbility ([0xFF, 0x11] ++ b) = some ss ∧ RecordWise AgreeFF11 acs ss ∧
      ∀ s ∈ ss, 24 ≤ s.followingLength :=
  SpecAgree5.decode_agrees_FF11 b acs rest h

/-- The same in the vendor reading's terms: whenever the vendor reader reads the payload into `ss`, the decoder's
records are those, whatever their following lengths. -/
theorem C05_g5_decode_agrees_FF11_of_spec (b : Bytes) (acs : List AcAbility) (rest : Bytes) (ss : List Spec.At5.AcAbility)
    (h : decode b b.length = .ok (.ability acs, rest)) (hs : readAcAbility ([0xFF, 0x11] ++ b) = some ss) :
    RecordWise AgreeFF11 acs ss ∧ rest = [] :=
  SpecAgree5.decode_agrees_FF11_of_spec b acs rest ss h hs

/-- the repaired defect, concretely: `ff11 00 32 <50 bytes>` is ONE AC ("UNIT") for the decoder and for the vendor
reader (following length 50) -/
theorem C05_g5_decode_FF11_long_record :
    isOneAbilityNamed [0x55, 0x4E, 0x49, 0x54] (decode longFF11 longFF11.length) = true ∧
    (∃ s, readAcAbility ([0xFF, 0x11] ++ longFF11) = some [s] ∧ s.followingLength = 50) :=
  SpecAgree5.decode_FF11_long_record

/-- what the decoder reads as a request (no byte: all ACs; one byte: that AC) is the vendor's request of the same
meaning -/
theorem C05_g5_request_form_FF11 (b : Bytes) (r : Option Nat) (rest : Bytes)
    (h : decode b b.length = .ok (.request r, rest)) :
    rest = [] ∧ PyAirtouch.Spec.At5.readExtendedRequest ([0xFF, 0x11] ++ b) =
      some (match (generalizing := false) r with
        | none => .acAbilityAll
        | some n => .acAbility n) :=
  SpecAgree5.request_form_FF11 b r rest h

/-! ### non-vacuity: the document's example "UNIT" (4.b.i) -/

def exFF11 : Bytes :=
  [0x00, 0x18, 0x55, 0x4E, 0x49, 0x54, 0, 0, 0, 0, 0, 0, 0, 0, 0, 0, 0, 0, 0x00, 0x04, 0x17, 0x1D, 0x10, 0x1F, 0x12, 0x1F]

example : [0xFF, 0x11] ++ exFF11 = PyAirtouch.Spec.At5.exAcAbilityData := by decide
example (acs : List AcAbility) (rest : Bytes) (h : decode exFF11 exFF11.length = .ok (.ability acs, rest)) :
    ∃ ss, readAcAbility ([0xFF, 0x11] ++ exFF11) = some ss ∧ RecordWise AgreeFF11 acs ss :=
  let ⟨_, ss, h1, h2, _⟩ := C05_g5_decode_agrees_FF11 exFF11 acs rest h
  ⟨ss, h1, h2⟩
-- the hypothesis is satisfiable: the decoder accepts the example as one AC named "UNIT"
example : isOneAbilityNamed [0x55, 0x4E, 0x49, 0x54] (decode exFF11 exFF11.length) = true := by decide +kernel

-- a longer record (following length 50: the 24 described bytes and 26 more): one AC for both sides, and they agree
example (acs : List AcAbility) (rest : Bytes) (h : decode longFF11 longFF11.length = .ok (.ability acs, rest)) :
    rest = [] ∧ ∃ ss, readAcAbility ([0xFF, 0x11] ++ longFF11) = some ss ∧ RecordWise AgreeFF11 acs ss :=
  let ⟨h0, ss, h1, h2, _⟩ := C05_g5_decode_agrees_FF11 longFF11 acs rest h
  ⟨h0, ss, h1, h2⟩
example : (readAcAbility ([0xFF, 0x11] ++ longFF11)).map (·.map fun s => (s.ac, s.followingLength, s.name)) =
    some [(0, 50, [0x55, 0x4E, 0x49, 0x54])] := by decide +kernel

end FF11

end PyAirtouch.Props.C05
