import PyAirtouch.Lemmas.At4X2A
import PyAirtouch.Lemmas.At4X2B
import PyAirtouch.Lemmas.At4X2C
import PyAirtouch.Lemmas.At4X2D
import PyAirtouch.Lemmas.At4X36
import PyAirtouch.Lemmas.At4X37
import PyAirtouch.Lemmas.At4FF10
import PyAirtouch.Lemmas.At4FF11
import PyAirtouch.Lemmas.At4FF12
import PyAirtouch.Lemmas.At4FF20
import PyAirtouch.Lemmas.At4FF30
import PyAirtouch.Lemmas.At5C020
import PyAirtouch.Lemmas.At5C021
import PyAirtouch.Lemmas.At5C022
import PyAirtouch.Lemmas.At5C023
import PyAirtouch.Lemmas.At5C032
import PyAirtouch.Lemmas.At5C033
import PyAirtouch.Lemmas.At5FF10
import PyAirtouch.Lemmas.At5FF11
import PyAirtouch.Lemmas.At5FF13
import PyAirtouch.Lemmas.At5FF49
import PyAirtouch.Lemmas.At5FF30
/-!
# C03 — every message frames and parses back identically, lengths agree (per message module)

For each of the 22 message modules (18 message and request classes per generation) two property
theorems, restated here from the module's lemma file with their exact types (`type_of%`):

* `C03_<module>_length`  — the number of bytes `encode` produces equals the length `size` computes in
  advance for the header (for AirTouch 5 control/status sub-messages: `non_repeat_size + repeat_size *
  repeat_count`, the three numbers written into the 0xC0 sub-header);
* `C03_<module>_roundtrip` — for every well-formed message `m` (`WF m`: field values in their protocol
  domains; `wfBool_iff` makes it decidable at run time) `decode (encode m ++ rest)` with the header the
  send path builds from `size m` returns exactly `m` and leaves exactly `rest`.

Record counts, names and all field values are universally quantified (induction over the record list;
`omega` for the bit fields).  Whole-frame theorems (header, wrappers, CRC) are in `Props/C03Frame.lean`.
-/
namespace PyAirtouch.Props.C03

theorem C03_At4X2A_length : type_of% @PyAirtouch.Lemmas.At4X2A.encode_length := @PyAirtouch.Lemmas.At4X2A.encode_length
theorem C03_At4X2A_roundtrip : type_of% @PyAirtouch.Lemmas.At4X2A.decode_encode := @PyAirtouch.Lemmas.At4X2A.decode_encode
theorem C03_At4X2B_length : type_of% @PyAirtouch.Lemmas.At4X2B.encode_length := @PyAirtouch.Lemmas.At4X2B.encode_length
theorem C03_At4X2B_roundtrip : type_of% @PyAirtouch.Lemmas.At4X2B.decode_encode := @PyAirtouch.Lemmas.At4X2B.decode_encode
theorem C03_At4X2C_length : type_of% @PyAirtouch.Lemmas.At4X2C.encode_length := @PyAirtouch.Lemmas.At4X2C.encode_length
theorem C03_At4X2C_roundtrip : type_of% @PyAirtouch.Lemmas.At4X2C.decode_encode := @PyAirtouch.Lemmas.At4X2C.decode_encode
theorem C03_At4X2D_length : type_of% @PyAirtouch.Lemmas.At4X2D.encode_length := @PyAirtouch.Lemmas.At4X2D.encode_length
theorem C03_At4X2D_roundtrip : type_of% @PyAirtouch.Lemmas.At4X2D.decode_encode := @PyAirtouch.Lemmas.At4X2D.decode_encode
theorem C03_At4X36_length : type_of% @PyAirtouch.Lemmas.At4X36.encode_length := @PyAirtouch.Lemmas.At4X36.encode_length
theorem C03_At4X36_roundtrip : type_of% @PyAirtouch.Lemmas.At4X36.decode_encode := @PyAirtouch.Lemmas.At4X36.decode_encode
theorem C03_At4X37_length : type_of% @PyAirtouch.Lemmas.At4X37.encode_length := @PyAirtouch.Lemmas.At4X37.encode_length
theorem C03_At4X37_roundtrip : type_of% @PyAirtouch.Lemmas.At4X37.decode_encode := @PyAirtouch.Lemmas.At4X37.decode_encode
theorem C03_At4FF10_length : type_of% @PyAirtouch.Lemmas.At4FF10.encode_length := @PyAirtouch.Lemmas.At4FF10.encode_length
theorem C03_At4FF10_roundtrip : type_of% @PyAirtouch.Lemmas.At4FF10.decode_encode := @PyAirtouch.Lemmas.At4FF10.decode_encode
theorem C03_At4FF11_length : type_of% @PyAirtouch.Lemmas.At4FF11.encode_length := @PyAirtouch.Lemmas.At4FF11.encode_length
theorem C03_At4FF11_roundtrip : type_of% @PyAirtouch.Lemmas.At4FF11.decode_encode := @PyAirtouch.Lemmas.At4FF11.decode_encode
theorem C03_At4FF12_length : type_of% @PyAirtouch.Lemmas.At4FF12.encode_length := @PyAirtouch.Lemmas.At4FF12.encode_length
theorem C03_At4FF12_roundtrip : type_of% @PyAirtouch.Lemmas.At4FF12.decode_encode := @PyAirtouch.Lemmas.At4FF12.decode_encode
theorem C03_At4FF20_length : type_of% @PyAirtouch.Lemmas.At4FF20.encode_length := @PyAirtouch.Lemmas.At4FF20.encode_length
theorem C03_At4FF20_roundtrip : type_of% @PyAirtouch.Lemmas.At4FF20.decode_encode := @PyAirtouch.Lemmas.At4FF20.decode_encode
theorem C03_At4FF30_length : type_of% @PyAirtouch.Lemmas.At4FF30.encode_length := @PyAirtouch.Lemmas.At4FF30.encode_length
theorem C03_At4FF30_roundtrip : type_of% @PyAirtouch.Lemmas.At4FF30.decode_encode := @PyAirtouch.Lemmas.At4FF30.decode_encode
theorem C03_At5C020_length : type_of% @PyAirtouch.Lemmas.At5C020.encode_length := @PyAirtouch.Lemmas.At5C020.encode_length
theorem C03_At5C020_roundtrip : type_of% @PyAirtouch.Lemmas.At5C020.decode_encode := @PyAirtouch.Lemmas.At5C020.decode_encode
theorem C03_At5C021_length : type_of% @PyAirtouch.Lemmas.At5C021.encode_length := @PyAirtouch.Lemmas.At5C021.encode_length
theorem C03_At5C021_roundtrip : type_of% @PyAirtouch.Lemmas.At5C021.decode_encode := @PyAirtouch.Lemmas.At5C021.decode_encode
theorem C03_At5C022_length : type_of% @PyAirtouch.Lemmas.At5C022.encode_length := @PyAirtouch.Lemmas.At5C022.encode_length
theorem C03_At5C022_roundtrip : type_of% @PyAirtouch.Lemmas.At5C022.decode_encode := @PyAirtouch.Lemmas.At5C022.decode_encode
theorem C03_At5C023_length : type_of% @PyAirtouch.Lemmas.At5C023.encode_length := @PyAirtouch.Lemmas.At5C023.encode_length
theorem C03_At5C023_roundtrip : type_of% @PyAirtouch.Lemmas.At5C023.decode_encode := @PyAirtouch.Lemmas.At5C023.decode_encode
theorem C03_At5C032_length : type_of% @PyAirtouch.Lemmas.At5C032.encode_length := @PyAirtouch.Lemmas.At5C032.encode_length
theorem C03_At5C032_roundtrip : type_of% @PyAirtouch.Lemmas.At5C032.decode_encode := @PyAirtouch.Lemmas.At5C032.decode_encode
theorem C03_At5C033_length : type_of% @PyAirtouch.Lemmas.At5C033.encode_length := @PyAirtouch.Lemmas.At5C033.encode_length
theorem C03_At5C033_roundtrip : type_of% @PyAirtouch.Lemmas.At5C033.decode_encode := @PyAirtouch.Lemmas.At5C033.decode_encode
theorem C03_At5FF10_length : type_of% @PyAirtouch.Lemmas.At5FF10.encode_length := @PyAirtouch.Lemmas.At5FF10.encode_length
theorem C03_At5FF10_roundtrip : type_of% @PyAirtouch.Lemmas.At5FF10.decode_encode := @PyAirtouch.Lemmas.At5FF10.decode_encode
theorem C03_At5FF11_length : type_of% @PyAirtouch.Lemmas.At5FF11.encode_length := @PyAirtouch.Lemmas.At5FF11.encode_length
theorem C03_At5FF11_roundtrip : type_of% @PyAirtouch.Lemmas.At5FF11.decode_encode := @PyAirtouch.Lemmas.At5FF11.decode_encode
theorem C03_At5FF13_length : type_of% @PyAirtouch.Lemmas.At5FF13.encode_length := @PyAirtouch.Lemmas.At5FF13.encode_length
theorem C03_At5FF13_roundtrip : type_of% @PyAirtouch.Lemmas.At5FF13.decode_encode := @PyAirtouch.Lemmas.At5FF13.decode_encode
theorem C03_At5FF49_length : type_of% @PyAirtouch.Lemmas.At5FF49.encode_length := @PyAirtouch.Lemmas.At5FF49.encode_length
theorem C03_At5FF49_roundtrip : type_of% @PyAirtouch.Lemmas.At5FF49.decode_encode := @PyAirtouch.Lemmas.At5FF49.decode_encode
theorem C03_At5FF30_length : type_of% @PyAirtouch.Lemmas.At5FF30.encode_length := @PyAirtouch.Lemmas.At5FF30.encode_length
theorem C03_At5FF30_roundtrip : type_of% @PyAirtouch.Lemmas.At5FF30.decode_encode := @PyAirtouch.Lemmas.At5FF30.decode_encode

-- non-vacuity: a concrete well-formed AirTouch 4 group status message (the vendor example) round-trips
open PyAirtouch.Model.At4.X2B in
example : ∃ m rest, decode [0x40,0x64,0x00,0x00,0xff,0x00,0x41,0xe4,0x1a,0x80,0x61,0x80] 12 = .ok (m, rest) ∧
    wfBool m = true ∧ encode m = [0x40,0x64,0x00,0x00,0xff,0x00,0x41,0xe4,0x1a,0x80,0x61,0x80] ∧ size m = 12 := by
  refine ⟨_, _, rfl, ?_, ?_, ?_⟩ <;> decide

end PyAirtouch.Props.C03
