import PyAirtouch.Lemmas.Frame
import PyAirtouch.Lemmas.Registry4
import PyAirtouch.Lemmas.Registry5
/-!
# C13 — reception is independent of TCP segmentation

`feed` is the read loop (`readexactly`-driven `_read_one_message`); `feedAll` feeds a list of segments one by
one.  For EVERY list of segments (empty ones, single bytes, cuts inside prefixes / length fields / check bytes,
many frames in one segment) the deliveries, their order and the final state equal those of feeding the
concatenation at once; hence any two segmentations of the same byte stream deliver exactly the same messages,
once each, in the order sent.  Stated generically (`C13_*`) and for the two real protocols (`C13_g4_*`, `C13_g5_*`).
-/
namespace PyAirtouch.Props.C13
open PyAirtouch.Model PyAirtouch.Model.Frame PyAirtouch.Lemmas.Frame
theorem C13_feedAll_eq_feed_flatten : type_of% @PyAirtouch.Lemmas.Frame.feedAll_eq_feed_flatten := @PyAirtouch.Lemmas.Frame.feedAll_eq_feed_flatten
theorem C13_any_two_segmentations : type_of% @PyAirtouch.Lemmas.Frame.any_two_segmentations := @PyAirtouch.Lemmas.Frame.any_two_segmentations
theorem C13_feed_append : type_of% @PyAirtouch.Lemmas.Frame.feed_append := @PyAirtouch.Lemmas.Frame.feed_append
theorem C13_parseOne_deliver_append : type_of% @PyAirtouch.Lemmas.Frame.parseOne_deliver_append := @PyAirtouch.Lemmas.Frame.parseOne_deliver_append
theorem C13_parseOne_reject_append : type_of% @PyAirtouch.Lemmas.Frame.parseOne_reject_append := @PyAirtouch.Lemmas.Frame.parseOne_reject_append
theorem C13_parseAll_fuel : type_of% @PyAirtouch.Lemmas.Frame.parseAll_fuel := @PyAirtouch.Lemmas.Frame.parseAll_fuel

theorem C13_g4_any_two_segmentations (segs1 segs2 : List Bytes) (h : segs1.flatten = segs2.flatten) :
    feedAll At4.Registry.proto ⟨[], false⟩ segs1 = feedAll At4.Registry.proto ⟨[], false⟩ segs2 :=
  any_two_segmentations At4.Registry.proto (by decide) segs1 segs2 h

theorem C13_g5_any_two_segmentations (segs1 segs2 : List Bytes) (h : segs1.flatten = segs2.flatten) :
    feedAll At5.Registry.proto ⟨[], false⟩ segs1 = feedAll At5.Registry.proto ⟨[], false⟩ segs2 :=
  any_two_segmentations At5.Registry.proto (by decide) segs1 segs2 h

-- non-vacuity: the vendor frame cut inside its check bytes, with an empty segment in between
example : (feedAll At4.Registry.proto ⟨[], false⟩
      [[0x55, 0x55, 0x80, 0xb0, 0x01], [], [0x2b, 0x00, 0x00, 0xf5], [0x2f]]).1.length = 1 := by decide +kernel

end PyAirtouch.Props.C13
