import PyAirtouch.Lemmas.SockLoss
/-!
# C01 — no accepted message disappears without cause

Model: `PyAirtouch.Model.Sock`; monitors: `dropsJustified`, `noSilentLoss` of `PyAirtouch.Spec.Trace`; proofs:
`Lemmas/SockLoss.lean`.  All statements are about `ReachableWF` states: reachable by a label sequence whose
sends carry pairwise distinct identities (the identity is the only thing that links a `qdrop` / write event to its
`accept`; with a repeated identity `acceptedAt` finds the first acceptance only).

* `C01_drops_justified` — every `qdrop` in the model's trace states a true reason: `expired` only at or after the
  expiry fixed at acceptance, `encErr` only for a message accepted with `encOk = false`, `maxRetries` only after at
  least one write attempt for that message.
* `C01_in_flight_attempted` — an entry held by a task suspended in `drain()` (`drainAwait w e r`) has a write attempt
  in the trace.
* `C01_accounted_strong` — every accepted message is still in the queue, or the trace has a write attempt
  (`wire` / `deadWrite` / `writeFault`) or a `qdrop` for it, **or the socket was closed and opened again after its
  acceptance** (`reopenedSince`, defined in `Lemmas/SockLoss.lean`: the trace reads `… accept sid … apiClose … apiOpen …`).
  `C01_accounted` is the weaker form with the in-flight alternative.
* `C01_accounted_current_session`, `C01_accounted_no_close` — the three-way statement as it was before /repo 3897b77, for
  messages of the session that is running (`reopenedSince … = false`), in particular for histories without `close()`.
* `C01_reopen_discards_silently` — the witness: accept while the link is down; `close()`; `open_socket()`; the entry is
  gone and nothing in the trace says so.
* `C01_no_silent_loss_quiescent` — in every reachable state with an empty queue (tasks may be anywhere; in particular
  in every `Healed` state: `C01_no_silent_loss_healed`) every accepted message has a write attempt or a drop in
  the trace or was accepted before a close / re-open, and all drops are justified; `C01_no_silent_loss_quiescent_no_close`
  is the old two-way form for histories without `close()`.

**What changed with /repo 3897b77 and why.**  `open_socket()` on a socket that is not open now clears the send queue
(`self._message_queue.clear()`), so that messages of an earlier session are not transmitted ahead of the next session's
handshake.  The code logs nothing there.  A message accepted in the earlier session and still queued - it was waiting for a
connection when `close()` ran (`close()` leaves the queue alone), or a sender suspended in `drain()` put it back through the
retry path after `close()` had returned - therefore disappears without a write attempt and without a `qdrop`.  The old
statements `C01_accounted_strong`, `C01_accounted`, `C01_no_silent_loss_quiescent`, `C01_no_silent_loss_healed` became false
(`C01_reopen_discards_silently`); they now carry the extra alternative `reopenedSince`, which is exact (a redundant
`open_socket()` on an open socket clears nothing and does not count).  The Spec monitor `noSilentLoss` does not judge
histories in which the client was closed (`hasClose`), so `C01_no_silent_loss_marked` / `_unmarked` are unchanged.
* `C01_no_silent_loss_marked` — the monitor `noSilentLoss` itself accepts the trace of every reachable state with an
  empty queue after the harness marker `heal th` has been inserted at an arbitrary position, for every `th`.
  The model never emits `heal`; on its own trace the monitor reduces to `dropsJustified`
  (`C01_no_silent_loss_unmarked`).
-/
namespace PyAirtouch.Props.C01
open PyAirtouch.Model.Sock PyAirtouch.Spec.Trace PyAirtouch.Lemmas.Sock PyAirtouch.Lemmas.SockHeal
open PyAirtouch.Lemmas.SockLoss (reopenedSince)

/-- every drop states a true reason -/
theorem C01_drops_justified {s : Sys} (h : ReachableWF s) : dropsJustified s.core.trace = true :=
  Lemmas.SockLoss.C01_drops_justified h

/-- an entry held in flight by a task suspended in `drain()` has a write attempt in the trace -/
theorem C01_in_flight_attempted {s : Sys} (h : ReachableWF s) {k : Task} (hk : k ∈ s.tasks) {w : Nat} {x : Entry}
    {r : Ret} (hpc : k.pc = .drainAwait w x r) : 1 ≤ writeAttempts s.core.trace x.sid :=
  Lemmas.SockLoss.C01_in_flight_attempted h hk hpc

/-- accounting, strong form: still queued, or a write attempt, or a drop, or accepted before the socket was closed and
    opened again.  (The last alternative is new with /repo 3897b77: `open_socket()` on a closed socket discards the queue
    without a log record; without it the statement is false, see `C01_reopen_discards_silently`.) -/
theorem C01_accounted_strong {s : Sys} (h : ReachableWF s) {sid t e r : Nat} {ok : Bool}
    (hmem : Ev.accept sid t e r ok ∈ s.core.trace) :
    (∃ x ∈ s.core.queue, x.sid = sid) ∨ 1 ≤ writeAttempts s.core.trace sid ∨ dropped s.core.trace sid = true ∨
      reopenedSince s.core.trace sid = true :=
  Lemmas.SockLoss.C01_accounted_strong h hmem

/-- the statement as it was before /repo 3897b77, for messages accepted in the session that is running (or in the last
    one, if the socket has not been opened again) -/
theorem C01_accounted_current_session {s : Sys} (h : ReachableWF s) {sid t e r : Nat} {ok : Bool}
    (hmem : Ev.accept sid t e r ok ∈ s.core.trace) (hcur : reopenedSince s.core.trace sid = false) :
    (∃ x ∈ s.core.queue, x.sid = sid) ∨ 1 ≤ writeAttempts s.core.trace sid ∨ dropped s.core.trace sid = true :=
  Lemmas.SockLoss.C01_accounted_current_session h hmem hcur

/-- … in particular in every history without `close()` -/
theorem C01_accounted_no_close {s : Sys} (h : ReachableWF s) {sid t e r : Nat} {ok : Bool}
    (hmem : Ev.accept sid t e r ok ∈ s.core.trace) (hnc : hasClose s.core.trace = false) :
    (∃ x ∈ s.core.queue, x.sid = sid) ∨ 1 ≤ writeAttempts s.core.trace sid ∨ dropped s.core.trace sid = true :=
  Lemmas.SockLoss.C01_accounted_no_close h hmem hnc

/-- **the history in which the unrestricted three-way statement fails**: `open_socket()`; `send(1)` accepted while the link
    is down; a complete `close()` (the entry stays queued); `open_socket()`: the queue is empty, no write attempt, no drop,
    no task holds the message, and the trace after the `accept` is `apiClose, notify false, apiCloseDone, apiOpen` -/
theorem C01_reopen_discards_silently : ∃ s, ReachableWF s ∧ Ev.accept 1 0 240 2 true ∈ s.core.trace ∧
    s.core.queue = [] ∧ writeAttempts s.core.trace 1 = 0 ∧ dropped s.core.trace 1 = false ∧
    (∀ k ∈ s.tasks, k.pc = .finished ∨ k.pc = .connStart) ∧
    s.core.trace = [.apiOpen 0, .accept 1 0 240 2 true, .apiClose 0, .notify false 0, .apiCloseDone 0, .apiOpen 0] ∧
    reopenedSince s.core.trace 1 = true ∧
    ¬ ((∃ x ∈ s.core.queue, x.sid = 1) ∨ 1 ≤ writeAttempts s.core.trace 1 ∨ dropped s.core.trace 1 = true) :=
  Lemmas.SockLoss.reopen_discards_silently

/-- accounting: still queued, or in flight in some task, or a write attempt, or a drop, or accepted before the socket was
    closed and opened again (new with /repo 3897b77) -/
theorem C01_accounted {s : Sys} (h : ReachableWF s) {sid t e r : Nat} {ok : Bool}
    (hmem : Ev.accept sid t e r ok ∈ s.core.trace) :
    (∃ x ∈ s.core.queue, x.sid = sid) ∨
    (∃ k ∈ s.tasks, ∃ w x r', k.pc = .drainAwait w x r' ∧ x.sid = sid) ∨
    1 ≤ writeAttempts s.core.trace sid ∨ dropped s.core.trace sid = true ∨ reopenedSince s.core.trace sid = true :=
  Lemmas.SockLoss.C01_accounted h hmem

/-- with an empty queue every accepted message has a write attempt or a drop or was accepted before the socket was closed
    and opened again (new with /repo 3897b77: the re-open is one of the ways the queue becomes empty), and every drop is
    justified -/
theorem C01_no_silent_loss_quiescent {s : Sys} (h : ReachableWF s) (hq : s.core.queue = []) :
    dropsJustified s.core.trace = true ∧
    ∀ sid t e r ok, Ev.accept sid t e r ok ∈ s.core.trace →
      1 ≤ writeAttempts s.core.trace sid ∨ dropped s.core.trace sid = true ∨ reopenedSince s.core.trace sid = true :=
  Lemmas.SockLoss.C01_no_silent_loss_quiescent h hq

/-- the statement as it was before /repo 3897b77, for histories without `close()` -/
theorem C01_no_silent_loss_quiescent_no_close {s : Sys} (h : ReachableWF s) (hq : s.core.queue = [])
    (hnc : hasClose s.core.trace = false) :
    dropsJustified s.core.trace = true ∧
    ∀ sid t e r ok, Ev.accept sid t e r ok ∈ s.core.trace →
      1 ≤ writeAttempts s.core.trace sid ∨ dropped s.core.trace sid = true :=
  Lemmas.SockLoss.C01_no_silent_loss_quiescent_no_close h hq hnc

theorem C01_no_silent_loss_healed {s : Sys} (h : ReachableWF s) (hh : Healed s) :
    dropsJustified s.core.trace = true ∧
    ∀ sid t e r ok, Ev.accept sid t e r ok ∈ s.core.trace →
      1 ≤ writeAttempts s.core.trace sid ∨ dropped s.core.trace sid = true ∨ reopenedSince s.core.trace sid = true :=
  Lemmas.SockLoss.C01_no_silent_loss_healed h hh

/-- the monitor accepts the trace of a state with an empty queue, with the marker `heal th` inserted anywhere -/
theorem C01_no_silent_loss_marked {s : Sys} (h : ReachableWF s) (hq : s.core.queue = []) (pre post : List Ev)
    (th : Nat) (htr : s.core.trace = pre ++ post) : noSilentLoss (pre ++ Ev.heal th :: post) = true :=
  Lemmas.SockLoss.C01_noSilentLoss_quiescent h hq pre post th htr

/-- the model never emits the marker -/
theorem C01_never_emits_heal {s : Sys} (h : ReachableWF s) : healTime s.core.trace = none :=
  (Lemmas.SockLoss.tinv_reachableWF h).noHeal

theorem C01_no_silent_loss_unmarked {s : Sys} (h : ReachableWF s) : noSilentLoss s.core.trace = true :=
  Lemmas.SockLoss.C01_noSilentLoss_unmarked h

/-! ### non-vacuity -/

/-- message 1 (life 8) is queued while the link is down and purged at time 10; message 2 cannot be encoded;
    message 3 (no retry) hits a write fault, its `drain()` raises -/
def dropsRun : List Label :=
  [.apiOpen, .apiSend 1 0 8 true, .advance 10, .run 1 .go, .run 1 .openOk, .apiSend 2 0 8 false,
   .envFailWrites 0 true, .apiSend 3 0 240 true, .envLostRan 0, .run 4 .drainErr]

/-- one drop of each kind, each with the justification the monitor asks for -/
example : ∃ s, ReachableWF s ∧
    Ev.qdrop 1 10 .expired ∈ s.core.trace ∧ acceptedAt s.core.trace 1 = some (0, 8, 0, true) ∧
    Ev.qdrop 2 10 .encErr ∈ s.core.trace ∧ acceptedAt s.core.trace 2 = some (10, 18, 0, false) ∧
    Ev.qdrop 3 10 .maxRetries ∈ s.core.trace ∧ writeAttempts s.core.trace 3 = 1 ∧
    dropsJustified s.core.trace = true :=
  ⟨_, ⟨dropsRun, by decide, rfl⟩, by decide, by decide, by decide, by decide, by decide, by decide, by decide⟩

/-- the monitor does reject unjustified drops: the same three drops, one tick before the expiry / of an encodable
    message / without a write attempt -/
example : dropsJustified [.accept 1 0 8 0 true, .qdrop 1 7 .expired] = false ∧
    dropsJustified [.accept 1 0 8 0 true, .qdrop 1 7 .encErr] = false ∧
    dropsJustified [.accept 1 0 8 0 true, .qdrop 1 7 .maxRetries] = false := by decide

/-- the run continues: the client disconnects, reconnects, and a fourth message is accepted and written -/
def healedRun : List Label :=
  dropsRun ++ [.run 4 .go, .run 4 .go, .run 5 .go, .run 5 .openOk, .run 5 .go, .run 1 .go, .run 6 .go, .run 7 .go,
    .apiSend 4 0 240 true]

/-- a healed state whose trace holds four accepted messages: three dropped (one of each kind), one written -/
example : ∃ s, ReachableWF s ∧ Healed s ∧ acceptedSids s.core.trace = [1, 2, 3, 4] ∧
    dropped s.core.trace 1 = true ∧ dropped s.core.trace 2 = true ∧ dropped s.core.trace 3 = true ∧
    dropped s.core.trace 4 = false ∧ wireCount s.core.trace 4 = 1 :=
  ⟨_, ⟨healedRun, by decide, rfl⟩, healed_of_healedB (by decide), by decide, by decide, by decide, by decide,
    by decide, by decide⟩

/-- the marker inserted after the fault (position 12, time 10): the second conjunct of `noSilentLoss` is evaluated
    (`healTime` is defined, no `close()`), and the monitor accepts -/
example : ∃ s, ReachableWF s ∧ Healed s ∧
    healTime (s.core.trace.take 12 ++ Ev.heal 10 :: s.core.trace.drop 12) = some 10 ∧
    hasClose (s.core.trace.take 12 ++ Ev.heal 10 :: s.core.trace.drop 12) = false ∧
    noSilentLoss (s.core.trace.take 12 ++ Ev.heal 10 :: s.core.trace.drop 12) = true :=
  ⟨_, ⟨healedRun, by decide, rfl⟩, healed_of_healedB (by decide), by decide, by decide,
    C01_no_silent_loss_marked ⟨healedRun, by decide, rfl⟩ rfl _ _ 10 (List.take_append_drop 12 _).symm⟩

/-- the monitor does reject a silent loss: accepted before the marker, alive at the end, never written or dropped -/
example : noSilentLoss [.accept 1 0 240 0 true, .heal 5, .census 20 0 0 1 0] = false := by decide

/-- the hypothesis "queue empty" of `C01_no_silent_loss_marked` cannot be removed: a message that is merely still
    queued (link down) is reported by the monitor if a marker is inserted -/
example : ∃ s, ReachableWF s ∧ s.core.queue ≠ [] ∧ noSilentLoss (Ev.heal 0 :: s.core.trace) = false :=
  ⟨_, ⟨[.apiOpen, .apiSend 1 0 240 true], by decide, rfl⟩, by decide, by decide⟩

end PyAirtouch.Props.C01
