import PyAirtouch.Lemmas.SockXInv
import PyAirtouch.Lemmas.SockXIdle
/-!
# C01 / C16 with cancelled callers

Model: `PyAirtouch.Model.Sock` extended by `Model/SockX.lean` with the label `cancel t` — the API caller `t` (a task
that called `send()`, `reset_connection()`, `close()`; `bg = false`) is cancelled while suspended inside the socket, at
`await writer.drain()` (`.drainAwait`), at the shielded `wait_closed()` (`.discWait`) or inside the subscriber
notification (`.notifyWait`); nothing more of its coroutine runs and no field of the socket changes.  All statements
quantify over `ReachableWFX` / `ReachableX` states: every history, every schedule, every environment behaviour and any
number of cancellations.  Proofs: `Lemmas/SockXInv.lean` (the `base` case of every induction is the existing per-step
lemma of the base model, the `cancel` case is new).

**Safety is untouched.**  `wireOnlySubmitted`, `onceInOrderWithoutFault` (which has no liveness half: it only says "at most
once each, in acceptance order, in histories without loss / reset / failed write"), `dropsJustified`, the accounting
invariant (with the alternative "accepted before the socket was closed and opened again" that /repo 3897b77 made
necessary in the base system as well, see `C01X_accounted_strong`) and the queue bound hold for the extended system as they
do for the base system.  A frame is handed to the transport *before* the
`await drain()` at which the caller can be cancelled, so the cancelled caller's message has its `wire` event (it was
written, once); what is cancelled is only the rest of that task's drain loop and, for a task that was in the middle of
`reset_connection()`, the rest of the reset.  The entry the cancelled caller was holding is not put back
(`C01X_cancelled_entry_gone`) and is never attempted again (`C01X_cancelled_never_requeued`): in particular it loses
the retry it would have had if its `drain()` had failed (`C01X_cancel_forfeits_retry`).

**What cancellation costs is liveness of the connection, not of the queue discipline**: the healing clause of C07
(`C07_never_wedges`: from every reachable open state a benign continuation heals) is FALSE for the extended system -
`C07X_wedge_with_cancelled_reset` is a proved counterexample (a cancelled `reset_connection()` whose reader has already
left because "another task is resetting"), next to the same history without the cancellation, which heals.

**The idle clause survives, in a stronger form** (`Lemmas/SockXIdle.lean`): while connected on an open transport, a
non-empty queue always has a drainer that no cancellation can remove - a background task or a `close()` in progress
(`C01X_pending_has_uncancellable_drainer`); `C01_nothing_pending_when_idle_connected` holds verbatim for the extended
system (`C01X_nothing_pending_when_idle_connected`).  So cancelling callers of `send()` never strands the messages of
other callers on a healthy connection.
-/
namespace PyAirtouch.Props.C01X
open PyAirtouch.Model.Sock PyAirtouch.Spec.Trace PyAirtouch.Lemmas.Sock PyAirtouch.Lemmas.SockX
open PyAirtouch.Lemmas.SockOrder (noLoss isClientClose)
open PyAirtouch.Lemmas.SockHeal (Healed BReach Stuck stuck_never_heals healed_of_healedB)
open PyAirtouch.Lemmas.SockConn (closing)
open PyAirtouch.Lemmas.SockIdle (curLive promising not_promising_iff)
open PyAirtouch.Lemmas.SockXIdle (idle_invariantX durable)
open PyAirtouch.Lemmas.SockLoss (reopenedSince)

/-! ### the extension is conservative and a cancellation touches nothing of the socket -/

/-- every state of the base model is a state of the extended one -/
theorem C01X_extends_base {s : Sys} : ReachableWF s → ReachableWFX s := reachableWFX_of_reachableWF

/-- a cancellation changes no field of the socket: clock, flags, current transport, queue, transports, trace -/
theorem C01X_cancel_changes_no_core {s s' : Sys} {t : Nat} : stepX s (.cancel t) = some s' → s'.core = s.core :=
  stepX_cancel_core

/-- … and in the task table only the cancelled task changes: it is retired -/
theorem C01X_cancel_retires_only_caller {s s' : Sys} {t : Nat} (h : stepX s (.cancel t) = some s') :
    ∃ k, s.tasks[t]? = some k ∧ k.bg = false ∧ cancellable k.pc = true ∧
      s'.tasks = s.tasks.modify t (fun k => { k with pc := .finished }) := by
  obtain ⟨k, h1, h2, h3, rfl⟩ := stepX_cancel h
  exact ⟨k, h1, h2, h3, rfl⟩

/-! ### C01: what reaches the wire -/

/-- nothing is ever written that was not accepted -/
theorem C01X_wire_only_submitted {s : Sys} : ReachableWFX s → wireOnlySubmitted s.core.trace = true := by
  intro h
  obtain ⟨u, hinv⟩ := inv_of_reachableWFX h
  simp only [wireOnlySubmitted, List.all_eq_true]
  intro ev hev
  have hw : WriteOk s.core.trace ev := hinv.writes ev hev
  cases ev <;> simp only [WriteOk] at hw ⊢
  all_goals
    obtain ⟨t0, e, r, ok, h1, h2⟩ := hw
    simp [h1]

/-- In a history with no connection loss, no dead write, no write fault, no explicit reset and no transport closed by
    the client itself, every message - the cancelled callers' included - is written at most once and the written ones
    appear in acceptance order. -/
theorem C01X_once_in_order_without_loss {s : Sys} :
    ReachableWFX s → noLoss s.core.trace = true →
      ((acceptedSids s.core.trace).all (fun x => wireCount s.core.trace x ≤ 1) &&
        isSubseq (wiredSids s.core.trace) (acceptedSids s.core.trace)) = true := by
  intro h hn
  obtain ⟨h1, h2⟩ := once_in_orderX h hn
  simp only [Bool.and_eq_true, List.all_eq_true, decide_eq_true_eq]
  exact ⟨fun x _ => h1 x, Lemmas.SockOrder.isSubseq_of_sublist _ _ h2⟩

/-- The Spec monitor itself, unchanged, for every schedule, every environment behaviour and any number of
    cancellations: no accepted message is written twice, and the written ones appear in acceptance order, unless a
    connection loss / reset / close / failed write lies in the history. -/
theorem C01X_once_in_order_without_fault {s : Sys} :
    ReachableWFX s → onceInOrderWithoutFault s.core.trace = true := by
  intro h
  unfold onceInOrderWithoutFault
  cases hf : hasFault s.core.trace with
  | true => rfl
  | false =>
    have hc : s.core.trace.any isClientClose = false := by
      cases hcc : s.core.trace.any isClientClose with
      | false => rfl
      | true =>
        exfalso
        simp only [List.any_eq_true] at hcc
        obtain ⟨e, he, hce⟩ := hcc
        have : hasFault s.core.trace = true := by
          unfold hasFault
          simp only [List.any_eq_true]
          refine ⟨e, he, ?_⟩
          cases e <;> simp_all [isClientClose]
        rw [hf] at this; cases this
    have hn : noLoss s.core.trace = true := by simp [noLoss, hf, hc]
    simpa using C01X_once_in_order_without_loss h hn

/-- every accepted message is attempted at most `1 + retries` times (the bound behind "written twice only with a failed
    write in between": `writeAttempts` counts `wire`, `deadWrite` and `writeFault`) -/
theorem C01X_attempts_bounded {s : Sys} (h : ReachableWFX s) {sid t e r : Nat} {ok : Bool}
    (hmem : Ev.accept sid t e r ok ∈ s.core.trace) : writeAttempts s.core.trace sid ≤ 1 + r := by
  obtain ⟨u, hinv⟩ := inv_of_reachableWFX h
  exact hinv.bounded sid t e r ok (hinv.accepts sid t e r ok hmem)

/-! ### C01: no accepted message disappears without cause -/

/-- every `qdrop` states its true reason -/
theorem C01X_drops_justified {s : Sys} (h : ReachableWFX s) : dropsJustified s.core.trace = true :=
  Lemmas.SockLoss.dropsJustified_of_dropOk (tinv_reachableWFX h).drops

/-- an entry held in flight by a task suspended in `drain()` has a write attempt in the trace: when its caller is
    cancelled there, the message has already been handed to a transport -/
theorem C01X_in_flight_attempted {s : Sys} (h : ReachableWFX s) {k : Task} (hk : k ∈ s.tasks) {w : Nat} {x : Entry}
    {r : Ret} (hpc : k.pc = .drainAwait w x r) : 1 ≤ writeAttempts s.core.trace x.sid :=
  ((tinv_reachableWFX h).flying x (mem_flOf_iff.2 ⟨k, hk, w, r, hpc⟩)).2

/-- accounting, strong form, with cancellations: every accepted message is still queued, or the trace has a write
    attempt or a drop for it, or the socket was closed and opened again after its acceptance (`reopenedSince`: the trace
    reads `… accept sid … apiClose … apiOpen …`).

    The last alternative is new with /repo 3897b77: `open_socket()` on a socket that is not open clears the send queue and
    logs nothing, so a message of the earlier session that was still queued disappears without a write attempt and
    without a `qdrop`; the three-way statement is false since then (`Props.C01.C01_reopen_discards_silently`; the same
    history is a history of the extended system, `C01X_extends_base`).  `C01X_accounted_current_session` is the old
    statement for the messages it is still true of. -/
theorem C01X_accounted_strong {s : Sys} (h : ReachableWFX s) {sid t e r : Nat} {ok : Bool}
    (hmem : Ev.accept sid t e r ok ∈ s.core.trace) :
    (∃ x ∈ s.core.queue, x.sid = sid) ∨ 1 ≤ writeAttempts s.core.trace sid ∨ dropped s.core.trace sid = true ∨
      reopenedSince s.core.trace sid = true :=
  (tinv_reachableWFX h).acct sid t e r ok hmem

/-- the three-way statement as it was before /repo 3897b77, for messages accepted in the session that is running (or in
    the last one, if the socket has not been opened again) -/
theorem C01X_accounted_current_session {s : Sys} (h : ReachableWFX s) {sid t e r : Nat} {ok : Bool}
    (hmem : Ev.accept sid t e r ok ∈ s.core.trace) (hcur : reopenedSince s.core.trace sid = false) :
    (∃ x ∈ s.core.queue, x.sid = sid) ∨ 1 ≤ writeAttempts s.core.trace sid ∨ dropped s.core.trace sid = true := by
  rcases C01X_accounted_strong h hmem with h1 | h1 | h1 | h1
  · exact .inl h1
  · exact .inr (.inl h1)
  · exact .inr (.inr h1)
  · rw [hcur] at h1; cases h1

/-- … in particular in every history without `close()` -/
theorem C01X_accounted_no_close {s : Sys} (h : ReachableWFX s) {sid t e r : Nat} {ok : Bool}
    (hmem : Ev.accept sid t e r ok ∈ s.core.trace) (hnc : hasClose s.core.trace = false) :
    (∃ x ∈ s.core.queue, x.sid = sid) ∨ 1 ≤ writeAttempts s.core.trace sid ∨ dropped s.core.trace sid = true :=
  C01X_accounted_current_session h hmem (Lemmas.SockLoss.reopenedSince_of_noClose hnc sid)

/-- the witness, as a history of the extended system, with a cancellation in it: `send(1)` blocks in `drain()` on a
    transport that stopped accepting data, the peer resets the connection, `send(2)` is accepted and stays queued (the
    connection is going down); the caller of `send(1)` is cancelled; `close()`; `open_socket()`: message 2 is gone without
    a write attempt or a drop -/
example : ∃ s, ReachableWFX s ∧ acceptedSids s.core.trace = [1, 2] ∧ s.core.queue = [] ∧
    writeAttempts s.core.trace 2 = 0 ∧ dropped s.core.trace 2 = false ∧ reopenedSince s.core.trace 2 = true ∧
    (∀ k ∈ s.tasks, k.pc = .finished ∨ k.pc = .connStart) :=
  ⟨_, ⟨[.base .apiOpen, .base (.run 1 .go), .base (.run 1 .openOk), .base (.run 1 .go), .base (.run 2 .go),
        .base (.envPause 0 true), .base (.apiSend 1 2 240 true), .base (.envLost 0), .base (.apiSend 2 2 240 true), .cancel 3,
        .base .apiClose, .base (.run 5 .go), .base (.envLostRan 0), .base (.run 5 .go), .base (.run 5 .go),
        .base .apiOpen], by decide, rfl⟩,
    by decide, by decide, by decide, by decide, by decide, by decide⟩

/-- the monitor `noSilentLoss` on the extended model's own trace -/
theorem C01X_no_silent_loss_unmarked {s : Sys} (h : ReachableWFX s) : noSilentLoss s.core.trace = true := by
  simp [noSilentLoss, C01X_drops_justified h, (tinv_reachableWFX h).noHeal]

/-! ### C16: the queue stays bounded -/

/-- entries that were never put back by the retry path never exceed the capacity -/
theorem C16X_fresh_bound {s : Sys} :
    ReachableX s → (s.core.queue.filter (fun e => !e.requeued)).length ≤ CAP :=
  fresh_bound_of_reachableX

/-- as long as nothing has been re-queued the queue holds at most ten messages -/
theorem C16X_bound {s : Sys} :
    ReachableX s → (∀ e ∈ s.core.queue, e.requeued = false) → s.core.queue.length ≤ 10 := by
  intro h hq
  have := C16X_fresh_bound h
  rwa [List.filter_eq_self.2 (fun e he => by simp [hq e he])] at this

/-! ### the cancelled caller's entry -/

/-- right after the cancellation of a caller suspended in `drain()` while holding entry `e`: no entry with `e`'s identity
    is in the queue and none is held by any task - the popped entry is not put back -/
theorem C01X_cancelled_entry_gone {s s' : Sys} {t w : Nat} {e : Entry} {r : Ret} (h : ReachableWFX s)
    (hpc : pcAt s t = some (.drainAwait w e r)) (hc : stepX s (.cancel t) = some s') :
    (∀ x ∈ s'.core.queue, x.sid ≠ e.sid) ∧
    (∀ k ∈ s'.tasks, ∀ w' x r', k.pc = .drainAwait w' x r' → x.sid ≠ e.sid) := by
  obtain ⟨ls, hn, hr⟩ := h
  obtain ⟨_, hq, hf⟩ := gone_after_cancel hn hr hpc hc
  exact ⟨hq, fun k hk w' x r' hp => hf x (mem_flOf_iff.2 ⟨k, hk, w', r', hp⟩)⟩

/-- … and for ever after: along every continuation `post` (any labels, further cancellations included) of a history in
    which the caller holding `e` in `drain()` was cancelled, `e`'s identity never re-enters the queue, is never held by a
    task again, and is never attempted again - neither a `wire` nor a `deadWrite` / `writeFault` is added for it -/
theorem C01X_cancelled_never_requeued {pre post : List LabelX} {t w : Nat} {e : Entry} {r : Ret} {m s : Sys}
    (hwf : (sendSidsX (pre ++ .cancel t :: post)).Nodup) (hm : runX init pre = some m)
    (hpc : pcAt m t = some (.drainAwait w e r)) (hs : runX m (.cancel t :: post) = some s) :
    (∀ x ∈ s.core.queue, x.sid ≠ e.sid) ∧
    (∀ k ∈ s.tasks, ∀ w' x r', k.pc = .drainAwait w' x r' → x.sid ≠ e.sid) ∧
    writeAttempts s.core.trace e.sid = writeAttempts m.core.trace e.sid ∧
    wireCount s.core.trace e.sid = wireCount m.core.trace e.sid := by
  simp only [runX] at hs
  cases hc : stepX m (.cancel t) with
  | none => rw [hc] at hs; cases hs
  | some m' =>
    rw [hc] at hs
    simp only [Option.bind_some] at hs
    have hsplit : sendSidsX (pre ++ .cancel t :: post) = sendSidsX pre ++ sendSidsX post := by
      rw [sendSidsX_append]; rfl
    rw [hsplit] at hwf
    have hn0 : (sendSidsX pre).Nodup := (List.nodup_append.1 hwf).1
    have hg := gone_after_cancel hn0 hm hpc hc
    obtain ⟨⟨_, hq, hf⟩, hw, hc'⟩ := runX_gone hwf hg hs
    rw [stepX_cancel_core hc] at hw hc'
    exact ⟨hq, fun k hk w' x r' hp => hf x (mem_flOf_iff.2 ⟨k, hk, w', r', hp⟩), hw, hc'⟩

/-! ### nothing stays queued on an idle connection -/

/-- While the socket is connected and its current transport is still open, a non-empty queue has a drainer that cannot be
    cancelled away: a *background* task suspended in `drain()` / between `opened` and its first drain / waiting for the
    current transport to close, or a `close()` waiting for the background tasks (`.closeGather`, not a cancellation
    point).  API callers suspended in `drain()` may all be cancelled: the queue is still going to be drained. -/
theorem C01X_pending_has_uncancellable_drainer {s : Sys} (hr : ReachableX s)
    (hconn : s.core.isConnected = true) (hlive : curLive s.core = true) (hq : s.core.queue ≠ []) :
    ∃ k ∈ s.tasks, promising s.core.rw k.pc = true ∧ (k.bg = true ∨ k.pc = .closeGather) := by
  obtain ⟨k, hk, hp, hd⟩ := (idle_invariantX hr).busy ⟨hconn, hq, hlive⟩
  exact ⟨k, hk, hp, by simpa [durable] using hd⟩

/-- `C01_nothing_pending_when_idle_connected`, verbatim, for the extended system -/
theorem C01X_nothing_pending_when_idle_connected {s : Sys} (hr : ReachableX s)
    (hconn : s.core.isConnected = true) (hlive : curLive s.core = true)
    (hdrain : ∀ k ∈ s.tasks, ∀ w e r, k.pc ≠ .drainAwait w e r)
    (hfirst : ∀ k ∈ s.tasks, k.pc ≠ .notifyWait .connAfterNotify)
    (hclose : ∀ k ∈ s.tasks, k.pc ≠ .closeGather)
    (hdisc : ∀ k ∈ s.tasks, ∀ w r, k.pc = .discWait w r → s.core.rw ≠ some w) :
    s.core.queue = [] := by
  cases hq : s.core.queue with
  | nil => rfl
  | cons e rest =>
    obtain ⟨k, hk, hp, _⟩ := C01X_pending_has_uncancellable_drainer hr hconn hlive (by simp [hq])
    have := (not_promising_iff s.core.rw k.pc).2 ⟨hdrain k hk, hfirst k hk, hclose k hk, hdisc k hk⟩
    rw [hp] at this; cases this

/-- two messages queued while the link is down; connected, the transport stops accepting data before the connect task has
    drained; `send(3)` (task 4) writes message 1 and blocks in `drain()` with messages 2 and 3 still queued; its caller is
    cancelled.  The queue is not stranded: the connect task (task 1, background) is still going to drain it - and does. -/
example : ∃ s, ReachableX s ∧ s.core.isConnected = true ∧ curLive s.core = true ∧ s.core.queue.map (·.sid) = [2, 3] ∧
    pcAt s 4 = some .finished ∧
    (s.tasks.filter (fun k => promising s.core.rw k.pc)).map (fun k => (k.pc, k.bg)) = [(.notifyWait .connAfterNotify, true)] ∧
    ∃ s', runX s [.base (.envPause 0 false), .base (.run 1 .go)] = some s' ∧ s'.core.queue = [] ∧
      wiredSids s'.core.trace = [1, 2, 3] :=
  ⟨_, ⟨[.base .apiOpen, .base (.apiSend 1 2 240 true), .base (.apiSend 2 2 240 true), .base (.run 1 .go),
        .base (.run 1 .openOk), .base (.envPause 0 true), .base (.apiSend 3 2 240 true), .cancel 4], rfl⟩,
    by decide, by decide, by decide, by decide, by decide, _, rfl, by decide, by decide⟩

/-! ### non-vacuity and witnesses -/

/-- blocked flush: connected, the transport stops accepting data, `send(1)` writes its frame and blocks in `drain()`, its
    caller is cancelled; the transport recovers and `send(2)` is written -/
def cancelRun : List LabelX :=
  [.base .apiOpen, .base (.run 1 .go), .base (.run 1 .openOk), .base (.run 1 .go), .base (.run 2 .go),
   .base (.envPause 0 true), .base (.apiSend 1 2 240 true), .cancel 3,
   .base (.envPause 0 false), .base (.apiSend 2 2 240 true)]

/-- a reachable extended run with a cancellation at `.drainAwait`: the cancelled caller's message 1 was written once
    (before the cancellation), message 2 is written after it, in order; nothing is queued or in flight -/
example : ∃ m s, runX init (cancelRun.take 7) = some m ∧ pcAt m 3 = some (.drainAwait 0 ⟨1, 2, 240, true, false⟩ .done) ∧
    runX m (cancelRun.drop 7) = some s ∧ ReachableWFX s ∧
    wiredSids s.core.trace = [1, 2] ∧ acceptedSids s.core.trace = [1, 2] ∧ hasFault s.core.trace = false ∧
    s.core.queue = [] ∧ pcAt s 3 = some .finished ∧ pcAt s 4 = some .finished ∧ pcAt s 2 = some (.readWait 0) :=
  ⟨_, _, rfl, by decide, rfl, ⟨cancelRun, by decide, rfl⟩, by decide, by decide, by decide, by decide, by decide, by decide,
    by decide⟩

/-- the cancel label is enabled exactly for suspended API callers: not for a background task (the reader, task 2), not
    for a finished task (task 0, the `open_socket()` call), not for a task that does not exist -/
example : ∃ m, runX init (cancelRun.take 7) = some m ∧ (stepX m (.cancel 3)).isSome = true ∧
    stepX m (.cancel 2) = none ∧ stepX m (.cancel 0) = none ∧ stepX m (.cancel 9) = none :=
  ⟨_, rfl, by decide, by decide, by decide, by decide⟩

/-- **a cancelled caller forfeits the retry of its message.**  `send(1)` (two retries) blocks in `drain()`, the peer
    resets the connection.  If the caller is still there its `drain()` raises and the message is put back and written to
    the next connection (`wiredSids = [1, 1]`: twice, with the loss in between).  If the caller is cancelled first, the
    message is not re-queued: after the same reconnection it has been written once, to the connection that was lost. -/
theorem C01X_cancel_forfeits_retry :
    (∃ s, ReachableWFX s ∧ wiredSids s.core.trace = [1, 1] ∧ s.core.queue = [] ∧
      s.core.isConnected = true ∧ s.core.rw = some 1) ∧
    (∃ s, ReachableWFX s ∧ wiredSids s.core.trace = [1] ∧ s.core.queue = [] ∧
      s.core.isConnected = true ∧ s.core.rw = some 1 ∧ (∀ k ∈ s.tasks, k.pc = .finished ∨ k.pc = .readWait 1)) :=
  ⟨⟨_, ⟨[.base .apiOpen, .base (.run 1 .go), .base (.run 1 .openOk), .base (.run 1 .go), .base (.run 2 .go),
          .base (.envPause 0 true), .base (.apiSend 1 2 240 true), .base (.envLost 0),
          .base (.run 3 .drainErr), .base (.envLostRan 0), .base (.run 3 .go), .base (.run 3 .go), .base (.run 2 .readErr),
          .base (.run 4 .go), .base (.run 4 .openOk), .base (.run 4 .go)], by decide, rfl⟩,
      by decide, by decide, by decide, by decide⟩,
   ⟨_, ⟨[.base .apiOpen, .base (.run 1 .go), .base (.run 1 .openOk), .base (.run 1 .go), .base (.run 2 .go),
          .base (.envPause 0 true), .base (.apiSend 1 2 240 true), .base (.envLost 0),
          .cancel 3, .base (.envLostRan 0), .base (.run 2 .readErr), .base (.run 2 .go), .base (.run 2 .go),
          .base (.run 4 .go), .base (.run 4 .openOk), .base (.run 4 .go), .base (.run 5 .go)], by decide, rfl⟩,
      by decide, by decide, by decide, by decide, by decide⟩⟩

/-! ### the healing clause of C07 does not survive cancellation -/

def wedgeRun : List LabelX :=
  [.base .apiOpen, .base (.run 1 .go), .base (.run 1 .openOk), .base (.run 1 .go), .base (.run 2 .go),
   .base .apiReset, .base (.run 2 .readEof), .cancel 3, .base (.envLostRan 0)]

/-- **With a cancelled `reset_connection()` the model can be wedged.**  The history respects the calling discipline of
    `close()` and the EOF rule (`runXH`), i.e. the hypotheses of `C07_never_wedges`.  `reset_connection()` (task 3) closes
    transport 0 and waits for it; the reader is told EOF, sees `writer.is_closing()` and returns without resetting
    ("another task is doing it"); then the caller of `reset_connection()` is cancelled.  The socket is open,
    `is_connected` is still set, every task has finished, no cancellation is enabled: no benign label sequence heals,
    and a later `send` just leaves its message queued with no task to write it. -/
theorem C07X_wedge_with_cancelled_reset :
    ∃ s, runXH init wedgeRun = some s ∧
      s.core.isOpen = true ∧ closing s.core.trace = false ∧ s.core.isConnected = true ∧
      (∀ t, t < s.tasks.length → stepX s (.cancel t) = none) ∧
      (∀ d s', BReach d s s' → ¬ Healed s') ∧
      ∃ s2, step s (.apiSend 1 2 240 true) = some s2 ∧ s2.core.queue.map (·.sid) = [1] ∧
        writeAttempts s2.core.trace 1 = 0 ∧ ∀ k ∈ s2.tasks, k.pc = .finished := by
  refine ⟨_, rfl, by decide, by decide, by decide, by decide, ?_, _, rfl, by decide, by decide, by decide⟩
  intro d s' hr
  exact stuck_never_heals ⟨by decide, by decide⟩ hr

/-- the same history without the cancellation heals (as `C07_never_wedges` says it must): the reset completes,
    reconnects, and a reader watches the new transport -/
example : ∃ s, runXH init (wedgeRun.take 7) = some s ∧
    ∃ s', run s [.envLostRan 0, .run 3 .go, .run 3 .go, .run 4 .go, .run 4 .openOk, .run 4 .go, .run 5 .go] = some s' ∧
      Healed s' :=
  ⟨_, rfl, _, rfl, healed_of_healedB (by decide)⟩

end PyAirtouch.Props.C01X
