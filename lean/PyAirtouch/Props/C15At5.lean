import PyAirtouch.Lemmas.Api5Shutdown
import PyAirtouch.Lemmas.Api5Demo
/-!
# C15 (AirTouch 5, API level) — `shutdown()` is final, leak-free and reversible

Statements about the model `PyAirtouch.Model.Api5` of `pyairtouch/at5/api.py` over the stub socket.

1. `shutdown_state_at5`: from EVERY state the op `shutdown` leads to a `Closed` state (state machine `CLOSED`, event clear,
   dictionaries and object heaps empty, stub socket closed, heartbeat manager stopped) and outputs exactly
   `HBSTOP, CLOSE, RESULT shutdown OK`.
   **Finding** `shutdown_pending_init_refuted_at5`: an `init()` caller still waiting inside `wait_for` is neither resolved nor
   removed: its 5 s timer stays scheduled after `shutdown()` has returned and fires `RESULT init False` later (or the
   caller is answered `True` by a handshake started by a *later* `init()`).
2. `closed_step_at5`, `quiet_after_shutdown_at5`: in a closed state every op other than `init` keeps the state closed; what
   it outputs is given exactly by `closedOut`: nothing for any received frame, nothing when the link goes down,
   `SUBSCRIBER-EXC NotOpenError` when the link comes up (the refresh requests of `_connection_changed` meet the closed
   socket - no `SEND`), `RESULT NotOpenError` for `check_for_updates()`, `RESULT KeyError` for every entity call (the
   model is empty), and for `adv` only the time-outs of `init()` callers left waiting (none: nothing at all).  Hence no
   `SEND`, `NOTIFY`, `OPEN`, `RESET`, `HBSTART`, `RESULT init True` ever.
3. `reinit_as_fresh_at5`: `init()` in a closed state outputs what it outputs on a new object (`OPEN`), and the two objects
   are then related by `FreshSim`, which is a simulation (`sim_step_at5`, `sim_run_at5`): related states give equal
   outputs for every op and related successors - except that `view` may show the console version of the previous session
   until the first answer of the new handshake has overwritten it (`reinit_stale_version_at5`); from then on (`FreshSimV`)
   all outputs are equal, `view` included.
-/
set_option linter.unusedVariables false
namespace PyAirtouch.Props.C15
open PyAirtouch.Model PyAirtouch.Model.Api5 PyAirtouch.Model.At5 PyAirtouch.Model.At5.Registry
open PyAirtouch.Model.Heartbeat PyAirtouch.Lemmas.Heartbeat
open PyAirtouch.Gen PyAirtouch.Gen.Api5 PyAirtouch.Lemmas.Api5

/-! ## 1. the state after `shutdown()` -/

/-- from every state whatsoever: closed afterwards, the stub socket closed (`CLOSE`) and nothing sent; the socket's
`is_connected` seen by the heartbeat manager is false; the AirTouch-level subscribers, the console version, the waiting
`init()` calls, the callback registration, the clock, the identity and the heartbeat parameters are what they were -/
theorem shutdown_state_at5 : type_of% @doShutdown_spec := @doShutdown_spec

/-- the definition of `Closed`, spelled out -/
theorem closed_iff_at5 (s : State) : Closed s ↔
    s.st = .CLOSED ∧ s.initialised = false ∧ s.zones = [] ∧ s.acs = [] ∧ s.zobjs = [] ∧ s.aobjs = [] ∧
    s.sockOpen = false ∧ s.hb.tl = .idle ∧ s.hb.hl = .idle :=
  ⟨fun h => ⟨h.st, h.ninit, h.zones, h.acs, h.zobjs, h.aobjs, h.sockOpen, h.idle.1, h.idle.2⟩,
   fun ⟨a, b, c, d, e, f, g, i, j⟩ => ⟨a, b, c, d, e, f, g, ⟨i, j⟩⟩⟩

/-- shutdown of the connected demo object, and of an object in the middle of its handshake -/
example : Closed (apiStep demo5 .shutdown).1 ∧ (apiStep demo5 .shutdown).2 = [.hbStop, .closed, .result "shutdown OK"] ∧
    Closed (apiStep demo5Mid .shutdown).1 ∧ ¬ Closed demo5 ∧ ¬ Closed demo5Mid :=
  ⟨(shutdown_state_at5 demo5).1, (shutdown_state_at5 demo5).2.1, (shutdown_state_at5 demo5Mid).1,
   fun h => (by have := h.st; rw [demo5_facts.1] at this; cases this),
   fun h => (by have := h.st; rw [demo5Mid_facts.1] at this; cases this)⟩

/-- **finding**: `shutdown()` does not resolve an `init()` that is still waiting.  `init(); shutdown()`: the waiter is
still there; 5 s later, long after `shutdown()` returned, its timer fires and it answers `False`; and if `init()` is called
again and the handshake completes in time, the waiter of the *first* `init()` answers `True` as well. -/
theorem shutdown_pending_init_refuted_at5 :
    (runS demo5New [.init, .shutdown]).pendingInits = [40] ∧
    (Api5.run demo5New [.init, .shutdown, .adv 40]).2 =
      [[.opened], [.hbStop, .closed, .result "shutdown OK"], [.result "init False"]] ∧
    (Api5.run demo5New ([.init, .shutdown, .init] ++ demo5Handshake)).2.getLast? =
      some [.hbStart, .result "init True", .result "init True", .send .connected hbMessage false] := by
  decide

/-- with nobody waiting before, nobody is waiting after -/
theorem shutdown_no_waiters_at5 (s : State) (h : s.pendingInits = []) : (apiStep s .shutdown).1.pendingInits = [] := by
  rw [(shutdown_state_at5 s).2.2.2.2.2.1]; exact h

/-! ## 2. nothing of the client acts after `shutdown()` -/

/-- one op (anything but `init`) in a closed state: still closed, outputs exactly `closedOut`, and the surviving parts of
the state change as `ClosedFrame` says -/
theorem closed_step_at5 : type_of% @closed_step := @closed_step

/-- received frames of every kind, decodable or not -/
theorem frames_after_shutdown_at5 {s : State} (h : Closed s) (toAddr : Nat) (m : Msg) (cls : String) :
    (apiStep s (.msg toAddr m)).2 = [] ∧ (apiStep s (.undecodable cls)).2 = [.undecodable cls] :=
  ⟨(closed_step h (.msg toAddr m) rfl).2.1, (closed_step h (.undecodable cls) rfl).2.1⟩

/-- connection notifications: no connected notification leads to a `SEND`; the refresh requests meet the closed socket -/
theorem conn_after_shutdown_at5 {s : State} (h : Closed s) :
    (apiStep s (.conn false)).2 = [] ∧
    (apiStep s (.conn true)).2 = if s.sockSubscribed then [.subscriberExc "NotOpenError"] else [] := by
  refine ⟨?_, ?_⟩
  · rw [(closed_step h (.conn false) rfl).2.1]; simp [closedOut]
  · rw [(closed_step h (.conn true) rfl).2.1]; simp [closedOut]

/-- no timer fires: `adv` outputs nothing but the time-outs of `init()` callers left waiting (see the finding above) -/
theorem time_after_shutdown_at5 {s : State} (h : Closed s) (n : Nat) :
    (apiStep s (.adv n)).2 = (s.pendingInits.filter (· ≤ s.now + n)).map (fun _ => Out.result "init False") ∧
    (s.pendingInits = [] → (apiStep s (.adv n)).2 = []) := by
  have := (closed_step h (.adv n) rfl).2.1
  refine ⟨this, fun hp => ?_⟩
  rw [this]; simp [closedOut, hp]

/-- sending raises the not-open error; the entities are gone -/
theorem calls_after_shutdown_at5 {s : State} (h : Closed s) (id : Nat) (ca : AcCall) (cz : ZoneCall) :
    (apiStep s .callAt).2 = [.result "NotOpenError"] ∧ (apiStep s (.callAc id ca)).2 = [.result "KeyError"] ∧
    (apiStep s (.callZone id cz)).2 = [.result "KeyError"] :=
  ⟨(closed_step h .callAt rfl).2.1, (closed_step h (.callAc id ca) rfl).2.1, (closed_step h (.callZone id cz) rfl).2.1⟩

/-- every output of `closedOut` is quiet -/
theorem closedOut_quiet_at5 : type_of% @closedOut_quiet := @closedOut_quiet

/-- **quiet after shutdown**: any sequence of ops other than `init` -/
theorem quiet_after_shutdown_at5 : type_of% @closed_run := @closed_run

/-- … and when no `init()` caller was left waiting: no `RESULT init …` of either kind, and no timer is left -/
theorem quiet_after_shutdown_no_waiters_at5 : type_of% @closed_run_noWaiters := @closed_run_noWaiters

/-- the definition of `QuietOut` on the outputs that matter -/
example : ¬ QuietOut (.send .connected hbMessage false) ∧ ¬ QuietOut (.notifyAt "w") ∧ ¬ QuietOut .opened ∧
    ¬ QuietOut .reset ∧ ¬ QuietOut .hbStart ∧ ¬ QuietOut (.result "init True") ∧ QuietOut (.result "init False") ∧
    QuietOut (.subscriberExc "NotOpenError") ∧ QuietOut .closed := by
  simp [QuietOut]

/-- the demo object after `shutdown()`: the link flaps, ten minutes pass, the console goes on talking, the user calls -/
example : (Api5.run demo5 [.shutdown, .conn false, .conn true, .adv 5000, .msg 176 demo5Version, .msg 176 demo5Zones,
      .msg 176 demo5AcStatus, .callAt, .callAc 0 (.setPower .TOGGLE), .callZone 1 (.setPower .ON), .sub (.ac 0 false) "x" false]).2 =
    [[.hbStop, .closed, .result "shutdown OK"], [], [.subscriberExc "NotOpenError"], [], [], [], [],
     [.result "NotOpenError"], [.result "KeyError"], [.result "KeyError"], [.result "KeyError"]] := by decide

/-- … whereas before `shutdown()` the same object does act -/
example : (Api5.run demo5 [.conn true, .callAt]).2 =
    [[.send .connected msgAcStatusRequest false, .send .connected msgZoneStatusRequest false],
     [.send .idempotent msgConsoleVersionRequest false, .result "OK"]] := by decide

/-! ## 3. a later `init()` works as on a fresh object -/

/-- the relation, field by field (`k = false`: `FreshSim`, `k = true`: `FreshSimV`) -/
theorem freshSim_iff_at5 : type_of% @freshSim_iff := @freshSim_iff

/-- `HbEquiv`, field by field: the two managers agree on everything a step reads -/
theorem hbEquiv_iff_at5 (h h' : HB) : HbEquiv h h' ↔
    h.now = h'.now ∧ h.interval = h'.interval ∧ h.timeout = h'.timeout ∧ h.tl = h'.tl ∧ h.hl = h'.hl ∧
    h.connected = h'.connected ∧ (h.tl ≠ .idle → h.flag = h'.flag) ∧ (h.tl = .resetting → h.resetAt = h'.resetAt) :=
  ⟨fun e => ⟨e.now, e.interval, e.timeout, e.tl, e.hl, e.connected, e.flag, e.resetAt⟩,
   fun ⟨a, b, c, d, e, f, g, i⟩ => ⟨a, b, c, d, e, f, g, i⟩⟩

/-- **simulation, one op**: related states give related successors, and equal outputs - for `view` provided the console
versions agree -/
theorem sim_step_at5 : type_of% @apiStep_sim := @apiStep_sim

/-- **simulation, any sequence** -/
theorem sim_run_at5 : type_of% @run_sim := @run_sim

/-- beyond the first answer of the handshake the console versions agree (`FreshSimV`) … -/
theorem sim_late_at5 : type_of% @FreshSimG.strict_of_late := @FreshSimG.strict_of_late

/-- … so: ops without `view` that bring the handshake that far, then any ops at all: equal outputs throughout -/
theorem sim_run_then_at5 : type_of% @run_sim_then := @run_sim_then

/-- **`init()` after `shutdown()`** -/
theorem reinit_as_fresh_at5 : type_of% @reinit_as_fresh := @reinit_as_fresh

/-- the comparator is a new object on which the clock was advanced -/
theorem freshAt_is_new_adv_at5 : type_of% @freshAt_is_new_adv := @freshAt_is_new_adv

/-- the hypotheses of `reinit_as_fresh_at5` hold after `shutdown()` in every state reachable from a new object -/
theorem reachable_shutdown_wf_at5 (a b c d : Bytes) (ops : List Op) :
    let s := runS (State.new a b c d) ops
    let cl := (apiStep s .shutdown).1
    Closed cl ∧ cl.hb.interval = Api5.heartbeatInterval ∧ cl.hb.timeout = Api5.heartbeatTimeout ∧ cl.hb.now = cl.now ∧
      cl.hb.connected = false := by
  intro s cl
  have wf : HbWf s := hbWf_run (hbWf_new a b c d) ops
  have wf' : HbWf cl := hbWf_step wf .shutdown
  obtain ⟨h1, _, h3, _, _, _, _, h8, _⟩ := doShutdown_spec s
  exact ⟨h1, wf'.interval, wf'.timeout, (doShutdown_hb_now wf.now_le).trans h8.symm, h3⟩

/-- **every later behaviour is that of a fresh object**: after `shutdown()` (of a well-formed object), `init()` followed
by any ops: the outputs are those of the fresh object `freshAt c` - for `view` from the first answer of the handshake on -/
theorem reinit_then_run_at5 {c : State} (h : Closed c) (wf : HbWf c) (ops1 ops2 : List Op)
    (hv : ∀ op ∈ ops1, Op.isView op = false) (hl : ¬ earlySt (runS c (.init :: ops1)).st) :
    (Api5.run c (.init :: ops1)).2 = (Api5.run (freshAt c) (.init :: ops1)).2 ∧
    (Api5.run (runS c (.init :: ops1)) ops2).2 = (Api5.run (runS (freshAt c) (.init :: ops1)) ops2).2 := by
  obtain ⟨o1, o2, hs⟩ := reinit_as_fresh h wf.interval wf.timeout
  obtain ⟨r1, r2, _⟩ := run_sim_then hs ops1 ops2 hv hl
  refine ⟨?_, r2⟩
  simp only [Api5.run]
  rw [o1, o2]
  have : (Api5.run (apiStep c .init).1 ops1).2 = (Api5.run (apiStep (freshAt c) .init).1 ops1).2 := r1
  rw [this]

set_option maxRecDepth 8000 in
/-- what persists legitimately: the demo object after `shutdown()` keeps its AirTouch-level subscriber, and after a
second handshake that subscriber is notified of a console version change like on any connected object -/
example : (runS demo5 [.shutdown]).subs = ["w"] ∧
    (Api5.run demo5 ([.shutdown, .init] ++ demo5Handshake ++ [.msg 176 (.extended (.consoleVer (.message ⟨false, [[50]]⟩)))])).2.getLast? =
      some [.notifyAt "w"] := by decide

set_option maxRecDepth 8000 in
/-- **observation**: the console version of the previous session survives `shutdown()`; `view` (the properties
`update_available` / `console_versions`) shows it while closed and after the next `init()`, until the first answer of the
new handshake replaces it.  No other output depends on it (`sim_step_at5`). -/
theorem reinit_stale_version_at5 :
    (Api5.run demo5 [.shutdown, .init, .view]).2.getLast? = some [.view
      "AirTouch(initialised=False,airtouch_id=s61,serial=s62,name=s63,host=s64,model=AIRTOUCH_5,update_available=True,console_versions=[s31],air_conditioners=[])"] ∧
    (Api5.run (freshAt (runS demo5 [.shutdown])) [.init, .view]).2.getLast? = some [.view
      "AirTouch(initialised=False,airtouch_id=s61,serial=s62,name=s63,host=s64,model=AIRTOUCH_5,update_available=False,console_versions=[],air_conditioners=[])"] := by
  decide

set_option maxRecDepth 8000 in
/-- non-vacuity of `reinit_as_fresh_at5` / `reinit_then_run_at5` on the demo object: the re-initialised object and the
fresh one go through the handshake with the same outputs, and afterwards even `view` agrees -/
example :
    let c := runS demo5 [.shutdown]
    Closed c ∧ HbWf c ∧ ¬ earlySt (runS c (.init :: demo5Handshake)).st ∧
    (Api5.run c (.init :: demo5Handshake)).2 = (Api5.run (freshAt c) (.init :: demo5Handshake)).2 ∧
    (Api5.run (runS c (.init :: demo5Handshake)) [.view, .adv 2400]).2 =
      (Api5.run (runS (freshAt c) (.init :: demo5Handshake)) [.view, .adv 2400]).2 := by
  intro c
  have hc : Closed c := (shutdown_state_at5 demo5).1
  have wf : HbWf c := hbWf_run (hbWf_run (hbWf_new _ _ _ _) demo5Ops) [.shutdown]
  have hl : ¬ earlySt (runS c (.init :: demo5Handshake)).st := by
    have : (runS c (.init :: demo5Handshake)).st = .CONNECTED := by decide
    rw [this]; simp [earlySt]
  obtain ⟨r1, r2⟩ := reinit_then_run_at5 hc wf demo5Handshake [.view, .adv 2400] (by decide) hl
  exact ⟨hc, wf, hl, r1, r2⟩

end PyAirtouch.Props.C15
