import PyAirtouch.Lemmas.CrossLayer
import PyAirtouch.Props.C03Frame
import PyAirtouch.Props.C13
import PyAirtouch.Props.C09At4b
import PyAirtouch.Props.C09At5
/-!
# C09 from bytes: the handshake end to end across the three layers

`Props/C09At4b` and `Props/C09At5` start from already-decoded messages.  Here the console's answers are **bytes**: each
answer is a frame (`Wire`: header and payload; `Wire.bytes`: what the send-path model writes - header bytes, payload,
CRC), the frames are concatenated, TCP cuts the concatenation into segments **in any way**, the receive-path model
(`Frame.feedAll proto`, C13) is fed the segments one by one, and every delivery becomes one op of the API model:

* AirTouch 4: `recvOp (h, m) = Op.recv m` - the AirTouch 4 API never looks at the header;
* AirTouch 5: `frameOp (h, m) = Op.msg h.to_address m` - the header's `to_address` goes with the message (the
  zero-zone echo rule reads it);
* payload level (the driver's `msg` op): the receive path that does not decode (`rawProto`) delivers
  `(h, payload)`; AirTouch 4: `msgOp (h, payload) = Op.msg h.message_id payload` (decoded inside `Api4.apiStep` by
  `decodeTop`, under `harnessHeader`); AirTouch 5: `payloadOp (h, payload) = ApiCmd5.parseMsg h.message_id payload
  h.to_address` (what the driver makes of `msg <id> <payload> <to>`).

Definitions (`Lemmas/CrossLayer`): `Sent = Wire × Msg`, `Sent.Good x` (the frame is well formed and the registry's
decoder turns its payload into `x.2`, nothing left over), `wireStream xs` (the concatenated bytes), `consoleSent pid m`
(the registry's encoding of `m` in a frame to 0xB0 from 0x80 / 0x90 with packet id `pid`; good for every `Sendable m`,
by the C03 round trip), `unknownSent` (a frame of an unregistered type; good, decoded to `UnsupportedMessage`).

* `stream_delivers_at4/_at5` - console frames of sendable messages, any packet ids, any segmentation: exactly those
  messages are delivered, with those headers, in order, and the buffer ends empty; `stream_delivers_frames_…` - the same
  for any list of good frames (any addresses, unknown types);
* `handshake_from_bytes_at4` - the conclusion of `handshake_end_to_end_at4`, for every segmentation of the bytes of the
  six answers of a consistent installation with arbitrary good frames (not of the awaited class) before, between and
  after them; `handshake_from_payloads_at4` - the same for the driver's `msg` ops;
* `handshake_from_bytes_at5` - the conclusion of `C09_handshake_completes_at5` likewise (any good frames as noise);
  `handshake_from_payloads_at5`: the driver's ops are the same op list; `handshake_clean_from_bytes_at5` - without
  noise: the six requests in order, `CONNECTED`, and the entities of `C09_entities_as_described_at5`.
-/
set_option linter.unusedVariables false
set_option linter.unusedSimpArgs false
namespace PyAirtouch.Props.C09
open PyAirtouch.Model PyAirtouch.Model.Frame PyAirtouch.Lemmas.CrossLayer

/-! ## AirTouch 4 -/

section At4Part
open PyAirtouch.Model.Api4 PyAirtouch.Model.At4 PyAirtouch.Model.At4.Registry
open PyAirtouch.Lemmas.Api4 PyAirtouch.Lemmas.Api4Reach PyAirtouch.Lemmas.CrossLayer.At4
open PyAirtouch.Props.C09.At4

/-- **any list of good frames** (any addresses, any packet ids, known or unknown types), **any segmentation**: the
    receive path delivers exactly the frames' headers and decoded messages, in order, and ends with an empty buffer -/
theorem stream_delivers_frames_at4 (xs : List Sent) (hx : ∀ x ∈ xs, x.Good) (segs : List Bytes)
    (hsegs : segs.flatten = wireStream xs) :
    feedAll proto ⟨[], false⟩ segs = (xs.map (fun x => (x.1.hdr, x.2)), ⟨[], false⟩) :=
  stream_delivers xs hx segs hsegs

/-- **console frames of sendable messages**, packet ids `pm.1`: every segmentation of the concatenated frames delivers
    exactly those messages, in order, each under the header the console wrote, and ends with an empty buffer -/
theorem stream_delivers_at4 (ms : List (Nat × Msg)) (hms : ∀ pm ∈ ms, pm.1 < 256 ∧ Sendable pm.2)
    (segs : List Bytes) (hsegs : segs.flatten = wireStream (ms.map fun pm => consoleSent pm.1 pm.2)) :
    feedAll proto ⟨[], false⟩ segs =
      (ms.map (fun pm =>
        (({ to_address := 0xB0, from_address := if pm.2.messageId = 0x1F then 0x90 else 0x80, packet_id := pm.1,
            message_id := pm.2.messageId, message_length := (payloadOf pm.2).length } : Hdr), pm.2)),
       ⟨[], false⟩) := by
  rw [stream_delivers _ (by
    intro x hx
    obtain ⟨pm, hpm, rfl⟩ := List.mem_map.mp hx
    exact consoleSent_good pm.1 (hms pm hpm).1 pm.2 (hms pm hpm).2) segs hsegs, List.map_map]
  rfl

/-- the payloads themselves (receive path without the registry) -/
theorem stream_delivers_payloads_at4 (xs : List Sent) (hx : ∀ x ∈ xs, x.Good) (segs : List Bytes)
    (hsegs : segs.flatten = wireStream xs) :
    feedAll rawProto ⟨[], false⟩ segs = (xs.map (fun x => (x.1.hdr, x.1.payload)), ⟨[], false⟩) :=
  stream_delivers_raw xs hx segs hsegs

namespace At4

/-- the packet ids the console gives its six answers -/
structure Pids where
  p₁ : Nat
  p₂ : Nat
  p₃ : Nat
  p₄ : Nat
  p₅ : Nat
  p₆ : Nat

def Pids.Valid (p : Pids) : Prop := p.p₁ < 256 ∧ p.p₂ < 256 ∧ p.p₃ < 256 ∧ p.p₄ < 256 ∧ p.p₅ < 256 ∧ p.p₆ < 256

/-- the registry can encode each of the six answers and the payload fits the length field -/
def Answers.Sendable (a : Answers) : Prop :=
  PyAirtouch.Lemmas.CrossLayer.At4.Sendable a.verMsg ∧ PyAirtouch.Lemmas.CrossLayer.At4.Sendable a.namesMsg ∧ PyAirtouch.Lemmas.CrossLayer.At4.Sendable a.abilityMsg ∧
  PyAirtouch.Lemmas.CrossLayer.At4.Sendable a.acStatusMsg ∧ PyAirtouch.Lemmas.CrossLayer.At4.Sendable a.timerMsg ∧ PyAirtouch.Lemmas.CrossLayer.At4.Sendable a.groupMsg

/-- the frames that travel before, between and after the six answers -/
structure NoiseFrames where
  n₁ : List Sent
  n₂ : List Sent
  n₃ : List Sent
  n₄ : List Sent
  n₅ : List Sent
  n₆ : List Sent
  n₇ : List Sent

def NoiseFrames.Good (z : NoiseFrames) : Prop :=
  ∀ x ∈ z.n₁ ++ z.n₂ ++ z.n₃ ++ z.n₄ ++ z.n₅ ++ z.n₆ ++ z.n₇, Sent.Good x

/-- no frame travelling while a request is outstanding is of the class that answers it (after the last answer:
    anything) -/
def NoiseFrames.NotAnswers (z : NoiseFrames) : Prop :=
  (∀ x ∈ z.n₁, answerKind .INIT_VERSION x.2 = false) ∧ (∀ x ∈ z.n₂, answerKind .INIT_GROUP_NAMES x.2 = false) ∧
  (∀ x ∈ z.n₃, answerKind .INIT_AC_ABILITY x.2 = false) ∧ (∀ x ∈ z.n₄, answerKind .INIT_AC_STATUS x.2 = false) ∧
  (∀ x ∈ z.n₅, answerKind .INIT_AC_TIMER_STATUS x.2 = false) ∧ (∀ x ∈ z.n₆, answerKind .INIT_GROUP_STATUS x.2 = false)

def NoiseFrames.none : NoiseFrames := ⟨[], [], [], [], [], [], []⟩

def recvOfSent (x : Sent) : Op := .recv x.2

/-- the noise as ops of the API model -/
def NoiseFrames.ops (z : NoiseFrames) : Noise :=
  ⟨z.n₁.map recvOfSent, z.n₂.map recvOfSent, z.n₃.map recvOfSent, z.n₄.map recvOfSent, z.n₅.map recvOfSent,
   z.n₆.map recvOfSent, z.n₇.map recvOfSent⟩

/-- everything the console puts on the wire, in order -/
def onWire (a : Answers) (p : Pids) (z : NoiseFrames) : List Sent :=
  z.n₁ ++ [consoleSent p.p₁ a.verMsg] ++ z.n₂ ++ [consoleSent p.p₂ a.namesMsg] ++ z.n₃ ++
  [consoleSent p.p₃ a.abilityMsg] ++ z.n₄ ++ [consoleSent p.p₄ a.acStatusMsg] ++ z.n₅ ++
  [consoleSent p.p₅ a.timerMsg] ++ z.n₆ ++ [consoleSent p.p₆ a.groupMsg] ++ z.n₇

/-- the conclusion of `handshake_end_to_end_at4` for a run in which the connection is never lost -/
def HandshakeDone (a : Answers) (r : State × List Ev) : Prop :=
  r.1.st = .CONNECTED ∧ r.1.initialised = true ∧
  hsSends r.2 = handshakeRequests ++ [hbMessage] ∧
  (∀ c, Ev.subscriberExc c ∉ r.2) ∧
  (r.2.count (Ev.result "init True") = 1 ∧ ∀ t, Ev.result t ∈ r.2 → t = "init True") ∧
  exposedModel r.1 = describedModel a.names a.abilities

theorem onWire_good (a : Answers) (p : Pids) (z : NoiseFrames) (ha : a.Sendable) (hp : p.Valid) (hz : z.Good) :
    ∀ x ∈ onWire a p z, Sent.Good x := by
  obtain ⟨a1, a2, a3, a4, a5, a6⟩ := ha
  obtain ⟨p1, p2, p3, p4, p5, p6⟩ := hp
  intro x hx
  simp only [onWire, List.mem_append, List.mem_singleton] at hx
  simp only [NoiseFrames.Good, List.mem_append] at hz
  rcases hx with ((((((((((((h | rfl) | h) | rfl) | h) | rfl) | h) | rfl) | h) | rfl) | h) | rfl) | h)
  · exact hz x (by simp [h])
  · exact consoleSent_good _ p1 _ a1
  · exact hz x (by simp [h])
  · exact consoleSent_good _ p2 _ a2
  · exact hz x (by simp [h])
  · exact consoleSent_good _ p3 _ a3
  · exact hz x (by simp [h])
  · exact consoleSent_good _ p4 _ a4
  · exact hz x (by simp [h])
  · exact consoleSent_good _ p5 _ a5
  · exact hz x (by simp [h])
  · exact consoleSent_good _ p6 _ a6
  · exact hz x (by simp [h])

theorem ops_of_onWire (a : Answers) (p : Pids) (z : NoiseFrames) :
    [Op.init, .conn true] ++ ((onWire a p z).map fun x => recvOp (x.1.hdr, x.2)) = handshakeOps a z.ops := by
  simp [onWire, handshakeOps, beforeLast, NoiseFrames.ops, recvOp, consoleSent, List.append_assoc,
    Function.comp_def]
  rfl

theorem junk_map_recv (st : AState) (l : List Sent) (h : ∀ x ∈ l, answerKind st x.2 = false) :
    Junk st (l.map recvOfSent) := by
  intro op hop
  obtain ⟨x, hx, rfl⟩ := List.mem_map.mp hop
  exact ⟨rfl, h x hx⟩

theorem ops_valid (z : NoiseFrames) (hz : z.NotAnswers) : z.ops.Valid := by
  obtain ⟨h1, h2, h3, h4, h5, h6⟩ := hz
  refine ⟨junk_map_recv _ _ h1, junk_map_recv _ _ h2, junk_map_recv _ _ h3, junk_map_recv _ _ h4,
    junk_map_recv _ _ h5, junk_map_recv _ _ h6, junk_map_recv _ _ ?_⟩
  intro x _
  cases x.2 <;> rfl

theorem ops_lostConn (z : NoiseFrames) : z.ops.lostConn = false := by
  simp [Noise.lostConn, NoiseFrames.ops, recvOfSent, dropsConn, List.any_eq_false]

end At4
open At4

/-- **C09 from bytes (AirTouch 4).**  A consistent installation (`Consistent`, as in `handshake_end_to_end_at4`) whose six
    answers the registry can encode (`a.Sendable`); packet ids `p`; good frames `z` (none of the awaited class while a
    request is outstanding) before, between and after the answers; **every** list of segments `segs` whose
    concatenation is the concatenated frames.  Feed the segments to the receive path; run the API model on
    `init, conn true` and one `recv` per delivery.  Then: the receive path delivers exactly the frames sent and keeps
    nothing; the op list is `handshakeOps`; the API ends `CONNECTED`, initialised, has sent the six requests in order
    (then the first heartbeat), no handler raised, `RESULT init True` once and no other result, and the exposed object
    model is the described one. -/
theorem handshake_from_bytes_at4 (a : Answers) (p : Pids) (z : NoiseFrames)
    (hc : Consistent a.names a.abilities) (ha : a.Sendable) (hp : p.Valid) (hzg : z.Good) (hzn : z.NotAnswers)
    (segs : List Bytes) (hsegs : segs.flatten = wireStream (onWire a p z)) :
    (feedAll proto ⟨[], false⟩ segs).2 = ⟨[], false⟩ ∧
    (feedAll proto ⟨[], false⟩ segs).1 = (onWire a p z).map (fun x => (x.1.hdr, x.2)) ∧
    [Op.init, .conn true] ++ (feedAll proto ⟨[], false⟩ segs).1.map recvOp = handshakeOps a z.ops ∧
    HandshakeDone a (run State.initial ([.init, .conn true] ++ (feedAll proto ⟨[], false⟩ segs).1.map recvOp)) := by
  have hd := stream_delivers (onWire a p z) (onWire_good a p z ha hp hzg) segs hsegs
  have hops : [Op.init, .conn true] ++ (feedAll proto ⟨[], false⟩ segs).1.map recvOp = handshakeOps a z.ops := by
    rw [hd]
    simp only [List.map_map, Function.comp_def]
    exact ops_of_onWire a p z
  refine ⟨by rw [hd], by rw [hd], hops, ?_⟩
  rw [hops]
  obtain ⟨h1, h2, h3, h4, h5, _, h7⟩ := handshake_end_to_end_at4 a z.ops hc (ops_valid z hzn)
  rw [ops_lostConn] at h3
  exact ⟨h1, h2, h3, h4, h5, h7⟩

/-- **… at the payload level**: the receive path hands the payload bytes on (`rawProto`), the driver issues
    `msg <message id> <payload>` for each delivery, and `Api4.apiStep` decodes the payload with the registry model
    (`decodeTop`).  By the C03 round trip the run is the run of `handshake_from_bytes_at4`, outputs included. -/
theorem handshake_from_payloads_at4 (a : Answers) (p : Pids) (z : NoiseFrames)
    (hc : Consistent a.names a.abilities) (ha : a.Sendable) (hp : p.Valid) (hzg : z.Good) (hzn : z.NotAnswers)
    (segs : List Bytes) (hsegs : segs.flatten = wireStream (onWire a p z)) :
    (feedAll rawProto ⟨[], false⟩ segs).2 = ⟨[], false⟩ ∧
    (feedAll rawProto ⟨[], false⟩ segs).1 = (onWire a p z).map (fun x => (x.1.hdr, x.1.payload)) ∧
    run State.initial ([.init, .conn true] ++ (feedAll rawProto ⟨[], false⟩ segs).1.map msgOp) =
      run State.initial ([.init, .conn true] ++ (feedAll proto ⟨[], false⟩ segs).1.map recvOp) ∧
    HandshakeDone a (run State.initial ([.init, .conn true] ++ (feedAll rawProto ⟨[], false⟩ segs).1.map msgOp)) := by
  have hg := onWire_good a p z ha hp hzg
  have hd := stream_delivers (onWire a p z) hg segs hsegs
  have hr := stream_delivers_raw (onWire a p z) hg segs hsegs
  have hrun : run State.initial ([.init, .conn true] ++ (feedAll rawProto ⟨[], false⟩ segs).1.map msgOp) =
      run State.initial ([.init, .conn true] ++ (feedAll proto ⟨[], false⟩ segs).1.map recvOp) := by
    rw [hd, hr]
    simp only [List.map_map, Function.comp_def]
    exact run_pre_msg_eq_recv _ _ hg _
  refine ⟨by rw [hr], by rw [hr], hrun, ?_⟩
  rw [hrun]
  exact (handshake_from_bytes_at4 a p z hc ha hp hzg hzn segs hsegs).2.2.2

/-- **… without noise**: the byte stream is the six answer frames and nothing else -/
theorem handshake_clean_from_bytes_at4 (a : Answers) (p : Pids) (hc : Consistent a.names a.abilities)
    (ha : a.Sendable) (hp : p.Valid) (segs : List Bytes)
    (hsegs : segs.flatten =
      (consoleWire p.p₁ a.verMsg).bytes ++ (consoleWire p.p₂ a.namesMsg).bytes ++ (consoleWire p.p₃ a.abilityMsg).bytes ++
      (consoleWire p.p₄ a.acStatusMsg).bytes ++ (consoleWire p.p₅ a.timerMsg).bytes ++ (consoleWire p.p₆ a.groupMsg).bytes) :
    (feedAll proto ⟨[], false⟩ segs).2 = ⟨[], false⟩ ∧
    (feedAll proto ⟨[], false⟩ segs).1.map (·.2) =
      [a.verMsg, a.namesMsg, a.abilityMsg, a.acStatusMsg, a.timerMsg, a.groupMsg] ∧
    HandshakeDone a (run State.initial ([.init, .conn true] ++ (feedAll proto ⟨[], false⟩ segs).1.map recvOp)) := by
  have hz : NoiseFrames.none.Good := by intro x hx; simp [NoiseFrames.none] at hx
  have hn : NoiseFrames.none.NotAnswers := by
    refine ⟨?_, ?_, ?_, ?_, ?_, ?_⟩ <;> intro x hx <;> simp [NoiseFrames.none] at hx
  obtain ⟨h1, h2, _, h4⟩ := handshake_from_bytes_at4 a p NoiseFrames.none hc ha hp hz hn segs (by
    rw [hsegs]
    simp [wireStream, onWire, NoiseFrames.none, consoleSent, List.append_assoc])
  refine ⟨h1, ?_, h4⟩
  rw [h2]
  rfl

/-! ### non-vacuity (AirTouch 4)

The demo installation of `Props/C09At4b` (one AC `AC` with groups 0 `a` and 1 `b`; four timer slots, as the timer-status
encoder demands), packet ids including 0 and 255, and noise: an unsolicited AC status and a frame of unknown type 0x99
before the version answer, a duplicate version answer, a frame addressed to the console (0x90, from 0xB0), an
error-information message, AC statuses, and after the handshake a group status and a names message.  295 bytes, fed
**one byte per segment**. -/

namespace At4

def demoAnswersB : Answers :=
  { demoAnswersA with
    timers := [demoTimer, { demoTimer with ac_number := 1 }, { demoTimer with ac_number := 2 },
      { demoTimer with ac_number := 3 }] }

def demoPids : Pids := ⟨1, 2, 3, 250, 0, 255⟩

def demoNoiseFrames : NoiseFrames :=
  { n₁ := [consoleSent 7 demoAcStatusMsg, unknownSent 0xB0 0x80 9 0x99 [1, 2]]
    n₂ := [consoleSent 1 demoVersionMsg]
    n₃ := [(wireOf 0x90 0xB0 3 (.extended (.consoleVer .request)), .extended (.consoleVer .request))]
    n₄ := []
    n₅ := [consoleSent 4 (.extended (.errInfo (.message { ac_number := 0, error_info := some [69] })))]
    n₆ := [consoleSent 4 demoAcStatusMsg]
    n₇ := [consoleSent 8 demoGroupMsg, consoleSent 9 demoNamesMsg] }

theorem demoB_sendable : demoAnswersB.Sendable := by
  refine ⟨?_, ?_, ?_, ?_, ?_, ?_⟩ <;> exact sendable_of_bool _ (by decide +kernel)

theorem demoNoiseFrames_good : demoNoiseFrames.Good := by
  intro x hx
  simp only [demoNoiseFrames, List.cons_append, List.nil_append, List.mem_cons, List.not_mem_nil, or_false] at hx
  rcases hx with rfl | rfl | rfl | rfl | rfl | rfl | rfl | rfl
  · exact consoleSent_good _ (by decide) _ (sendable_of_bool _ (by decide +kernel))
  · exact unknownSent_good _ _ _ _ _ (by decide) (by decide) (by decide) (by decide) (by decide) (by decide)
      (by unfold AllBytes; decide)
  · exact consoleSent_good _ (by decide) _ (sendable_of_bool _ (by decide +kernel))
  · exact wireOf_good _ _ _ (by decide) (by decide) (by decide) _ (sendable_of_bool _ (by decide +kernel))
  · exact consoleSent_good _ (by decide) _ (sendable_of_bool _ (by decide +kernel))
  · exact consoleSent_good _ (by decide) _ (sendable_of_bool _ (by decide +kernel))
  · exact consoleSent_good _ (by decide) _ (sendable_of_bool _ (by decide +kernel))
  · exact consoleSent_good _ (by decide) _ (sendable_of_bool _ (by decide +kernel))

theorem demoNoiseFrames_notAnswers : demoNoiseFrames.NotAnswers := by
  simp only [NoiseFrames.NotAnswers, demoNoiseFrames]
  decide

example : (wireStream (onWire demoAnswersB demoPids demoNoiseFrames)).length = 295 := by decide +kernel

/-- the theorem applied: the exposed model after the byte-by-byte run is the described one -/
example :
    let segs := (wireStream (onWire demoAnswersB demoPids demoNoiseFrames)).map fun b => [b]
    exposedModel (run State.initial ([.init, .conn true] ++ (feedAll proto ⟨[], false⟩ segs).1.map recvOp)).1 =
      [(0, [65, 67], [(0, [97]), (1, [98])])] := by
  intro segs
  rw [(handshake_from_bytes_at4 demoAnswersB demoPids demoNoiseFrames demo_consistent demoB_sendable
    (by unfold Pids.Valid; decide) demoNoiseFrames_good demoNoiseFrames_notAnswers segs
    (flatten_singletons _)).2.2.2.2.2.2.2.2]
  decide

/-- … and for the driver's `msg` ops on the raw payloads -/
example :
    let segs := (wireStream (onWire demoAnswersB demoPids demoNoiseFrames)).map fun b => [b]
    (run State.initial ([.init, .conn true] ++ (feedAll rawProto ⟨[], false⟩ segs).1.map msgOp)).1.st = .CONNECTED := by
  intro segs
  exact (handshake_from_payloads_at4 demoAnswersB demoPids demoNoiseFrames demo_consistent demoB_sendable
    (by unfold Pids.Valid; decide) demoNoiseFrames_good demoNoiseFrames_notAnswers segs (flatten_singletons _)).2.2.2.1

/-- the same, computed by the kernel without the theorem: the 14 frames are delivered in order -/
example : (feedAll proto ⟨[], false⟩
      ((wireStream (onWire demoAnswersB demoPids demoNoiseFrames)).map fun b => [b])).1.map (·.2) =
    (onWire demoAnswersB demoPids demoNoiseFrames).map (·.2) := by decide +kernel

end At4

end At4Part

/-! ## AirTouch 5 -/

section At5Part
open PyAirtouch.Model.Api5 PyAirtouch.Model.At5 PyAirtouch.Model.At5.Registry
open PyAirtouch.Gen PyAirtouch.Gen.Api5 PyAirtouch.Lemmas.Api5 PyAirtouch.Lemmas.CrossLayer.At5
open PyAirtouch.Model.TimerCommon (AcTimerStatusData)

/-- **any list of good frames** (any addresses, any packet ids, known or unknown types), **any segmentation**: the
    receive path delivers exactly the frames' headers and decoded messages, in order, and ends with an empty buffer -/
theorem stream_delivers_frames_at5 (xs : List Sent) (hx : ∀ x ∈ xs, x.Good) (segs : List Bytes)
    (hsegs : segs.flatten = wireStream xs) :
    Frame.feedAll proto ⟨[], false⟩ segs = (xs.map (fun x => (x.1.hdr, x.2)), ⟨[], false⟩) :=
  stream_delivers xs hx segs hsegs

/-- **console frames of sendable messages**, packet ids `pm.1`: every segmentation of the concatenated frames delivers
    exactly those messages, in order, each under the header the console wrote, and ends with an empty buffer -/
theorem stream_delivers_at5 (ms : List (Nat × Msg)) (hms : ∀ pm ∈ ms, pm.1 < 256 ∧ Sendable pm.2)
    (segs : List Bytes) (hsegs : segs.flatten = wireStream (ms.map fun pm => consoleSent pm.1 pm.2)) :
    Frame.feedAll proto ⟨[], false⟩ segs =
      (ms.map (fun pm =>
        (({ to_address := 0xB0, from_address := if pm.2.messageId ≠ 0x1F then 0x80 else 0x90, packet_id := pm.1,
            message_id := pm.2.messageId, message_length := (payloadOf pm.2).length } : Hdr), pm.2)),
       ⟨[], false⟩) := by
  rw [stream_delivers _ (by
    intro x hx
    obtain ⟨pm, hpm, rfl⟩ := List.mem_map.mp hx
    exact consoleSent_good pm.1 (hms pm hpm).1 pm.2 (hms pm hpm).2) segs hsegs, List.map_map]
  rfl

/-- the payloads themselves (receive path without the registry) -/
theorem stream_delivers_payloads_at5 (xs : List Sent) (hx : ∀ x ∈ xs, x.Good) (segs : List Bytes)
    (hsegs : segs.flatten = wireStream xs) :
    Frame.feedAll rawProto ⟨[], false⟩ segs = (xs.map (fun x => (x.1.hdr, x.1.payload)), ⟨[], false⟩) :=
  stream_delivers_raw xs hx segs hsegs

namespace At5

/-- the six answer frames (any addresses: the zero-zone echoes count only when addressed to 0xB0) -/
structure AnswerFrames where
  x₁ : Sent
  x₂ : Sent
  x₃ : Sent
  x₄ : Sent
  x₅ : Sent
  x₆ : Sent

def AnswerFrames.Good (x : AnswerFrames) : Prop :=
  x.x₁.Good ∧ x.x₂.Good ∧ x.x₃.Good ∧ x.x₄.Good ∧ x.x₅.Good ∧ x.x₆.Good

/-- each frame is accepted as the answer to the request outstanding at its turn (`Lemmas.Api5.answers`, which reads
    the header's `to_address` for the zero-zone echoes) -/
def AnswerFrames.Answer (x : AnswerFrames) : Prop :=
  answers .INIT_VERSION x.x₁.1.hdr.to_address x.x₁.2 = true ∧
  answers .INIT_ZONE_NAMES x.x₂.1.hdr.to_address x.x₂.2 = true ∧
  answers .INIT_AC_ABILITY x.x₃.1.hdr.to_address x.x₃.2 = true ∧
  answers .INIT_AC_STATUS x.x₄.1.hdr.to_address x.x₄.2 = true ∧
  answers .INIT_AC_TIMER_STATUS x.x₅.1.hdr.to_address x.x₅.2 = true ∧
  answers .INIT_ZONE_STATUS x.x₆.1.hdr.to_address x.x₆.2 = true

/-- the frames that travel before, between and after the six answers: any good frames at all -/
structure NoiseFrames where
  n₁ : List Sent
  n₂ : List Sent
  n₃ : List Sent
  n₄ : List Sent
  n₅ : List Sent
  n₆ : List Sent
  n₇ : List Sent

def NoiseFrames.Good (z : NoiseFrames) : Prop :=
  ∀ x ∈ z.n₁ ++ z.n₂ ++ z.n₃ ++ z.n₄ ++ z.n₅ ++ z.n₆ ++ z.n₇, Sent.Good x

def NoiseFrames.none : NoiseFrames := ⟨[], [], [], [], [], [], []⟩

/-- the API op of a frame: the decoded message with the header's `to_address` -/
def sentOp (x : Sent) : Op := .msg x.1.hdr.to_address x.2

/-- everything the console puts on the wire, in order -/
def onWire (x : AnswerFrames) (z : NoiseFrames) : List Sent :=
  z.n₁ ++ [x.x₁] ++ z.n₂ ++ [x.x₂] ++ z.n₃ ++ [x.x₃] ++ z.n₄ ++ [x.x₄] ++ z.n₅ ++ [x.x₅] ++ z.n₆ ++ [x.x₆] ++ z.n₇

/-- the side condition `hok` of `C09_handshake_completes_at5`: if the ability answer arrives while the API waits for it,
    the zones it refers to are known (else the real code raises `KeyError` in the handler and keeps waiting) -/
def AbilityKnown (s0 : State) (x : AnswerFrames) (z : NoiseFrames) : Prop :=
  (runS s0 ([.init, .conn true] ++ (z.n₁ ++ [x.x₁] ++ z.n₂ ++ [x.x₂] ++ z.n₃).map sentOp)).st = .INIT_AC_ABILITY →
  abilityOk (runS s0 ([.init, .conn true] ++ (z.n₁ ++ [x.x₁] ++ z.n₂ ++ [x.x₂] ++ z.n₃).map sentOp)) x.x₃.2

theorem onWire_good (x : AnswerFrames) (z : NoiseFrames) (hx : x.Good) (hz : z.Good) :
    ∀ y ∈ onWire x z, Sent.Good y := by
  obtain ⟨a1, a2, a3, a4, a5, a6⟩ := hx
  intro y hy
  simp only [onWire, List.mem_append, List.mem_singleton] at hy
  simp only [NoiseFrames.Good, List.mem_append] at hz
  rcases hy with ((((((((((((h | rfl) | h) | rfl) | h) | rfl) | h) | rfl) | h) | rfl) | h) | rfl) | h)
  · exact hz y (by simp [h])
  · exact a1
  · exact hz y (by simp [h])
  · exact a2
  · exact hz y (by simp [h])
  · exact a3
  · exact hz y (by simp [h])
  · exact a4
  · exact hz y (by simp [h])
  · exact a5
  · exact hz y (by simp [h])
  · exact a6
  · exact hz y (by simp [h])

/-- the fresh object after `init()` and the connection: the version request is out -/
theorem afterConn_facts (aid serial name host : Bytes) :
    Handshaking (runS (State.new aid serial name host) [.init, .conn true]) ∧
    (runS (State.new aid serial name host) [.init, .conn true]).st = .INIT_VERSION ∧
    HbIdle (runS (State.new aid serial name host) [.init, .conn true]).hb ∧
    runOut (State.new aid serial name host) [.init, .conn true] =
      [.opened, .send .connected msgConsoleVersionRequest false] ∧
    (runS (State.new aid serial name host) [.init, .conn true]).zones = [] ∧
    (runS (State.new aid serial name host) [.init, .conn true]).acs = [] :=
  ⟨⟨rfl, rfl, (by decide : 2 ≤ rank AirTouchState.INIT_VERSION)⟩, rfl, ⟨rfl, rfl⟩, rfl, rfl, rfl⟩

theorem isFrame_map_sentOp (l : List Sent) : ∀ o ∈ l.map sentOp, Op.isFrame o = true := by
  intro o ho
  obtain ⟨x, _, rfl⟩ := List.mem_map.mp ho
  rfl

end At5
open At5

/-- **C09 from bytes (AirTouch 5).**  A fresh object; six good frames `x` each accepted as the answer at its turn
    (`x.Answer`); **any** good frames `z` before, between and after them; the side condition of
    `C09_handshake_completes_at5` on the ability answer (`AbilityKnown`); **every** list of segments `segs` whose
    concatenation is the concatenated frames.  Feed the segments to the receive path; run the API model on
    `init, conn true` and one `msg <to_address> <message>` per delivery.  Then the receive path delivers exactly the
    frames sent and keeps nothing, and the API ends `CONNECTED` with the initialised event set. -/
theorem handshake_from_bytes_at5 (aid serial name host : Bytes) (x : AnswerFrames) (z : NoiseFrames)
    (hx : x.Good) (hans : x.Answer) (hz : z.Good) (hok : AbilityKnown (State.new aid serial name host) x z)
    (segs : List Bytes) (hsegs : segs.flatten = wireStream (onWire x z)) :
    (Frame.feedAll proto ⟨[], false⟩ segs).2 = ⟨[], false⟩ ∧
    (Frame.feedAll proto ⟨[], false⟩ segs).1 = (onWire x z).map (fun y => (y.1.hdr, y.2)) ∧
    (runS (State.new aid serial name host)
      ([.init, .conn true] ++ (Frame.feedAll proto ⟨[], false⟩ segs).1.map frameOp)).st = .CONNECTED ∧
    (runS (State.new aid serial name host)
      ([.init, .conn true] ++ (Frame.feedAll proto ⟨[], false⟩ segs).1.map frameOp)).initialised = true := by
  have hd := stream_delivers (onWire x z) (onWire_good x z hx hz) segs hsegs
  obtain ⟨hs, hst, _⟩ := afterConn_facts aid serial name host
  obtain ⟨h1, h2, h3, h4, h5, h6⟩ := hans
  have key := C09_handshake_completes_at5 (runS (State.new aid serial name host) [.init, .conn true]) hs hst
    (z.n₁.map sentOp) (z.n₂.map sentOp) (z.n₃.map sentOp) (z.n₄.map sentOp) (z.n₅.map sentOp) (z.n₆.map sentOp)
    (z.n₇.map sentOp) (x.x₁.1.hdr.to_address, x.x₁.2) (x.x₂.1.hdr.to_address, x.x₂.2)
    (x.x₃.1.hdr.to_address, x.x₃.2) (x.x₄.1.hdr.to_address, x.x₄.2) (x.x₅.1.hdr.to_address, x.x₅.2)
    (x.x₆.1.hdr.to_address, x.x₆.2)
    (by
      intro o ho
      rw [← List.map_append, ← List.map_append, ← List.map_append, ← List.map_append, ← List.map_append,
        ← List.map_append] at ho
      exact isFrame_map_sentOp _ o ho)
    h1 h2 h3 h4 h5 h6
    (by
      have e : runS (runS (State.new aid serial name host) [.init, .conn true])
          (z.n₁.map sentOp ++ [Op.msg x.x₁.1.hdr.to_address x.x₁.2] ++
            (z.n₂.map sentOp ++ [Op.msg x.x₂.1.hdr.to_address x.x₂.2]) ++ z.n₃.map sentOp) =
          runS (State.new aid serial name host)
            ([.init, .conn true] ++ (z.n₁ ++ [x.x₁] ++ z.n₂ ++ [x.x₂] ++ z.n₃).map sentOp) := by
        rw [← runS_append]
        simp [sentOp, List.append_assoc]
      rw [e]
      exact hok)
  have e : [Op.init, .conn true] ++ ((onWire x z).map fun y => frameOp (y.1.hdr, y.2)) =
      [Op.init, .conn true] ++ (z.n₁.map sentOp ++ [Op.msg x.x₁.1.hdr.to_address x.x₁.2] ++
        (z.n₂.map sentOp ++ [Op.msg x.x₂.1.hdr.to_address x.x₂.2]) ++
        (z.n₃.map sentOp ++ [Op.msg x.x₃.1.hdr.to_address x.x₃.2]) ++
        (z.n₄.map sentOp ++ [Op.msg x.x₄.1.hdr.to_address x.x₄.2]) ++
        (z.n₅.map sentOp ++ [Op.msg x.x₅.1.hdr.to_address x.x₅.2]) ++
        (z.n₆.map sentOp ++ [Op.msg x.x₆.1.hdr.to_address x.x₆.2]) ++ z.n₇.map sentOp) := by
    simp [onWire, frameOp, List.append_assoc]
    rfl
  refine ⟨by rw [hd], by rw [hd], ?_, ?_⟩
  · rw [hd]
    simp only [List.map_map, Function.comp_def]
    rw [e, runS_append]
    exact key.1
  · rw [hd]
    simp only [List.map_map, Function.comp_def]
    rw [e, runS_append]
    exact key.2

/-- **… at the payload level**: the receive path hands the payload bytes on (`rawProto`) and the driver parses
    `msg <message id> <payload> <to_address>` with `ApiCmd5.parseMsg`, which decodes the payload with the registry model.
    By the C03 round trip the op list is the very op list of `handshake_from_bytes_at5`. -/
theorem handshake_from_payloads_at5 (x : AnswerFrames) (z : NoiseFrames) (hx : x.Good) (hz : z.Good)
    (segs : List Bytes) (hsegs : segs.flatten = wireStream (onWire x z)) :
    (Frame.feedAll rawProto ⟨[], false⟩ segs).2 = ⟨[], false⟩ ∧
    (Frame.feedAll rawProto ⟨[], false⟩ segs).1 = (onWire x z).map (fun y => (y.1.hdr, y.1.payload)) ∧
    (Frame.feedAll rawProto ⟨[], false⟩ segs).1.map payloadOp = (Frame.feedAll proto ⟨[], false⟩ segs).1.map frameOp := by
  have hg := onWire_good x z hx hz
  have hd := stream_delivers (onWire x z) hg segs hsegs
  have hr := stream_delivers_raw (onWire x z) hg segs hsegs
  refine ⟨by rw [hr], by rw [hr], ?_⟩
  rw [hd, hr]
  simp only [List.map_map, Function.comp_def]
  exact map_payloadOp _ hg

namespace At5

/-- one accepted answer before the last: everything needed to go on -/
theorem answer_step (s : State) (t : Nat) (m : Msg) (hs : Handshaking s) (hi : HbIdle s.hb) (h6 : rank s.st ≤ 6)
    (ha : answers s.st t m = true) (hok : abilityOk s m) :
    Handshaking (apiStep s (.msg t m)).1 ∧ HbIdle (apiStep s (.msg t m)).1.hb ∧
    (apiStep s (.msg t m)).1.st = nextState s.st ∧
    handshakeSends (apiStep s (.msg t m)).2 =
      ((requestFor (nextState s.st)).map fun r => (Policy.connected, r)).toList := by
  have hm : Mono s (apiStep s (.msg t m)).1 := doMsg_mono s t m
  have hst : (apiStep s (.msg t m)).1.st = nextState s.st := answer_advances s t m hs ha hok
  have hne : (apiStep s (.msg t m)).1.st ≠ .CONNECTED := by
    intro h
    have := rank_nextState s.st (by omega)
    rw [← hst, h] at this
    have h8 : rank AirTouchState.CONNECTED = 8 := rfl
    rw [h8] at this
    omega
  exact ⟨(mono_handshaking hm hs).1, (hm.quiet (Or.inl hne)).2.2 hi, hst, answer_sends s t m hs h6 hi ha hok⟩

theorem handshakeSends_results (l : List Nat) :
    handshakeSends (l.map fun _ => Out.result "init True") = [] := by
  induction l with
  | nil => rfl
  | cons x l ih => simp [handshakeSends]

theorem handshakeSends_post (post : List Out) (h : ∀ o ∈ post, o = .send .connected hbMessage false ∨ o = .reset) :
    ∀ q ∈ handshakeSends post, q = (Policy.connected, hbMessage) := by
  intro q hq
  simp only [handshakeSends, List.mem_filterMap] at hq
  obtain ⟨o, ho, hoq⟩ := hq
  rcases h o ho with rfl | rfl
  · simp only [show isErrInfoRequest hbMessage = false from rfl, Bool.false_eq_true, ↓reduceIte,
      Option.some.injEq] at hoq
    exact hoq.symm
  · cases hoq

/-- six answers in a row from `INIT_VERSION`: the state machine walks to `CONNECTED`; the sends that are not
    error-information requests are the five further requests, in order, then only heartbeat requests -/
theorem clean_run (s : State) (hs : Handshaking s) (hi : HbIdle s.hb) (hst : s.st = .INIT_VERSION)
    (a1 a2 a3 a4 a5 a6 : Nat × Msg)
    (h1 : answers .INIT_VERSION a1.1 a1.2 = true) (h2 : answers .INIT_ZONE_NAMES a2.1 a2.2 = true)
    (h3 : answers .INIT_AC_ABILITY a3.1 a3.2 = true) (h4 : answers .INIT_AC_STATUS a4.1 a4.2 = true)
    (h5 : answers .INIT_AC_TIMER_STATUS a5.1 a5.2 = true) (h6 : answers .INIT_ZONE_STATUS a6.1 a6.2 = true)
    (hok : abilityOk (runS s [.msg a1.1 a1.2, .msg a2.1 a2.2]) a3.2) :
    (runS s [.msg a1.1 a1.2, .msg a2.1 a2.2, .msg a3.1 a3.2, .msg a4.1 a4.2, .msg a5.1 a5.2, .msg a6.1 a6.2]).st =
      .CONNECTED ∧
    (runS s [.msg a1.1 a1.2, .msg a2.1 a2.2, .msg a3.1 a3.2, .msg a4.1 a4.2, .msg a5.1 a5.2, .msg a6.1 a6.2]).initialised =
      true ∧
    ∃ post, handshakeSends (runOut s [.msg a1.1 a1.2, .msg a2.1 a2.2, .msg a3.1 a3.2, .msg a4.1 a4.2, .msg a5.1 a5.2,
        .msg a6.1 a6.2]) =
      [(Policy.connected, msgZoneNamesRequestAll), (Policy.connected, msgAcAbilityRequestAll),
       (Policy.connected, msgAcStatusRequest), (Policy.connected, msgAcTimerStatusRequest),
       (Policy.connected, msgZoneStatusRequest)] ++ post ∧ ∀ q ∈ post, q = (Policy.connected, hbMessage) := by
  obtain ⟨hs1, hi1, st1, sd1⟩ := answer_step s a1.1 a1.2 hs hi (by rw [hst]; decide) (by rw [hst]; exact h1)
    (abilityOk_of_other _ _ _ _ h1 (by decide))
  rw [hst] at st1 sd1
  generalize hs1e : (apiStep s (.msg a1.1 a1.2)).1 = s1 at hs1 hi1 st1
  generalize ho1e : (apiStep s (.msg a1.1 a1.2)).2 = o1 at sd1
  obtain ⟨hs2, hi2, st2, sd2⟩ := answer_step s1 a2.1 a2.2 hs1 hi1 (by rw [st1]; decide) (by rw [st1]; exact h2)
    (abilityOk_of_other _ _ _ _ h2 (by decide))
  rw [st1] at st2 sd2
  generalize hs2e : (apiStep s1 (.msg a2.1 a2.2)).1 = s2 at hs2 hi2 st2
  generalize ho2e : (apiStep s1 (.msg a2.1 a2.2)).2 = o2 at sd2
  have hok' : abilityOk s2 a3.2 := by
    rw [← hs2e, ← hs1e]; exact hok
  obtain ⟨hs3, hi3, st3, sd3⟩ := answer_step s2 a3.1 a3.2 hs2 hi2 (by rw [st2]; decide) (by rw [st2]; exact h3) hok'
  rw [st2] at st3 sd3
  generalize hs3e : (apiStep s2 (.msg a3.1 a3.2)).1 = s3 at hs3 hi3 st3
  generalize ho3e : (apiStep s2 (.msg a3.1 a3.2)).2 = o3 at sd3
  obtain ⟨hs4, hi4, st4, sd4⟩ := answer_step s3 a4.1 a4.2 hs3 hi3 (by rw [st3]; decide) (by rw [st3]; exact h4)
    (abilityOk_of_other _ _ _ _ h4 (by decide))
  rw [st3] at st4 sd4
  generalize hs4e : (apiStep s3 (.msg a4.1 a4.2)).1 = s4 at hs4 hi4 st4
  generalize ho4e : (apiStep s3 (.msg a4.1 a4.2)).2 = o4 at sd4
  obtain ⟨hs5, hi5, st5, sd5⟩ := answer_step s4 a5.1 a5.2 hs4 hi4 (by rw [st4]; decide) (by rw [st4]; exact h5)
    (abilityOk_of_other _ _ _ _ h5 (by decide))
  rw [st4] at st5 sd5
  generalize hs5e : (apiStep s4 (.msg a5.1 a5.2)).1 = s5 at hs5 hi5 st5
  generalize ho5e : (apiStep s4 (.msg a5.1 a5.2)).2 = o5 at sd5
  obtain ⟨f1, f2, _, pre, post, f4, f5, f6⟩ := last_answer_spec s5 a6.1 a6.2 hs5.sockSubscribed st5 h6
  have eS : runS s [.msg a1.1 a1.2, .msg a2.1 a2.2, .msg a3.1 a3.2, .msg a4.1 a4.2, .msg a5.1 a5.2, .msg a6.1 a6.2] =
      (doMsg s5 a6.1 a6.2).1 := by
    simp only [runS_cons, runS_nil, hs1e, hs2e, hs3e, hs4e, hs5e]
    rfl
  have eO : runOut s [.msg a1.1 a1.2, .msg a2.1 a2.2, .msg a3.1 a3.2, .msg a4.1 a4.2, .msg a5.1 a5.2, .msg a6.1 a6.2] =
      o1 ++ (o2 ++ (o3 ++ (o4 ++ (o5 ++ ((doMsg s5 a6.1 a6.2).2 ++ []))))) := by
    simp only [runOut_cons, runOut_nil, hs1e, hs2e, hs3e, hs4e, hs5e, ho1e, ho2e, ho3e, ho4e, ho5e]
    rfl
  refine ⟨by rw [eS]; exact f1, by rw [eS]; exact f2, handshakeSends post, ?_, handshakeSends_post post f6⟩
  rw [eO, f4]
  simp only [handshakeSends_append, sd1, sd2, sd3, sd4, sd5, handshakeSends_results,
    handshakeSends_nil (fun o ho => Or.inl (f5 o ho)), List.append_nil, List.nil_append]
  rfl

/-- the packet ids the console gives its six answers -/
structure Pids where
  p₁ : Nat
  p₂ : Nat
  p₃ : Nat
  p₄ : Nat
  p₅ : Nat
  p₆ : Nat

def Pids.Valid (p : Pids) : Prop := p.p₁ < 256 ∧ p.p₂ < 256 ∧ p.p₃ < 256 ∧ p.p₄ < 256 ∧ p.p₅ < 256 ∧ p.p₆ < 256

/-- the installation as the console describes it in its six answers -/
structure Answers where
  version : FF30.ConsoleVersionMessage
  names : FF13.ZoneNamesMessage
  abilities : List FF11.AcAbility
  acStatus : List C023.AcStatusData
  timers : List AcTimerStatusData
  zones : List C021.ZoneStatusData

def Answers.verMsg (a : Answers) : Msg := .extended (.consoleVer (.message a.version))
def Answers.namesMsg (a : Answers) : Msg := .extended (.zoneNames (.message a.names))
def Answers.abilityMsg (a : Answers) : Msg := .extended (.acAbility (.ability a.abilities))
def Answers.acStatusMsg (a : Answers) : Msg := .controlStatus (.acStatus (.status a.acStatus))
def Answers.timerMsg (a : Answers) : Msg := .controlStatus (.acTimerStatus (.status a.timers))
def Answers.zoneMsg (a : Answers) : Msg := .controlStatus (.zoneStatus (.status a.zones))

/-- the registry can encode each of the six answers and the payload fits the length fields -/
def Answers.Sendable (a : Answers) : Prop :=
  PyAirtouch.Lemmas.CrossLayer.At5.Sendable a.verMsg ∧ PyAirtouch.Lemmas.CrossLayer.At5.Sendable a.namesMsg ∧
  PyAirtouch.Lemmas.CrossLayer.At5.Sendable a.abilityMsg ∧ PyAirtouch.Lemmas.CrossLayer.At5.Sendable a.acStatusMsg ∧
  PyAirtouch.Lemmas.CrossLayer.At5.Sendable a.timerMsg ∧ PyAirtouch.Lemmas.CrossLayer.At5.Sendable a.zoneMsg

/-- the six answers as console frames -/
def Answers.frames (a : Answers) (p : Pids) : AnswerFrames :=
  ⟨consoleSent p.p₁ a.verMsg, consoleSent p.p₂ a.namesMsg, consoleSent p.p₃ a.abilityMsg,
   consoleSent p.p₄ a.acStatusMsg, consoleSent p.p₅ a.timerMsg, consoleSent p.p₆ a.zoneMsg⟩

/-- the hypothesis `hok` of `C09_entities_as_described_at5`, on the state in which the names answer arrives: the ability
    answer refers only to zones the names answer named (no `KeyError`) -/
def Answers.ZonesKnown (a : Answers) (s0 : State) : Prop :=
  (processAcAbility a.abilities
    { processZoneNames a.names.zone_names (runS s0 [.init, .conn true, .msg 0xB0 a.verMsg]) with
      st := .INIT_AC_ABILITY }).exc = none

/-- the op list of the noise-free handshake -/
def cleanOps (a : Answers) : List Op :=
  [.init, .conn true, .msg 0xB0 a.verMsg, .msg 0xB0 a.namesMsg, .msg 0xB0 a.abilityMsg, .msg 0xB0 a.acStatusMsg,
   .msg 0xB0 a.timerMsg, .msg 0xB0 a.zoneMsg]

/-- the conclusion of `C09_entities_as_described_at5` about a state `s3` -/
def EntitiesAsDescribed (zn : FF13.ZoneNamesMessage) (abs : List FF11.AcAbility) (s3 : State) : Prop :=
  s3.st = .INIT_AC_STATUS ∧
  (∀ p ∈ zn.zone_names, (s3.zones.lookup p.1).isSome) ∧
  (∀ n r, s3.zones.lookup n = some r →
    ∃ z, s3.zobjs[r]? = some z ∧ z.id = n ∧ (n, z.name) ∈ zn.zone_names ∧ z.status = (newZone n z.name).status) ∧
  (∀ ab ∈ abs, (s3.acs.lookup ab.ac_number).isSome) ∧
  (∀ n r a, s3.ac? n = some (r, a) →
    ∃ ab ∈ abs, ab.ac_number = n ∧ a = newAc ab a.zones a.supportedModes a.supportedFanSpeeds ∧
      a.zones.length = ab.zone_count ∧
      ∀ k, k < ab.zone_count → ∃ zr z, a.zones[k]? = some zr ∧ s3.zobjs[zr]? = some z ∧
        z.id = ab.start_zone + k ∧ (ab.start_zone + k, z.name) ∈ zn.zone_names ∧ r ∈ z.fwd)

theorem frames_good (a : Answers) (p : Pids) (ha : a.Sendable) (hp : p.Valid) : (a.frames p).Good := by
  obtain ⟨a1, a2, a3, a4, a5, a6⟩ := ha
  obtain ⟨p1, p2, p3, p4, p5, p6⟩ := hp
  exact ⟨consoleSent_good _ p1 _ a1, consoleSent_good _ p2 _ a2, consoleSent_good _ p3 _ a3,
    consoleSent_good _ p4 _ a4, consoleSent_good _ p5 _ a5, consoleSent_good _ p6 _ a6⟩

/-- the state after the version answer, on a fresh object -/
theorem afterVersion_facts (aid serial name host : Bytes) (v : FF30.ConsoleVersionMessage) :
    Handshaking (runS (State.new aid serial name host) [.init, .conn true, .msg 0xB0 (.extended (.consoleVer (.message v)))]) ∧
    (runS (State.new aid serial name host) [.init, .conn true, .msg 0xB0 (.extended (.consoleVer (.message v)))]).st =
      .INIT_ZONE_NAMES ∧
    (runS (State.new aid serial name host) [.init, .conn true, .msg 0xB0 (.extended (.consoleVer (.message v)))]).zones = [] ∧
    (runS (State.new aid serial name host) [.init, .conn true, .msg 0xB0 (.extended (.consoleVer (.message v)))]).acs = [] :=
  ⟨⟨rfl, rfl, (by decide : 2 ≤ rank AirTouchState.INIT_ZONE_NAMES)⟩, rfl, rfl, rfl⟩

end At5
open At5

/-- **C09 from bytes (AirTouch 5), without noise.**  A fresh object; the six answers `a` of an installation, encodable
    (`a.Sendable`), framed by the console (to 0xB0, packet ids `p`), the ability answer referring to named zones
    (`a.ZonesKnown`: the hypothesis of `C09_entities_as_described_at5`); **every** segmentation `segs` of the six frames.
    Then: the receive path delivers the six messages and keeps nothing; the op list is `cleanOps a`; the API ends
    `CONNECTED`, initialised; the sends that are not error-information requests are the six requests in order, then
    only heartbeat requests; and after the ability answer (the first five ops) the zones and air-conditioners are those
    the console described, as `C09_entities_as_described_at5` states it. -/
theorem handshake_clean_from_bytes_at5 (aid serial name host : Bytes) (a : Answers) (p : Pids)
    (ha : a.Sendable) (hp : p.Valid) (hok : a.ZonesKnown (State.new aid serial name host))
    (segs : List Bytes)
    (hsegs : segs.flatten =
      (consoleWire p.p₁ a.verMsg).bytes ++ (consoleWire p.p₂ a.namesMsg).bytes ++ (consoleWire p.p₃ a.abilityMsg).bytes ++
      (consoleWire p.p₄ a.acStatusMsg).bytes ++ (consoleWire p.p₅ a.timerMsg).bytes ++ (consoleWire p.p₆ a.zoneMsg).bytes) :
    (Frame.feedAll proto ⟨[], false⟩ segs).2 = ⟨[], false⟩ ∧
    (Frame.feedAll proto ⟨[], false⟩ segs).1.map (·.2) =
      [a.verMsg, a.namesMsg, a.abilityMsg, a.acStatusMsg, a.timerMsg, a.zoneMsg] ∧
    [Op.init, .conn true] ++ (Frame.feedAll proto ⟨[], false⟩ segs).1.map frameOp = cleanOps a ∧
    (runS (State.new aid serial name host) (cleanOps a)).st = .CONNECTED ∧
    (runS (State.new aid serial name host) (cleanOps a)).initialised = true ∧
    (∃ post, handshakeSends (runOut (State.new aid serial name host) (cleanOps a)) =
      [(Policy.connected, msgConsoleVersionRequest), (Policy.connected, msgZoneNamesRequestAll),
       (Policy.connected, msgAcAbilityRequestAll), (Policy.connected, msgAcStatusRequest),
       (Policy.connected, msgAcTimerStatusRequest), (Policy.connected, msgZoneStatusRequest)] ++ post ∧
      ∀ q ∈ post, q = (Policy.connected, hbMessage)) ∧
    EntitiesAsDescribed a.names a.abilities (runS (State.new aid serial name host) ((cleanOps a).take 5)) := by
  have hg := frames_good a p ha hp
  have hd := stream_delivers (onWire (a.frames p) NoiseFrames.none)
    (onWire_good _ _ hg (by intro x hx; simp [NoiseFrames.none] at hx)) segs (by
      rw [hsegs]
      simp [wireStream, onWire, NoiseFrames.none, Answers.frames, consoleSent, List.append_assoc])
  obtain ⟨hs, hst, hi, hout, _, _⟩ := afterConn_facts aid serial name host
  obtain ⟨hsv, hstv, hzv, hav⟩ := afterVersion_facts aid serial name host a.version
  -- the ability answer is digestible when it arrives
  have hok' : abilityOk (runS (runS (State.new aid serial name host) [.init, .conn true])
      [.msg 0xB0 a.verMsg, .msg 0xB0 a.namesMsg]) a.abilityMsg := by
    show (processAcAbility a.abilities _).exc = none
    have e : runS (runS (State.new aid serial name host) [.init, .conn true]) [.msg 0xB0 a.verMsg, .msg 0xB0 a.namesMsg] =
        (apiStep (runS (State.new aid serial name host)
            [.init, .conn true, .msg 0xB0 (.extended (.consoleVer (.message a.version)))])
          (.msg 0xB0 (.extended (.zoneNames (.message a.names))))).1 := rfl
    rw [e, step_zoneNames _ _ _ hsv.sockSubscribed hstv]
    exact hok
  obtain ⟨c1, c2, post, c3, c4⟩ := clean_run (runS (State.new aid serial name host) [.init, .conn true]) hs hi hst
    (0xB0, a.verMsg) (0xB0, a.namesMsg) (0xB0, a.abilityMsg) (0xB0, a.acStatusMsg) (0xB0, a.timerMsg) (0xB0, a.zoneMsg)
    rfl rfl rfl rfl rfl rfl hok'
  have eops : cleanOps a = [.init, .conn true] ++ [.msg 0xB0 a.verMsg, .msg 0xB0 a.namesMsg, .msg 0xB0 a.abilityMsg,
      .msg 0xB0 a.acStatusMsg, .msg 0xB0 a.timerMsg, .msg 0xB0 a.zoneMsg] := rfl
  refine ⟨by rw [hd], by rw [hd]; rfl, by rw [hd]; rfl, ?_, ?_, ⟨post, ?_, c4⟩, ?_⟩
  · rw [eops, runS_append]; exact c1
  · rw [eops, runS_append]; exact c2
  · rw [eops, runOut_append, handshakeSends_append, hout, c3]; rfl
  · exact C09_entities_as_described_at5 _ hsv hstv hzv hav 0xB0 0xB0 a.names a.abilities hok

/-! ### non-vacuity (AirTouch 5)

The installation of the examples in `Props/C09At5` (one AC `M` over zones 0 `L` and 1 `B`; the AC status reports error 5),
packet ids including 0 and 255.  The six frames are 207 bytes, fed **one byte per segment**; the noisy variant adds an
unknown frame, a zone-names echo addressed to 0x90 (not the client: ignored), a premature zone status and a duplicate
version answer. -/

namespace At5

def demoAnswers5 : Answers :=
  { version := ⟨false, [[49]]⟩, names := ⟨[(0, [76]), (1, [66])]⟩, abilities := [exAbility],
    acStatus := [{ (newAc exAbility [] [] []).status with error_code := 5, set_point := 220, temperature := 215 }],
    timers := [], zones := [] }

def demoPids5 : Pids := ⟨0, 1, 2, 3, 254, 255⟩

theorem demo5_sendable : demoAnswers5.Sendable := by
  refine ⟨?_, ?_, ?_, ?_, ?_, ?_⟩ <;> exact sendable_of_bool _ (by decide +kernel)

theorem demo5_zonesKnown : demoAnswers5.ZonesKnown exS0 := by
  unfold Answers.ZonesKnown; decide

/-- the six frames -/
def demoStream5 : Bytes :=
  (consoleWire 0 demoAnswers5.verMsg).bytes ++ (consoleWire 1 demoAnswers5.namesMsg).bytes ++
  (consoleWire 2 demoAnswers5.abilityMsg).bytes ++ (consoleWire 3 demoAnswers5.acStatusMsg).bytes ++
  (consoleWire 254 demoAnswers5.timerMsg).bytes ++ (consoleWire 255 demoAnswers5.zoneMsg).bytes

example : demoStream5.length = 207 := by decide +kernel

example :
    (runS exS0 ([.init, .conn true] ++ (Frame.feedAll proto ⟨[], false⟩ (demoStream5.map fun b => [b])).1.map frameOp)).st =
      .CONNECTED ∧
    (runS exS0 ((cleanOps demoAnswers5).take 5)).airConditioners.map (fun a => (a.id, a.zones)) = [(0, [0, 1])] := by
  obtain ⟨_, _, h3, h4, _⟩ := handshake_clean_from_bytes_at5 [] [] [] [] demoAnswers5 demoPids5 demo5_sendable
    (by unfold Pids.Valid; decide) demo5_zonesKnown (demoStream5.map fun b => [b]) (flatten_singletons _)
  rw [h3]
  exact ⟨h4, by decide⟩

def demoNoise5 : NoiseFrames :=
  { n₁ := [unknownSent 0xB0 0x80 5 0x99 [1, 2]]
    n₂ := [(wireOf 0x90 0x80 7 (.extended (.zoneNames (.request ⟨none⟩))), .extended (.zoneNames (.request ⟨none⟩)))]
    n₃ := [consoleSent 9 demoAnswers5.zoneMsg]
    n₄ := [], n₅ := [], n₆ := []
    n₇ := [consoleSent 1 demoAnswers5.verMsg] }

theorem demoNoise5_good : demoNoise5.Good := by
  intro x hx
  simp only [demoNoise5, List.cons_append, List.nil_append, List.mem_cons, List.not_mem_nil, or_false] at hx
  rcases hx with rfl | rfl | rfl | rfl
  · exact unknownSent_good _ _ _ _ _ (by decide) (by decide) (by decide) (by decide) (by decide) (by decide)
      (by unfold AllBytes; decide)
  · exact wireOf_good _ _ _ (by decide) (by decide) (by decide) _ (sendable_of_bool _ (by decide +kernel))
  · exact consoleSent_good _ (by decide) _ (sendable_of_bool _ (by decide +kernel))
  · exact consoleSent_good _ (by decide) _ (sendable_of_bool _ (by decide +kernel))

example :
    let segs := (wireStream (onWire (demoAnswers5.frames demoPids5) demoNoise5)).map fun b => [b]
    (runS exS0 ([.init, .conn true] ++ (Frame.feedAll proto ⟨[], false⟩ segs).1.map frameOp)).st = .CONNECTED ∧
    ((Frame.feedAll proto ⟨[], false⟩ segs).1.map fun d => d.1.to_address) =
      [176, 176, 144, 176, 176, 176, 176, 176, 176, 176] := by
  intro segs
  obtain ⟨_, h2, h3, _⟩ := handshake_from_bytes_at5 [] [] [] [] (demoAnswers5.frames demoPids5) demoNoise5
    (frames_good _ _ demo5_sendable (by unfold Pids.Valid; decide)) (by unfold AnswerFrames.Answer; decide)
    demoNoise5_good (by intro _; show (processAcAbility _ _).exc = none; decide) segs (flatten_singletons _)
  exact ⟨h3, by rw [h2]; decide⟩

/-- the driver's ops on the raw payloads are the same op list -/
example :
    let segs := (wireStream (onWire (demoAnswers5.frames demoPids5) demoNoise5)).map fun b => [b]
    (Frame.feedAll rawProto ⟨[], false⟩ segs).1.map payloadOp = (Frame.feedAll proto ⟨[], false⟩ segs).1.map frameOp := by
  intro segs
  exact (handshake_from_payloads_at5 (demoAnswers5.frames demoPids5) demoNoise5
    (frames_good _ _ demo5_sendable (by unfold Pids.Valid; decide)) demoNoise5_good segs (flatten_singletons _)).2.2

end At5

end At5Part

end PyAirtouch.Props.C09
