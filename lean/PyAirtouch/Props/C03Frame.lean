import PyAirtouch.Lemmas.Registry4
import PyAirtouch.Lemmas.Registry5
/-!
# C03 — whole frames: send path, wrappers, headers, CRC, receive path

Restated (with their exact types) from `Lemmas/Registry4.lean`, `Lemmas/Registry5.lean`, `Lemmas/Frame.lean`.
`g4_` / `g5_` = AirTouch 4 / 5.

* `…_size_eq_length` — for every well-formed message (`WFMsg`, decidable through `wfMsgBool_iff`), nested
  sub-messages included, the length computed in advance for the header equals the number of payload bytes
  produced (`2 + size sub` for 0x1F, `8 + nr + count·stride` for 0xC0; `…_extended_layout`,
  `g5_controlStatus_layout` give the sub-header fields).
* `…_frame_roundtrip` — the frame written by the send path (`size` → header factory → header → payload →
  CRC) for packet id `pid` is delivered by the receive path (`_read_one_message`) with an equal header and an
  equal message and leaves exactly the bytes that followed it, for every packet id and every `rest`.
* `…_frameOf_ok` — the send path does not raise on a well-formed message whose payload fits the length field.
* `…_mkHeader_*` — to-address 0x90 iff extended, else 0x80; from-address 0xB0; packet ids stay below the modulus.
* `hdr4/hdr5_*` — header round trips, checksum span (address … length), AT5 outer lengths `10 + len + 2` twice.
-/
namespace PyAirtouch.Props.C03
theorem C03_g4_size_eq_length : type_of% @PyAirtouch.Lemmas.Registry4.size_eq_length := @PyAirtouch.Lemmas.Registry4.size_eq_length
theorem C03_g4_decodeMsg_encodeMsg : type_of% @PyAirtouch.Lemmas.Registry4.decodeMsg_encodeMsg := @PyAirtouch.Lemmas.Registry4.decodeMsg_encodeMsg
theorem C03_g4_extended_layout : type_of% @PyAirtouch.Lemmas.Registry4.extended_layout := @PyAirtouch.Lemmas.Registry4.extended_layout
theorem C03_g4_frame_roundtrip : type_of% @PyAirtouch.Lemmas.Registry4.frame_roundtrip := @PyAirtouch.Lemmas.Registry4.frame_roundtrip
theorem C03_g4_frameOf_ok : type_of% @PyAirtouch.Lemmas.Registry4.frameOf_ok := @PyAirtouch.Lemmas.Registry4.frameOf_ok
theorem C03_g4_encodeMsg_ok : type_of% @PyAirtouch.Lemmas.Registry4.encodeMsg_ok := @PyAirtouch.Lemmas.Registry4.encodeMsg_ok
theorem C03_g4_mkHeader_to_address : type_of% @PyAirtouch.Lemmas.Registry4.mkHeader_to_address := @PyAirtouch.Lemmas.Registry4.mkHeader_to_address
theorem C03_g4_mkHeader_to_address_wf : type_of% @PyAirtouch.Lemmas.Registry4.mkHeader_to_address_wf := @PyAirtouch.Lemmas.Registry4.mkHeader_to_address_wf
theorem C03_g4_mkHeader_from_address : type_of% @PyAirtouch.Lemmas.Registry4.mkHeader_from_address := @PyAirtouch.Lemmas.Registry4.mkHeader_from_address
theorem C03_g4_toAddress_values : type_of% @PyAirtouch.Lemmas.Registry4.toAddress_values := @PyAirtouch.Lemmas.Registry4.toAddress_values
theorem C03_g4_nextPacketId_lt : type_of% @PyAirtouch.Lemmas.Registry4.nextPacketId_lt := @PyAirtouch.Lemmas.Registry4.nextPacketId_lt
theorem C03_g4_wfMsgBool_iff : type_of% @PyAirtouch.Lemmas.Registry4.wfMsgBool_iff := @PyAirtouch.Lemmas.Registry4.wfMsgBool_iff
theorem C03_g5_size_eq_length : type_of% @PyAirtouch.Lemmas.Registry5.size_eq_length := @PyAirtouch.Lemmas.Registry5.size_eq_length
theorem C03_g5_decodeMsg_encodeMsg : type_of% @PyAirtouch.Lemmas.Registry5.decodeMsg_encodeMsg := @PyAirtouch.Lemmas.Registry5.decodeMsg_encodeMsg
theorem C03_g5_extended_layout : type_of% @PyAirtouch.Lemmas.Registry5.extended_layout := @PyAirtouch.Lemmas.Registry5.extended_layout
theorem C03_g5_controlStatus_layout : type_of% @PyAirtouch.Lemmas.Registry5.controlStatus_layout := @PyAirtouch.Lemmas.Registry5.controlStatus_layout
theorem C03_g5_frame_roundtrip : type_of% @PyAirtouch.Lemmas.Registry5.frame_roundtrip := @PyAirtouch.Lemmas.Registry5.frame_roundtrip
theorem C03_g5_frameOf_ok : type_of% @PyAirtouch.Lemmas.Registry5.frameOf_ok := @PyAirtouch.Lemmas.Registry5.frameOf_ok
theorem C03_g5_encodeMsg_ok : type_of% @PyAirtouch.Lemmas.Registry5.encodeMsg_ok := @PyAirtouch.Lemmas.Registry5.encodeMsg_ok
theorem C03_g5_mkHeader_to_address : type_of% @PyAirtouch.Lemmas.Registry5.mkHeader_to_address := @PyAirtouch.Lemmas.Registry5.mkHeader_to_address
theorem C03_g5_mkHeader_to_address_wf : type_of% @PyAirtouch.Lemmas.Registry5.mkHeader_to_address_wf := @PyAirtouch.Lemmas.Registry5.mkHeader_to_address_wf
theorem C03_g5_mkHeader_from_address : type_of% @PyAirtouch.Lemmas.Registry5.mkHeader_from_address := @PyAirtouch.Lemmas.Registry5.mkHeader_from_address
theorem C03_g5_toAddress_values : type_of% @PyAirtouch.Lemmas.Registry5.toAddress_values := @PyAirtouch.Lemmas.Registry5.toAddress_values
theorem C03_g5_nextPacketId_lt : type_of% @PyAirtouch.Lemmas.Registry5.nextPacketId_lt := @PyAirtouch.Lemmas.Registry5.nextPacketId_lt
theorem C03_g5_wfMsgBool_iff : type_of% @PyAirtouch.Lemmas.Registry5.wfMsgBool_iff := @PyAirtouch.Lemmas.Registry5.wfMsgBool_iff
theorem C03_frame_at4_hdr_roundtrip : type_of% @PyAirtouch.Lemmas.Frame.at4_hdr_roundtrip := @PyAirtouch.Lemmas.Frame.at4_hdr_roundtrip
theorem C03_frame_at5_hdr_roundtrip : type_of% @PyAirtouch.Lemmas.Frame.at5_hdr_roundtrip := @PyAirtouch.Lemmas.Frame.at5_hdr_roundtrip
theorem C03_frame_at4_hdr_checksum_span : type_of% @PyAirtouch.Lemmas.Frame.at4_hdr_checksum_span := @PyAirtouch.Lemmas.Frame.at4_hdr_checksum_span
theorem C03_frame_at5_hdr_checksum_span : type_of% @PyAirtouch.Lemmas.Frame.at5_hdr_checksum_span := @PyAirtouch.Lemmas.Frame.at5_hdr_checksum_span
theorem C03_frame_at5_hdr_outer_lengths : type_of% @PyAirtouch.Lemmas.Frame.at5_hdr_outer_lengths := @PyAirtouch.Lemmas.Frame.at5_hdr_outer_lengths
theorem C03_frame_frame_roundtrip : type_of% @PyAirtouch.Lemmas.Frame.frame_roundtrip := @PyAirtouch.Lemmas.Frame.frame_roundtrip

-- non-vacuity: the vendor's AirTouch 4 group-status request is what the send path writes for packet id 1
open PyAirtouch.Model.At4.Registry in
example : frameOf 1 (.groupStatus .request) = .ok [0x55, 0x55, 0x80, 0xb0, 0x01, 0x2b, 0x00, 0x00, 0xf5, 0x2f] ∧
    wfMsgBool (.groupStatus .request) = true := by
  constructor <;> decide +kernel

end PyAirtouch.Props.C03
