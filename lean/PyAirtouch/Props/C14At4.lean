import PyAirtouch.Lemmas.Api4Poll
import PyAirtouch.Lemmas.Api4Notify
import PyAirtouch.Lemmas.Api4Demo
/-!
# C14 (AirTouch 4): refresh after a reconnect, the 300 s group-status poll

Time is in ticks of 1/8 s: `Gen.Api4.GROUP_STATUS_TIMEOUT = 2400`.  `pollEv` is the output event
`SEND CONNECTED GroupStatusRequest()`.
-/
set_option linter.unusedVariables false
set_option linter.unusedSimpArgs false
namespace PyAirtouch.Props.C14
open PyAirtouch.Model PyAirtouch.Model.Api4 PyAirtouch.Model.At4 PyAirtouch.Lemmas.Api4 PyAirtouch.Gen

/-! ### connection (re-)established -/

/-- `conn 1` in any state other than `CONNECTING` (socket open): exactly an AC-status request then a group-status
    request, both with the connected-only policy; the API state does not change. -/
theorem reconnect_refresh_at4 (s : State) (hsub : s.subscribed = true) (hst : s.st ≠ .CONNECTING)
    (hopen : s.sockOpen = true) :
    (apiStep s (.conn true)).2 = [Ev.send .connected acStatusRequest, Ev.send .connected groupStatusRequest] ∧
    (apiStep s (.conn true)).1.st = s.st := by
  simp [apiStep, onConn, hsub, hst, hopen]

/-- in `CONNECTING` the connection starts the handshake instead -/
theorem first_connect_at4 (s : State) (hsub : s.subscribed = true) (hst : s.st = .CONNECTING)
    (hopen : s.sockOpen = true) :
    (apiStep s (.conn true)).2 = [Ev.send .connected versionRequest] ∧
    (apiStep s (.conn true)).1.st = .INIT_VERSION := by
  simp [apiStep, onConn, hsub, hst, hopen]

/-- a lost connection makes the API send nothing -/
theorem disconnect_silent_at4 (s : State) : (apiStep s (.conn false)).2 = [] := by
  simp only [apiStep, onConn]
  split
  · rfl
  · simp

/-- the retry policy of these requests is the socket's `RETRY_CONNECTED` -/
theorem refresh_policy_at4 : Policy.connected.pair = Gen.retryConnected := rfl

/-! ### the group poll -/

/-- the poll period of the code under verification is 300 s (2400 ticks of 1/8 s) -/
theorem poll_period_at4 : Api4.GROUP_STATUS_TIMEOUT = 2400 := rfl

example : Api4.GROUP_STATUS_TIMEOUT = 300 * 8 := by decide


/-- With one live poll task (no orphans), deadline `d` ahead, socket connected and open: during `adv n` a
    group-status request is sent at `d`, `d + 2400`, `d + 4800`, … - as many as lie within the advanced time -
    and afterwards the task waits for the next of these instants. -/
theorem poll_requests_at4 (s : State) (n d : Nat) (ho : s.pollOrphans = []) (hc : s.pollCur = some d)
    (hd : s.now < d) (hconn : s.sockConnected = true) (hopen : s.sockOpen = true) :
    (apiStep s (.adv n)).2.count pollEv = deadlinesUpTo d Api4.GROUP_STATUS_TIMEOUT (s.now + n) ∧
    (apiStep s (.adv n)).1.pollCur =
      some (d + Api4.GROUP_STATUS_TIMEOUT * deadlinesUpTo d Api4.GROUP_STATUS_TIMEOUT (s.now + n)) := by
  obtain ⟨h1, h2⟩ := advance_poll n s d ho hc hd (fun _ => hopen)
  simp only [hconn, ↓reduceIte] at h1
  exact ⟨h1, congrArg PollView.pollCur h2⟩

/-- nothing before the deadline, exactly one request when the clock reaches it, the next deadline 2400 ticks later -/
theorem poll_at_deadline_at4 (s : State) (d : Nat) (ho : s.pollOrphans = []) (hc : s.pollCur = some d)
    (hd : s.now < d) (hconn : s.sockConnected = true) (hopen : s.sockOpen = true) :
    (apiStep s (.adv (d - s.now - 1))).2.count pollEv = 0 ∧
    (apiStep s (.adv (d - s.now))).2.count pollEv = 1 ∧
    (apiStep s (.adv (d - s.now))).1.pollCur = some (d + Api4.GROUP_STATUS_TIMEOUT) := by
  obtain ⟨a1, _⟩ := poll_requests_at4 s (d - s.now - 1) d ho hc hd hconn hopen
  obtain ⟨b1, b2⟩ := poll_requests_at4 s (d - s.now) d ho hc hd hconn hopen
  have e1 : s.now + (d - s.now - 1) < d := by omega
  have e2 : s.now + (d - s.now) = d := by omega
  rw [deadlinesUpTo_before _ _ _ e1] at a1
  rw [e2] at b1 b2
  have e3 : deadlinesUpTo d Api4.GROUP_STATUS_TIMEOUT d = 1 := by simp [deadlinesUpTo]
  rw [e3] at b1 b2
  exact ⟨a1, b1, by simpa using b2⟩

/-- while the socket is not connected the poll sends nothing (its deadline still moves on) -/
theorem poll_disconnected_at4 (s : State) (n d : Nat) (ho : s.pollOrphans = []) (hc : s.pollCur = some d)
    (hd : s.now < d) (hconn : s.sockConnected = false) :
    (apiStep s (.adv n)).2.count pollEv = 0 := by
  obtain ⟨h1, _⟩ := advance_poll n s d ho hc hd (by simp [hconn])
  simp only [hconn, Bool.false_eq_true, ↓reduceIte] at h1
  exact h1

/-- every group-status message received in state `CONNECTED` re-arms the deadline of every live poll task to
    300 s from now -/
theorem group_status_rearms_at4 (s : State) (hst : s.st = .CONNECTED) (hsub : s.subscribed = true)
    (l : List X2B.GroupStatusData) :
    (apiStep s (.recv (.groupStatus (.status l)))).1.pollCur = s.pollCur.map (fun _ => s.now + Api4.GROUP_STATUS_TIMEOUT) ∧
    (apiStep s (.recv (.groupStatus (.status l)))).1.pollOrphans =
      s.pollOrphans.map (fun _ => s.now + Api4.GROUP_STATUS_TIMEOUT) := by
  have hb : ∀ t : State, (hbOnMessage t (.groupStatus (.status l))) = t := by
    intro t; simp [hbOnMessage, isHeartbeatResponse]
  simp only [apiStep, recv, hsub, ↓reduceIte, onMessage, hst, reduceCtorEq, hb]
  rw [foldEv_frame_zone _ updateGroupStatus_frame]
  exact ⟨rfl, rfl⟩

/-- a refresh whose records all equal the stored ones (or name unknown zones) produces no output, in
    particular no `NOTIFY` -/
theorem unchanged_refresh_silent_at4 (s : State) (hst : s.st = .CONNECTED) (hsub : s.subscribed = true)
    (l : List X2B.GroupStatusData) (h : ∀ g ∈ l, ∀ z, s.zoneOf g.group_number = some z → z.status = g) :
    (apiStep s (.recv (.groupStatus (.status l)))).2 = [] := by
  have hn : foldEv updateGroupStatus (rearmPolls s) l = (rearmPolls s, []) :=
    foldEv_noop _ _ _ (fun g hg => updateGroupStatus_noop _ g (h g hg))
  simp only [apiStep, recv, hsub, ↓reduceIte, onMessage, hst, reduceCtorEq, hn]
  rfl

/-! ### non-vacuity -/

example : demo.pollOrphans = [] ∧ demo.pollCur = some 2400 ∧ demo.now < 2400 ∧ demo.sockConnected = true ∧
    demo.sockOpen = true ∧ demo.st ≠ .CONNECTING ∧ demo.subscribed = true := by decide

example : deadlinesUpTo 2400 2400 2399 = 0 ∧ deadlinesUpTo 2400 2400 2400 = 1 ∧ deadlinesUpTo 2400 2400 4799 = 1 ∧
    deadlinesUpTo 2400 2400 4800 = 2 ∧ deadlinesUpTo 2400 2400 7200 = 3 := by decide

example : (apiStep demo (.adv 7200)).2.count pollEv = 3 := by
  rw [(poll_requests_at4 demo 7200 2400 (by decide) (by decide) (by decide) (by decide) (by decide)).1]; decide

example : (apiStep demo (.recv (.groupStatus (.status [demoGroup])))).2 = [] := by
  apply unchanged_refresh_silent_at4 demo demo_connected demo_subscribed
  decide

end PyAirtouch.Props.C14
