import PyAirtouch.Lemmas.Api5Entities
import PyAirtouch.Lemmas.Api5Subs
/-!
# C09 (AirTouch 5) — initialisation

The handshake of `AirTouch5` is the chain
`CONNECTING → INIT_VERSION → INIT_ZONE_NAMES → INIT_AC_ABILITY → INIT_AC_STATUS → INIT_AC_TIMER_STATUS → INIT_ZONE_STATUS → CONNECTED`
(`rank` numbers the states, `requestFor st` is the request sent on entering `st`, `answers st toAddr m` says that the frame
`m` with header `to_address = toAddr` is accepted as the answer in state `st`).  `Handshaking s`: socket open, the API's
callbacks registered, state at or beyond INIT_VERSION.  `HbIdle`: the heartbeat manager is not running (true until the
first handshake completes).

1. order / one request at a time: the connection coming up sends the version request; an accepted answer sends exactly
   the next request (plus error-information requests for ACs reporting an error); any other frame sends nothing and
   leaves the state machine alone;
2. the handshake completes against any console that answers each request, whatever frames are interleaved (the answer
   to the ability request must name zones the API knows — otherwise the real code raises `KeyError` and waits);
3. the exposed ACs and zones are what the console described; zero zones;
4. silence: `init()` answers `False` exactly 40 ticks (5 s) after it was called, the event stays clear, nothing raises.
-/
namespace PyAirtouch.Props.C09
open PyAirtouch.Model PyAirtouch.Model.Api5 PyAirtouch.Model.At5 PyAirtouch.Model.At5.Registry
open PyAirtouch.Gen PyAirtouch.Gen.Api5 PyAirtouch.Lemmas.Api5

/-! ## 1. order, one request at a time -/

/-- the connection comes up while CONNECTING: the version request, nothing else -/
theorem C09_handshake_starts_at5 (s : State) (hsub : s.sockSubscribed = true) (hopen : s.sockOpen = true)
    (hst : s.st = .CONNECTING) :
    (apiStep s (.conn true)).2 = [.send .connected msgConsoleVersionRequest false] ∧
    (apiStep s (.conn true)).1.st = .INIT_VERSION := by
  simp [apiStep, doConn, hbFeed, hsub, handleConnection, hst, sendMsg, hopen, excOut]

/-- an accepted answer (in the five states before the last): the state machine moves on by one and the only send that
is not an error-information request is the request of the new state, with the connected-only policy -/
theorem C09_one_request_per_answer_at5 (s : State) (toAddr : Nat) (m : Msg) (hs : Handshaking s)
    (h6 : rank s.st ≤ 6) (hi : HbIdle s.hb) (ha : answers s.st toAddr m = true) (hok : abilityOk s m) :
    (apiStep s (.msg toAddr m)).1.st = nextState s.st ∧
    handshakeSends (apiStep s (.msg toAddr m)).2 =
      ((requestFor (nextState s.st)).map fun r => (Policy.connected, r)).toList :=
  ⟨answer_advances s toAddr m hs ha hok, answer_sends s toAddr m hs h6 hi ha hok⟩

/-- a frame that is not the answer to the outstanding request (handshake not complete): no send at all, the state
machine stays where it is -/
theorem C09_no_request_without_answer_at5 (s : State) (toAddr : Nat) (m : Msg) (hne : s.st ≠ .CONNECTED)
    (hi : HbIdle s.hb) (ha : answers s.st toAddr m = false) :
    (apiStep s (.msg toAddr m)).1.st = s.st ∧ ∀ o ∈ (apiStep s (.msg toAddr m)).2, o.isNotify = true :=
  not_answer_out s toAddr m hne hi ha

/-- the requests, in order -/
theorem C09_request_order_at5 :
    [AirTouchState.INIT_VERSION, .INIT_ZONE_NAMES, .INIT_AC_ABILITY, .INIT_AC_STATUS, .INIT_AC_TIMER_STATUS,
      .INIT_ZONE_STATUS].map requestFor =
    [some msgConsoleVersionRequest, some msgZoneNamesRequestAll, some msgAcAbilityRequestAll, some msgAcStatusRequest,
      some msgAcTimerStatusRequest, some msgZoneStatusRequest] ∧ requestFor .CONNECTED = none := ⟨rfl, rfl⟩

def exS0 : State := State.new [] [] [] []
def exVersion : Msg := .extended (.consoleVer (.message ⟨false, [[49]]⟩))
def exNames : Msg := .extended (.zoneNames (.message ⟨[(0, [76]), (1, [66])]⟩))
def exAbility : FF11.AcAbility :=
  { ac_number := 0, ac_name := [77], start_zone := 0, zone_count := 2,
    ac_mode_support := FF11.decModeSupport 31, fan_speed_support := FF11.decFanSpeedSupport 255,
    min_cool_set_point := 17, max_cool_set_point := 30, min_heat_set_point := 16, max_heat_set_point := 28 }
def exAbilities : Msg := .extended (.acAbility (.ability [exAbility]))
def exAcStatus : Msg := .controlStatus (.acStatus (.status [{ (newAc exAbility [] [] []).status with error_code := 5 }]))
def exTimers : Msg := .controlStatus (.acTimerStatus (.status []))
def exZones : Msg := .controlStatus (.zoneStatus (.status []))

/-- a whole handshake: one request per step (and the error-information request for the AC that reports error 5) -/
example : (Api5.run exS0 [.init, .conn true, .msg 176 exVersion, .msg 176 exNames, .msg 176 exAbilities, .msg 176 exAcStatus,
      .msg 176 exTimers, .msg 176 exZones]).2 =
    [[.opened], [.send .connected msgConsoleVersionRequest false], [.send .connected msgZoneNamesRequestAll false],
     [.send .connected msgAcAbilityRequestAll false], [.send .connected msgAcStatusRequest false],
     [.send .connected (msgErrInfoRequest 0) false, .send .connected msgAcTimerStatusRequest false],
     [.send .connected msgZoneStatusRequest false],
     [.hbStart, .result "init True", .send .connected hbMessage false]] := by decide

/-! ## 2. completion -/

/-- the last answer: CONNECTED, heartbeat manager started, the event set, every waiting `init()` answers `True` -/
theorem C09_last_answer_completes_at5 (s : State) (toAddr : Nat) (m : Msg) (hs : Handshaking s)
    (hst : s.st = .INIT_ZONE_STATUS) (ha : answers .INIT_ZONE_STATUS toAddr m = true) :
    (apiStep s (.msg toAddr m)).1.st = .CONNECTED ∧ (apiStep s (.msg toAddr m)).1.initialised = true ∧
    (apiStep s (.msg toAddr m)).1.pendingInits = [] ∧
    ∃ pre post, (apiStep s (.msg toAddr m)).2 =
        pre ++ [.hbStart] ++ s.pendingInits.map (fun _ => Out.result "init True") ++ post ∧
      (∀ o ∈ pre, o.isNotify = true) ∧ (∀ o ∈ post, o = .send .connected hbMessage false ∨ o = .reset) := by
  exact last_answer_spec s toAddr m hs.sockSubscribed hst ha

/-- **the handshake completes**: start in INIT_VERSION (the version request is out); let the console send any frames
`n₁ … n₇` (unsolicited reports, duplicates, unknown or undecodable frames, answers to other steps, …) around one
acceptable answer per step `a₁ … a₆`, in order.  Then the API ends CONNECTED with the event set.  The only demand on an
answer beyond its shape is `hok`: when the ability answer arrives while the API is waiting for it, the zones it refers to
are known (otherwise the real code raises `KeyError` inside the handler and keeps waiting). -/
theorem C09_handshake_completes_at5 (s : State) (hs : Handshaking s) (hst : s.st = .INIT_VERSION)
    (n1 n2 n3 n4 n5 n6 n7 : List Op) (a1 a2 a3 a4 a5 a6 : Nat × Msg)
    (hn : ∀ o : Op, o ∈ n1 ++ n2 ++ n3 ++ n4 ++ n5 ++ n6 ++ n7 → Op.isFrame o = true)
    (h1 : answers .INIT_VERSION a1.1 a1.2 = true) (h2 : answers .INIT_ZONE_NAMES a2.1 a2.2 = true)
    (h3 : answers .INIT_AC_ABILITY a3.1 a3.2 = true) (h4 : answers .INIT_AC_STATUS a4.1 a4.2 = true)
    (h5 : answers .INIT_AC_TIMER_STATUS a5.1 a5.2 = true) (h6 : answers .INIT_ZONE_STATUS a6.1 a6.2 = true)
    (hok : (runS s (n1 ++ [.msg a1.1 a1.2] ++ (n2 ++ [.msg a2.1 a2.2]) ++ n3)).st = .INIT_AC_ABILITY →
      abilityOk (runS s (n1 ++ [.msg a1.1 a1.2] ++ (n2 ++ [.msg a2.1 a2.2]) ++ n3)) a3.2) :
    let final := runS s (n1 ++ [.msg a1.1 a1.2] ++ (n2 ++ [.msg a2.1 a2.2]) ++ (n3 ++ [.msg a3.1 a3.2]) ++
      (n4 ++ [.msg a4.1 a4.2]) ++ (n5 ++ [.msg a5.1 a5.2]) ++ (n6 ++ [.msg a6.1 a6.2]) ++ n7)
    final.st = .CONNECTED ∧ final.initialised = true := by
  intro final
  have hn' : ∀ l : List Op, (∀ o ∈ l, o ∈ n1 ++ n2 ++ n3 ++ n4 ++ n5 ++ n6 ++ n7) → ∀ o ∈ l, Op.isFrame o = true :=
    fun l hl o ho => hn o (hl o ho)
  have hc0 : ConnInit s := by intro h; rw [hst] at h; cases h
  have ok_other : ∀ (s' : State) (st : AirTouchState) (a : Nat × Msg), answers st a.1 a.2 = true → st ≠ .INIT_AC_ABILITY →
      s'.st = st → abilityOk s' a.2 := fun s' st a ha hne _ => abilityOk_of_other s' st a.1 a.2 ha hne
  obtain ⟨p1, c1, r1⟩ := noise_then_answer s hs hc0 .INIT_VERSION (by rw [hst]; exact Nat.le_refl _) (by decide) n1
    (hn' n1 (by intro o ho; simp [ho])) a1.1 a1.2 h1 (ok_other _ _ a1 h1 (by decide))
  obtain ⟨p2, c2, r2⟩ := noise_then_answer _ p1 c1 .INIT_ZONE_NAMES r1 (by decide) n2
    (hn' n2 (by intro o ho; simp [ho])) a2.1 a2.2 h2 (ok_other _ _ a2 h2 (by decide))
  rw [← runS_append] at p2 c2 r2
  obtain ⟨p3, c3, r3⟩ := noise_then_answer _ p2 c2 .INIT_AC_ABILITY r2 (by decide) n3
    (hn' n3 (by intro o ho; simp [ho])) a3.1 a3.2 h3 (by rw [← runS_append]; exact hok)
  rw [← runS_append] at p3 c3 r3
  obtain ⟨p4, c4, r4⟩ := noise_then_answer _ p3 c3 .INIT_AC_STATUS r3 (by decide) n4
    (hn' n4 (by intro o ho; simp [ho])) a4.1 a4.2 h4 (ok_other _ _ a4 h4 (by decide))
  rw [← runS_append] at p4 c4 r4
  obtain ⟨p5, c5, r5⟩ := noise_then_answer _ p4 c4 .INIT_AC_TIMER_STATUS r4 (by decide) n5
    (hn' n5 (by intro o ho; simp [ho])) a5.1 a5.2 h5 (ok_other _ _ a5 h5 (by decide))
  rw [← runS_append] at p5 c5 r5
  obtain ⟨p6, c6, r6⟩ := noise_then_answer _ p5 c5 .INIT_ZONE_STATUS r5 (by decide) n6
    (hn' n6 (by intro o ho; simp [ho])) a6.1 a6.2 h6 (ok_other _ _ a6 h6 (by decide))
  rw [← runS_append] at p6 c6 r6
  obtain ⟨p7, c7, r7⟩ := frames_mono _ n7 (hn' n7 (by intro o ho; simp [ho])) p6 c6
  rw [← runS_append] at p7 c7 r7
  have hr : rank final.st = 8 := by
    have h8 : ∀ st, rank st ≤ 8 := by intro st; cases st <;> decide
    have := h8 final.st
    have r6' : rank AirTouchState.INIT_ZONE_STATUS + 1 ≤ rank final.st := Nat.le_trans r6 r7
    have h7 : rank AirTouchState.INIT_ZONE_STATUS = 7 := rfl
    omega
  have hfin : final.st = .CONNECTED := rank_inj (by rw [hr]; rfl)
  exact ⟨hfin, c7 hfin⟩

/-- noise before, between and after the answers (an unknown frame, an undecodable frame, a zone status nobody asked
for, a duplicate of the version answer): the handshake still completes -/
example : (runS (runS exS0 [.init, .conn true])
    ([.msg 176 (.unsupported 43 [1, 2])] ++ [.msg 176 exVersion] ++ ([.undecodable "DecodeError"] ++ [.msg 176 exNames]) ++
     ([.msg 176 exZones, .msg 176 exVersion] ++ [.msg 176 exAbilities]) ++ ([] ++ [.msg 176 exAcStatus]) ++
     ([.msg 176 exAcStatus] ++ [.msg 176 exTimers]) ++ ([] ++ [.msg 176 exZones]) ++ [.msg 176 exZones])).st = .CONNECTED := by
  decide

/-! ## 3. the exposed entities -/

/-- from a state without entities (fresh or after `shutdown()`), the zone names `zn` and then the abilities `abs`
arrive as the accepted answers.  Afterwards:
* every zone of `zn` is in the zone dict, and every dict entry is a zone object with that number, a name given for that
  number in `zn`, and the initial status;
* every AC of `abs` is exposed, and every exposed AC is a freshly built object for an ability of `abs` with that number:
  its zone list has `zone_count` entries, the `k`-th being the object of zone `start_zone + k`, which forwards its
  updates to this AC. -/
theorem C09_entities_as_described_at5 (s : State) (hs : Handshaking s) (hst : s.st = .INIT_ZONE_NAMES)
    (hz0 : s.zones = []) (ha0 : s.acs = []) (t1 t2 : Nat) (zn : FF13.ZoneNamesMessage) (abs : List FF11.AcAbility)
    (hok : (processAcAbility abs { processZoneNames zn.zone_names s with st := .INIT_AC_ABILITY }).exc = none) :
    let s3 := runS s [.msg t1 (.extended (.zoneNames (.message zn))), .msg t2 (.extended (.acAbility (.ability abs)))]
    s3.st = .INIT_AC_STATUS ∧
    (∀ p ∈ zn.zone_names, (s3.zones.lookup p.1).isSome) ∧
    (∀ n r, s3.zones.lookup n = some r →
      ∃ z, s3.zobjs[r]? = some z ∧ z.id = n ∧ (n, z.name) ∈ zn.zone_names ∧ z.status = (newZone n z.name).status) ∧
    (∀ ab ∈ abs, (s3.acs.lookup ab.ac_number).isSome) ∧
    (∀ n r a, s3.ac? n = some (r, a) →
      ∃ ab ∈ abs, ab.ac_number = n ∧ a = newAc ab a.zones a.supportedModes a.supportedFanSpeeds ∧
        a.zones.length = ab.zone_count ∧
        ∀ k, k < ab.zone_count → ∃ zr z, a.zones[k]? = some zr ∧ s3.zobjs[zr]? = some z ∧
          z.id = ab.start_zone + k ∧ (ab.start_zone + k, z.name) ∈ zn.zone_names ∧ r ∈ z.fwd) := by
  intro s3
  have hsub := hs.sockSubscribed
  have hopen := hs.sockOpen
  -- the two steps
  have hsub2 : ({ processZoneNames zn.zone_names s with st := .INIT_AC_ABILITY } : State).sockSubscribed = true := by
    show (processZoneNames zn.zone_names s).sockSubscribed = true
    rw [(sameCtl_processZoneNames _ _).sockSubscribed]; exact hsub
  have e2 : s3 = { (processAcAbility abs { processZoneNames zn.zone_names s with st := .INIT_AC_ABILITY }).s with
      st := .INIT_AC_STATUS } := by
    show runS s _ = _
    simp only [runS_cons, runS_nil]
    rw [step_zoneNames s t1 zn hsub hst, step_ability _ t2 abs hsub2 rfl hok]
  -- what the zone names built
  have hzd0 : ZonesDescribed zn.zone_names s := by intro n r h; rw [hz0] at h; cases h
  have hzd : ZonesDescribed zn.zone_names { processZoneNames zn.zone_names s with st := .INIT_AC_ABILITY } :=
    processZoneNames_described zn.zone_names zn.zone_names s (fun _ h => h) hzd0
  have hcov := (processZoneNames_covers zn.zone_names s).1
  have had0 : AcsDescribed abs { processZoneNames zn.zone_names s with st := .INIT_AC_ABILITY } := by
    intro n r h
    have : (processZoneNames zn.zone_names s).acs = [] := by
      have : ∀ (names : List (Nat × Bytes)) (s : State), (processZoneNames names s).acs = s.acs := by
        intro names
        induction names with
        | nil => intro s; rfl
        | cons p ps ih => intro s; exact ih (addZone s p)
      rw [this, ha0]
    rw [show ({ processZoneNames zn.zone_names s with st := AirTouchState.INIT_AC_ABILITY } : State).acs =
      (processZoneNames zn.zone_names s).acs from rfl, this] at h
    cases h
  -- what the abilities built
  obtain ⟨g1, g2, g3, g4, _⟩ := addAcs_described zn.zone_names abs abs _ _ (fun _ h => h) hzd had0
    (processAcAbility_ok abs _ hok)
  refine ⟨by rw [e2], ?_, ?_, ?_, ?_⟩
  · intro p hp
    rw [e2]
    show ((processAcAbility abs _).s.zones.lookup p.1).isSome = true
    rw [g3]
    exact hcov p hp
  · rw [e2]; exact g1
  · rw [e2]; exact g4
  · intro n r a hac
    rw [e2] at hac ⊢
    obtain ⟨hr, hget⟩ := ac?_eq.1 hac
    obtain ⟨a', ab, f1, f2, f3, f4, f5, f6⟩ := g2 n r hr
    have : a' = a := by
      have := f1.symm.trans hget
      exact Option.some.inj this
    subst this
    obtain ⟨hlen, hrefs⟩ := zoneRange_spec _ _ _ _ f5
    refine ⟨ab, f2, f3, f4, hlen, ?_⟩
    intro k hk
    obtain ⟨q1, q2⟩ := hrefs k hk
    cases hl : (processAcAbility abs _).s.zones.lookup (ab.start_zone + k) with
    | none => rw [hl] at q2; cases q2
    | some zr =>
      rw [hl] at q1
      obtain ⟨z, w1, w2, w3, _⟩ := g1 _ _ hl
      have hmem : zr ∈ a'.zones := List.mem_of_getElem? q1
      obtain ⟨z', v1, v2⟩ := f6 zr hmem
      have : z' = z := Option.some.inj (v1.symm.trans w1)
      subst this
      exact ⟨zr, z', q1, w1, w2, w3, v2⟩

/-- the example handshake: AC 0 exposes zones 0 and 1, named as the console said, both forwarding to it -/
example : (runS exS0 [.init, .conn true, .msg 176 exVersion, .msg 176 exNames, .msg 176 exAbilities]).airConditioners.map
      (fun a => (a.id, a.zones)) = [(0, [0, 1])] ∧
    (runS exS0 [.init, .conn true, .msg 176 exVersion, .msg 176 exNames, .msg 176 exAbilities]).zobjs.map
      (fun z => (z.id, z.name, z.fwd)) = [(0, [76], [0]), (1, [66], [0])] := by decide

/-- zero zones: the console echoes the zone-names request / the zone-status request.  The echo counts as the answer only
when it is addressed to the client (`to_address` 0xB0); a frame with any other address is ignored -/
theorem C09_zero_zones_echo_at5 (toAddr : Nat) (r : FF13.ZoneNamesRequest) :
    answers .INIT_ZONE_NAMES toAddr (.extended (.zoneNames (.request r))) = (toAddr == Gen.At5.Hdr.ADDRESS_CLIENT) ∧
    answers .INIT_ZONE_STATUS toAddr (.controlStatus (.zoneStatus .request)) = (toAddr == Gen.At5.Hdr.ADDRESS_CLIENT) ∧
    Gen.At5.Hdr.ADDRESS_CLIENT = 0xB0 := ⟨rfl, rfl, rfl⟩

/-- an AC described with `zone_count = 0` is exposed without zones (its zone list is `[]` whatever `start_zone` says) -/
theorem C09_zero_zone_ac_at5 (zones : List (Nat × Nat)) (start : Nat) : zoneRange zones start 0 = some [] := rfl

def exAbility0 : FF11.AcAbility := { exAbility with zone_count := 0 }

/-- a console without zones: request echoes instead of zone names / zone status; the API ends CONNECTED with one AC
that has no zones; an echo that is not addressed to the client (0x90) changes nothing -/
example :
    (runS exS0 [.init, .conn true, .msg 176 exVersion, .msg 144 (.extended (.zoneNames (.request ⟨none⟩)))]).st = .INIT_ZONE_NAMES ∧
    (runS exS0 [.init, .conn true, .msg 176 exVersion, .msg 176 (.extended (.zoneNames (.request ⟨none⟩))),
      .msg 176 (.extended (.acAbility (.ability [exAbility0]))), .msg 176 exAcStatus, .msg 176 exTimers,
      .msg 176 (.controlStatus (.zoneStatus .request))]).st = .CONNECTED ∧
    (runS exS0 [.init, .conn true, .msg 176 exVersion, .msg 176 (.extended (.zoneNames (.request ⟨none⟩))),
      .msg 176 (.extended (.acAbility (.ability [exAbility0]))), .msg 176 exAcStatus, .msg 176 exTimers,
      .msg 176 (.controlStatus (.zoneStatus .request))]).airConditioners.map (fun a => (a.id, a.zones)) = [(0, [])] := by
  decide

/-! ## 4. silence -/

/-- `init()` is called at time `t₀` on an API whose event is clear (nobody waiting, heartbeat manager idle); afterwards
only *quiet* ops happen: time passes, the connection comes and goes, undecodable frames and any frames that are not an
answer to the zone-status request arrive (the console never finishes the handshake).  Then, op by op:
* the event stays clear (`initialised` false) and the state machine never reaches CONNECTED;
* `RESULT init False` is emitted by exactly that `adv` during which the elapsed time reaches 40 ticks (5 s);
* nothing else is reported: no other `RESULT`, no exception except one raised inside a frame handler by a frame. -/
theorem C09_silence_at5 (s : State) (hi : HbIdle s.hb) (hn : s.initialised = false) (hp : s.pendingInits = [])
    (pre : List Op) (o : Op) (hq : ∀ x ∈ pre ++ [o], Op.isQuiet x = true) :
    let sk := runS s (.init :: pre)
    let elapsed := (pre.map Op.ticks).sum
    sk.initialised = false ∧ sk.st ≠ .CONNECTED ∧ (apiStep sk o).1.initialised = false ∧
    (Out.result "init False" ∈ (apiStep sk o).2 ↔ ∃ n, o = .adv n ∧ elapsed < 40 ∧ 40 ≤ elapsed + n) ∧
    (∀ x ∈ (apiStep sk o).2, SilentOut sk (s.now + 40) o x) := by
  intro sk elapsed
  obtain ⟨h0, _, hnow0⟩ := silent_init s hi hn hp
  obtain ⟨h1, hnow1⟩ := silent_run _ _ pre h0 (fun x hx => hq x (by simp [hx]))
  have hsk : sk = runS (apiStep s .init).1 pre := rfl
  rw [← hsk] at h1 hnow1
  obtain ⟨g1, g2, g3, _⟩ := silent_step _ sk o h1 (hq o (by simp))
  have ht : initTimeout = 40 := rfl
  rw [ht] at g1 g2 g3
  refine ⟨h1.ninit, h1.notConn, g1.ninit, ?_, g2⟩
  rw [g3, hnow1, hnow0]
  constructor
  · rintro ⟨n, e, a, b⟩; exact ⟨n, e, by omega, by omega⟩
  · rintro ⟨n, e, a, b⟩; exact ⟨n, e, by omega, by omega⟩

/-- silence after the version answer: nothing at +39 ticks, `RESULT init False` at +40, nothing afterwards; `initialised`
stays false -/
example :
    (Api5.run exS0 [.init, .conn true, .msg 176 exVersion, .adv 39, .adv 1, .adv 5000]).2 =
      [[.opened], [.send .connected msgConsoleVersionRequest false], [.send .connected msgZoneNamesRequestAll false],
       [], [.result "init False"], []] ∧
    (runS exS0 [.init, .conn true, .msg 176 exVersion, .adv 39, .adv 1, .adv 5000]).initialised = false := by decide

end PyAirtouch.Props.C09
