import PyAirtouch.Lemmas.SockOrder
import PyAirtouch.Lemmas.SockIdle
/-!
# C01 — order of transmission, nothing left behind, whole frames

Theorems about the model `PyAirtouch.Model.Sock` of `AirTouchSocket`.

* `C01_once_in_order_without_fault`: the Spec monitor `onceInOrderWithoutFault` holds on every trace of
  the model (a first version of the monitor did not count a transport closed by the client itself as
  a fault and was refuted by a proved counterexample; the monitor was corrected).
* `C01_nothing_pending_when_idle_connected`: while connected **on a transport that is still open**, the
  queue is empty unless a task is still going to drain it or to disconnect.  Since `_drain_message_queue`
  returns at once when the writer is closing, the liveness hypothesis is necessary:
  `C01_pending_when_transport_lost`.
* `C01_frames_contiguous`: a frame is written without an intervening suspension.
-/
namespace PyAirtouch.Props.C01
open PyAirtouch.Model.Sock PyAirtouch.Spec.Trace PyAirtouch.Lemmas.Sock
open PyAirtouch.Lemmas.SockOrder PyAirtouch.Lemmas.SockIdle

/-- In a history with no connection loss, no dead write, no write fault, no explicit reset and no
    transport closed by the client itself, every message is written at most once and the written
    ones appear in acceptance order. -/
theorem C01_once_in_order_without_loss {s : Sys} :
    ReachableWF s → noLoss s.core.trace = true →
      ((acceptedSids s.core.trace).all (fun x => wireCount s.core.trace x ≤ 1) &&
        isSubseq (wiredSids s.core.trace) (acceptedSids s.core.trace)) = true := by
  intro h hn
  obtain ⟨h1, h2⟩ := once_in_order h hn
  simp only [Bool.and_eq_true, List.all_eq_true, decide_eq_true_eq]
  exact ⟨fun x _ => h1 x, isSubseq_of_sublist _ _ h2⟩

/-- three messages queued while the link is down, the second one unencodable; once connected the
    first and the third are written, in that order -/
example : ∃ s, ReachableWF s ∧ noLoss s.core.trace = true ∧ wiredSids s.core.trace = [1, 3] ∧
    acceptedSids s.core.trace = [1, 2, 3] :=
  ⟨_, ⟨[.apiOpen, .apiSend 1 2 240 true, .apiSend 2 2 240 false, .apiSend 3 2 240 true,
        .run 1 .go, .run 1 .openOk, .run 1 .go], by decide, rfl⟩, by decide, by decide, by decide⟩

/-- The Spec monitor itself, for every schedule and every environment behaviour: in a history with
    no connection loss / reset / close and no failed write, each accepted message is written at most
    once and the written ones appear in acceptance order.  (`hasFault` counts a transport closed by
    the client itself: a frame written to it whose `drain()` then fails is legitimately re-sent - the
    history `[apiOpen, …, envPause 0, apiSend 1, readBad, drainErr, …]` writes message 1 twice.) -/
theorem C01_once_in_order_without_fault {s : Sys} :
    ReachableWF s → onceInOrderWithoutFault s.core.trace = true := by
  intro h
  unfold onceInOrderWithoutFault
  cases hf : hasFault s.core.trace with
  | true => rfl
  | false =>
    have hc : s.core.trace.any isClientClose = false := by
      cases hcc : s.core.trace.any isClientClose with
      | false => rfl
      | true =>
        exfalso
        simp only [List.any_eq_true] at hcc
        obtain ⟨e, he, hce⟩ := hcc
        have : hasFault s.core.trace = true := by
          unfold hasFault
          simp only [List.any_eq_true]
          refine ⟨e, he, ?_⟩
          cases e <;> simp_all [isClientClose]
        rw [hf] at this; cases this
    have hn : noLoss s.core.trace = true := by simp [noLoss, hf, hc]
    simpa using C01_once_in_order_without_loss h hn

example : ∃ s, ReachableWF s ∧ s.core.trace.any isClientClose = false ∧ hasFault s.core.trace = false ∧
    wiredSids s.core.trace = [1, 2] :=
  ⟨_, ⟨[.apiOpen, .apiSend 1 2 240 true, .run 1 .go, .run 1 .openOk, .run 1 .go, .apiSend 2 0 8 true],
    by decide, rfl⟩, by decide, by decide, by decide⟩

/-- While the socket is connected and its current transport is still open (`curLive`: `rw = some w` and
    `conns[w]` is `live _ _`, i.e. `writer.is_closing()` is false) nothing stays queued, unless some task is
    still going to run the drain loop or to tear the connection down, namely
    * a task suspended in `drain()` after a write (`drainAwait`),
    * the connect task between `opened` and its first drain (`notifyWait connAfterNotify`),
    * a `close()` waiting for the background tasks it cancelled (`closeGather`),
    * a task waiting for the *current* transport to finish closing (`discWait w _` with `rw = some w`). -/
theorem C01_nothing_pending_when_idle_connected {s : Sys} (hr : Reachable s)
    (hconn : s.core.isConnected = true) (hlive : curLive s.core = true)
    (hdrain : ∀ k ∈ s.tasks, ∀ w e r, k.pc ≠ .drainAwait w e r)
    (hfirst : ∀ k ∈ s.tasks, k.pc ≠ .notifyWait .connAfterNotify)
    (hclose : ∀ k ∈ s.tasks, k.pc ≠ .closeGather)
    (hdisc : ∀ k ∈ s.tasks, ∀ w r, k.pc = .discWait w r → s.core.rw ≠ some w) :
    s.core.queue = [] := by
  have hI := idle_invariant hr
  cases hq : s.core.queue with
  | nil => rfl
  | cons e rest =>
    obtain ⟨k, hk, hp⟩ := hI.busy hconn (by simp [hq]) hlive
    have := (not_promising_iff s.core.rw k.pc).2 ⟨hdrain k hk, hfirst k hk, hclose k hk, hdisc k hk⟩
    rw [hp] at this; cases this

/-- connected, the reader waiting for data, two messages sent and written, every other task finished -/
example : ∃ s, Reachable s ∧ s.core.isConnected = true ∧ curLive s.core = true ∧
    ((∀ k ∈ s.tasks, ∀ w e r, k.pc ≠ .drainAwait w e r) ∧
     (∀ k ∈ s.tasks, k.pc ≠ .notifyWait .connAfterNotify) ∧
     (∀ k ∈ s.tasks, k.pc ≠ .closeGather) ∧
     (∀ k ∈ s.tasks, ∀ w r, k.pc = .discWait w r → s.core.rw ≠ some w)) ∧
    wiredSids s.core.trace = [1, 2] ∧ pcAt s 3 = some (.readWait 0) :=
  ⟨_, ⟨[.apiOpen, .apiSend 1 2 240 true, .run 1 .go, .run 1 .openOk, .run 1 .go, .run 3 .go,
        .apiSend 2 0 8 true], rfl⟩, by decide, by decide, idle_hyps (by decide), by decide, by decide⟩

/-- **the current transport has to be open.**  Once the transport is closing or lost the drain loop leaves
    the queue alone (`if self._writer is None or self._writer.is_closing(): return`): connected, the peer
    resets transport 0, then a `send` - its message stays queued although `is_connected` is still set and no
    task is in any of the four states above (the reader is still blocked in `read`; it will be handed the
    error, reset the connection, and the message goes out first on the next one). -/
theorem C01_pending_when_transport_lost :
    ∃ s, Reachable s ∧ s.core.isConnected = true ∧ curLive s.core = false ∧
      ((∀ k ∈ s.tasks, ∀ w e r, k.pc ≠ .drainAwait w e r) ∧
       (∀ k ∈ s.tasks, k.pc ≠ .notifyWait .connAfterNotify) ∧
       (∀ k ∈ s.tasks, k.pc ≠ .closeGather) ∧
       (∀ k ∈ s.tasks, ∀ w r, k.pc = .discWait w r → s.core.rw ≠ some w)) ∧
      s.core.queue.map (·.sid) = [1] ∧ pcAt s 2 = some (.readWait 0) ∧
      ∃ s', run s [.run 2 .readErr, .envLostRan 0, .run 2 .go, .run 2 .go, .run 4 .go, .run 4 .openOk, .run 4 .go] = some s' ∧
        s'.core.queue = [] ∧ wiredSids s'.core.trace = [1] :=
  ⟨_, ⟨[.apiOpen, .run 1 .go, .run 1 .openOk, .run 1 .go, .run 2 .go, .envLost 0, .apiSend 1 2 240 true], rfl⟩,
    by decide, by decide, idle_hyps (by decide), by decide, by decide, _, rfl, by decide, by decide⟩

/-- none of the four side conditions can be dropped: for each of them a reachable connected state
    with a non-empty queue in which the only tasks excluded by the hypotheses are of that kind -/
example :
    (∃ s, Reachable s ∧ s.core.isConnected = true ∧ s.core.queue.map (·.sid) = [2] ∧
      (s.tasks.filter (fun k => promising s.core.rw k.pc)).map (·.pc) = [.drainAwait 0 ⟨1, 2, 240, true, false⟩ .connAfterDrain]) ∧
    (∃ s, Reachable s ∧ s.core.isConnected = true ∧ s.core.queue.map (·.sid) = [1] ∧
      (s.tasks.filter (fun k => promising s.core.rw k.pc)).map (·.pc) = [.notifyWait .connAfterNotify]) ∧
    (∃ s, Reachable s ∧ s.core.isConnected = true ∧ s.core.queue.map (·.sid) = [1] ∧
      (s.tasks.filter (fun k => promising s.core.rw k.pc)).map (·.pc) = [.closeGather]) ∧
    (∃ s, Reachable s ∧ s.core.isConnected = true ∧ s.core.queue.map (·.sid) = [1] ∧ s.core.rw = some 0 ∧
      (s.tasks.filter (fun k => promising s.core.rw k.pc)).map (·.pc) = [.discWait 0 .closeTail]) :=
  ⟨⟨_, ⟨[.apiOpen, .apiSend 1 2 240 true, .apiSend 2 2 240 true, .run 1 .go, .run 1 .openOk, .envPause 0 true,
         .run 1 .go], rfl⟩, by decide, by decide, by decide⟩,
   ⟨_, ⟨[.apiOpen, .apiSend 1 2 240 true, .run 1 .go, .run 1 .openOk], rfl⟩, by decide, by decide, by decide⟩,
   ⟨_, ⟨[.apiOpen, .apiSend 1 2 240 true, .run 1 .go, .run 1 .openOk, .apiClose], rfl⟩, by decide, by decide, by decide⟩,
   ⟨_, ⟨[.apiOpen, .apiSend 1 2 240 true, .run 1 .go, .run 1 .openOk, .apiClose, .run 3 .go], rfl⟩,
     by decide, by decide, by decide, by decide⟩⟩

/-- A frame is written without an intervening suspension: `_write` logs its whole outcome at once —
    one complete frame, a write fault followed by the loss of the transport, a write on a transport
    that is already closing or lost, or (no such transport) nothing. -/
theorem C01_frames_contiguous (c : Core) (w : Nat) (e : Entry) :
    ∃ evs, (doWrite c w e).1.trace = c.trace ++ evs ∧
      (evs = [.wire w e.sid c.now] ∨ evs = [.writeFault w e.sid c.now, .lost w c.now] ∨
       evs = [.deadWrite w e.sid c.now] ∨ evs = []) :=
  doWrite_events c w e

/-- on the core of a reachable connected state, each of the three outcomes with an event occurs -/
example : ∃ s, Reachable s ∧
    (doWrite s.core 0 ⟨7, 0, 100, true, false⟩).1.trace = s.core.trace ++ [.wire 0 7 0] ∧
    ∃ s', step s (.envFailWrites 0 true) = some s' ∧
      (doWrite s'.core 0 ⟨7, 0, 100, true, false⟩).1.trace = s'.core.trace ++ [.writeFault 0 7 0, .lost 0 0] :=
  ⟨_, ⟨[.apiOpen, .run 1 .go, .run 1 .openOk], rfl⟩, by decide, _, rfl, by decide⟩

end PyAirtouch.Props.C01
