import PyAirtouch.Lemmas.Api4Notify
import PyAirtouch.Lemmas.Api4Raises
import PyAirtouch.Lemmas.Api4Demo
/-!
# C12 (AirTouch 4): subscriber notifications

`Ev.notifyAc id general sid` is the call of the subscriber `sid` of an air-conditioner (registered with `subscribe`
when `general`, with `subscribe_ac_state` otherwise) with the AC id; `Ev.notifyZone`, `Ev.notifyAt` likewise.
-/
set_option linter.unusedVariables false
set_option linter.unusedSimpArgs false
namespace PyAirtouch.Props.C12
open PyAirtouch.Model PyAirtouch.Model.Api4 PyAirtouch.Model.At4 PyAirtouch.Lemmas.Api4 PyAirtouch.Gen
open PyAirtouch.Model.TimerCommon (AcTimerState AcTimerStatusData)

/-! ### notified with the right id exactly when the stored record changed -/

/-- An AC-status message with one record for a known air-conditioner, in state `CONNECTED`: nothing at all
    happens when the record equals the stored one; otherwise every general and every AC-state subscriber of
    that air-conditioner is called once with the AC's id, and nobody else is. -/
theorem ac_status_notifies_iff_changed_at4 (s : State) (hst : s.st = .CONNECTED) (hsub : s.subscribed = true)
    (r : X2D.AcStatusData) (a : AcObj) (hf : s.findAc r.ac_number = some a) :
    (a.status = r → (apiStep s (.recv (.acStatus (.status [r])))).2 = []) ∧
    (a.status ≠ r → (apiStep s (.recv (.acStatus (.status [r])))).2.filter Ev.isNotify =
      (a.subs.map fun sb => Ev.notifyAc r.ac_number true sb.sid) ++
      (a.stateSubs.map fun sb => Ev.notifyAc r.ac_number false sb.sid)) := by
  constructor
  · intro he
    simp [apiStep, recv, hsub, onMessage, hst, foldEv, updateAcStatus, hf, he]
  · intro hne
    simp only [apiStep, recv, hsub, ↓reduceIte, onMessage, hst, reduceCtorEq, foldEv, updateAcStatus, hf, hne,
      List.append_nil, notifyAcAll, AcObj.acId, List.filter_append]
    have h1 : ∀ (l : List Sub) (g : Bool), (l.map fun sb => Ev.notifyAc r.ac_number g sb.sid).filter Ev.isNotify =
        l.map fun sb => Ev.notifyAc r.ac_number g sb.sid := by
      intro l g; induction l with
      | nil => rfl
      | cons x xs ih => simp [List.filter, Ev.isNotify, ih]
    rw [h1, h1]
    split <;> simp [List.filter, Ev.isNotify]

/-- the same for one timer record -/
theorem ac_timer_notifies_iff_changed_at4 (s : State) (hst : s.st = .CONNECTED) (hsub : s.subscribed = true)
    (r : AcTimerStatusData) (a : AcObj) (hf : s.findAc r.ac_number = some a) :
    (a.timer = r → (apiStep s (.recv (.acTimerStatus (.status [r])))).2 = []) ∧
    (a.timer ≠ r → (apiStep s (.recv (.acTimerStatus (.status [r])))).2 =
      (a.subs.map fun sb => Ev.notifyAc a.status.ac_number true sb.sid) ++
      (a.stateSubs.map fun sb => Ev.notifyAc a.status.ac_number false sb.sid)) := by
  constructor
  · intro he
    simp [apiStep, recv, hsub, onMessage, processTimers, hst, foldEv, updateAcTimer, hf, he]
  · intro hne
    simp [apiStep, recv, hsub, onMessage, processTimers, hst, foldEv, updateAcTimer, hf, hne, notifyAcAll, AcObj.acId]

/-- an error-information message (any state): silent when the text is the stored one, otherwise all
    subscribers of that air-conditioner -/
theorem error_info_notifies_iff_changed_at4 (s : State) (hsub : s.subscribed = true)
    (e : FF10.AcErrorInformationMessage) (a : AcObj) (hf : s.findAc e.ac_number = some a) :
    (a.errInfo = e.error_info → (apiStep s (.recv (.extended (.errInfo (.message e))))).2 = []) ∧
    (a.errInfo ≠ e.error_info → (apiStep s (.recv (.extended (.errInfo (.message e))))).2 =
      (a.subs.map fun sb => Ev.notifyAc a.status.ac_number true sb.sid) ++
      (a.stateSubs.map fun sb => Ev.notifyAc a.status.ac_number false sb.sid)) := by
  constructor
  · intro he
    simp [apiStep, recv, hsub, onMessage, updateErrInfo, hf, he]
  · intro hne
    simp [apiStep, recv, hsub, onMessage, updateErrInfo, hf, hne, notifyAcAll, AcObj.acId]

/-- a console-version message in state `CONNECTED`: the AirTouch subscribers are called iff it differs -/
theorem version_notifies_iff_changed_at4 (s : State) (hst : s.st = .CONNECTED) (hsub : s.subscribed = true)
    (v : FF30.ConsoleVersionMessage) :
    (apiStep s (.recv (.extended (.consoleVer (.message v))))).2 =
      if s.version = v then [] else s.subs.map fun sb => Ev.notifyAt sb.sid := by
  simp only [apiStep, recv, hsub, ↓reduceIte, onMessage, hst, reduceCtorEq, updateVersion, List.append_nil]
  split <;> rfl

/-! ### zone changes: zone subscribers and the owning air-conditioners' general subscribers only -/

/-- A group-status message with one record for a known zone, in state `CONNECTED`: silent when unchanged;
    otherwise the zone's subscribers are called with the zone id and, for every air-conditioner object built
    with this zone, its *general* subscribers with the AC id - never an AC-state-only subscriber. -/
theorem zone_change_notifies_at4 (s : State) (hst : s.st = .CONNECTED) (hsub : s.subscribed = true)
    (g : X2B.GroupStatusData) (z : ZoneObj) (hf : s.zoneOf g.group_number = some z) :
    (z.status = g → (apiStep s (.recv (.groupStatus (.status [g])))).2 = []) ∧
    (z.status ≠ g → (apiStep s (.recv (.groupStatus (.status [g])))).2 =
      (z.subs.map fun sb => Ev.notifyZone g.group_number sb.sid) ++
      (acsOfZoneKey s g.group_number).flatMap fun a => a.subs.map fun sb => Ev.notifyAc a.status.ac_number true sb.sid) := by
  have hz : (rearmPolls s).zoneOf g.group_number = some z := hf
  constructor
  · intro he
    simp [apiStep, recv, hsub, onMessage, hst, foldEv, updateGroupStatus, hz, he]
  · intro hne
    simp only [apiStep, recv, hsub, ↓reduceIte, onMessage, hst, reduceCtorEq, foldEv, updateGroupStatus, hz, hne,
      List.append_nil]
    rfl

/-- no state-only subscriber is ever called because of a group status -/
theorem zone_change_not_to_state_subscribers_at4 (s : State) (g : X2B.GroupStatusData) (i : Nat) (sid : String) :
    Ev.notifyAc i false sid ∉ (updateGroupStatus s g).2 := by
  unfold updateGroupStatus
  split
  · simp
  · split
    · simp
    · intro h
      simp only [List.mem_append, List.mem_map, List.mem_flatMap, notifyAcGeneral, reduceCtorEq, and_false,
        exists_false, false_or] at h
      obtain ⟨a, _, sb, _, he⟩ := h
      cases he

/-- the owning air-conditioner's general subscribers are reached -/
theorem zone_change_reaches_owner_at4 (s : State) (g : X2B.GroupStatusData) (z : ZoneObj) (zi : Nat)
    (hl : s.zoneDict.lookup g.group_number = some zi) (hz : s.zoneObjs[zi]? = some z) (hne : z.status ≠ g)
    (a : AcObj) (ha : a ∈ s.acObjs) (hown : zi ∈ a.zones) (sb : Sub) (hsb : sb ∈ a.subs) :
    Ev.notifyAc a.status.ac_number true sb.sid ∈ (updateGroupStatus s g).2 := by
  have hf : s.zoneOf g.group_number = some z := by simp [State.zoneOf, hl, hz]
  simp only [updateGroupStatus, hf, hne, ↓reduceIte, List.mem_append, List.mem_flatMap]
  refine Or.inr ⟨a, ?_, ?_⟩
  · simp only [acsOfZoneKey, hl, acsOfZone, List.mem_filter]
    exact ⟨ha, by simpa using hown⟩
  · exact List.mem_map.mpr ⟨sb, hsb, rfl⟩

/-! ### an identical repeat is silent -/

/-- delivering the same AC-status message (distinct AC numbers) twice: the second delivery produces no output -/
theorem repeated_ac_status_silent_at4 (s : State) (hinv : Inv s) (hst : s.st = .CONNECTED) (hsub : s.subscribed = true)
    (l : List X2D.AcStatusData) (hnd : (l.map (·.ac_number)).Nodup) :
    (apiStep (apiStep s (.recv (.acStatus (.status l)))).1 (.recv (.acStatus (.status l)))).2 = [] := by
  have hs := static_recv_connected hst (.acStatus (.status l))
  have hst' : (recv s (.acStatus (.status l))).1.st = .CONNECTED := (congrArg Static.st hs).trans hst
  have hsub' : (recv s (.acStatus (.status l))).1.subscribed = true := (congrArg Static.subscribed hs).trans hsub
  simp only [apiStep]
  have key : ∀ k, (recv s (.acStatus (.status l))).1.findAc k = (foldEv updateAcStatus s l).1.findAc k := by
    intro k
    simp only [recv, hsub, ↓reduceIte, findAc_hbOnMessage, onMessage, hst, reduceCtorEq]
  generalize (recv s (.acStatus (.status l))).1 = t at hst' hsub' key
  simp only [recv, hsub', ↓reduceIte, onMessage, hst', reduceCtorEq, foldStatus_twice hinv l hnd t key]
  rfl

theorem repeated_ac_timer_silent_at4 (s : State) (hinv : Inv s) (hst : s.st = .CONNECTED) (hsub : s.subscribed = true)
    (l : List AcTimerStatusData) (hnd : (l.map (·.ac_number)).Nodup) :
    (apiStep (apiStep s (.recv (.acTimerStatus (.status l)))).1 (.recv (.acTimerStatus (.status l)))).2 = [] := by
  have hs := static_recv_connected hst (.acTimerStatus (.status l))
  have hst' : (recv s (.acTimerStatus (.status l))).1.st = .CONNECTED := (congrArg Static.st hs).trans hst
  have hsub' : (recv s (.acTimerStatus (.status l))).1.subscribed = true := (congrArg Static.subscribed hs).trans hsub
  simp only [apiStep]
  have key : ∀ k, (recv s (.acTimerStatus (.status l))).1.findAc k = (foldEv updateAcTimer s l).1.findAc k := by
    intro k
    simp only [recv, hsub, ↓reduceIte, findAc_hbOnMessage, onMessage, processTimers, hst, reduceCtorEq]
  generalize (recv s (.acTimerStatus (.status l))).1 = t at hst' hsub' key
  simp only [recv, hsub', ↓reduceIte, onMessage, processTimers, hst', reduceCtorEq, foldTimer_twice hinv l hnd t key]
  rfl

/-- a group-status refresh with unchanged data produces no output (no `NOTIFY`) -/
theorem repeated_group_status_silent_at4 (s : State) (hinv : Inv s) (hst : s.st = .CONNECTED)
    (hsub : s.subscribed = true) (l : List X2B.GroupStatusData) (hnd : (l.map (·.group_number)).Nodup) :
    (apiStep (apiStep s (.recv (.groupStatus (.status l)))).1 (.recv (.groupStatus (.status l)))).2 = [] := by
  have hs := static_recv_connected hst (.groupStatus (.status l))
  have hst' : (recv s (.groupStatus (.status l))).1.st = .CONNECTED := (congrArg Static.st hs).trans hst
  have hsub' : (recv s (.groupStatus (.status l))).1.subscribed = true := (congrArg Static.subscribed hs).trans hsub
  simp only [apiStep]
  have hinv' : Inv (rearmPolls s) := ⟨hinv.acKey, hinv.zoneKey⟩
  have key : ∀ k, (rearmPolls (recv s (.groupStatus (.status l))).1).zoneOf k =
      (foldEv updateGroupStatus (rearmPolls s) l).1.zoneOf k := by
    intro k
    show (recv s (.groupStatus (.status l))).1.zoneOf k = _
    simp only [recv, hsub, ↓reduceIte, zoneOf_hbOnMessage, onMessage, hst, reduceCtorEq]
  generalize (recv s (.groupStatus (.status l))).1 = t at hst' hsub' key
  simp only [recv, hsub', ↓reduceIte, onMessage, hst', reduceCtorEq,
    foldGroup_twice hinv' l hnd (rearmPolls t) key]
  rfl

/-! ### subscribing twice = once; unsubscribe stops -/

/-- subscribing the same subscriber of the AirTouch object twice is subscribing it once -/
theorem subscribe_twice_at_at4 (s : State) (sid : String) (r r' : Bool) :
    (apiStep (apiStep s (.sub .airtouch sid r)).1 (.sub .airtouch sid r')).1 = (apiStep s (.sub .airtouch sid r)).1 := by
  simp only [apiStep, subUnsub, subAdd_twice]

/-- the same for an air-conditioner's general / AC-state subscriber sets -/
theorem subscribe_twice_ac_at4 (s : State) (hinv : Inv s) (i : Nat) (general : Bool) (sid : String) (r r' : Bool) :
    (apiStep (apiStep s (.sub (.ac i general) sid r)).1 (.sub (.ac i general) sid r')).1 =
      (apiStep s (.sub (.ac i general) sid r)).1 := by
  simp only [apiStep, subUnsub]
  cases hf : s.findAc i with
  | none => simp [hf]
  | some a =>
    simp only [findAc_setAc hinv, hf, ↓reduceIte, Option.map_some]
    cases hl : s.acDict.lookup i with
    | none => simp [State.findAc, hl] at hf
    | some idx =>
      simp only [State.setAc, hl, List.set_set]
      cases general <;> simp [subAdd_twice]

/-- and for a zone -/
theorem subscribe_twice_zone_at4 (s : State) (i zi : Nat) (z : ZoneObj) (hf : s.findZone i = some zi)
    (hz : s.zoneObjs[zi]? = some z) (sid : String) (r r' : Bool) :
    (apiStep (apiStep s (.sub (.zone i) sid r)).1 (.sub (.zone i) sid r')).1 = (apiStep s (.sub (.zone i) sid r)).1 := by
  obtain ⟨hlt, _⟩ := List.getElem?_eq_some_iff.mp hz
  simp only [apiStep, subUnsub, hf, hz, findZone_set_subs s zi z hz]
  simp [List.getElem?_set, hlt, subAdd_twice]

/-- after `unsubscribe` the AirTouch subscriber is not called any more -/
theorem unsubscribe_stops_at_at4 (s : State) (sid : String) (v : FF30.ConsoleVersionMessage) :
    Ev.notifyAt sid ∉ (updateVersion (apiStep s (.unsub .airtouch sid)).1 v).2 := by
  simp only [apiStep, subUnsub, updateVersion]
  by_cases hv : s.version = v
  · simp [hv]
  · simp only [hv, ↓reduceIte]
    intro h
    simp only [List.mem_map, Ev.notifyAt.injEq] at h
    obtain ⟨sb, hsb, he⟩ := h
    exact subRemove_not_mem _ _ sb hsb he

/-- after `unsubscribe` an air-conditioner's subscriber is not called by that air-conditioner object -/
theorem unsubscribe_stops_ac_at4 (s : State) (hinv : Inv s) (i : Nat) (general : Bool) (sid : String) (a : AcObj)
    (hf : (apiStep s (.unsub (.ac i general) sid)).1.findAc i = some a) (id' : Nat) :
    Ev.notifyAc id' general sid ∉ notifyAcAll a := by
  simp only [apiStep, subUnsub] at hf
  cases hf0 : s.findAc i with
  | none =>
    simp only [hf0] at hf
    cases hf
  | some a0 =>
    simp only [hf0, findAc_setAc hinv, ↓reduceIte, Option.map_some, Option.some.injEq] at hf
    subst hf
    intro h
    simp only [notifyAcAll, List.mem_append, List.mem_map, Ev.notifyAc.injEq] at h
    cases general with
    | true =>
      rcases h with ⟨sb, hsb, _, _, he⟩ | ⟨sb, hsb, _, hg, _⟩
      · exact subRemove_not_mem _ _ sb hsb he
      · cases hg
    | false =>
      rcases h with ⟨sb, hsb, _, hg, _⟩ | ⟨sb, hsb, _, _, he⟩
      · cases hg
      · exact subRemove_not_mem _ _ sb hsb he

/-- after `unsubscribe` a zone's subscriber is not in the zone object's subscriber set any more -/
theorem unsubscribe_stops_zone_at4 (s : State) (i zi : Nat) (z : ZoneObj) (hf : s.findZone i = some zi)
    (hz : s.zoneObjs[zi]? = some z) (sid : String) :
    ∃ z', (apiStep s (.unsub (.zone i) sid)).1.zoneObjs[zi]? = some z' ∧ z'.status = z.status ∧
      ∀ sb ∈ z'.subs, sb.sid ≠ sid := by
  obtain ⟨hlt, hget⟩ := List.getElem?_eq_some_iff.mp hz
  refine ⟨{ z with subs := subRemove z.subs sid }, ?_, rfl, subRemove_not_mem _ _⟩
  simp [apiStep, subUnsub, hf, hz, List.getElem?_set, hlt, hget]

/-! ### a raising subscriber changes nothing -/

/-- **a raising subscriber does not prevent the others, and later messages are processed normally**: run any
    script; run it again with every subscriber's "raises" flag erased (`er` on the state, `erOp` on the ops): the two
    runs produce the same outputs, step for step (in particular the same `NOTIFY` lines), and end in states that
    differ only in the erased flags -/
theorem raising_subscribers_irrelevant_at4 (s : State) (ops : List Op) :
    (run (er s) (ops.map erOp)).2 = (run s ops).2 ∧ (run (er s) (ops.map erOp)).1 = er (run s ops).1 := by
  rw [er_run]; exact ⟨rfl, rfl⟩

/-- one step -/
theorem raising_subscribers_irrelevant_step_at4 (s : State) (op : Op) :
    apiStep (er s) (erOp op) = (er (apiStep s op).1, (apiStep s op).2) := er_apiStep s op

/-! ### non-vacuity -/

example : Inv demoSub ∧ demoSub.st = .CONNECTED ∧ demoSub.subscribed = true :=
  ⟨Inv_run demo_inv _, by decide, by decide⟩

example : er demoSub ≠ demoSub ∧
    (run demoSub [.recv (.acStatus (.status [{ demoAcStatus with set_point := 25 }])), .adv 1, .view]).2 =
    (run (er demoSub) [.recv (.acStatus (.status [{ demoAcStatus with set_point := 25 }])), .adv 1, .view]).2 := by
  refine ⟨fun h => ?_, ?_⟩
  · have : ((er demoSub).findAc 0).map (·.stateSubs) = (demoSub.findAc 0).map (·.stateSubs) := by rw [h]
    revert this; decide
  · exact ((raising_subscribers_irrelevant_at4 demoSub _).1).symm

example : ∃ zi z, demoSub.findZone 1 = some zi ∧ demoSub.zoneObjs[zi]? = some z := ⟨1, _, by decide, rfl⟩

example : (apiStep demoSub (.recv (.acStatus (.status [{ demoAcStatus with set_point := 25 }])))).2 =
    [Ev.notifyAc 0 true "g", Ev.notifyAc 0 false "t"] := by decide
example : (apiStep demoSub (.recv (.acStatus (.status [demoAcStatus])))).2 = [] := by decide
example : (apiStep demoSub (.recv (.groupStatus (.status [{ demoGroup with damper_percentage := 10 }])))).2 =
    [Ev.notifyZone 1 "z", Ev.notifyAc 0 true "g"] := by decide
example : (apiStep demoSub (.recv (.extended (.consoleVer (.message { update_available := true, versions := [] }))))).2 =
    [Ev.notifyAt "a"] := by decide
example : (apiStep (apiStep demoSub (.unsub (.zone 1) "z")).1 (.recv (.groupStatus (.status [{ demoGroup with damper_percentage := 10 }])))).2 =
    [Ev.notifyAc 0 true "g"] := by decide
example : (apiStep (apiStep demoSub (.sub (.ac 0 true) "g" true)).1 (.recv (.acTimerStatus (.status [{ demoTimer with ac_number := 0, on_timer := ⟨true, 0, 0⟩ }])))).2 =
    [Ev.notifyAc 0 true "g", Ev.notifyAc 0 false "t"] := by decide

end PyAirtouch.Props.C12
