import PyAirtouch.Lemmas.Api4Inv
import PyAirtouch.Lemmas.Api4Calls
import PyAirtouch.Lemmas.Api4Demo
/-!
# C11 (AirTouch 4): argument validation, exactly one send per accepted call, set-point rounding and clamping,
quick timers

A public call is the op `.call c`; `apiStep s (.call c) = (s, doCall s c)`: a call never changes the model state.
`s.findAc i = some a` / `s.findZone i = some zi` say which object the call addresses.
-/
set_option linter.unusedVariables false
set_option linter.unusedSimpArgs false
namespace PyAirtouch.Props.C11
open PyAirtouch.Model PyAirtouch.Model.Api4 PyAirtouch.Model.At4 PyAirtouch.Lemmas.Api4 PyAirtouch.Gen
open PyAirtouch.Model.TimerCommon (AcTimerState AcTimerStatusData)

/-- a call leaves the state alone and either sends exactly one message and returns, or raises without sending -/
theorem call_one_send_or_raise_at4 (s : State) (c : Call) :
    (apiStep s (.call c)).1 = s ∧
    ((∃ p m, callResult s c = .ok (p, m) ∧ s.sockOpen = true ∧
        (apiStep s (.call c)).2 = [Ev.send p m, Ev.result "OK"]) ∨
     (∃ e : Exc, (apiStep s (.call c)).2 = [Ev.result e.name])) := by
  refine ⟨rfl, ?_⟩
  simp only [apiStep, doCall]
  cases hr : callResult s c with
  | error e => exact Or.inr ⟨e, rfl⟩
  | ok pm =>
    obtain ⟨p, m⟩ := pm
    by_cases ho : s.sockOpen = true
    · exact Or.inl ⟨p, m, rfl, ho, by simp [ho]⟩
    · exact Or.inr ⟨.notOpen, by simp [ho]⟩

/-- every accepted call (`RESULT OK`) produces exactly one send, every rejected one none -/
theorem accepted_call_sends_once_at4 (s : State) (c : Call) :
    (Ev.result "OK" ∈ (apiStep s (.call c)).2 → ((apiStep s (.call c)).2.filter Ev.isSend).length = 1) ∧
    (Ev.result "OK" ∉ (apiStep s (.call c)).2 → (apiStep s (.call c)).2.filter Ev.isSend = []) := by
  obtain ⟨_, h⟩ := call_one_send_or_raise_at4 s c
  rcases h with ⟨p, m, _, _, he⟩ | ⟨e, he⟩
  · rw [he]; constructor
    · intro _; rfl
    · intro hn; exact absurd (by simp) hn
  · rw [he]; constructor
    · intro hm
      simp only [List.mem_singleton, Ev.result.injEq] at hm
      cases e <;> simp [Exc.name] at hm
    · intro _; rfl

/-! ### rejected arguments: `ValueError`, nothing sent -/

theorem unsupported_power_control_at4 (s : State) (i : Nat) (a : AcObj) (hf : s.findAc i = some a)
    (p : ApiEnums.AcPowerControl) (hp : p ∉ supportedPowerControls) :
    apiStep s (.call (.acSetPower i p)) = (s, valueError) := by
  simp [apiStep, doCall, callResult, Call.acId?, hf, callAc, hp, valueError, Exc.name]

/-- the power controls the AirTouch 4 does not have -/
theorem away_sleep_unsupported_at4 :
    ApiEnums.AcPowerControl.SET_TO_AWAY ∉ supportedPowerControls ∧
    ApiEnums.AcPowerControl.SET_TO_SLEEP ∉ supportedPowerControls := by
  decide

theorem unsupported_mode_at4 (s : State) (i : Nat) (a : AcObj) (hf : s.findAc i = some a)
    (m : ApiEnums.AcMode) (po : Bool) (hm : m ∉ a.supportedModes) :
    apiStep s (.call (.acSetMode i m po)) = (s, valueError) := by
  simp [apiStep, doCall, callResult, Call.acId?, hf, callAc, hm, valueError, Exc.name]

theorem unsupported_fan_speed_at4 (s : State) (i : Nat) (a : AcObj) (hf : s.findAc i = some a)
    (f : ApiEnums.AcFanSpeed) (hm : f ∉ a.supportedFanSpeeds) :
    apiStep s (.call (.acSetFanSpeed i f)) = (s, valueError) := by
  simp [apiStep, doCall, callResult, Call.acId?, hf, callAc, hm, valueError, Exc.name]

theorem unsupported_zone_power_at4 (s : State) (i zi : Nat) (z : ZoneObj) (hf : s.findZone i = some zi)
    (hz : s.zoneObjs[zi]? = some z) (p : ApiEnums.ZonePowerState) (hp : p ∉ z.supportedPowerStates) :
    apiStep s (.call (.zoneSetPower i p)) = (s, valueError) := by
  simp [apiStep, doCall, callResult, Call.acId?, Call.zoneId?, hf, hz, callZone, hp, valueError, Exc.name]

/-- TURBO is a supported zone power state exactly when the last group status said `supports_turbo` -/
theorem turbo_supported_iff_at4 (z : ZoneObj) :
    (ApiEnums.ZonePowerState.TURBO ∈ z.supportedPowerStates ↔ z.status.supports_turbo = true) ∧
    ApiEnums.ZonePowerState.ON ∈ z.supportedPowerStates ∧ ApiEnums.ZonePowerState.OFF ∈ z.supportedPowerStates := by
  unfold ZoneObj.supportedPowerStates
  cases z.status.supports_turbo <;> simp

theorem damper_out_of_range_at4 (s : State) (i zi : Nat) (z : ZoneObj) (hf : s.findZone i = some zi)
    (hz : s.zoneObjs[zi]? = some z) (p : Int) (hp : p < 0 ∨ 100 < p) :
    apiStep s (.call (.zoneSetDamper i p)) = (s, valueError) := by
  have : (p < 0 ∨ p > 100) := hp
  simp [apiStep, doCall, callResult, Call.acId?, Call.zoneId?, hf, hz, callZone, this, valueError, Exc.name]

theorem set_point_without_sensor_at4 (s : State) (i zi : Nat) (z : ZoneObj) (hf : s.findZone i = some zi)
    (hz : s.zoneObjs[zi]? = some z) (h : Int) (hs : z.status.has_sensor = false) :
    apiStep s (.call (.zoneSetTemp i h)) = (s, valueError) := by
  simp [apiStep, doCall, callResult, Call.acId?, Call.zoneId?, hf, hz, callZone, hs, valueError, Exc.name]

/-- a time of day that `datetime.time` refuses never reaches the API -/
theorem invalid_time_at4 (s : State) (i : Nat) (a : AcObj) (hf : s.findAc i = some a) (tt : ApiEnums.AcTimerType)
    (hour minute : Nat) (h : 24 ≤ hour ∨ 60 ≤ minute) :
    apiStep s (.call (.acSetTimerTime i tt hour minute)) = (s, valueError) := by
  have : ¬ (hour < 24 ∧ minute < 60) := by omega
  simp [apiStep, doCall, callResult, Call.acId?, hf, callAc, this, valueError, Exc.name]

/-! ### accepted calls: what is sent -/

theorem damper_in_range_at4 (s : State) (i zi : Nat) (z : ZoneObj) (hf : s.findZone i = some zi)
    (hz : s.zoneObjs[zi]? = some z) (ho : s.sockOpen = true) (p : Nat) (hp : p ≤ 100) :
    (apiStep s (.call (.zoneSetDamper i p))).2 =
      [Ev.send .idempotent (.reg (.groupCtrl { group_number := z.status.group_number, power := .UNCHANGED, control_method := .DAMPER, setting := .damper p })), Ev.result "OK"] := by
  have h1 : ¬ ((p : Int) < 0 ∨ (p : Int) > 100) := by omega
  simp [apiStep, doCall, callResult, Call.acId?, Call.zoneId?, hf, hz, callZone, h1, ho, groupControl]

/-! ### set-points: rounding (half to even) and clamping -/

/-- `roundHundredths h` is the integer nearest to `h / 100`, a tie going to the even neighbour -/
theorem round_spec_at4 (h : Int) :
    100 * roundHundredths h - 50 ≤ h ∧ h ≤ 100 * roundHundredths h + 50 ∧
    ((h = 100 * roundHundredths h + 50 ∨ h = 100 * roundHundredths h - 50) → roundHundredths h % 2 = 0) := by
  unfold roundHundredths
  simp only
  split
  · omega
  · split
    · omega
    · split <;> omega

/-- the AC set-point call sends the rounded temperature clamped into `[min, max]` of the ability record, as
    an `AcSetPointValue`, power / mode / fan speed unchanged, with the idempotent policy -/
theorem ac_set_point_at4 (s : State) (i : Nat) (a : AcObj) (hf : s.findAc i = some a) (ho : s.sockOpen = true)
    (h : Int) :
    ∃ v : Nat,
      (apiStep s (.call (.acSetTemp i h))).2 =
        [Ev.send .idempotent (.reg (.acCtrl { ac_number := a.status.ac_number, power := .UNCHANGED, mode := .UNCHANGED, fan_speed := .UNCHANGED, set_point_control := .value v })), Ev.result "OK"] ∧
      (v : Int) = min (max (a.ability.min_set_point : Int) (roundHundredths h)) (a.ability.max_set_point : Int) ∧
      (a.ability.min_set_point ≤ a.ability.max_set_point →
        a.ability.min_set_point ≤ v ∧ v ≤ a.ability.max_set_point) ∧
      ((a.ability.min_set_point : Int) ≤ roundHundredths h → roundHundredths h ≤ (a.ability.max_set_point : Int) →
        (v : Int) = roundHundredths h) := by
  refine ⟨(min (max (a.ability.min_set_point : Int) (roundHundredths h)) (a.ability.max_set_point : Int)).toNat, ?_, ?_, ?_, ?_⟩
  · simp [apiStep, doCall, callResult, Call.acId?, hf, callAc, ho, acControl, AcObj.acId]
  · omega
  · intro hle; omega
  · intro h1 h2; omega

/-- the zone set-point call sends the rounded temperature (no clamp) and switches the zone to temperature
    control -/
theorem zone_set_point_at4 (s : State) (i zi : Nat) (z : ZoneObj) (hf : s.findZone i = some zi)
    (hz : s.zoneObjs[zi]? = some z) (ho : s.sockOpen = true) (hs : z.status.has_sensor = true) (h : Int)
    (hpos : 0 ≤ roundHundredths h) :
    (apiStep s (.call (.zoneSetTemp i h))).2 =
      [Ev.send .idempotent (.reg (.groupCtrl { group_number := z.status.group_number, power := .UNCHANGED, control_method := .TEMPERATURE, setting := .setPoint (roundHundredths h).toNat })), Ev.result "OK"] := by
  simp [apiStep, doCall, callResult, Call.acId?, Call.zoneId?, hf, hz, callZone, hs, hpos, ho, groupControl]

/-! ### quick timers -/

/-- setting a timer to a time of day sends an `AcTimerControlMessage` whose *other* timer is exactly the
    last reported one -/
theorem set_timer_keeps_other_at4 (s : State) (i : Nat) (a : AcObj) (hf : s.findAc i = some a)
    (ho : s.sockOpen = true) (hour minute : Nat) (hh : hour < 24) (hm : minute < 60) :
    (apiStep s (.call (.acSetTimerTime i .ON_TIMER hour minute))).2 =
      [Ev.send .idempotent (.reg (.acTimerCtrl { ac_timer_status := [{ ac_number := a.status.ac_number, on_timer := { disabled := false, hour := hour, minute := minute }, off_timer := a.timer.off_timer }] })),
       Ev.result "OK"] ∧
    (apiStep s (.call (.acSetTimerTime i .OFF_TIMER hour minute))).2 =
      [Ev.send .idempotent (.reg (.acTimerCtrl { ac_timer_status := [{ ac_number := a.status.ac_number, on_timer := a.timer.on_timer, off_timer := { disabled := false, hour := hour, minute := minute } }] })),
       Ev.result "OK"] := by
  constructor <;>
    simp [apiStep, doCall, callResult, Call.acId?, hf, callAc, hh, hm, ho, timerControl, AcObj.acId]

/-- clearing a timer likewise -/
theorem clear_timer_keeps_other_at4 (s : State) (i : Nat) (a : AcObj) (hf : s.findAc i = some a)
    (ho : s.sockOpen = true) :
    (apiStep s (.call (.acClearTimer i .ON_TIMER))).2 =
      [Ev.send .idempotent (.reg (.acTimerCtrl { ac_timer_status := [{ ac_number := a.status.ac_number, on_timer := { disabled := true, hour := 0, minute := 0 }, off_timer := a.timer.off_timer }] })),
       Ev.result "OK"] ∧
    (apiStep s (.call (.acClearTimer i .OFF_TIMER))).2 =
      [Ev.send .idempotent (.reg (.acTimerCtrl { ac_timer_status := [{ ac_number := a.status.ac_number, on_timer := a.timer.on_timer, off_timer := { disabled := true, hour := 0, minute := 0 } }] })),
       Ev.result "OK"] := by
  constructor <;>
    simp [apiStep, doCall, callResult, Call.acId?, hf, callAc, ho, timerControl, AcObj.acId]

/-- a duration goes out as a `QuickTimerMessage` -/
theorem set_timer_duration_at4 (s : State) (i : Nat) (a : AcObj) (hf : s.findAc i = some a)
    (ho : s.sockOpen = true) (secs : Nat) :
    (apiStep s (.call (.acSetTimerDuration i .ON_TIMER secs))).2 =
      [Ev.send .idempotent (.reg (.extended (.quickTimer { ac_number := a.status.ac_number, timer_type := .ON_TIMER, duration := secs }))), Ev.result "OK"] ∧
    (apiStep s (.call (.acSetTimerDuration i .OFF_TIMER secs))).2 =
      [Ev.send .idempotent (.reg (.extended (.quickTimer { ac_number := a.status.ac_number, timer_type := .OFF_TIMER, duration := secs }))), Ev.result "OK"] := by
  have h1 : lookupE Api4.API_TIMER_TYPE_MAPPING ApiEnums.AcTimerType.ON_TIMER = .ok .ON_TIMER := rfl
  have h2 : lookupE Api4.API_TIMER_TYPE_MAPPING ApiEnums.AcTimerType.OFF_TIMER = .ok .OFF_TIMER := rfl
  constructor
  · simp only [apiStep, doCall, callResult, Call.acId?, hf, callAc, ho, AcObj.acId, h1]; rfl
  · simp only [apiStep, doCall, callResult, Call.acId?, hf, callAc, ho, AcObj.acId, h2]; rfl


/-! ### accepted enum arguments: the message carries the table's translation -/

theorem set_power_accepted_at4 (s : State) (i : Nat) (a : AcObj) (hf : s.findAc i = some a) (ho : s.sockOpen = true) :
    (apiStep s (.call (.acSetPower i .TOGGLE))).2 =
      [Ev.send .nonIdempotent (acCtl a .TOGGLE .UNCHANGED .UNCHANGED), Ev.result "OK"] ∧
    (apiStep s (.call (.acSetPower i .TURN_OFF))).2 =
      [Ev.send .idempotent (acCtl a .TURN_OFF .UNCHANGED .UNCHANGED), Ev.result "OK"] ∧
    (apiStep s (.call (.acSetPower i .TURN_ON))).2 =
      [Ev.send .idempotent (acCtl a .TURN_ON .UNCHANGED .UNCHANGED), Ev.result "OK"] := by
  have m1 : supportedPowerControls.contains ApiEnums.AcPowerControl.TOGGLE = true := by decide
  have m2 : supportedPowerControls.contains ApiEnums.AcPowerControl.TURN_OFF = true := by decide
  have m3 : supportedPowerControls.contains ApiEnums.AcPowerControl.TURN_ON = true := by decide
  have h1 : lookupE Api4.API_POWER_CONTROL_MAPPING ApiEnums.AcPowerControl.TOGGLE = .ok .TOGGLE := rfl
  have h2 : lookupE Api4.API_POWER_CONTROL_MAPPING ApiEnums.AcPowerControl.TURN_OFF = .ok .TURN_OFF := rfl
  have h3 : lookupE Api4.API_POWER_CONTROL_MAPPING ApiEnums.AcPowerControl.TURN_ON = .ok .TURN_ON := rfl
  refine ⟨?_, ?_, ?_⟩
  · simp only [apiStep, doCall, callResult, Call.acId?, hf, callAc, m1, ↓reduceIte, h1, ho]; rfl
  · simp only [apiStep, doCall, callResult, Call.acId?, hf, callAc, m2, ↓reduceIte, h2, ho]; rfl
  · simp only [apiStep, doCall, callResult, Call.acId?, hf, callAc, m3, ↓reduceIte, h3, ho]; rfl

theorem modeCtl_is_table_at4 (m : ApiEnums.AcMode) : lookupE Api4.API_MODE_CONTROL_MAPPING m = .ok (modeCtl m) := by
  cases m <;> rfl

theorem set_mode_accepted_at4 (s : State) (i : Nat) (a : AcObj) (hf : s.findAc i = some a) (ho : s.sockOpen = true)
    (m : ApiEnums.AcMode) (po : Bool) (hm : m ∈ a.supportedModes) :
    (apiStep s (.call (.acSetMode i m po))).2 =
      [Ev.send .idempotent (acCtl a (if po then .TURN_ON else .UNCHANGED) (modeCtl m) .UNCHANGED), Ev.result "OK"] := by
  have hc : a.supportedModes.contains m = true := by simpa using hm
  simp only [apiStep, doCall, callResult, Call.acId?, hf, callAc, hc, ↓reduceIte, modeCtl_is_table_at4, ho]
  cases po <;> rfl

theorem set_fan_speed_accepted_at4 (s : State) (i : Nat) (a : AcObj) (hf : s.findAc i = some a)
    (ho : s.sockOpen = true) (f : ApiEnums.AcFanSpeed) (hm : f ∈ a.supportedFanSpeeds)
    (c : At4.X2CAcCtrl.AcFanSpeedControl) (hc : fanCtl f = some c) :
    (apiStep s (.call (.acSetFanSpeed i f))).2 =
      [Ev.send .idempotent (acCtl a .UNCHANGED .UNCHANGED c), Ev.result "OK"] := by
  have hcn : a.supportedFanSpeeds.contains f = true := by simpa using hm
  have hl : lookupE Api4.API_FAN_SPEED_CONTROL_MAPPING f = .ok c := by
    cases f <;> simp only [fanCtl, Option.some.injEq, reduceCtorEq] at hc <;> subst hc <;> rfl
  simp only [apiStep, doCall, callResult, Call.acId?, hf, callAc, hcn, ↓reduceIte, hl, ho]
  rfl

/-- the air-conditioner objects the handshake builds never list `INTELLIGENT_AUTO` (or anything else outside
    the translation table) as supported -/
theorem mkAc_supported_fans_at4 (ab : FF11.AcAbility) (zs : List Nat) (a : AcObj) (h : mkAc ab zs = some a)
    (f : ApiEnums.AcFanSpeed) (hf : f ∈ a.supportedFanSpeeds) : (fanCtl f).isSome := by
  unfold mkAc at h
  cases h1 : supportedOf Api4.API_MODE_CONTROL_MAPPING ab.ac_mode_support with
  | none => simp [h1] at h
  | some ms =>
    cases h2 : supportedOf Api4.API_FAN_SPEED_CONTROL_MAPPING ab.fan_speed_support with
    | none => simp [h1, h2] at h
    | some fs =>
      simp [h1, h2] at h
      subst h
      simp only at hf
      unfold supportedOf at h2
      cases h3 : (Api4.API_FAN_SPEED_CONTROL_MAPPING.mapM fun p => (ab.fan_speed_support.lookup p.2).map fun b => (p.1, b)) with
      | none => simp [h3] at h2
      | some l =>
        simp [h3] at h2
        subst h2
        cases f <;> first | rfl | skip
        -- INTELLIGENT_AUTO: not a key of the table
        exfalso
        simp only [List.mem_map, List.mem_filter] at hf
        obtain ⟨⟨x, b⟩, ⟨hx, _⟩, hx2⟩ := hf
        simp only at hx2
        subst hx2
        have hkeys : l.map (·.1) = Api4.API_FAN_SPEED_CONTROL_MAPPING.map (·.1) := by
          clear hx
          revert l
          generalize Api4.API_FAN_SPEED_CONTROL_MAPPING = tbl
          intro l h3
          induction tbl generalizing l with
          | nil => simp [List.mapM_nil] at h3; subst h3; rfl
          | cons p ps ih =>
            rw [List.mapM_cons] at h3
            cases hq : (ab.fan_speed_support.lookup p.2) with
            | none => simp [hq] at h3
            | some b =>
              cases hr : (ps.mapM fun p => (ab.fan_speed_support.lookup p.2).map fun b => (p.1, b)) with
              | none => simp [hq, hr] at h3
              | some l' =>
                simp [hq, hr] at h3
                subst h3
                simp [ih l' hr]
        have : ApiEnums.AcFanSpeed.INTELLIGENT_AUTO ∈ l.map (·.1) := List.mem_map.mpr ⟨_, hx, rfl⟩
        rw [hkeys] at this
        revert this
        decide

theorem zone_power_accepted_at4 (s : State) (i zi : Nat) (z : ZoneObj) (hf : s.findZone i = some zi)
    (hz : s.zoneObjs[zi]? = some z) (ho : s.sockOpen = true) (p : ApiEnums.ZonePowerState)
    (hp : p ∈ z.supportedPowerStates) :
    (apiStep s (.call (.zoneSetPower i p))).2 =
      [Ev.send .idempotent (.reg (.groupCtrl { group_number := z.status.group_number, power := zonePowerCtl p, control_method := .UNCHANGED, setting := .none })),
       Ev.result "OK"] := by
  have hc : z.supportedPowerStates.contains p = true := by simpa using hp
  have hl : lookupE Api4.API_ZONE_POWER_MAPPING p = .ok (zonePowerCtl p) := by cases p <;> rfl
  simp only [apiStep, doCall, callResult, Call.acId?, Call.zoneId?, hf, hz, Option.bind_some, callZone, hc, ↓reduceIte, hl, ho]
  rfl

/-! ### non-vacuity: the theorems above applied to the state after a concrete handshake -/

example : (apiStep demo (.call (.acSetTemp 0 2250))).2 =
    [Ev.send .idempotent (.reg (.acCtrl { ac_number := 0, power := .UNCHANGED, mode := .UNCHANGED, fan_speed := .UNCHANGED, set_point_control := .value 22 })), Ev.result "OK"] := by decide
example : (apiStep demo (.call (.acSetTemp 0 2350))).2 =
    [Ev.send .idempotent (.reg (.acCtrl { ac_number := 0, power := .UNCHANGED, mode := .UNCHANGED, fan_speed := .UNCHANGED, set_point_control := .value 24 })), Ev.result "OK"] := by decide
example : (apiStep demo (.call (.acSetTemp 0 9900))).2 =
    [Ev.send .idempotent (.reg (.acCtrl { ac_number := 0, power := .UNCHANGED, mode := .UNCHANGED, fan_speed := .UNCHANGED, set_point_control := .value 30 })), Ev.result "OK"] := by decide
example : (apiStep demo (.call (.acSetPower 0 .SET_TO_AWAY))).2 = valueError := by decide
example : (apiStep demo (.call (.acSetFanSpeed 0 .INTELLIGENT_AUTO))).2 = valueError := by decide
example : (apiStep demo (.call (.zoneSetTemp 0 2000))).2 = valueError := by decide        -- zone 0 has no sensor
example : (apiStep demo (.call (.zoneSetPower 0 .TURBO))).2 = valueError := by decide
example : (apiStep demo (.call (.zoneSetDamper 1 101))).2 = valueError := by decide
example : (apiStep demo (.call (.zoneSetDamper 1 (-1)))).2 = valueError := by decide
example : ∃ zi z, demo.findZone 1 = some zi ∧ demo.zoneObjs[zi]? = some z ∧ z.status.has_sensor = true ∧
    ApiEnums.ZonePowerState.TURBO ∈ z.supportedPowerStates := by
  refine ⟨1, _, by decide, rfl, by decide, by decide⟩
example : ∃ a, demo.findAc 0 = some a ∧ demo.sockOpen = true ∧ ApiEnums.AcMode.DRY ∈ a.supportedModes ∧
    ApiEnums.AcFanSpeed.TURBO ∈ a.supportedFanSpeeds ∧ a.timer.on_timer = { disabled := false, hour := 7, minute := 30 } := by
  refine ⟨_, rfl, by decide, by decide, by decide, by decide⟩
example : (apiStep demo (.call (.acClearTimer 0 .OFF_TIMER))).2 =
    [Ev.send .idempotent (.reg (.acTimerCtrl { ac_timer_status := [{ ac_number := 0, on_timer := { disabled := false, hour := 7, minute := 30 }, off_timer := { disabled := true, hour := 0, minute := 0 } }] })), Ev.result "OK"] := by decide
/-- an air-conditioner that supports only AUTO mode and AUTO fan speed -/
example : ∃ (s : State) (a : AcObj), s.findAc 0 = some a ∧ ApiEnums.AcMode.DRY ∉ a.supportedModes ∧
    ApiEnums.AcFanSpeed.TURBO ∉ a.supportedFanSpeeds ∧ (apiStep s (.call (.acSetMode 0 .DRY true))).2 = valueError :=
  ⟨{ demo with acObjs := [(mkAc { demoAbility with ac_mode_support := FF11.decModeSupport 1, fan_speed_support := FF11.decFanSpeedSupport 1 } []).get (by decide)] },
   _, rfl, by decide, by decide, by decide⟩

example : roundHundredths 2250 = 22 ∧ roundHundredths 2350 = 24 ∧ roundHundredths (-50) = 0 ∧ roundHundredths (-150) = -2 ∧
    roundHundredths 2249 = 22 ∧ roundHundredths 2251 = 23 := by decide

end PyAirtouch.Props.C11
