import PyAirtouch.Lemmas.Api5Policy
/-!
# C02 (AirTouch 5) — which retry policy every message of the API layer is sent with

For every state and every op of the model `Model.Api5.apiStep`:

* user commands (`call …`) are sent with `retryNonIdempotent` exactly when the message accumulates on the console
  (AC power TOGGLE; a zone power TOGGLE or a ±step setting, which the AirTouch 5 public API cannot produce), with
  `retryIdempotent` otherwise (`check_for_updates` included);
* everything the connection handler, the frame handler and the timers send — handshake requests, the refresh after a
  reconnect, error-information requests, heartbeats — is one of the seven request messages, with `retryConnected`;
* all other ops send nothing.
-/
namespace PyAirtouch.Props.C02
open PyAirtouch.Model PyAirtouch.Model.Api5 PyAirtouch.Model.At5 PyAirtouch.Model.At5.Registry
open PyAirtouch.Gen PyAirtouch.Gen.Api5 PyAirtouch.Lemmas.Api5

/-- the three policies are the socket module's constants -/
theorem C02_policy_values_at5 :
    Policy.idempotent.value = Gen.retryIdempotent ∧ Policy.nonIdempotent.value = Gen.retryNonIdempotent ∧
    Policy.connected.value = Gen.retryConnected := ⟨rfl, rfl, rfl⟩

/-- the policy of every message sent by any op, in any state -/
theorem C02_policy_table_at5 (s : State) (op : Op) (p : Policy) (m : Msg) (b : Bool)
    (h : Out.send p m b ∈ (apiStep s op).2) : p = expectedPolicy op m := by
  cases op with
  | init => simp only [apiStep, doInit] at h; split at h <;> simp at h
  | shutdown => simp [apiStep, doShutdown] at h
  | conn up =>
    simp only [apiStep, doConn] at h
    split at h
    · exact (excOut_connReq _ (handleConnection_connReq _ _) _ h).1
    · simp at h
  | msg toAddr m' =>
    simp only [apiStep, doMsg] at h
    split at h
    · simp only [List.mem_append] at h
      rcases h with h | h
      · exact (excOut_connReq _ (handleMessage_connReq _ _ _) _ h).1
      · split at h
        · exact (hbFeed_connReq _ _ _ h).1
        · simp at h
    · simp at h
  | undecodable c => simp [apiStep] at h
  | callAt =>
    simp only [apiStep] at h
    have := mem_callOut h
    simp only [sendMsg] at this
    split at this <;> simp at this
    exact this.1
  | callAc id c =>
    simp only [apiStep] at h
    split at h
    · exact acCall_callPol _ _ _ _ (mem_callOut h)
    · simp at h
  | callZone id c =>
    simp only [apiStep] at h
    split at h
    · exact zoneCall_callPol _ _ _ _ (mem_callOut h)
    · simp at h
  | sub t sid r => cases subTarget_out _ _ _ _ h
  | unsub t sid => cases subTarget_out _ _ _ _ h
  | adv n =>
    simp only [apiStep] at h
    rcases doAdv_out s n _ h with h | h | h
    · cases h
    · cases h; rfl
    · cases h
  | view => simp only [apiStep] at h; split at h <;> simp at h

def exAbility : FF11.AcAbility :=
  { ac_number := 1, ac_name := [], start_zone := 0, zone_count := 0, ac_mode_support := [], fan_speed_support := [],
    min_cool_set_point := 17, max_cool_set_point := 30, min_heat_set_point := 16, max_heat_set_point := 28 }

def exState : State :=
  { State.new [] [] [] [] with
    st := .CONNECTED, sockOpen := true, sockSubscribed := true,
    aobjs := [newAc exAbility [] [.HEAT] [.LOW]], acs := [(1, 0)] }

/-- TOGGLE goes out NON_IDEMPOTENT, TURN_ON IDEMPOTENT, the refresh after a reconnect CONNECTED -/
example : (apiStep exState (.callAc 1 (.setPower .TOGGLE))).2 =
      [.send .nonIdempotent (msgAcControl ⟨1, .TOGGLE, .UNCHANGED, .UNCHANGED, none⟩) false, .result "OK"] ∧
    (apiStep exState (.callAc 1 (.setPower .TURN_ON))).2 =
      [.send .idempotent (msgAcControl ⟨1, .TURN_ON, .UNCHANGED, .UNCHANGED, none⟩) false, .result "OK"] ∧
    (apiStep exState (.conn true)).2 =
      [.send .connected msgAcStatusRequest false, .send .connected msgZoneStatusRequest false] ∧
    (apiStep exState .callAt).2 = [.send .idempotent msgConsoleVersionRequest false, .result "OK"] := by decide

/-- what the handlers and timers send (ops other than `call`) is always one of the request messages -/
theorem C02_connected_sends_are_requests_at5 (s : State) (op : Op) (p : Policy) (m : Msg) (b : Bool)
    (hop : ∀ id c, op ≠ .callAc id c) (hop' : ∀ id c, op ≠ .callZone id c) (hat : op ≠ .callAt)
    (h : Out.send p m b ∈ (apiStep s op).2) : p = .connected ∧ isRequest m = true := by
  cases op with
  | init => simp only [apiStep, doInit] at h; split at h <;> simp at h
  | shutdown => simp [apiStep, doShutdown] at h
  | conn up =>
    simp only [apiStep, doConn] at h
    split at h
    · exact ⟨(excOut_connReq _ (handleConnection_connReq _ _) _ h).1, (excOut_connReq _ (handleConnection_connReq _ _) _ h).2.1⟩
    · simp at h
  | msg toAddr m' =>
    simp only [apiStep, doMsg] at h
    split at h
    · simp only [List.mem_append] at h
      rcases h with h | h
      · exact ⟨(excOut_connReq _ (handleMessage_connReq _ _ _) _ h).1, (excOut_connReq _ (handleMessage_connReq _ _ _) _ h).2.1⟩
      · split at h
        · exact ⟨(hbFeed_connReq _ _ _ h).1, (hbFeed_connReq _ _ _ h).2.1⟩
        · simp at h
    · simp at h
  | undecodable c => simp [apiStep] at h
  | callAt => exact absurd rfl hat
  | callAc id c => exact absurd rfl (hop id c)
  | callZone id c => exact absurd rfl (hop' id c)
  | sub t sid r => cases subTarget_out _ _ _ _ h
  | unsub t sid => cases subTarget_out _ _ _ _ h
  | adv n =>
    simp only [apiStep] at h
    rcases doAdv_out s n _ h with h | h | h
    · cases h
    · cases h; exact ⟨rfl, rfl⟩
    · cases h
  | view => simp only [apiStep] at h; split at h <;> simp at h

/-- a changed AC status with an error code: the error-information request goes out CONNECTED -/
example : (apiStep exState (.msg 176 (.controlStatus (.acStatus (.status
    [{ (newAc exAbility [] [] []).status with error_code := 5 }]))))).2 =
    [.send .connected (msgErrInfoRequest 1) false] := by decide

/-- the AirTouch 5 public API cannot produce an accumulating zone command: zone calls are never NON_IDEMPOTENT -/
theorem C02_zone_calls_idempotent_at5 (s : State) (id : Nat) (c : ZoneCall) (p : Policy) (m : Msg) (b : Bool)
    (h : Out.send p m b ∈ (apiStep s (.callZone id c)).2) : p = .idempotent := by
  simp only [apiStep] at h
  split at h
  · exact zoneCall_zonePol _ _ _ _ (mem_callOut h)
  · simp at h

/-- AC calls are NON_IDEMPOTENT exactly for `set_power(TOGGLE)` -/
theorem C02_ac_toggle_only_at5 (s : State) (id : Nat) (c : AcCall) (p : Policy) (m : Msg) (b : Bool)
    (h : Out.send p m b ∈ (apiStep s (.callAc id c)).2) : p = .nonIdempotent ↔ c = .setPower .TOGGLE := by
  simp only [apiStep] at h
  split at h
  · exact acCall_acPol _ _ _ _ (mem_callOut h)
  · simp at h

end PyAirtouch.Props.C02
