import PyAirtouch.Lemmas.Api5Defs
/-!
# C10 (AirTouch 5) — the object model reflects the console's reports

Statements about `Model.Api5.apiStep` (the model of `pyairtouch/at5/api.py`) and about the generated mapping
tables `Gen.Api5.*` (evaluated from the Python dicts).  "Object `r`" is a heap reference: the AC / zone object a
dict entry points to; the statements hold for every state, reachable or not.

* last writer wins, per entity: after a status frame the status of every object is the last record of the frame
  addressed to it (or what it was); nothing else about the object changes;
* every getter is total on every defined protocol value (no `KeyError`);
* selected mode / fan speed report AUTO / INTELLIGENT_AUTO for the automatic variants, the active getters the
  concrete HEAT / COOL and the concrete speed (`C10_active_fan_concrete_at5`, for every protocol value);
* set-point limits follow the current mode exactly as the code does (HEAT, COOL: that mode's limits; every other mode,
  including AUTO_HEAT / AUTO_COOL: the outer hull);
* error details iff error code ≠ 0; quick-timer time iff the timer is not disabled.
-/
namespace PyAirtouch.Props.C10
open PyAirtouch.Model PyAirtouch.Model.Api5 PyAirtouch.Model.At5 PyAirtouch.Model.At5.Registry
open PyAirtouch.Model.TimerCommon (AcTimerState AcTimerStatusData)
open PyAirtouch.Gen PyAirtouch.Gen.Api5 PyAirtouch.Lemmas.Api5

/-! ## 1. last writer wins -/

/-- AC status frame while CONNECTED: every AC object ends with the last record addressed to it; its ability, zones,
subscribers and timer status are untouched; the dict is untouched -/
theorem C10_last_writer_wins_ac_status_at5 (s : State) (toAddr : Nat) (l : List C023.AcStatusData)
    (hsub : s.sockSubscribed = true) (hst : s.st = .CONNECTED) (hopen : s.sockOpen = true)
    (r : Nat) (a : AcObj) (ha : s.aobjs[r]? = some a) :
    let s' := (apiStep s (.msg toAddr (.controlStatus (.acStatus (.status l))))).1
    s'.acs = s.acs ∧ ∃ a', s'.aobjs[r]? = some a' ∧
      a'.status = lastWriter (·.ac_number) s.acs r l a.status ∧ fixedOf a' = fixedOf a ∧ a'.timer = a.timer := by
  rw [apiStep_acStatus_connected s toAddr l hsub hst hopen]
  exact runSteps_acStatus l s r a ha

/-- … in particular the last record for the AC in the frame is what the AC shows -/
theorem C10_last_record_wins_ac_status_at5 (s : State) (toAddr : Nat) (l1 l2 : List C023.AcStatusData)
    (d : C023.AcStatusData) (hsub : s.sockSubscribed = true) (hst : s.st = .CONNECTED) (hopen : s.sockOpen = true)
    (r : Nat) (a : AcObj) (ha : s.aobjs[r]? = some a) (hd : s.acRef d.ac_number = some r)
    (h2 : ∀ e ∈ l2, s.acRef e.ac_number ≠ some r) :
    ∃ a', (apiStep s (.msg toAddr (.controlStatus (.acStatus (.status (l1 ++ d :: l2)))))).1.aobjs[r]? = some a' ∧
      a'.status = d := by
  obtain ⟨_, a', h1, h3, _⟩ := C10_last_writer_wins_ac_status_at5 s toAddr (l1 ++ d :: l2) hsub hst hopen r a ha
  exact ⟨a', h1, by rw [h3]; exact lastWriter_last _ _ _ _ _ _ _ hd h2⟩

def exAc : AcObj :=
  newAc { ac_number := 1, ac_name := [], start_zone := 0, zone_count := 0, ac_mode_support := [], fan_speed_support := [],
          min_cool_set_point := 17, max_cool_set_point := 30, min_heat_set_point := 16, max_heat_set_point := 28 } [] [] []

def exState : State :=
  { State.new [] [] [] [] with st := .CONNECTED, sockOpen := true, sockSubscribed := true, aobjs := [exAc], acs := [(1, 0)] }

def exRec (sp : Int) : C023.AcStatusData := { exAc.status with set_point := sp }

/-- two records for AC 1 in one frame: the second one stays -/
example : ((apiStep exState (.msg 176 (.controlStatus (.acStatus (.status [exRec 215, exRec 230]))))).1.aobjs[0]?.map
    (·.status.set_point)) = some 230 := by decide

/-- AC timer status frame while CONNECTED (an `AcTimerControlMessage` is handled identically) -/
theorem C10_last_writer_wins_ac_timer_at5 (s : State) (toAddr : Nat) (l : List AcTimerStatusData)
    (hsub : s.sockSubscribed = true) (hst : s.st = .CONNECTED) (r : Nat) (a : AcObj) (ha : s.aobjs[r]? = some a) :
    let s' := (apiStep s (.msg toAddr (.controlStatus (.acTimerStatus (.status l))))).1
    s'.acs = s.acs ∧ ∃ a', s'.aobjs[r]? = some a' ∧
      a'.timer = lastWriter (·.ac_number) s.acs r l a.timer ∧ fixedOf a' = fixedOf a ∧ a'.status = a.status ∧
      a'.errInfo = a.errInfo := by
  rw [apiStep_acTimer_connected s toAddr l hsub hst]
  exact runSteps_acTimer l s r a ha

example : ((apiStep exState (.msg 176 (.controlStatus (.acTimerStatus (.status
    [⟨1, ⟨false, 7, 30⟩, ⟨true, 0, 0⟩⟩, ⟨1, ⟨false, 8, 0⟩, ⟨true, 0, 0⟩⟩]))))).1.aobjs[0]?.map (·.timer.on_timer.hour)) = some 8 := by
  decide

/-- zone status frame while CONNECTED: name, subscribers and AC attachment are untouched -/
theorem C10_last_writer_wins_zone_status_at5 (s : State) (toAddr : Nat) (l : List C021.ZoneStatusData)
    (hsub : s.sockSubscribed = true) (hst : s.st = .CONNECTED) (r : Nat) (z : ZoneObj) (hz : s.zobjs[r]? = some z) :
    let s' := (apiStep s (.msg toAddr (.controlStatus (.zoneStatus (.status l))))).1
    s'.zones = s.zones ∧ ∃ z', s'.zobjs[r]? = some z' ∧
      z'.status = lastWriter (·.zone_number) s.zones r l z.status ∧ z'.name = z.name ∧ z'.subs = z.subs ∧ z'.fwd = z.fwd := by
  rw [apiStep_zoneStatus_connected s toAddr l hsub hst]
  exact runSteps_zoneStatus l s r z hz

def exZState : State :=
  { exState with zobjs := [newZone 3 []], zones := [(3, 0)] }

example : ((apiStep exZState (.msg 176 (.controlStatus (.zoneStatus (.status
    [{ (newZone 3 []).status with damper_percentage := 40 }, { (newZone 3 []).status with damper_percentage := 55 }]))))).1.zobjs[0]?.map
    (·.status.damper_percentage)) = some 55 := by decide

/-- error information (any state): the addressed AC shows the text of the message -/
theorem C10_error_info_stored_at5 (s : State) (toAddr : Nat) (e : FF10.AcErrorInformationMessage)
    (hsub : s.sockSubscribed = true) (r : Nat) (a : AcObj) (hr : s.acRef e.ac_number = some r)
    (ha : s.aobjs[r]? = some a) :
    (apiStep s (.msg toAddr (.extended (.errInfo (.message e))))).1.aobjs[r]? = some { a with errInfo := e.error_info } := by
  simp [apiStep, doMsg, hsub, handleMessage, isHeartbeatResponse, ExtSub.messageId, processErrInfo, hr,
    updateAcErrInfo_spec _ ha, State.setAc, acAfterErrInfo, Gen.At5.X1FFF10ErrInfo.MESSAGE_ID,
    Gen.At5.X1FFF30ConsoleVer.MESSAGE_ID, modifyAt_get_same, ha]

example : ((apiStep exState (.msg 176 (.extended (.errInfo (.message ⟨1, some [69]⟩))))).1.aobjs[0]?.map (·.errInfo)) =
    some (some [69]) := by decide

/-- console version while CONNECTED -/
theorem C10_console_version_stored_at5 (s : State) (toAddr : Nat) (v : FF30.ConsoleVersionMessage)
    (hsub : s.sockSubscribed = true) (hst : s.st = .CONNECTED) :
    (apiStep s (.msg toAddr (.extended (.consoleVer (.message v))))).1.consoleVersion = v := by
  simp only [apiStep, doMsg, hsub, handleMessage, hst, if_true]
  have h : (processConsoleVersionUpdate v s).s.consoleVersion = v := by
    unfold processConsoleVersionUpdate; split
    · assumption
    · rfl
  simp only [reduceCtorEq, if_false]
  split
  · simp only [hbFeed]; exact h
  · exact h

example : (apiStep exState (.msg 176 (.extended (.consoleVer (.message ⟨true, [[49]]⟩))))).1.consoleVersion = ⟨true, [[49]]⟩ := by
  exact C10_console_version_stored_at5 exState 176 _ rfl rfl

/-! ## 2. getters are total on every defined protocol value (no `KeyError`) -/

theorem C10_zone_power_state_total_at5 : ∀ k, ZONE_POWER_STATE_MAPPING k ≠ none := by intro k; cases k <;> decide
theorem C10_zone_control_method_total_at5 : ∀ k, ZONE_CONTROL_METHOD_MAPPING k ≠ none := by intro k; cases k <;> decide
theorem C10_sensor_battery_total_at5 : ∀ k, SENSOR_BATTERY_STATUS_MAPPING k ≠ none := by intro k; cases k <;> decide
theorem C10_ac_power_state_total_at5 : ∀ k, AC_POWER_STATE_MAPPING k ≠ none := by intro k; cases k <;> decide
theorem C10_ac_selected_mode_total_at5 : ∀ k, AC_SELECTED_MODE_MAPPING k ≠ none := by intro k; cases k <;> decide
theorem C10_ac_active_mode_total_at5 : ∀ k, AC_ACTIVE_MODE_MAPPING k ≠ none := by intro k; cases k <;> decide
theorem C10_ac_selected_fan_total_at5 : ∀ k, AC_SELECTED_FAN_SPEED_MAPPING k ≠ none := by intro k; cases k <;> decide
theorem C10_ac_active_fan_total_at5 : ∀ k, AC_ACTIVE_FAN_SPEED_MAPPING k ≠ none := by intro k; cases k <;> decide
/-- the tables used by the setters are total on the public enums too -/
theorem C10_api_tables_total_at5 :
    (∀ k, API_ZONE_POWER_MAPPING k ≠ none) ∧ (∀ k, API_POWER_CONTROL_MAPPING k ≠ none) ∧
    (∀ k, API_MODE_CONTROL_MAPPING k ≠ none) ∧ (∀ k, API_FAN_SPEED_CONTROL_MAPPING k ≠ none) ∧
    (∀ k, API_TIMER_TYPE_MAPPING k ≠ none) := by
  refine ⟨?_, ?_, ?_, ?_, ?_⟩ <;> intro k <;> cases k <;> decide

/-- every enum-valued getter of every AC object answers -/
theorem C10_ac_getters_total_at5 (a : AcObj) :
    a.powerState.isSome ∧ a.selectedMode.isSome ∧ a.activeMode.isSome ∧ a.selectedFanSpeed.isSome ∧
      a.activeFanSpeed.isSome := by
  refine ⟨?_, ?_, ?_, ?_, ?_⟩
  · unfold AcObj.powerState; cases a.status.power_state <;> decide
  · unfold AcObj.selectedMode; cases a.status.mode <;> decide
  · unfold AcObj.activeMode; cases a.status.mode <;> decide
  · unfold AcObj.selectedFanSpeed; cases a.status.fan_speed <;> decide
  · unfold AcObj.activeFanSpeed; cases a.status.fan_speed <;> decide

/-- every enum-valued getter of every zone object answers -/
theorem C10_zone_getters_total_at5 (z : ZoneObj) :
    z.powerState.isSome ∧ z.controlMethod.isSome ∧ z.batteryStatus.isSome := by
  refine ⟨?_, ?_, ?_⟩
  · unfold ZoneObj.powerState; cases z.status.power_state <;> decide
  · unfold ZoneObj.controlMethod; cases z.status.control_method <;> decide
  · unfold ZoneObj.batteryStatus; cases z.status.battery_status <;> decide

example : exAc.powerState = some .OFF ∧ (newZone 0 []).powerState = some .OFF := by decide

/-! ## 3. selected vs. active -/

theorem C10_selected_mode_at5 (a : AcObj) : a.selectedMode = some (selectedModeSpec a.status.mode) := by
  unfold AcObj.selectedMode; cases a.status.mode <;> decide

theorem C10_active_mode_at5 (a : AcObj) : a.activeMode = some (activeModeSpec a.status.mode) := by
  unfold AcObj.activeMode; cases a.status.mode <;> decide

example : ({ exAc with status := { exAc.status with mode := .AUTO_HEAT } } : AcObj).selectedMode = some .AUTO ∧
    ({ exAc with status := { exAc.status with mode := .AUTO_HEAT } } : AcObj).activeMode = some .HEAT := by decide

theorem C10_selected_fan_at5 (a : AcObj) : a.selectedFanSpeed = some (selectedFanSpec a.status.fan_speed) := by
  unfold AcObj.selectedFanSpeed; cases a.status.fan_speed <;> decide

/-- the active fan speed is the concrete speed in effect, for every protocol value (the table entry for
`INTELLIGENT_AUTO_TURBO` was `INTELLIGENT_AUTO` on the pinned tree: found by the C10 check, repaired; this theorem
replaces the earlier `…_partial` / `…_refuted` pair) -/
theorem C10_active_fan_concrete_at5 (a : AcObj) :
    a.activeFanSpeed = some (concreteFanSpec a.status.fan_speed) := by
  unfold AcObj.activeFanSpeed
  cases a.status.fan_speed <;> decide

example : ({ exAc with status := { exAc.status with fan_speed := .INTELLIGENT_AUTO_TURBO } } : AcObj).activeFanSpeed = some .TURBO := by
  decide

example : ({ exAc with status := { exAc.status with fan_speed := .INTELLIGENT_AUTO_HIGH } } : AcObj).activeFanSpeed = some .HIGH ∧
    ({ exAc with status := { exAc.status with fan_speed := .INTELLIGENT_AUTO_HIGH } } : AcObj).selectedFanSpeed =
      some .INTELLIGENT_AUTO := by decide

/-! ## 4. limits follow the current mode -/

theorem C10_limits_follow_mode_at5 (a : AcObj) :
    (a.status.mode = .HEAT → a.minTarget = a.ability.min_heat_set_point ∧ a.maxTarget = a.ability.max_heat_set_point) ∧
    (a.status.mode = .COOL → a.minTarget = a.ability.min_cool_set_point ∧ a.maxTarget = a.ability.max_cool_set_point) ∧
    (a.status.mode ≠ .HEAT → a.status.mode ≠ .COOL →
      a.minTarget = min a.ability.min_heat_set_point a.ability.min_cool_set_point ∧
      a.maxTarget = max a.ability.max_heat_set_point a.ability.max_cool_set_point) := by
  unfold AcObj.minTarget AcObj.maxTarget
  cases a.status.mode <;> simp

/-- AUTO_HEAT is *not* treated like HEAT: the hull applies (16 … 30 here, HEAT alone would be 16 … 28) -/
example : ({ exAc with status := { exAc.status with mode := .AUTO_HEAT } } : AcObj).minTarget = 16 ∧
    ({ exAc with status := { exAc.status with mode := .AUTO_HEAT } } : AcObj).maxTarget = 30 ∧
    ({ exAc with status := { exAc.status with mode := .HEAT } } : AcObj).maxTarget = 28 := by decide

/-! ## 5. error details iff error code ≠ 0 -/

theorem C10_error_info_iff_at5 (a : AcObj) :
    (a.errorInfo.isSome ↔ a.status.error_code ≠ 0) ∧
    (∀ e, a.errorInfo = some e → e = (a.status.error_code, a.errInfo)) := by
  unfold AcObj.errorInfo
  by_cases h : a.status.error_code ≠ 0 <;> simp [h]

/-- a status that clears the error code also clears the stored description (and a changed status with an error
code asks the console for the description: see `C02` / `C14`) -/
theorem C10_error_cleared_at5 (a : AcObj) (d : C023.AcStatusData) (hne : a.status ≠ d) (h0 : d.error_code = 0) :
    (acAfterStatus a d).errInfo = none ∧ (acAfterStatus a d).errorInfo = none := by
  simp [acAfterStatus, hne, h0, AcObj.errorInfo]

example : ({ exAc with status := { exAc.status with error_code := 5 }, errInfo := some [69] } : AcObj).errorInfo =
    some (5, some [69]) ∧ exAc.errorInfo = none := by decide

/-! ## 6. quick-timer time iff not disabled -/

/-- `next_quick_timer` answers `None` exactly for a disabled timer; otherwise the reported hour and minute
(`datetime.time` raises `ValueError` outside 0..23 / 0..59 — the timer field can carry 0..31 / 0..63) -/
theorem C10_quick_timer_iff_at5 (a : AcObj) (tt : ApiEnums.AcTimerType) :
    (a.nextQuickTimer tt = .ok none ↔ (a.timerState tt).disabled = true) ∧
    ((a.timerState tt).disabled = false → (a.timerState tt).hour < 24 → (a.timerState tt).minute < 60 →
      a.nextQuickTimer tt = .ok (some ((a.timerState tt).hour, (a.timerState tt).minute))) := by
  simp only [AcObj.nextQuickTimer]
  generalize a.timerState tt = t
  rcases t with ⟨dis, hr, mi⟩
  cases dis
  · simp only [Bool.false_eq_true, if_false, iff_false]
    refine ⟨?_, ?_⟩
    · split <;> simp
    · intro _ h2 h3; simp [h2, h3]
  · simp

example : ({ exAc with timer := ⟨1, ⟨false, 7, 30⟩, ⟨true, 9, 9⟩⟩ } : AcObj).nextQuickTimer .ON_TIMER = .ok (some (7, 30)) ∧
    ({ exAc with timer := ⟨1, ⟨false, 7, 30⟩, ⟨true, 9, 9⟩⟩ } : AcObj).nextQuickTimer .OFF_TIMER = .ok none := ⟨rfl, rfl⟩

end PyAirtouch.Props.C10
