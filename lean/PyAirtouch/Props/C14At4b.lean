import PyAirtouch.Lemmas.Api4Reach
import PyAirtouch.Props.C14At4
/-!
# C14 (AirTouch 4), continued: the 300 s group-status poll in every reachable state

`Props/C14At4` gives the closed form of the poll under the hypotheses "no orphaned poll task", "deadline ahead",
"socket open".  Here the hypotheses are discharged:

* `ReachD4 s` - `s` is reached from the fresh object by an op list that keeps the calling discipline (`init()` only
  first or after `shutdown()`): no orphans (`Lemmas.Api4.noOrphans_disciplined_from`), the deadline is ahead
  (`reach_ahead`), the socket is open (`reach_sockFacts`).  What is left is a fact about the environment (the
  socket reports a connection) and the name of the deadline.
* `Reach4 s` - any op list: every poll task, the current one and every orphan, keeps polling with its own phase
  (`poll_requests_orphans_at4`); on a shut-down object an orphan re-arms silently while the socket is not connected
  and dies at its deadline when it is (`orphan_dies_at4`).

Time is in ticks of 1/8 s (`Gen.Api4.GROUP_STATUS_TIMEOUT = 2400`); `pollEv` is `SEND CONNECTED GroupStatusRequest()`.
-/
set_option linter.unusedVariables false
set_option linter.unusedSimpArgs false
namespace PyAirtouch.Props.C14
open PyAirtouch.Model PyAirtouch.Model.Api4 PyAirtouch.Model.At4 PyAirtouch.Lemmas.Api4 PyAirtouch.Gen
open PyAirtouch.Lemmas.Api4Reach

/-! ### under the discipline -/

/-- in a disciplined reachable state a poll task exists exactly in `CONNECTED`; there it is the only one, its
    deadline is strictly ahead and at most 300 s away, and the socket is open -/
theorem poll_task_at4 (s : State) (h : ReachD4 s) :
    s.pollOrphans = [] ∧ (s.pollCur.isSome = true ↔ s.st = .CONNECTED) ∧
    (s.st = .CONNECTED → s.sockOpen = true ∧
      ∃ d, s.pollCur = some d ∧ s.now < d ∧ d ≤ s.now + Api4.GROUP_STATUS_TIMEOUT) := by
  have df := reachD_discFacts h
  refine ⟨df.orphans, df.poll_iff, fun hc => ?_⟩
  have hs := df.poll_iff.mpr hc
  cases hp : s.pollCur with
  | none => rw [hp] at hs; cases hs
  | some d =>
    obtain ⟨o1, _, _, _, o5⟩ := open_of_poll h.reach hp
    exact ⟨o1, d, rfl, o5⟩

/-- `poll_requests_at4` for every disciplined reachable state: the live poll task (deadline `d`) sends at `d`,
    `d + 2400`, `d + 4800`, … while the socket is connected.  No hypothesis about orphans, the deadline or the
    socket being open. -/
theorem poll_requests_disciplined_at4 (s : State) (h : ReachD4 s) (n d : Nat) (hc : s.pollCur = some d)
    (hconn : s.sockConnected = true) :
    (apiStep s (.adv n)).2.count pollEv = deadlinesUpTo d Api4.GROUP_STATUS_TIMEOUT (s.now + n) ∧
    (apiStep s (.adv n)).1.pollCur =
      some (d + Api4.GROUP_STATUS_TIMEOUT * deadlinesUpTo d Api4.GROUP_STATUS_TIMEOUT (s.now + n)) ∧
    (apiStep s (.adv n)).1.pollOrphans = [] := by
  obtain ⟨o1, _, _, _, o5, _⟩ := open_of_poll h.reach hc
  have ho := (reachD_discFacts h).orphans
  obtain ⟨p1, p2⟩ := poll_requests_at4 s n d ho hc o5 hconn o1
  refine ⟨p1, p2, ?_⟩
  exact congrArg PollView.pollOrphans (advance_poll n s d ho hc o5 (fun _ => o1)).2

/-- … nothing before the deadline, exactly one request when the clock reaches it, the next deadline 300 s later -/
theorem poll_at_deadline_disciplined_at4 (s : State) (h : ReachD4 s) (d : Nat) (hc : s.pollCur = some d)
    (hconn : s.sockConnected = true) :
    (apiStep s (.adv (d - s.now - 1))).2.count pollEv = 0 ∧
    (apiStep s (.adv (d - s.now))).2.count pollEv = 1 ∧
    (apiStep s (.adv (d - s.now))).1.pollCur = some (d + Api4.GROUP_STATUS_TIMEOUT) := by
  obtain ⟨o1, _, _, _, o5, _⟩ := open_of_poll h.reach hc
  exact poll_at_deadline_at4 s d (reachD_discFacts h).orphans hc o5 hconn o1

/-- … and nothing at all while the socket is not connected -/
theorem poll_disconnected_disciplined_at4 (s : State) (h : ReachD4 s) (n : Nat) (hconn : s.sockConnected = false) :
    (apiStep s (.adv n)).2.count pollEv = 0 := by
  cases hc : s.pollCur with
  | some d =>
    obtain ⟨_, _, _, _, o5, _⟩ := open_of_poll h.reach hc
    exact poll_disconnected_at4 s n d (reachD_discFacts h).orphans hc o5 hconn
  | none =>
    obtain ⟨_, _, p3⟩ := advance_polls n s (by rw [hconn]; intro h; cases h)
    simp only [apiStep]
    rw [p3, hconn]
    rfl

/-- **the poll in state `CONNECTED`**: in every disciplined reachable `CONNECTED` state with the socket connected there
    is a deadline `d`, strictly ahead and at most 300 s away, such that `adv n` sends exactly the requests due at
    `d`, `d + 2400`, … -/
theorem poll_connected_at4 (s : State) (h : ReachD4 s) (hst : s.st = .CONNECTED) (hconn : s.sockConnected = true)
    (n : Nat) :
    ∃ d, s.pollCur = some d ∧ s.now < d ∧ d ≤ s.now + Api4.GROUP_STATUS_TIMEOUT ∧
      (apiStep s (.adv n)).2.count pollEv = deadlinesUpTo d Api4.GROUP_STATUS_TIMEOUT (s.now + n) := by
  obtain ⟨_, _, h3⟩ := poll_task_at4 s h
  obtain ⟨_, d, hp, a1, a2⟩ := h3 hst
  exact ⟨d, hp, a1, a2, (poll_requests_disciplined_at4 s h n d hp hconn).1⟩

/-- hence the rate: over `n` ticks at least `⌊n / 2400⌋` and at most `⌊n / 2400⌋ + 1` group-status requests - one
    every 300 s, whatever the phase -/
theorem poll_rate_at4 (s : State) (h : ReachD4 s) (hst : s.st = .CONNECTED) (hconn : s.sockConnected = true)
    (n : Nat) :
    n / 2400 ≤ (apiStep s (.adv n)).2.count pollEv ∧ (apiStep s (.adv n)).2.count pollEv ≤ n / 2400 + 1 := by
  obtain ⟨d, _, a1, a2, a3⟩ := poll_connected_at4 s h hst hconn n
  rw [a3]
  have hT : Api4.GROUP_STATUS_TIMEOUT = 2400 := rfl
  rw [hT] at a2 ⊢
  unfold deadlinesUpTo
  split <;> omega

/-! ### without the discipline: orphaned poll tasks -/

/-- how a poll task gets orphaned: the group status that completes a handshake while a poll task is alive (only
    possible when `init()` was called again without `shutdown()`) keeps the old task and starts a new one -/
theorem orphaned_by_completion_at4 (s : State) (hsub : s.subscribed = true) (hst : s.st = .INIT_GROUP_STATUS)
    (l : List X2B.GroupStatusData) :
    (apiStep s (.recv (.groupStatus (.status l)))).1.pollOrphans = s.pollOrphans ++ s.pollCur.toList ∧
    (apiStep s (.recv (.groupStatus (.status l)))).1.pollCur = some (s.now + Api4.GROUP_STATUS_TIMEOUT) := by
  have htv := taskView_recv s (.groupStatus (.status l))
  have hc : completes s (.groupStatus (.status l)) = true := (completes_iff _ _).mpr ⟨hst, l, rfl⟩
  rw [hsub, hc] at htv
  simp only [Bool.and_self, ↓reduceIte] at htv
  exact ⟨congrArg TaskView.pollOrphans htv, congrArg TaskView.pollCur htv⟩

/-- **every poll task keeps polling with its own phase**: in any reachable state with the socket open, during `adv n`
    the task with deadline `d` - the current one or an orphan - sends at `d`, `d + 2400`, … (while the socket is
    connected) and re-arms; the number of group-status requests is the sum over all of them -/
theorem poll_requests_orphans_at4 (s : State) (h : Reach4 s) (n : Nat) (hopen : s.sockOpen = true) :
    (apiStep s (.adv n)).2.count pollEv =
      (if s.sockConnected then
        ((s.pollOrphans ++ s.pollCur.toList).map
          (fun d => deadlinesUpTo d Api4.GROUP_STATUS_TIMEOUT (s.now + n))).sum
       else 0) ∧
    (apiStep s (.adv n)).1.pollCur =
      s.pollCur.map (fun d => d + Api4.GROUP_STATUS_TIMEOUT * deadlinesUpTo d Api4.GROUP_STATUS_TIMEOUT (s.now + n)) ∧
    (apiStep s (.adv n)).1.pollOrphans =
      s.pollOrphans.map (fun d => d + Api4.GROUP_STATUS_TIMEOUT * deadlinesUpTo d Api4.GROUP_STATUS_TIMEOUT (s.now + n)) := by
  have a := reach_ahead h
  have hah : ∀ d ∈ s.pollOrphans ++ s.pollCur.toList, s.now < d := by
    intro d hd
    rcases List.mem_append.mp hd with h1 | h1
    · exact (a.orphans d h1).1
    · cases hc : s.pollCur with
      | none => rw [hc] at h1; cases h1
      | some d0 =>
        rw [hc] at h1
        simp only [Option.toList_some, List.mem_singleton] at h1
        subst h1; exact (a.poll d hc).1
  obtain ⟨p1, p2, p3⟩ := advance_polls_closed n s (fun _ => hopen) hah
  exact ⟨p3, p1, p2⟩

/-- a group status in `CONNECTED` re-arms them all to the same deadline: from then on the orphans poll in unison with
    the current task (`k` orphans: `k + 1` requests every 300 s) -/
theorem orphans_in_unison_at4 (s : State) (h : Reach4 s) (hst : s.st = .CONNECTED) (l : List X2B.GroupStatusData)
    (n : Nat) (hconn : s.sockConnected = true) :
    (apiStep (apiStep s (.recv (.groupStatus (.status l)))).1 (.adv n)).2.count pollEv =
      (s.pollOrphans.length + 1) * deadlinesUpTo (s.now + Api4.GROUP_STATUS_TIMEOUT) Api4.GROUP_STATUS_TIMEOUT (s.now + n) := by
  have f := reach_sockFacts h
  have hne : s.st ≠ .CLOSED := by rw [hst]; intro h; cases h
  have hsub := f.subscribed hne
  have hopen := f.open_iff.mpr hne
  obtain ⟨r1, r2⟩ := group_status_rearms_at4 s hst hsub l
  have h' : Reach4 (apiStep s (.recv (.groupStatus (.status l)))).1 := h.step _
  have hsv := sockView_recv s (.groupStatus (.status l))
  have e1 : (apiStep s (.recv (.groupStatus (.status l)))).1.sockOpen = true :=
    (congrArg SockView.sockOpen hsv).trans hopen
  have e2 : (apiStep s (.recv (.groupStatus (.status l)))).1.sockConnected = true :=
    (congrArg SockView.sockConnected hsv).trans hconn
  have e3 : (apiStep s (.recv (.groupStatus (.status l)))).1.now = s.now := congrArg SockView.now hsv
  obtain ⟨p1, _, _⟩ := poll_requests_orphans_at4 _ h' n e1
  rw [p1, e2, r1, r2, e3]
  simp only [↓reduceIte]
  have hp : s.pollCur.isSome = true := by rw [f.poll_iff]; exact f.connected_init hst
  cases hc : s.pollCur with
  | none => rw [hc] at hp; cases hp
  | some d0 =>
    simp only [Option.map_some, Option.toList_some, List.map_append, List.map_map, List.map_cons, List.map_nil,
      List.sum_append, List.sum_cons, List.sum_nil, Nat.add_zero]
    have : ∀ (k : Nat) (l : List Nat), (l.map (fun _ => k)).sum = l.length * k := by
      intro k l
      induction l with
      | nil => simp
      | cons x xs ih => simp only [List.map_cons, List.sum_cons, ih, List.length_cons]; rw [Nat.add_mul]; omega
    rw [show (List.map ((fun d => deadlinesUpTo d Api4.GROUP_STATUS_TIMEOUT (s.now + n)) ∘
        fun x => s.now + Api4.GROUP_STATUS_TIMEOUT) s.pollOrphans) =
      s.pollOrphans.map (fun _ => deadlinesUpTo (s.now + Api4.GROUP_STATUS_TIMEOUT) Api4.GROUP_STATUS_TIMEOUT (s.now + n))
      from rfl, this, Nat.add_mul, Nat.one_mul]

/-- **an orphan on a shut-down object**: `shutdown()` does not cancel it.  While the socket is not connected it
    re-arms silently every 300 s (previous theorem's first clause with `sockConnected = false` needs an open socket;
    this one does not); if the closed socket reports a connection (`conn 1` after `shutdown()`), it dies at its
    deadline without sending (`NotOpenError`). -/
theorem orphan_dies_at4 (s : State) (h : Reach4 s) (n : Nat) (hopen : s.sockOpen = false) :
    (apiStep s (.adv n)).2.count pollEv = 0 ∧
    (s.sockConnected = true →
      (apiStep s (.adv n)).1.pollOrphans = s.pollOrphans.filter (fun d => decide (s.now + n < d))) ∧
    (s.sockConnected = false →
      (apiStep s (.adv n)).1.pollOrphans =
        s.pollOrphans.map (fun d => d + Api4.GROUP_STATUS_TIMEOUT * deadlinesUpTo d Api4.GROUP_STATUS_TIMEOUT (s.now + n))) := by
  have a := reach_ahead h
  have hcl := (closed_iff_not_open h).mp hopen
  refine ⟨?_, ?_, ?_⟩
  · cases hc : s.sockConnected with
    | true => exact (advance_polls_dead n s hc hopen (fun d hd => (a.orphans d hd).1)).2
    | false =>
      obtain ⟨_, _, p3⟩ := advance_polls n s (by rw [hc]; intro h; cases h)
      simp only [apiStep]; rw [p3, hc]; rfl
  · intro hc
    exact (advance_polls_dead n s hc hopen (fun d hd => (a.orphans d hd).1)).1
  · intro hc
    have hah : ∀ d ∈ s.pollOrphans ++ s.pollCur.toList, s.now < d := by
      intro d hd
      rw [hcl.pollCur] at hd
      simp only [Option.toList_none, List.append_nil] at hd
      exact (a.orphans d hd).1
    exact (advance_polls_closed n s (by rw [hc]; intro h; cases h) hah).2.1

/-! ### non-vacuity -/

example : ReachD4 demo := demo_reachD

example : demo.st = .CONNECTED ∧ demo.sockConnected = true ∧ demo.pollCur = some 2400 ∧ demo.now = 0 := by decide

example : (apiStep demo (.adv 7200)).2.count pollEv = 3 := by
  rw [(poll_requests_disciplined_at4 demo demo_reachD 7200 2400 (by decide) (by decide)).1]; decide

example : 3 ≤ (apiStep demo (.adv 7200)).2.count pollEv :=
  (poll_rate_at4 demo demo_reachD demo_connected demo_connectedSock 7200).1

namespace At4

set_option maxRecDepth 4096

/-- the discipline violated: a handshake, 100 ticks, `init()` again without `shutdown()`, the handshake again -/
def twoPolls : State :=
  (run State.initial (demoOps ++ [.adv 100, .init, .conn true] ++ demoAnswers.map Op.recv)).1

theorem twoPolls_reach : Reach4 twoPolls := ⟨_, rfl⟩

example : twoPolls.pollOrphans = [2400] ∧ twoPolls.pollCur = some 2500 ∧ twoPolls.now = 100 ∧
    twoPolls.sockOpen = true ∧ twoPolls.sockConnected = true ∧ twoPolls.st = .CONNECTED := by decide

/-- within the next 300 s two group-status requests instead of one: the orphan's at tick 2400, the current task's at
    2500 -/
example : (apiStep twoPolls (.adv 2400)).2.count pollEv = 2 := by
  rw [(poll_requests_orphans_at4 twoPolls twoPolls_reach 2400 (by decide)).1]; decide

/-- … and after `shutdown()` and a stale `conn 1` the orphan is gone once its deadline has passed -/
example : (run twoPolls [.shutdown, .conn true]).1.pollOrphans = [2400] ∧
    (run twoPolls [.shutdown, .conn true]).1.sockOpen = false ∧
    (run twoPolls [.shutdown, .conn true]).1.sockConnected = true := by decide

example : (apiStep (run twoPolls [.shutdown, .conn true]).1 (.adv 2300)).1.pollOrphans = [] := by
  rw [(orphan_dies_at4 _ (twoPolls_reach.run _) 2300 (by decide)).2.1 (by decide)]; decide

/-- after a group status in `CONNECTED` both tasks have the deadline 100 + 2400: two requests at tick 2500 -/
example : (apiStep (apiStep twoPolls (.recv (.groupStatus (.status [])))).1 (.adv 2400)).2.count pollEv = 2 := by
  rw [orphans_in_unison_at4 twoPolls twoPolls_reach (by decide) [] 2400 (by decide)]; decide

/-- the state in which the second handshake's last answer arrives: the first handshake's poll task is alive -/
def beforeSecondCompletion : State :=
  (run State.initial (demoOps ++ [.init, .conn true] ++ (demoAnswers.take 5).map Op.recv)).1

example : beforeSecondCompletion.subscribed = true ∧ beforeSecondCompletion.st = .INIT_GROUP_STATUS ∧
    beforeSecondCompletion.pollCur = some 2400 ∧ beforeSecondCompletion.pollOrphans = [] := by decide

example : (apiStep beforeSecondCompletion (.recv (.groupStatus (.status [demoGroup])))).1.pollOrphans = [2400] :=
  (orphaned_by_completion_at4 beforeSecondCompletion (by decide) (by decide) [demoGroup]).1

/-- the disciplined demo state after a connection loss: nothing is polled -/
def demoDown : State := (run State.initial (demoOps ++ [.conn false])).1

theorem demoDown_reachD : ReachD4 demoDown := ⟨_, by decide, rfl⟩

example : demoDown.sockConnected = false ∧ demoDown.pollCur = some 2400 := by decide

example : (apiStep demoDown (.adv 100000)).2.count pollEv = 0 :=
  poll_disconnected_disciplined_at4 demoDown demoDown_reachD 100000 (by decide)

example : (apiStep demo (.adv 2399)).2.count pollEv = 0 ∧ (apiStep demo (.adv 2400)).2.count pollEv = 1 :=
  ⟨(poll_at_deadline_disciplined_at4 demo demo_reachD 2400 (by decide) (by decide)).1,
   (poll_at_deadline_disciplined_at4 demo demo_reachD 2400 (by decide) (by decide)).2.1⟩

example : demo.pollOrphans = [] ∧ demo.sockOpen = true := by
  obtain ⟨h1, _, h3⟩ := poll_task_at4 demo demo_reachD
  exact ⟨h1, (h3 demo_connected).1⟩

end At4

end PyAirtouch.Props.C14
