import PyAirtouch.Util.Hex
import PyAirtouch.Spec.Crc
/-! Line-protocol oracle over the *specification* only (never imports Gen or Model). -/
open PyAirtouch PyAirtouch.Util PyAirtouch.Spec

def answer (ws : List String) : String :=
  match ws with
  | ["crc", h] =>
    match parseHex h with
    | some bs => toHex (checkBytes bs)
    | none => "bad-op"
  | _ => "bad-op"

partial def loop (hin hout : IO.FS.Stream) : IO Unit := do
  let line ← hin.getLine
  if line.isEmpty then return ()
  hout.putStrLn (answer (words (line.trimAscii.toString)))
  loop hin hout

def main : IO Unit := do
  let hin ← IO.getStdin
  let hout ← IO.getStdout
  loop hin hout
  hout.flush
