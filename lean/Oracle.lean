import PyAirtouch.Util.Hex
import PyAirtouch.Spec.Crc
import PyAirtouch.Spec.Trace
import PyAirtouch.Spec.TraceParse
import PyAirtouch.Spec.Heartbeat
import PyAirtouch.Spec.At5Read
import PyAirtouch.Spec.At4Read
import PyAirtouch.Spec.Discovery
/-! Line-protocol oracle over the *specification* only (never imports Gen or Model). -/
open PyAirtouch PyAirtouch.Util PyAirtouch.Spec

structure OState where
  trace : List Trace.Ev := []

def b2s (b : Bool) : String := if b then "1" else "0"

/-- `spec <gen> <kind> <hex>`: the vendor reader's rendered text of a payload, or `none`.
Control kinds append the Spec's list of attributes the command does not keep (` changes=a,b`; one list per
record, records separated by `|`) and, for AirTouch 4, the Spec's `wellFormed` verdict. -/
def specRead (gen kind : String) (bs : List Nat) : String :=
  let opt (o : Option String) : String := o.getD "none"
  match gen, kind with
  | "4", "2B" => opt ((At4.readGroupStatus bs).map At4.renderGroupStatus)
  | "4", "2D" => opt ((At4.readAcStatus bs).map At4.renderAcStatus)
  | "4", "FF11" => opt ((At4.readAcAbility bs).map At4.renderAcAbility)
  | "4", "FF12" => opt ((At4.readGroupNames bs).map At4.renderGroupNames)
  | "4", "FF10" => opt ((At4.readAcError bs).map At4.renderAcError)
  | "4", "FF30" => opt ((At4.readConsoleVersion bs).map At4.renderConsoleVersion)
  | "4", "2A" => opt ((At4.readGroupControl bs).map fun c =>
      At4.renderGroupControl c ++ " changes=" ++ ",".intercalate c.changedAttrs ++
        " well_formed=" ++ At4.showBool c.wellFormed)
  | "4", "2C" => opt ((At4.readAcControl bs).map fun c =>
      At4.renderAcControl c ++ " changes=" ++ ",".intercalate c.changedAttrs ++
        " well_formed=" ++ At4.showBool c.wellFormed)
  | "5", "C021" => opt ((At5.readZoneStatus bs).map At5.renderZoneStatus)
  | "5", "C023" => opt ((At5.readAcStatus bs).map At5.renderAcStatus)
  | "5", "FF11" => opt ((At5.readAcAbility bs).map At5.renderAcAbility)
  | "5", "FF13" => opt ((At5.readZoneNames bs).map At5.renderZoneNames)
  | "5", "FF10" => opt ((At5.readAcError bs).map At5.renderAcError)
  | "5", "FF30" => opt ((At5.readConsoleVersion bs).map At5.renderConsoleVersion)
  | "5", "C020" => opt ((At5.readZoneControl bs).map fun cs =>
      At5.renderZoneControl cs ++ " changes=" ++ "|".intercalate (cs.map fun c => ",".intercalate c.changes))
  | "5", "C022" => opt ((At5.readAcControl bs).map fun cs =>
      At5.renderAcControl cs ++ " changes=" ++ "|".intercalate (cs.map fun c => ",".intercalate c.changes))
  | _, _ => "bad-op"

def answer (st : OState) (ws : List String) : OState × String :=
  match ws with
  | ["crc", h] =>
    match parseHex h with
    | some bs => (st, toHex (checkBytes bs))
    | none => (st, "bad-op")
  | "hbmon" :: i :: t :: rest =>
    match i.toNat?, t.toNat?, (Heartbeat.splitSemi rest).mapM Heartbeat.parseHEv with
    | some i, some t, some evs => (st, b2s (Heartbeat.c08 i t evs))
    | _, _, _ => (st, "bad-op")
  | "discspec" :: g :: arrivals =>
    let parseA (w : String) : Option (Nat × List Nat) :=
      match w.splitOn ":" with
      | [t, h] => do pure ((← t.toNat?), (← parseHex h))
      | _ => none
    match g.toNat?, arrivals.mapM parseA with
    | some g, some arr =>
      let showR (r : Discovery.Response) : String :=
        s!"R(id={toHex r.airtouchId},name={match r.name with | some n => toHex n | none => "None"},serial={toHex r.serial},host={toHex r.host})"
      (st, s!"sent={Discovery.expectedRequests g arr} ret={Discovery.returnTime g arr} resp=[{",".intercalate ((Discovery.expectedResponses g arr).map showR)}]")
    | _, _ => (st, "bad-op")
  | ["spec", gen, kind, h] =>
    match parseHex h with
    | some bs => (st, specRead gen kind bs)
    | none => (st, "bad-op")
  | ["trace-begin"] => ({ st with trace := [] }, "ok")
  | "ev" :: rest =>
    match Trace.parseEv rest with
    | some e => ({ st with trace := e :: st.trace }, "ok")
    | none => (st, "bad-ev")
  | "trace-end" :: mons =>
    let tr := st.trace.reverse
    let res := mons.map fun m =>
      match m with
      | "c01" => "c01=" ++ b2s (Trace.c01 tr)
      | "c01a" => "c01a=" ++ b2s (Trace.wireOnlySubmitted tr)
      | "c01b" => "c01b=" ++ b2s (Trace.onceInOrderWithoutFault tr)
      | "c01c" => "c01c=" ++ b2s (Trace.deliveredWhenPossible tr)
      | "c01d" => "c01d=" ++ b2s (Trace.noSilentLoss tr)
      | "c02" => "c02=" ++ b2s (Trace.c02 tr)
      | "c02d" => "c02d=" ++ b2s (Trace.keptAcrossSingleFault tr)
      | "c02a" => "c02a=" ++ b2s (Trace.attemptsBounded tr)
      | "c02b" => "c02b=" ++ b2s (Trace.neverAtOrAfterExpiry tr)
      | "c02c" => "c02c=" ++ b2s (Trace.resentFirst tr)
      | "c07" => "c07=" ++ b2s (Trace.c07 tr 9999)
      | "c07a" => "c07a=" ++ b2s (Trace.atMostOneConnection tr)
      | "c07b" => "c07b=" ++ b2s (Trace.noLeakAtCensus tr)
      | "c07c" => "c07c=" ++ b2s (Trace.healed tr 9999)
      | "c15" => "c15=" ++ b2s (Trace.c15 tr)
      | "c16" => "c16=" ++ b2s (Trace.c16 tr)
      | other => other ++ "=?"
    ({ st with trace := [] }, " ".intercalate res)
  | _ => (st, "bad-op")

partial def loop (hin hout : IO.FS.Stream) (st : OState) : IO Unit := do
  let line ← hin.getLine
  if line.isEmpty then return ()
  let (st', out) := answer st (words (line.trimAscii.toString))
  hout.putStrLn (out.replace "\n" " ")
  loop hin hout st'

def main : IO Unit := do
  let hin ← IO.getStdin
  let hout ← IO.getStdout
  loop hin hout {}
  hout.flush
