import PyAirtouch.Util.Hex
import PyAirtouch.Spec.Crc
import PyAirtouch.Spec.Trace
import PyAirtouch.Spec.TraceParse
import PyAirtouch.Spec.Heartbeat
import PyAirtouch.Spec.Discovery
/-! Line-protocol oracle over the *specification* only (never imports Gen or Model). -/
open PyAirtouch PyAirtouch.Util PyAirtouch.Spec

structure OState where
  trace : List Trace.Ev := []

def b2s (b : Bool) : String := if b then "1" else "0"

def answer (st : OState) (ws : List String) : OState × String :=
  match ws with
  | ["crc", h] =>
    match parseHex h with
    | some bs => (st, toHex (checkBytes bs))
    | none => (st, "bad-op")
  | "hbmon" :: i :: t :: rest =>
    match i.toNat?, t.toNat?, (Heartbeat.splitSemi rest).mapM Heartbeat.parseHEv with
    | some i, some t, some evs => (st, b2s (Heartbeat.c08 i t evs))
    | _, _, _ => (st, "bad-op")
  | "discspec" :: g :: arrivals =>
    let parseA (w : String) : Option (Nat × List Nat) :=
      match w.splitOn ":" with
      | [t, h] => do pure ((← t.toNat?), (← parseHex h))
      | _ => none
    match g.toNat?, arrivals.mapM parseA with
    | some g, some arr =>
      let showR (r : Discovery.Response) : String :=
        s!"R(id={toHex r.airtouchId},name={match r.name with | some n => toHex n | none => "None"},serial={toHex r.serial},host={toHex r.host})"
      (st, s!"sent={Discovery.expectedRequests g arr} ret={Discovery.returnTime g arr} resp=[{",".intercalate ((Discovery.expectedResponses g arr).map showR)}]")
    | _, _ => (st, "bad-op")
  | ["trace-begin"] => ({ st with trace := [] }, "ok")
  | "ev" :: rest =>
    match Trace.parseEv rest with
    | some e => ({ st with trace := e :: st.trace }, "ok")
    | none => (st, "bad-ev")
  | "trace-end" :: mons =>
    let tr := st.trace.reverse
    let res := mons.map fun m =>
      match m with
      | "c01" => "c01=" ++ b2s (Trace.c01 tr)
      | "c01a" => "c01a=" ++ b2s (Trace.wireOnlySubmitted tr)
      | "c01b" => "c01b=" ++ b2s (Trace.onceInOrderWithoutFault tr)
      | "c01c" => "c01c=" ++ b2s (Trace.deliveredWhenPossible tr)
      | "c02" => "c02=" ++ b2s (Trace.c02 tr)
      | "c02a" => "c02a=" ++ b2s (Trace.attemptsBounded tr)
      | "c02b" => "c02b=" ++ b2s (Trace.neverAtOrAfterExpiry tr)
      | "c02c" => "c02c=" ++ b2s (Trace.resentFirst tr)
      | "c07" => "c07=" ++ b2s (Trace.c07 tr 9999)
      | "c07a" => "c07a=" ++ b2s (Trace.atMostOneConnection tr)
      | "c07b" => "c07b=" ++ b2s (Trace.noLeakAtCensus tr)
      | "c07c" => "c07c=" ++ b2s (Trace.healed tr 9999)
      | "c15" => "c15=" ++ b2s (Trace.c15 tr)
      | "c16" => "c16=" ++ b2s (Trace.c16 tr)
      | other => other ++ "=?"
    ({ st with trace := [] }, " ".intercalate res)
  | _ => (st, "bad-op")

partial def loop (hin hout : IO.FS.Stream) (st : OState) : IO Unit := do
  let line ← hin.getLine
  if line.isEmpty then return ()
  let (st', out) := answer st (words (line.trimAscii.toString))
  hout.putStrLn (out.replace "\n" " ")
  loop hin hout st'

def main : IO Unit := do
  let hin ← IO.getStdin
  let hout ← IO.getStdout
  loop hin hout {}
  hout.flush
