import PyAirtouch.Util.Hex
import PyAirtouch.Model.Crc
/-! Line-protocol driver over the *model* (Gen + Model). One request per line, one answer per line. -/
open PyAirtouch PyAirtouch.Util PyAirtouch.Model

def answer (ws : List String) : String :=
  match ws with
  | ["crc", h] =>
    match parseHex h with
    | some bs => match crcCalculate bs with
      | some c => toHex c
      | none => "OverflowError"
    | none => "bad-op"
  | ["validate", h, k] =>
    match parseHex h, parseHex k with
    | some bs, some ks => match crcValidate bs ks with
      | .valueError => "ValueError"
      | .overflow => "OverflowError"
      | .result b => if b then "true" else "false"
    | _, _ => "bad-op"
  | _ => "bad-op"

partial def loop (hin hout : IO.FS.Stream) : IO Unit := do
  let line ← hin.getLine
  if line.isEmpty then return ()
  hout.putStrLn (answer (words (line.trimAscii.toString)))
  loop hin hout

def main : IO Unit := do
  let hin ← IO.getStdin
  let hout ← IO.getStdout
  loop hin hout
  hout.flush
