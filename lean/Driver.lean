import PyAirtouch.Util.Hex
import PyAirtouch.Model.Crc
import PyAirtouch.Model.SockValidate
import PyAirtouch.Model.SockXValidate
import PyAirtouch.Model.Heartbeat
import PyAirtouch.Model.HeartbeatX
import PyAirtouch.Model.Session
import PyAirtouch.Model.Codecs
import PyAirtouch.Model.CodecsWF
import PyAirtouch.Model.Discovery
import PyAirtouch.Model.RegistryCmd
import PyAirtouch.Model.ApiCmd5   -- [API5]
import PyAirtouch.Model.ApiCmd4   -- [API4]
/-! Line-protocol driver over the *model* (Gen + Model). One request per line, one answer per line. -/
open PyAirtouch PyAirtouch.Util PyAirtouch.Model

structure DState where
  vs : Model.SockValidate.VS := Model.SockValidate.VS.start
  apiGen : Nat := 0                                          -- [API] generation chosen by `api-new`
  api5 : Model.Api5.State := Model.ApiCmd5.fresh             -- [API5]
  api4 : Model.ApiCmd4.Session := {}                         -- [API4] per-process AirTouch 4 API state

def answerPure (ws : List String) : String :=
  match ws with
  | ["crc", h] =>
    match parseHex h with
    | some bs => match crcCalculate bs with
      | some c => toHex c
      | none => "OverflowError"
    | none => "bad-op"
  | ["validate", h, k] =>
    match parseHex h, parseHex k with
    | some bs, some ks => match crcValidate bs ks with
      | .valueError => "ValueError"
      | .overflow => "OverflowError"
      | .result b => if b then "true" else "false"
    | _, _ => "bad-op"
  | ["dec", g, key, len, h] =>
    match g.toNat?, (len.splitOn ":").mapM String.toNat?, parseHex h with
    | some g, some len, some bs => Model.Codecs.decCmd g key len bs
    | _, _, _ => "bad-op"
  | ["parse", g, h] =>
    match g.toNat?, parseHex h with
    | some g, some bs => Model.RegistryCmd.parseCmd g bs
    | _, _ => "bad-op"
  | ["reframe", g, h] =>
    match g.toNat?, parseHex h with
    | some g, some bs => Model.RegistryCmd.reframeCmd g bs
    | _, _ => "bad-op"
  | ["send", g, pid, h] =>
    match g.toNat?, pid.toNat?, parseHex h with
    | some g, some pid, some bs => Model.RegistryCmd.sendCmd g pid bs
    | _, _, _ => "bad-op"
  | ["wfframe", g, h] =>
    match g.toNat?, parseHex h with
    | some g, some bs => Model.RegistryCmd.wfframeCmd g bs
    | _, _ => "bad-op"
  | "disc" :: g :: arrivals =>
    let parseA (w : String) : Option (Nat × List Nat) :=
      match w.splitOn ":" with
      | [t, h] => do pure ((← t.toNat?), (← parseHex h))
      | _ => none
    match g.toNat?, arrivals.mapM parseA with
    | some g, some arr =>
      let c := if g = 4 then Model.Discovery.cfg4 else Model.Discovery.cfg5
      let (sent, ret, rs) := Model.Discovery.search c arr
      let showR (r : Model.Discovery.Response) : String :=
        let cl := Model.Discovery.clientOf r
        s!"R(id={toHex r.airtouch_id},name={match r.name with | some n => toHex n | none => "None"},serial={toHex r.serial},host={toHex r.host},port={cl.port},cname={toHex cl.name})"
      s!"sent={sent} ret={ret} resp=[{",".intercalate (rs.map showR)}]"
    | _, _ => "bad-op"
  | ["discone", g, h] =>
    match g.toNat?, parseHex h with
    | some g, some d =>
      let c := if g = 4 then Model.Discovery.cfg4 else Model.Discovery.cfg5
      match Model.Discovery.received c d with
      | .ignored => "ignored"
      | .added _ => "added"
      | .decodeErrorLogged => "DecodeError"
      | .raised e => "raised:" ++ e.name
    | _, _ => "bad-op"
  | ["wf", g, key, len, h] =>
    match g.toNat?, (len.splitOn ":").mapM String.toNat?, parseHex h with
    | some g, some len, some bs => Model.Codecs.wfCmd g key len bs
    | _, _, _ => "bad-op"
  | ["reenc", g, key, len, h] =>
    match g.toNat?, (len.splitOn ":").mapM String.toNat?, parseHex h with
    | some g, some len, some bs => Model.Codecs.reencCmd g key len bs
    | _, _, _ => "bad-op"
  | "hb" :: i :: t :: rt :: rest =>
    let parseIn (ws : List String) : Option Model.Heartbeat.HIn :=
      match ws with
      | ["conn", b, t] => t.toNat?.map (Model.Heartbeat.HIn.conn (b = "1"))
      | ["start", t] => t.toNat?.map .start
      | ["stop", t] => t.toNat?.map .stop
      | ["resp", t] => t.toNat?.map .resp
      | ["resetDone", t] => t.toNat?.map .resetDone
      | ["finish", t] => t.toNat?.map .finish
      | _ => none
    match i.toNat?, t.toNat?, rt.toNat?, (Spec.Heartbeat.splitSemi rest).mapM parseIn with
    | some i, some t, some rt, some ins =>
      let h := Model.Heartbeat.simulateFull i t rt ins
      " ; ".intercalate (h.trace.map Spec.Heartbeat.HEv.toText) ++ " | " ++ " ".intercalate (h.expiries.map toString)
    | _, _, _, _ => "bad-op"
  -- `hb` with refused heartbeats (`Model/HeartbeatX.lean`): items `refuse <t>` (the socket refuses a send issued at
  -- tick t) and `refusedrop <t>` (... and reports the link down right after it) are marks, not timed inputs
  | "hbx" :: i :: t :: rt :: rest =>
    let parseIn (ws : List String) : Option Model.Heartbeat.HIn :=
      match ws with
      | ["conn", b, t] => t.toNat?.map (Model.Heartbeat.HIn.conn (b = "1"))
      | ["start", t] => t.toNat?.map .start
      | ["stop", t] => t.toNat?.map .stop
      | ["resp", t] => t.toNat?.map .resp
      | ["resetDone", t] => t.toNat?.map .resetDone
      | ["finish", t] => t.toNat?.map .finish
      | _ => none
    let items := Spec.Heartbeat.splitSemi rest
    let isMark (ws : List String) : Bool := match ws with | ["refuse", _] | ["refusedrop", _] => true | _ => false
    let marks (k : List String) : Option (List Nat) :=
      (items.filter (fun ws => match ws with | [a, _] => k.contains a && isMark ws | _ => false)).mapM
        (fun ws => match ws with | [_, t] => t.toNat? | _ => none)
    match i.toNat?, t.toNat?, rt.toNat?, marks ["refuse", "refusedrop"], marks ["refusedrop"],
          (items.filter (fun ws => !isMark ws)).mapM parseIn with
    | some i, some t, some rt, some refuse, some drop, some ins =>
      let s := Model.Heartbeat.simulateX i t rt refuse drop ins
      " ; ".intercalate (s.out.map Model.Heartbeat.XEv.toText) ++ " | " ++ " ".intercalate (s.h.expiries.map toString)
    | _, _, _, _, _, _ => "bad-op"
  -- `Model/Session.lean`: handshake handlers suspended across shutdown() and a later init()
  | "sess" :: which :: ops => Model.Session.answer which ops
  | _ => "bad-op"

def answer (st : DState) (ws : List String) : DState × String :=
  match ws with
  | "vt-begin" :: _ | "vl" :: _ | "vs" :: _ | "vt-end" :: _ =>
    let (v, out) := Model.SockValidate.vLineX st.vs ws   -- `vl cancel <hid>`: label `cancel` of `Sock.stepX`
    ({ st with vs := v }, out)
  | ["api-new", "5"] => ({ st with apiGen := 5, api5 := Model.ApiCmd5.fresh }, "ok")     -- [API5]
  | ["api-new", "4"] => ({ st with apiGen := 4, api4 := {} }, "ok")                        -- [API4]
  | "api" :: rest =>                                                                      -- [API]
    if st.apiGen = 5 then                                                                 -- [API5]
      let (s5, out) := Model.ApiCmd5.apiLine st.api5 rest
      ({ st with api5 := s5 }, out)
    else if st.apiGen = 4 then                                                            -- [API4]
      let (s4, out) := Model.ApiCmd4.stepLine st.api4 rest
      ({ st with api4 := s4 }, out)
    else (st, "bad-op")
  | _ => (st, answerPure ws)

partial def loop (hin hout : IO.FS.Stream) (st : DState) : IO Unit := do
  let line ← hin.getLine
  if line.isEmpty then return ()
  let (st', out) := answer st (words (line.trimAscii.toString))
  hout.putStrLn (out.replace "\n" " ")
  loop hin hout st'

def main : IO Unit := do
  let hin ← IO.getStdin
  let hout ← IO.getStdout
  loop hin hout {}
  hout.flush
