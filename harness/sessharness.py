"""Correspondence harness for `Model/Session.lean`: handshake handlers suspended across shutdown() and a later init().

The real AirTouch4 / AirTouch5 object over the stub socket of `apiharness`; ops (the same words drive the Lean model
through `driver`, command `sess new ...`):

  init       init() as a task, then the socket's connected notification
  shutdown   shutdown()
  f<i>       handshake answer i (0 version, 1 names, 2 ability, 3 AC status, 4 timer status, 5 group / zone status)
             arrives and is processed to the end
  h<i>       the same answer arrives while the application's callback is slow: the frame is delivered by a task of its own
             (as the socket's read loop does through the API's subscribers) and the first callback invoked for it waits
  r          the oldest waiting callback returns

Every status frame differs from all earlier ones (and from the defaults), so
its processing always notifies the subscribers of the one AC and of its zone; the application subscribes to every AC
and zone as soon as the object lists them.  After each op: `<phase>,<requests sent>,<heartbeat started>,<suspended>`
with phase = `_state.value - 1` (the only private attribute this harness reads).
"""
import asyncio

import apigen4 as g4
import apigen5 as g5
import apiharness


def frames(gen, i, v):
    """`v` counts the deliveries of answer i: the content differs from every earlier delivery's for 300 deliveries"""
    if gen == 4:
        return [g4.m_version(False, ["1.0"]), g4.m_names([(0, "Living")]), g4.m_ability([g4.ability_rec(0, "AC", 0, 1)]),
                g4.m_ac_status([g4.ac_status_rec(0, power=1, mode=1 + v % 2, fan=2, sp=20 + v % 10, temp10=200 + v % 100)]),
                g4.m_timer([(g4.timer_state(False, 7 + v % 3, v % 60), g4.timer_state(True, 0, 0))]),
                g4.m_groups([g4.group_rec(0, power=1, cm=1, damper=5 * (v % 20), sp=20 + v % 10, sensor=True, temp10=200 + v % 100)])][i]
    return [g5.console_version(0, ["1.2.3"]), g5.zone_names([(0, "Living")]), g5.ac_ability([g5.ability_rec(0, "AC", 0, 1, 0x1F, 0xFF, 16, 30, 16, 30)]),
            g5.ac_status([g5.ac_status_rec(0, 1, 1 + v % 2, 2, 0, 0, 0, 0, 120 + v % 50, 700 + v % 100, 0)]),
            g5.timer_status([g5.timer_rec(0, (0, 7 + v % 3, v % 60), (1, 0, 0))]),
            g5.zone_status([g5.zone_status_rec(0, 1, 1, 5 * (v % 20), 120 + v % 50, 1, 700 + v % 100, 0, 0)])][i]


class Sess:
    def __init__(self, gen):
        self.gen = gen
        self.api = apiharness.Api(gen)
        self.gates = []            # FIFO of events the suspended callbacks wait for
        self.hold_next = False
        self.subscribed = set()
        self.variant = [0] * 6
        self.bg = []

    def _subscribe(self):
        me = self

        async def cb(_ident):
            if me.hold_next:
                me.hold_next = False
                ev = asyncio.Event()
                me.gates.append(ev)
                await ev.wait()
        for ac in self.api.at.air_conditioners:
            for obj in [ac] + list(ac.zones):
                if id(obj) not in self.subscribed:
                    self.subscribed.add(id(obj))
                    obj.subscribe(cb)

    async def _deliver(self, line):
        await self.api.op(line.split())

    async def op(self, w):
        api = self.api
        api.out.clear()
        suspended = False
        if w == "init":
            await api.op(["init"])
            await api.op(["conn", "1"])
        elif w == "shutdown":
            await api.op(["shutdown"])
        elif w == "r":
            if self.gates:
                self.gates.pop(0).set()
            await api._settle()
            await api._settle()
        elif w[0] in "fh":
            i = int(w[1])
            self.variant[i] += 1
            line = frames(self.gen, i, self.variant[i])
            if w[0] == "f":
                await self._deliver(line)
            else:
                self.hold_next = True
                n = len(self.gates)
                self.bg.append(api.loop.create_task(self._deliver(line)))
                await api._settle()
                await api._settle()
                suspended = len(self.gates) > n
                self.hold_next = False
        else:
            raise ValueError(w)
        self._subscribe()
        hb = "HBSTART" in api.out
        sends = [x for x in api.out if x.startswith("SEND ")]
        if hb:
            # the heartbeat's own first request (a console version request, sent as soon as monitoring starts) is not a handshake request
            sends = [x for x in sends if "ConsoleVersionRequest" not in x]
        return "%d,%d,%d,%d" % (api.at._state.value - 1, len(sends), 1 if hb else 0, 1 if suspended else 0)

    def run(self, ops):
        loop = self.api.loop
        asyncio.set_event_loop(loop)
        out = []

        async def main():
            for w in ops:
                out.append(await self.op(w))
            for ev in self.gates:
                ev.set()
            if self.api.init_task and not self.api.init_task.done():
                self.api.init_task.cancel()
            for t in self.bg:
                t.cancel()
            try:
                await self.api.at.shutdown()
            except Exception:  # noqa: BLE001
                pass
        try:
            loop.run_until_complete(main())
        finally:
            asyncio.set_event_loop(None)
            loop.close()
        return out


def run_ops(gen, ops):
    return Sess(gen).run(ops)


OPS = ["init", "shutdown", "r", "f0", "f1", "f2", "f3", "f4", "f5", "h3", "h4", "h5"]


def gen_script(rng):
    """mostly well-formed sessions: handshakes that progress, holds at the step that is current, shutdown / init pairs, releases
    at every distance from them; plus a stream of arbitrary ops"""
    if rng.random() < 0.25:
        return [rng.choice(OPS) for _ in range(rng.randint(1, 24))]
    ops = []
    phase, opened = 0, False
    for _ in range(rng.randint(4, 30)):
        r = rng.random()
        if not opened:
            ops.append("init")
            opened, phase = True, 2
        elif r < 0.12:
            ops.append("shutdown")
            opened, phase = False, 0
        elif r < 0.30:
            ops.append("r")
            phase = None if phase is None else phase       # (the generator does not track what a release does)
        elif r < 0.45 and phase is not None and 5 <= phase <= 7:
            ops.append("h%d" % (phase - 2))
        elif r < 0.55:
            ops.append(rng.choice(OPS[3:]))
        elif phase is not None and 2 <= phase <= 7:
            ops.append("f%d" % (phase - 2))
            phase += 1
        else:
            ops.append(rng.choice(["f3", "f4", "f5", "h3", "h4", "h5", "r"]))
        if phase is None:
            phase = rng.randint(2, 8)
    return ops


if __name__ == "__main__":
    import sys
    sys.path.insert(0, "/repo")
    print(run_ops(int(sys.argv[1]), sys.argv[2:]))
