"""specmap.py - the Spec text (lean/PyAirtouch/Spec/At4Read.lean, At5Read.lean `render...`) that corresponds
to the MEANING of a pyairtouch message object.

Written from two sources only: the Python dataclass / enum definitions of /repo/pyairtouch (what a field of
the public object means, per its name and docstring) and the field tables in the header comments of the two
Spec files (field names, value vocabularies).  It does not look at how the package's decoders read bytes.

Texts are `name=value;...`, records separated by ` | `, exactly the Spec's shape, but restricted to the fields
the public type can express (see FIELDS).  The comparison rule is therefore one-directional:

    for every record, for every field this module produces, the Spec text has the same value
    (and the number of records is the same).

Fields the Spec exposes but the public object cannot express (raw reserved bits, following_length, extra,
raw value bytes, update_sign ...) are listed in OMITTED and never compared.

Where the vendor document is silent and the implementation's docstring / type decides, the difference is
accepted through a NAMED entry of RELAXATIONS, each as narrow as possible (it inspects the Spec's own reading of
the same record and, where needed, the raw record bytes, and accepts only the exact byte values concerned).

Undefined enum codes: the Spec renders them `not_available` / `other(n)`.  No pyairtouch status enum has a
member with that meaning, so this module can never produce these words: the implementation has to REJECT such a
payload.  If it decodes one to a defined member, the ordinary field comparison flags it.
"""
# ------------------------------------------------------------------------------------------------ helpers


class Unmappable(Exception):
    """the object holds a value this mapping has no Spec word for (reported as a mismatch, never hidden)"""


def tenths(x):
    """a temperature / set-point in degrees Celsius as exact tenths (the Spec's unit)"""
    if x is None:
        return "none"
    if isinstance(x, bool):
        raise Unmappable("bool where a number is expected")
    if isinstance(x, int):
        return str(x * 10)
    q = x * 10.0
    r = round(q)
    if x != x or abs(q - r) > 1e-6:
        raise Unmappable("float %r is not a whole number of tenths" % (x,))
    return str(int(r))


def b(x):
    if x is True:
        return "true"
    if x is False:
        return "false"
    raise Unmappable("not a bool: %r" % (x,))


def hexs(s):
    if isinstance(s, (bytes, bytearray)):
        return bytes(s).hex()
    return s.encode("utf-8").hex()


def word(table, member, what):
    try:
        return table[member.name]
    except (KeyError, AttributeError):
        raise Unmappable("%s: no Spec word for %r" % (what, member))


def render(records):
    """list of ordered (name, value) lists -> Spec shaped text"""
    return " | ".join(";".join("%s=%s" % (k, v) for k, v in rec) for rec in records)


def parse(text):
    """Spec shaped text -> list of dicts (a value never contains ';' or ' | '; set-point words contain
    parentheses only).  The empty text is zero records."""
    if text == "":
        return []
    out = []
    for rec in text.split(" | "):
        d = {}
        for kv in rec.split(";"):
            k, _, v = kv.partition("=")
            d[k] = v
        out.append(d)
    return out


# ------------------------------------------------------------------------------------------------ vocabularies
# Python enum member name -> Spec word.  (Spec field tables: At4Read.lean / At5Read.lean header comments.)

AT4_GROUP_POWER = {"OFF": "off", "ON": "on", "TURBO": "turbo"}
AT4_GROUP_METHOD = {"DAMPER": "percentage", "TEMPERATURE": "temperature"}
BATTERY_LOW = {"NORMAL": "false", "LOW": "true"}
AT4_AC_POWER = {"OFF": "off", "ON": "on"}
AC_MODE = {"AUTO": "auto", "HEAT": "heat", "DRY": "dry", "FAN": "fan", "COOL": "cool",
           "AUTO_HEAT": "auto_heat", "AUTO_COOL": "auto_cool"}
AT4_AC_FAN = {"AUTO": "auto", "QUIET": "quiet", "LOW": "low", "MEDIUM": "medium", "HIGH": "high",
              "POWERFUL": "powerful", "TURBO": "turbo"}

AT5_ZONE_POWER = {"OFF": "off", "ON": "on", "TURBO": "turbo"}
AT5_ZONE_METHOD = {"DAMPER": "percentage", "TEMPERATURE": "temperature"}
AT5_AC_POWER = {"OFF": "off", "ON": "on", "OFF_AWAY": "away_off", "ON_AWAY": "away_on", "SLEEP": "sleep"}
# the document has ONE meaning "Intelligent Auto" for codes 1001-1110; the package refines it by the active
# speed.  All six members carry the documented meaning `intelligent_auto`.
AT5_AC_FAN = dict(AT4_AC_FAN, INTELLIGENT_AUTO_QUIET="intelligent_auto", INTELLIGENT_AUTO_LOW="intelligent_auto",
                  INTELLIGENT_AUTO_MEDIUM="intelligent_auto", INTELLIGENT_AUTO_HIGH="intelligent_auto",
                  INTELLIGENT_AUTO_POWERFUL="intelligent_auto", INTELLIGENT_AUTO_TURBO="intelligent_auto")

# control vocabularies
AT4_GROUP_POWER_CMD = {"TOGGLE": "next", "TURN_OFF": "off", "TURN_ON": "on", "TURBO": "turbo", "UNCHANGED": "keep"}
AT4_GROUP_METHOD_CMD = {"CHANGE": "change", "DAMPER": "percentage", "TEMPERATURE": "temperature", "UNCHANGED": "keep"}
AT4_AC_POWER_CMD = {"TOGGLE": "toggle", "TURN_OFF": "off", "TURN_ON": "on", "UNCHANGED": "keep"}
AC_MODE_CMD = {"AUTO": "auto", "HEAT": "heat", "DRY": "dry", "FAN": "fan", "COOL": "cool", "UNCHANGED": "keep"}
AT4_AC_FAN_CMD = dict(AT4_AC_FAN, UNCHANGED="keep")
AT5_ZONE_POWER_CMD = {"TOGGLE": "change", "TURN_OFF": "off", "TURN_ON": "on", "TURBO": "turbo", "UNCHANGED": "keep"}
AT5_AC_POWER_CMD = {"TOGGLE": "change", "TURN_OFF": "off", "TURN_ON": "on", "SET_TO_AWAY": "away",
                    "SET_TO_SLEEP": "sleep", "UNCHANGED": "keep"}
AT5_AC_FAN_CMD = dict(AT4_AC_FAN, INTELLIGENT_AUTO="intelligent_auto", UNCHANGED="keep")


def _support(mapping, names, prefix):
    """ability flags: Mapping[<enum>, bool] -> prefix_<name>=true/false for the documented bits"""
    by_name = {k.name: v for k, v in mapping.items()}
    out = []
    for py, spec in names:
        if py not in by_name:
            raise Unmappable("%s support: %s missing" % (prefix, py))
        out.append(("%s_%s" % (prefix, spec), b(by_name[py])))
    return out


_MODES = [("COOL", "cool"), ("FAN", "fan"), ("DRY", "dry"), ("HEAT", "heat"), ("AUTO", "auto")]
_FANS4 = [("TURBO", "turbo"), ("POWERFUL", "powerful"), ("HIGH", "high"), ("MEDIUM", "medium"), ("LOW", "low"),
          ("QUIET", "quiet"), ("AUTO", "auto")]
_FANS5 = [("INTELLIGENT_AUTO", "intelligent_auto")] + _FANS4


# ------------------------------------------------------------------------------------------------ AirTouch 4 status
def at4_2B(msg):
    """GroupStatusMessage -> renderGroupStatus subset (all ten fields)"""
    out = []
    for g in msg.groups:
        out.append([
            ("group", str(g.group_number)),
            ("power", word(AT4_GROUP_POWER, g.power_state, "group power")),
            ("control_method", word(AT4_GROUP_METHOD, g.control_method, "control method")),
            ("open_percentage", str(g.damper_percentage)),
            ("battery_low", word(BATTERY_LOW, g.battery_status, "battery")),
            ("turbo_support", b(g.supports_turbo)),
            ("target_setpoint", tenths(g.set_point)),        # int degrees, Optional
            ("has_sensor", b(g.has_sensor)),
            ("temperature", tenths(g.temperature)),          # Optional[float]
            ("spill", b(g.spill_active)),
        ])
    return render(out)


def at4_2D(msg):
    """AcStatusMessage -> renderAcStatus (all nine fields)"""
    out = []
    for a in msg.ac_status:
        out.append([
            ("ac", str(a.ac_number)),
            ("power", word(AT4_AC_POWER, a.power_state, "ac power")),
            ("mode", word(AC_MODE, a.mode, "ac mode")),
            ("fan_speed", word(AT4_AC_FAN, a.fan_speed, "fan speed")),
            ("spill", b(a.spill_active)),
            ("timer", b(a.timer_set)),
            ("target_setpoint", tenths(a.set_point)),
            ("temperature", tenths(a.temperature)),          # plain float: see RELAXATIONS
            ("error_code", str(a.error_code)),
        ])
    return render(out)


def at4_FF11(msg):
    """at4 AcAbilityMessage -> renderAcAbility without following_length, extra"""
    out = []
    for a in msg.ac_abilities:
        if a.groups is None:
            disp = "none"
        else:
            # Spec: 16 characters, the k-th (k = 1..16) is the document's "Group k"; the package numbers
            # groups from 0 (`Elements ... in the range [0, MAX_GROUP_NUMBER]`), group n = "Group n+1".
            if any((not isinstance(n, int)) or n < 0 or n > 15 for n in a.groups):
                raise Unmappable("group outside 0..15 in %r" % (a.groups,))
            disp = "".join("1" if n in a.groups else "0" for n in range(16))
        out.append([("ac", str(a.ac_number)), ("name", hexs(a.ac_name)),
                    ("start_group", str(a.start_group)), ("group_count", str(a.group_count))]
                   + _support(a.ac_mode_support, _MODES, "mode")
                   + _support(a.fan_speed_support, _FANS4, "fan")
                   + [("min_setpoint", tenths(a.min_set_point)), ("max_setpoint", tenths(a.max_set_point)),
                      ("group_display", disp)])
    return render(out)


def at4_FF12(msg):
    """GroupNamesMessage (Mapping number -> name, insertion order) -> renderGroupNames"""
    return render([[("group", str(k)), ("name", hexs(v))] for k, v in msg.group_names.items()])


def ff10(msg):
    """AcErrorInformationMessage (both generations) -> renderAcError; `None` = no error = empty string"""
    return render([[("ac", str(msg.ac_number)), ("error_info", "" if msg.error_info is None else hexs(msg.error_info))]])


def ff30(msg):
    """ConsoleVersionMessage (both generations) -> renderConsoleVersion without update_sign"""
    return render([[("update_available", b(msg.update_available)),
                    ("versions", ",".join(hexs(v) for v in msg.versions))]])


# ------------------------------------------------------------------------------------------------ AirTouch 5 status
def at5_C021(msg):
    out = []
    for z in msg.zones:
        out.append([
            ("zone", str(z.zone_number)),
            ("power", word(AT5_ZONE_POWER, z.power_state, "zone power")),
            ("control_method", word(AT5_ZONE_METHOD, z.control_method, "control method")),
            ("open_percentage", str(z.damper_percentage)),
            ("setpoint", tenths(z.set_point)),
            ("has_sensor", b(z.has_sensor)),
            ("temperature", tenths(z.temperature)),
            ("spill", b(z.spill_active)),
            ("low_battery", word(BATTERY_LOW, z.battery_status, "battery")),
        ])
    return render(out)


def at5_C023(msg):
    out = []
    for a in msg.ac_status:
        out.append([
            ("ac", str(a.ac_number)),
            ("power", word(AT5_AC_POWER, a.power_state, "ac power")),
            ("mode", word(AC_MODE, a.mode, "ac mode")),
            ("fan_speed", word(AT5_AC_FAN, a.fan_speed, "fan speed")),
            ("setpoint", tenths(a.set_point)),               # plain float: see RELAXATIONS
            ("turbo", b(a.turbo_active)),
            ("bypass", b(a.bypass_active)),
            ("spill", b(a.spill_active)),
            ("timer", b(a.timer_set)),
            ("temperature", tenths(a.temperature)),          # plain float: see RELAXATIONS
            # `has_error()` is `error_code != 0`: 0 is the package's "no error", which the Spec renders `none`
            ("error_code", "none" if a.error_code == 0 else str(a.error_code)),
        ])
    return render(out)


def at5_FF11(msg):
    out = []
    for a in msg.ac_abilities:
        out.append([("ac", str(a.ac_number)), ("name", hexs(a.ac_name)),
                    ("start_zone", str(a.start_zone)), ("zone_count", str(a.zone_count))]
                   + _support(a.ac_mode_support, _MODES, "mode")
                   + _support(a.fan_speed_support, _FANS5, "fan")
                   + [("min_cool_setpoint", tenths(a.min_cool_set_point)),
                      ("max_cool_setpoint", tenths(a.max_cool_set_point)),
                      ("min_heat_setpoint", tenths(a.min_heat_set_point)),
                      ("max_heat_setpoint", tenths(a.max_heat_set_point))])
    return render(out)


def at5_FF13(msg):
    return render([[("zone", str(k)), ("name", hexs(v))] for k, v in msg.zone_names.items()])


# ------------------------------------------------------------------------------------------------ control messages
# For control kinds the function returns (text, changes): `changes` is the list (one per record) of the
# attribute names - in the Spec's `changedAttrs` / `changes` vocabulary and order - that the OBJECT sets.
# Constant fields are produced where the object has no way to ask for anything else and the document fixes the
# value: reserved=0 / reserved_zero=true ("Keep 0"), control_type=keep (AirTouch 5 ZoneControlData has no
# control-type attribute, so it must not change it).

def at4_2A(msg):
    s = msg.setting
    kind = type(s).__name__
    if s is None:
        setting = "keep"
    elif kind == "GroupIncreaseDecrease":
        setting = word({"DECREASE": "decrease", "INCREASE": "increase"}, s, "group setting")
    elif kind == "GroupDamperControl":
        setting = "set_open_percentage(%d)" % s.open_percentage
    elif kind == "GroupSetPointControl":
        setting = "set_target_setpoint(%s)" % tenths(s.set_point)
    else:
        raise Unmappable("group setting %r" % (s,))
    method = word(AT4_GROUP_METHOD_CMD, msg.control_method, "control method")
    power = word(AT4_GROUP_POWER_CMD, msg.power, "group power")
    text = render([[("group", str(msg.group_number)), ("setting", setting), ("control_method", method),
                    ("power", power), ("reserved", "0")]])
    changes = [n for n, v in (("setting", setting), ("control_method", method), ("power", power)) if v != "keep"]
    return text, [changes]


def at4_2C(msg):
    s = msg.set_point_control
    kind = type(s).__name__
    if s is None:
        sp = "keep"
    elif kind == "AcIncreaseDecrease":
        sp = word({"DECREASE": "decrease", "INCREASE": "increase"}, s, "set-point control")
    elif kind == "AcSetPointValue":
        sp = "set(%s)" % tenths(s.set_point)
    else:
        raise Unmappable("set-point control %r" % (s,))
    power = word(AT4_AC_POWER_CMD, msg.power, "ac power")
    mode = word(AC_MODE_CMD, msg.mode, "ac mode")
    fan = word(AT4_AC_FAN_CMD, msg.fan_speed, "fan speed")
    text = render([[("ac", str(msg.ac_number)), ("power", power), ("mode", mode), ("fan_speed", fan),
                    ("setpoint", sp), ("reserved", "0")]])
    changes = [n for n, v in (("power", power), ("mode", mode), ("fan_speed", fan), ("setpoint", sp)) if v != "keep"]
    return text, [changes]


def at5_C020(msg):
    recs, changes = [], []
    for z in msg.zone_control:
        s = z.zone_setting
        kind = type(s).__name__
        if s is None:
            setting, value = "keep", "keep"
        elif kind == "ZoneIncreaseDecrease":
            setting, value = word({"DECREASE": "decrease", "INCREASE": "increase"}, s, "zone setting"), "keep"
        elif kind == "ZoneDamperControl":
            setting, value = "set_percentage", "percentage(%d)" % s.open_percentage
        elif kind == "ZoneSetPointControl":
            setting, value = "set_setpoint", "setpoint(%s)" % tenths(s.set_point)
        else:
            raise Unmappable("zone setting %r" % (s,))
        power = word(AT5_ZONE_POWER_CMD, z.zone_power, "zone power")
        recs.append([("zone", str(z.zone_number)), ("setting", setting), ("control_type", "keep"),
                     ("power", power), ("value", value), ("reserved_zero", "true")])
        changes.append((["value"] if setting != "keep" else []) + (["power"] if power != "keep" else []))
    return render(recs), changes


def at5_C022(msg):
    recs, changes = [], []
    for a in msg.ac_control:
        power = word(AT5_AC_POWER_CMD, a.power, "ac power")
        mode = word(AC_MODE_CMD, a.mode, "ac mode")
        fan = word(AT5_AC_FAN_CMD, a.fan_speed, "fan speed")
        sp = "keep" if a.set_point is None else "set(%s)" % tenths(a.set_point)
        recs.append([("ac", str(a.ac_number)), ("power", power), ("mode", mode), ("fan_speed", fan), ("setpoint", sp)])
        changes.append([n for n, v in (("power", power), ("mode", mode), ("fan_speed", fan), ("setpoint", sp))
                        if v != "keep"])
    return render(recs), changes


STATUS = {(4, "2B"): at4_2B, (4, "2D"): at4_2D, (4, "FF11"): at4_FF11, (4, "FF12"): at4_FF12, (4, "FF10"): ff10,
          (4, "FF30"): ff30, (5, "C021"): at5_C021, (5, "C023"): at5_C023, (5, "FF11"): at5_FF11,
          (5, "FF13"): at5_FF13, (5, "FF10"): ff10, (5, "FF30"): ff30}
CONTROL = {(4, "2A"): at4_2A, (4, "2C"): at4_2C, (5, "C020"): at5_C020, (5, "C022"): at5_C022}

# the response message class of each status kind (anything else the decoder returns is the request form)
MESSAGE_CLASS = {(4, "2B"): "GroupStatusMessage", (4, "2D"): "AcStatusMessage", (4, "FF11"): "AcAbilityMessage",
                 (4, "FF12"): "GroupNamesMessage", (4, "FF10"): "AcErrorInformationMessage",
                 (4, "FF30"): "ConsoleVersionMessage", (5, "C021"): "ZoneStatusMessage",
                 (5, "C023"): "AcStatusMessage", (5, "FF11"): "AcAbilityMessage", (5, "FF13"): "ZoneNamesMessage",
                 (5, "FF10"): "AcErrorInformationMessage", (5, "FF30"): "ConsoleVersionMessage"}

# Spec fields that are NOT compared and why
OMITTED = {
    (4, "FF11"): {"following_length": "raw length byte, not part of AcAbility", "extra": "undocumented bytes, not exposed"},
    (4, "FF30"): {"update_sign": "raw byte; the public type has only the bool update_available"},
    (4, "2A"): {"value": "raw Byte3; its meaning is compared through `setting`"},
    (4, "2C"): {"setpoint_value": "raw Byte3 Bit6-1; compared through `setpoint` (and the Spec's well_formed)"},
    (5, "FF11"): {"following_length": "raw length byte, not part of AcAbility"},
    (5, "FF30"): {"update_sign": "raw byte; the public type has only the bool update_available"},
    (5, "C020"): {"value_raw": "raw Byte3; compared through `value`"},
    (5, "C022"): {"setpoint_value_raw": "raw Byte4; compared through `setpoint`"},
}


def fields_of(key):
    """the compared field names of a kind (by running the mapping on nothing: read from the source table)"""
    return FIELDS[key]


FIELDS = {
    (4, "2B"): ["group", "power", "control_method", "open_percentage", "battery_low", "turbo_support",
                "target_setpoint", "has_sensor", "temperature", "spill"],
    (4, "2D"): ["ac", "power", "mode", "fan_speed", "spill", "timer", "target_setpoint", "temperature", "error_code"],
    (4, "FF11"): ["ac", "name", "start_group", "group_count", "mode_cool", "mode_fan", "mode_dry", "mode_heat",
                  "mode_auto", "fan_turbo", "fan_powerful", "fan_high", "fan_medium", "fan_low", "fan_quiet",
                  "fan_auto", "min_setpoint", "max_setpoint", "group_display"],
    (4, "FF12"): ["group", "name"],
    (4, "FF10"): ["ac", "error_info"],
    (4, "FF30"): ["update_available", "versions"],
    (4, "2A"): ["group", "setting", "control_method", "power", "reserved", "(changes)", "(well_formed)"],
    (4, "2C"): ["ac", "power", "mode", "fan_speed", "setpoint", "reserved", "(changes)", "(well_formed)"],
    (5, "C021"): ["zone", "power", "control_method", "open_percentage", "setpoint", "has_sensor", "temperature",
                  "spill", "low_battery"],
    (5, "C023"): ["ac", "power", "mode", "fan_speed", "setpoint", "turbo", "bypass", "spill", "timer",
                  "temperature", "error_code"],
    (5, "FF11"): ["ac", "name", "start_zone", "zone_count", "mode_cool", "mode_fan", "mode_dry", "mode_heat",
                  "mode_auto", "fan_intelligent_auto", "fan_turbo", "fan_powerful", "fan_high", "fan_medium",
                  "fan_low", "fan_quiet", "fan_auto", "min_cool_setpoint", "max_cool_setpoint",
                  "min_heat_setpoint", "max_heat_setpoint"],
    (5, "FF13"): ["zone", "name"],
    (5, "FF10"): ["ac", "error_info"],
    (5, "FF30"): ["update_available", "versions"],
    (5, "C020"): ["zone", "setting", "control_type", "power", "value", "reserved_zero", "(changes)"],
    (5, "C022"): ["ac", "power", "mode", "fan_speed", "setpoint", "(changes)"],
}


# ------------------------------------------------------------------------------------------------ relaxations
# accept(impl_value, spec_value, spec_record, raw) -> bool.  `spec_record` is the Spec's reading of the SAME
# record (dict), `raw` the bytes of that record as sent (None when the record is not a fixed-position one).

def _vbits(byte, hi, lo):
    """vendor bits hi..lo (Bit8 = msb) of a byte"""
    return (byte >> (lo - 1)) & ((1 << (hi + 1 - lo)) - 1)


def _at4_2b_absent_without_sensor(iv, sv, srec, raw):
    return iv == "none" and srec.get("has_sensor") == "false"


def _at5_c021_temp_absent_without_sensor(iv, sv, srec, raw):
    return iv == "none" and srec.get("has_sensor") == "false"


def _at4_2d_temp_float(iv, sv, srec, raw):
    if sv != "none" or raw is None or len(raw) < 6 or raw[4] != 0xFF:
        return False
    return iv == str(raw[4] * 8 + _vbits(raw[5], 8, 6) - 500)       # 154.0 .. 154.7 degC exactly


def _at5_c023_setpoint_float(iv, sv, srec, raw):
    if sv != "none" or raw is None or len(raw) < 3 or not (251 <= raw[2] <= 255):
        return False
    return iv == str(raw[2] + 100)                                   # 35.1 .. 35.5 degC exactly


def _at5_c023_temp_float(iv, sv, srec, raw):
    if sv != "none" or raw is None or len(raw) < 6:
        return False
    value = _vbits(raw[4], 3, 1) * 256 + raw[5]
    return 2001 <= value <= 2047 and iv == str(value - 500)         # 150.1 .. 154.7 degC exactly


RELAXATIONS = {
    "AT4_2B_SETPOINT_ABSENT_WITHOUT_SENSOR": dict(
        key=(4, "2B"), field="target_setpoint", accept=_at4_2b_absent_without_sensor,
        why="document gives Byte3 Bit6-1 unconditionally; GroupStatusData.set_point docstring: 'None if no "
            "temperature sensor is installed' - accepted only when the Spec reads has_sensor=false (Byte4 Bit8 = 0)"),
    "AT4_2B_TEMPERATURE_ABSENT_WITHOUT_SENSOR": dict(
        key=(4, "2B"), field="temperature", accept=_at4_2b_absent_without_sensor,
        why="document: not available only for Byte5=0xff; GroupStatusData.temperature docstring: 'None if no "
            "temperature sensor is installed' - accepted only when the Spec reads has_sensor=false"),
    "AT5_C021_TEMPERATURE_ABSENT_WITHOUT_SENSOR": dict(
        key=(5, "C021"), field="temperature", accept=_at5_c021_temp_absent_without_sensor,
        why="document: not available only for VALUE > 2000; ZoneStatusData.temperature docstring: 'None if no "
            "temperature sensor is installed' - accepted only when the Spec reads has_sensor=false (Byte4 Bit8 = 0)"),
    "AT4_2D_TEMPERATURE_HAS_NO_ABSENT_VALUE": dict(
        key=(4, "2D"), field="temperature", accept=_at4_2d_temp_float,
        why="AcStatusData.temperature is typed plain float; for Byte5=0xff (document: not available) the number "
            "(VALUE-500)/10 = 154.0..154.7 is accepted, nothing else"),
    "AT5_C023_SETPOINT_HAS_NO_ABSENT_VALUE": dict(
        key=(5, "C023"), field="setpoint", accept=_at5_c023_setpoint_float,
        why="AcStatusData.set_point is typed plain float; for Byte3 = 251..255 (document: 'Other: not available') "
            "the number (VALUE+100)/10 = 35.1..35.5 is accepted, nothing else"),
    "AT5_C023_TEMPERATURE_HAS_NO_ABSENT_VALUE": dict(
        key=(5, "C023"), field="temperature", accept=_at5_c023_temp_float,
        why="AcStatusData.temperature is typed plain float; for VALUE = 2001..2047 (document: 'Other: Not "
            "available') the number (VALUE-500)/10 = 150.1..154.7 is accepted, nothing else"),
    # record-level relaxation, applied by compare(): see _collapse_duplicates
    "NAMES_DUPLICATE_NUMBER_LAST_WINS": dict(
        key=None, field=None, accept=None,
        why="GroupNamesMessage.group_names / ZoneNamesMessage.zone_names are Mapping[int, str]: a payload naming "
            "the same group/zone twice (document silent) cannot be expressed; accepted only when the Spec's "
            "records really contain a repeated number, and then compared with the Spec's list reduced the way a "
            "mapping is filled (position of the first occurrence, name of the last)"),
}
_FIELD_RELAX = {}
for _n, _r in RELAXATIONS.items():
    if _r["key"] is not None:
        _FIELD_RELAX.setdefault((_r["key"], _r["field"]), []).append((_n, _r["accept"]))

_NAME_KEYS = {(4, "FF12"): "group", (5, "FF13"): "zone"}


def _collapse_duplicates(key, srecs):
    k = _NAME_KEYS[key]
    order, last = [], {}
    for r in srecs:
        if r[k] not in last:
            order.append(r[k])
        last[r[k]] = r
    return [last[n] for n in order]


def compare(key, impl_text, spec_text, raws=None):
    """-> (verdict, detail, relaxations_used).  verdict: 'agree' or 'MISMATCH'.
    `raws`: list of the raw bytes of each record in Spec order, or None."""
    irecs, srecs = parse(impl_text), parse(spec_text)
    used = []
    if key in _NAME_KEYS and len(irecs) != len(srecs):
        nums = [r[_NAME_KEYS[key]] for r in srecs]
        if len(set(nums)) != len(nums):
            srecs = _collapse_duplicates(key, srecs)
            used.append("NAMES_DUPLICATE_NUMBER_LAST_WINS")
            raws = None
    if len(irecs) != len(srecs):
        return "MISMATCH", "record-count: implementation %d, spec %d" % (len(irecs), len(srecs)), used
    for i, (ir, sr) in enumerate(zip(irecs, srecs)):
        raw = raws[i] if raws is not None and i < len(raws) else None
        for f, iv in ir.items():
            if f not in sr:
                return "MISMATCH", "field %s missing from the Spec text" % f, used
            sv = sr[f]
            if iv == sv:
                continue
            ok = False
            for name, acc in _FIELD_RELAX.get((key, f), []):
                if acc(iv, sv, sr, raw):
                    used.append(name)
                    ok = True
                    break
            if not ok:
                return "MISMATCH", "%s: implementation %s, spec %s" % (f, iv, sv), used
    return "agree", "", used
