#!/venv/bin/python
"""codec_try.py <gen>/<key> ... : run the codec differential for the listed modules and print disagreements.
Set VERIF_LEAN_DIR to use a scratch copy's driver."""
import os
import sys

HERE = os.path.dirname(os.path.abspath(__file__))
sys.path.insert(0, HERE)
sys.path.insert(0, os.environ.get("VERIF_REPO", "/repo"))
import core  # noqa: E402

if os.environ.get("VERIF_LEAN_DIR"):
    core.LEAN_DIR = os.environ["VERIF_LEAN_DIR"]
    core.BIN_DIR = os.path.join(core.LEAN_DIR, ".lake", "build", "bin")
import codec  # noqa: E402
import codeccheck  # noqa: E402


def main():
    n = int(os.environ.get("N", "3000"))
    ctx = core.Ctx("C03", "quick", int(os.environ.get("VERIF_SEED", "1")))
    ctx.driver_ok = True
    for key in sys.argv[1:]:
        g, k = key.split("/")
        codeccheck.run_module(ctx, codec.find(int(g), k), n)
    print("evals", ctx.evaluations, "broken", len(ctx.broken), "viol", len(ctx.violations))
    seen = set()
    for b in ctx.broken:
        if b["name"] in seen:
            continue
        seen.add(b["name"])
        print("BROKEN", b["name"], b["detail"][:900])
    for v in ctx.violations[:6]:
        print("VIOL", v["what"][:900])
    print({k: v for k, v in sorted(ctx.dist.items())})


if __name__ == "__main__":
    main()
