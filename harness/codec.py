"""Differential harness for the message codecs (C03, C05, C17).

Every message module of both generations is registered here with its real decoder / encoder, the
way its header is built, and a payload generator.  For a payload `b` and header parameters `hp`:
  * real `decoder.decode(b, header)` -> canonical text + remaining length, or the exception class;
    compared with the model (`driver dec`);
  * if it decoded: real `encoder.size(m)`, `encoder.encode(header', m)` compared with the model's
    encoder applied to the model's decoded message (`driver reenc`), and the round trip on the real
    code (`decode(encode(m)) == m`, nothing left over, `size(m) == len(encode(m))`) is judged directly -
    that is property C03 itself on the implementation.
"""
import importlib
import struct

from canon import canon, exc_name, NotCanonical


class Mod:
    def __init__(self, gen, key, modname, enc_cls, dec_cls, kind, rec, base=0, following=None):
        self.gen = gen
        self.key = key
        self.modname = modname
        self.enc_cls = enc_cls
        self.dec_cls = dec_cls
        self.kind = kind          # top | ext | cs
        self.rec = rec            # record size used by the payload generator (0 = free form)
        self.base = base          # non-repeat bytes (cs) / fixed prefix
        self.following = following

    def load(self):
        m = importlib.import_module(self.modname)
        self.m = m
        self.enc = getattr(m, self.enc_cls)()
        self.dec = getattr(m, self.dec_cls)()
        return self

    def header(self, hp):
        if self.kind == "top":
            if self.gen == 4:
                from pyairtouch.at4.comms.hdr import At4Header as H
            else:
                from pyairtouch.at5.comms.hdr import At5Header as H
            return H(to_address=0xB0, from_address=0x80, packet_id=1, message_id=self.m.MESSAGE_ID, message_length=hp[0])
        if self.kind == "ext":
            x = importlib.import_module("pyairtouch.at%d.comms.x1F_ext" % self.gen)
            return x.ExtendedMessageSubHeader(message_id=self.m.MESSAGE_ID, message_length=hp[0])
        x = importlib.import_module("pyairtouch.at5.comms.xC0_ctrl_status")
        return x.ControlStatusSubHeader(sub_message_id=self.m.MESSAGE_ID, non_repeat_length=hp[0], repeat_length=hp[1], repeat_count=hp[2])

    def header_for(self, msg):
        """the header the send path would build for `msg`"""
        if self.kind in ("top", "ext"):
            return self.header([self.enc.size(msg)]), [self.enc.size(msg)]
        hp = [self.enc.non_repeat_size(msg), self.enc.repeat_size(msg), self.enc.repeat_count(msg)]
        return self.header(hp), hp

    def size_of(self, msg):
        if self.kind in ("top", "ext"):
            return str(self.enc.size(msg))
        return "%d:%d:%d" % (self.enc.non_repeat_size(msg), self.enc.repeat_size(msg), self.enc.repeat_count(msg))


A4 = "pyairtouch.at4.comms."
A5 = "pyairtouch.at5.comms."
MODULES = [
    Mod(4, "2A", A4 + "x2A_group_ctrl", "GroupControlEncoder", "GroupControlDecoder", "top", 4),
    Mod(4, "2B", A4 + "x2B_group_status", "GroupStatusEncoder", "GroupStatusDecoder", "top", 6),
    Mod(4, "2C", A4 + "x2C_ac_ctrl", "AcControlEncoder", "AcControlDecoder", "top", 4),
    Mod(4, "2D", A4 + "x2D_ac_status", "AcStatusEncoder", "AcStatusDecoder", "top", 8),
    Mod(4, "36", A4 + "x36_ac_timer_ctrl", "AcTimerControlEncoder", "AcTimerControlDecoder", "top", 8),
    Mod(4, "37", A4 + "x37_ac_timer_status", "AcTimerStatusEncoder", "AcTimerStatusDecoder", "top", 8),
    Mod(4, "FF10", A4 + "x1FFF10_err_info", "AcErrorInformationEncoder", "AcErrorInformationDecoder", "ext", 0),
    Mod(4, "FF11", A4 + "x1FFF11_ac_ability", "AcAbilityEncoder", "AcAbilityDecoder", "ext", 0),
    Mod(4, "FF12", A4 + "x1FFF12_group_names", "GroupNamesEncoder", "GroupNamesDecoder", "ext", 9),
    Mod(4, "FF20", A4 + "x1FFF20_quick_timer", "QuickTimerEncoder", "QuickTimerDecoder", "ext", 4),
    Mod(4, "FF30", A4 + "x1FFF30_console_ver", "ConsoleVersionEncoder", "ConsoleVersionDecoder", "ext", 0),
    Mod(5, "C020", A5 + "xC020_zone_ctrl", "ZoneControlEncoder", "ZoneControlDecoder", "cs", 4),
    Mod(5, "C021", A5 + "xC021_zone_status", "ZoneStatusEncoder", "ZoneStatusDecoder", "cs", 8),
    Mod(5, "C022", A5 + "xC022_ac_ctrl", "AcControlEncoder", "AcControlDecoder", "cs", 4),
    Mod(5, "C023", A5 + "xC023_ac_status", "AcStatusEncoder", "AcStatusDecoder", "cs", 10),
    Mod(5, "C032", A5 + "xC032_ac_timer_ctrl", "AcTimerControlEncoder", "AcTimerControlDecoder", "cs", 9),
    Mod(5, "C033", A5 + "xC033_ac_timer_status", "AcTimerStatusEncoder", "AcTimerStatusDecoder", "cs", 9),
    Mod(5, "FF10", A5 + "x1FFF10_err_info", "AcErrorInformationEncoder", "AcErrorInformationDecoder", "ext", 0),
    Mod(5, "FF11", A5 + "x1FFF11_ac_ability", "AcAbilityEncoder", "AcAbilityDecoder", "ext", 0),
    Mod(5, "FF13", A5 + "x1FFF13_zone_names", "ZoneNamesEncoder", "ZoneNamesDecoder", "ext", 0),
    Mod(5, "FF49", A5 + "x1FFF49_quick_timer", "QuickTimerEncoder", "QuickTimerDecoder", "ext", 4),
    Mod(5, "FF30", A5 + "x1FFF30_console_ver", "ConsoleVersionEncoder", "ConsoleVersionDecoder", "ext", 0),
]


def find(gen, key):
    for m in MODULES:
        if m.gen == gen and m.key == key:
            return m.load()
    raise KeyError((gen, key))


def hp_text(hp):
    return ":".join(str(x) for x in hp)


def hx(b):
    return bytes(b).hex() if b else "-"


def real_decode(mod, payload, hp):
    """-> (text, message or None)"""
    try:
        r = mod.dec.decode(bytes(payload), mod.header(hp))
        return "%s rem=%d" % (canon(r.message), len(r.remaining)), r.message
    except NotCanonical:
        raise
    except Exception as e:  # noqa: BLE001
        return exc_name(e), None


def real_reencode(mod, msg):
    """-> 'size:hex' as the send path computes them, or ENCERR"""
    try:
        size = mod.size_of(msg)
        hdr, _ = mod.header_for(msg)
        data = mod.enc.encode(hdr, msg)
        return "%s:%s" % (size, hx(data)), bytes(data)
    except Exception as e:  # noqa: BLE001
        return "ENC" + exc_name(e), None


def roundtrip_ok(mod, msg, data):
    """C03 on the implementation: the frame payload parses back to an equal message, nothing left,
    and the announced length equals the number of bytes produced."""
    hdr, hp = mod.header_for(msg)
    if mod.kind in ("top", "ext"):
        announced = hp[0]
    else:
        announced = hp[0] + hp[1] * hp[2]
    if announced != len(data):
        return "announced length %d but %d payload bytes produced" % (announced, len(data))
    try:
        r = mod.dec.decode(data, hdr)
    except Exception as e:  # noqa: BLE001
        return "re-decoding raised %s" % exc_name(e)
    if len(r.remaining):
        return "%d bytes left over" % len(r.remaining)
    if r.message != msg:
        return "decoded message differs: %s" % canon(r.message)
    return None


# ------------------------------------------------------------------------------ payload generation
INTERESTING = [0x00, 0x01, 0x7F, 0x80, 0xFF, 0x40, 0x3F, 0xC0, 0x0F, 0xF0, 0x10, 0x20, 0x55]


def rand_bytes(rng, n):
    if n >= 4 and rng.random() < 0.08:
        # payload bytes that look like framing: the 0x55 prefix run and the AirTouch 5 "stuffing" pattern 55 55 55 00 are ordinary data
        # inside a payload (damper 85 %, set-point 18.5 degC ...) and must be taken literally
        b = bytearray(_rand_bytes(rng, n))
        run = rng.choice([b"\x55\x55\x55\x00", b"\x55\x55\x55\x55", b"\x55\x55\x55\xaa", b"\x55\x55\x55\x00\x55\x55\x55\x00"])[:n]
        i = rng.randrange(0, n - len(run) + 1)
        b[i:i + len(run)] = run
        return bytes(b)
    return _rand_bytes(rng, n)


def _rand_bytes(rng, n):
    r = rng.random()
    if r < 0.15:
        return bytes(rng.choice(INTERESTING) for _ in range(n))
    if r < 0.25:
        return bytes([0] * n)
    if r < 0.3:
        return bytes([0xFF] * n)
    return bytes(rng.randrange(256) for _ in range(n))


# valid UTF-8 texts a permissive or "helpful" text codec treats specially (byte-order mark, decomposed and compatibility characters that
# Unicode normalisation rewrites, zero-width, 4-byte, non-characters, controls, blanks)
AWKWARD_TEXTS = [t.encode() for t in ("\ufeffKids", "K\ufeffid", "u\u0308ber", "e\u0301t\u00e9", "\u212bngstr", "\u2126", "\ufb01n", "\u200bZone", "\U0001F3E0",
                                      "\ud7ff\ue000", "\ufffd\ufffe", " Lead", "Trail ", "a\tb", "\x7f", "\u00a0x")]


def text_payload(mod, rng):
    """a well-formed names / ability / error-text / version payload carrying one of the awkward texts, or None for other modules"""
    t = rng.choice(AWKWARD_TEXTS)
    if mod.key in ("FF13", "FF10", "FF30") and rng.random() < 0.25:
        # fields with a length byte carry their text as it is: trailing (or lone) NUL characters are part of it, not padding
        t = rng.choice([b"Den\x00\x00", b"\x00", b"a\x00", t + b"\x00"])
    if mod.key == "FF12" and len(t) <= 8:
        return bytes([rng.randrange(16)]) + t.ljust(8, b"\0")
    if mod.key == "FF11" and len(t) <= 16:
        tail = bytes([0, 4, 0x17, 0x1D, 0x11, 0x1F, 0x07, 0x00]) if mod.gen == 4 else bytes([0, 4, 0x17, 0x1D, 0x10, 0x1F, 0x12, 0x1F])
        return bytes([rng.randrange(4), 24]) + t.ljust(16, b"\0") + tail
    if mod.key == "FF13":
        return bytes([rng.randrange(16), len(t)]) + t
    if mod.key == "FF10":
        return bytes([rng.randrange(4), len(t)]) + t
    if mod.key == "FF30":
        return bytes([rng.randrange(2), len(t)]) + t
    return None


def gen_payload(mod, rng):
    """mostly well-shaped payloads (whole records), sometimes odd lengths; returns (payload, hp)"""
    if mod.key in ("FF12", "FF11", "FF13", "FF10", "FF30") and rng.random() < 0.2:
        p = text_payload(mod, rng)
        if p is not None:
            return p, [len(p)]
    if mod.kind == "cs":
        rec = mod.rec
        count = rng.choice([0, 1, 1, 2, 3, 4, 8, 16])
        stride = rec + rng.choice([0, 0, 0, 0, 1, 2, 6]) if rng.random() < 0.85 else max(0, rec - rng.choice([1, 2]))
        nr = rng.choice([0, 0, 0, 0, 2])
        data = rand_bytes(rng, nr + stride * count)
        if rng.random() < 0.1 and data:
            data = data[:-rng.randint(1, min(3, len(data)))]
        return data, [nr, stride, count]
    if mod.rec:
        count = rng.choice([0, 1, 1, 2, 3, 4, 8, 16])
        n = mod.rec * count
        if rng.random() < 0.12:
            n += rng.choice([1, 2, mod.rec - 1])
        data = rand_bytes(rng, n)
        ln = len(data)
        r = rng.random()
        if r < 0.06:
            ln = max(0, ln - mod.rec)          # header announces less than supplied
        elif r < 0.12:
            ln = ln + mod.rec                  # header announces more than supplied
        return data, [ln]
    n = rng.choice([0, 1, 2, 3, 4, 10, 22, 24, 26, 28, 48, 52, 60])
    data = rand_bytes(rng, n)
    return data, [len(data) if rng.random() < 0.9 else max(0, len(data) - 1)]
