"""Compares the real API objects (apiharness) with the Lean API model (driver `api-new` / `api` commands) op by op."""
import warnings

import apiharness

SEP = " ;; "


def run_real(gen, ops):
    with warnings.catch_warnings():
        warnings.simplefilter("ignore")
        return apiharness.run_ops(gen, ops)


def run_model(ctx, gen, ops):
    lines = ["api-new %d" % gen] + ["api " + o for o in ops]
    out = ctx.driver(lines)
    res = []
    for o in out[1:]:
        res.append([x for x in o.split(SEP) if x] if o != "-" else [])
    return res


def canon_out(lines):
    notes = sorted(x for x in lines if x.startswith("NOTIFY"))
    rest = [x for x in lines if not x.startswith("NOTIFY")]
    return rest + notes


def compare(ctx, gen, ops, label="api"):
    """-> (real outputs, first mismatch or None)"""
    real = run_real(gen, ops)
    if not ctx.driver_ok:
        return real, None
    model = run_model(ctx, gen, ops)
    for i, (o, r, m) in enumerate(zip(ops, real, model)):
        if canon_out(r) != canon_out(m):
            if gen == 4:
                # scheduling ties (two one-step timer tasks due in the same tick) are ordered by CPython's timer heap,
                # which the AirTouch 4 model does not represent: the model reports whether one occurred; such scripts are set aside
                t = ctx.driver(["api-new 4"] + ["api " + x for x in ops[: i + 1]] + ["api ties"])[-1]
                if t != "0":
                    ctx.count("api-tie:set-aside-scheduling-tie")
                    return real, None
            return real, {"index": i, "op": o, "implementation": r, "model": m}
    return real, None
