"""Reference of the public object model (C10 / C12): what every public attribute of the AirTouch object, of each
air-conditioner and of each zone must show, computed ONLY from the vendor reading (`oracle spec <gen> <kind> <hex>`, the Lean
vendor-document readers) of the frames a scripted console has sent so far - the most recent frame concerning each entity wins,
handshake included.  Nothing here is taken from `pyairtouch/at4/api.py` / `pyairtouch/at5/api.py`; the words of the vendor
reading are mapped to the public enum member names of `pyairtouch/api.py` by meaning.

Use:
    reqs = spec_requests(gen, ops)                 # oracle request lines for the `msg` ops that have a vendor reading
    readings = dict(zip((i for i, _ in reqs), ctx.oracle([r for _, r in reqs])))
    ref = Ref(gen)
    for i, op in enumerate(ops):
        ref.feed(op, readings.get(i))
        if op == "view": mismatches = compare(ref.view(), parse_view(view_text))

Expected values are the VIEW atoms of `apiharness.view_*` (`t<tenths>`, `s<utf-8 hex>`, enum member names, `tm<h>:<m>`, `None`,
`True`/`False`, decimal ints, `Err(...)` as a dict) or a matcher (`ANY`, `OneOf`, `Within`) where the property statement, the
public docstrings and the vendor documents leave the value open (every use is listed in `ASSUMPTIONS`).

AC timer status (0x37 / 0xC0 0x33) is not in the vendor documents; its layout (reverse-engineered upstream, the same as
`consolesim.py`) is read here directly: per timer `disabled << 7 | hour, minute`, on-timer first; AirTouch 4: four 8-byte
records, AC number = position; AirTouch 5: 0xC0 sub-header then records `ac, on(2), off(2), padding`.
"""

ASSUMPTIONS = [
    "AC current_temperature / target_temperature while the vendor reading is 'not available' (AT4 Byte5=0xff, AT5 temperature VALUE > 2000, AT5 AC set-point byte > 250): the public interface types them `float` and says nothing; any value is accepted",
    "zone current_temperature: None when the status says 'no sensor' (public docstring); the reading when a sensor is present; with a sensor whose temperature is 'not available' any value is accepted",
    "zone target_temperature without sensor: the docstring allows None 'if no target temperature is defined' without saying when that is: None or the reported set-point are both accepted; AT5 invalid set-point byte 0xFF with a sensor: any value accepted",
    "sensor_battery_status of a zone without sensor whose status record still has the battery-low bit set: NORMAL (public docstring: 'If the zone doesn't have a temperature sensor, NORMAL is returned') or LOW (the protocol reading of the bit) are both accepted",
    "AT5 min/max target temperature: heat pair when the reported mode is heat, cool pair when it is cool; for auto / dry / fan / auto-heat / auto-cool the public docs are silent: any min <= max inside the hull of both pairs is accepted",
    "AT5 spill and bypass bits both set: SPILL or BYPASS accepted",
    "active_mode for plain auto (code 0, no heat/cool indication) is AUTO; active_fan_speed for plain auto fan (code 0) is AUTO",
    "AT5 fan codes 9..14 (vendor: 'intelligent auto'): selected INTELLIGENT_AUTO, active = the concrete speed of code - 8 (upstream reverse engineering)",
    "error_info.description: the most recent error-information text received for the AC while its error code has been non-zero; None before any; after a direct change between two non-zero codes the previous text or None; a text received while no error was reported may or may not be shown once an error appears; an empty text reads as None or ''",
    "supported_power_controls: the power commands of the generation's vendor AC control message (AT4: toggle/off/on; AT5: also away and sleep); supported zone power states: AT4 off/on plus turbo when the group status says 'support turbo', AT5 off/on/turbo",
    "target_temperature_resolution: 1.0 degC for AirTouch 4 (whole-degree set-points in the vendor messages), 0.1 degC for AirTouch 5",
    "AirTouch 4 zone membership: the groups shown in the ability message's group display bitmap (Byte27/28) that have a name; AirTouch 5: start zone .. start zone + count - 1",
    "order of air_conditioners / zones / supported_* sequences is not judged (compared as sets, duplicates are mismatches)",
    "names: the bytes of the vendor reading as UTF-8",
]


class _Any:
    def ok(self, got):
        return True

    def __repr__(self):
        return "<any>"


ANY = _Any()


class OneOf:
    def __init__(self, *vals):
        self.vals = list(vals)

    def ok(self, got):
        return any(match(v, got) for v in self.vals)

    def __repr__(self):
        return "oneof(%s)" % "|".join(repr(v) if not isinstance(v, str) else v for v in self.vals)


class Within:
    """a temperature atom t<n> with lo <= n <= hi"""

    def __init__(self, lo, hi):
        self.lo, self.hi = lo, hi

    def ok(self, got):
        return isinstance(got, str) and got[:1] == "t" and got[1:].lstrip("-").isdigit() and self.lo <= int(got[1:]) <= self.hi

    def __repr__(self):
        return "t%d..t%d" % (self.lo, self.hi)


class SetOf:
    """a sequence compared as a set without duplicates"""

    def __init__(self, vals):
        self.vals = list(vals)

    def ok(self, got):
        return isinstance(got, list) and len(got) == len(set(got)) and set(got) == set(self.vals) and len(self.vals) == len(got)

    def __repr__(self):
        return "{%s}" % ",".join(self.vals)


def match(exp, got):
    if hasattr(exp, "ok"):
        return exp.ok(got)
    if isinstance(exp, dict):
        return isinstance(got, dict) and set(exp) == set(got) and all(match(exp[k], got[k]) for k in exp)
    return exp == got


# ------------------------------------------------------------------------------------------------ op lines / oracle requests
def msg_parts(op):
    w = op.split()
    if not w or w[0] != "msg":
        return None
    return int(w[1], 16), (bytes.fromhex(w[2]) if w[2] != "-" else b"")


def kind_of(gen, op):
    """-> vendor reader kind ('2B', 'C023', 'FF10', ...), 'TIMER' or None (a frame the reference does not follow)"""
    p = msg_parts(op)
    if p is None:
        return None
    mid, payload = p
    if mid == 0x1F and len(payload) >= 2 and payload[0] == 0xFF:
        sub = payload[1]
        if sub in (0x10, 0x11, 0x30) or (sub == 0x12 and gen == 4) or (sub == 0x13 and gen == 5):
            return "FF%02X" % sub
        return None
    if gen == 4:
        return {0x2B: "2B", 0x2D: "2D", 0x37: "TIMER"}.get(mid)
    if mid == 0xC0 and payload:
        return {0x21: "C021", 0x23: "C023", 0x33: "TIMER"}.get(payload[0])
    return None


def spec_requests(gen, ops):
    out = []
    for i, op in enumerate(ops):
        k = kind_of(gen, op)
        if k and k != "TIMER":
            out.append((i, "spec %d %s %s" % (gen, k, op.split()[2])))
    return out


def records(text):
    """vendor reading -> list of {field: value}; None when the reader does not accept the payload"""
    if text is None or text in ("none", "bad-op") or text.startswith("error"):
        return None
    if text == "":
        return []
    return [dict(kv.split("=", 1) for kv in rec.split(";") if "=" in kv) for rec in text.split(" | ")]


def read_timers(gen, payload):
    """-> list of (ac, on, off), on/off = None (disabled) | (hour, minute); None if not a timer status with data"""
    def st(b1, b2):
        return None if b1 & 0x80 else (b1 & 0x1F, b2 & 0x3F)
    out = []
    if gen == 4:
        if not payload or len(payload) % 8:
            return None
        for ac in range(len(payload) // 8):
            r = payload[8 * ac:8 * ac + 8]
            out.append((ac, st(r[0], r[1]), st(r[2], r[3])))
        return out
    if len(payload) < 8:
        return None
    normal, each, count = payload[2] << 8 | payload[3], payload[4] << 8 | payload[5], payload[6] << 8 | payload[7]
    body = payload[8 + normal:]
    if each < 5 or len(body) != each * count:
        return None
    for k in range(count):
        r = body[each * k:each * (k + 1)]
        out.append((r[0], st(r[1], r[2]), st(r[3], r[4])))
    return out


def at5_fan_codes(payload):
    """raw fan nibble per AC record of a 0xC0 0x23 payload (the vendor reading only says 'intelligent_auto' for 9..14)"""
    normal, each, count = payload[2] << 8 | payload[3], payload[4] << 8 | payload[5], payload[6] << 8 | payload[7]
    body = payload[8 + normal:]
    return [body[each * k + 1] & 0x0F for k in range(count)]


# ------------------------------------------------------------------------------------------------ the reference
def s_hex(h):
    return "s" + h


def t(n):
    return "t%d" % int(n)


POWER = {"off": "OFF", "on": "ON", "away_off": "OFF_AWAY", "away_on": "ON_AWAY", "sleep": "SLEEP"}
SELECTED_MODE = {"auto": "AUTO", "heat": "HEAT", "dry": "DRY", "fan": "FAN", "cool": "COOL", "auto_heat": "AUTO", "auto_cool": "AUTO"}
ACTIVE_MODE = {"auto": "AUTO", "heat": "HEAT", "dry": "DRY", "fan": "FAN", "cool": "COOL", "auto_heat": "HEAT", "auto_cool": "COOL"}
FAN = {"auto": "AUTO", "quiet": "QUIET", "low": "LOW", "medium": "MEDIUM", "high": "HIGH", "powerful": "POWERFUL", "turbo": "TURBO"}
FAN_BY_CODE = {1: "QUIET", 2: "LOW", 3: "MEDIUM", 4: "HIGH", 5: "POWERFUL", 6: "TURBO"}
MODE_FLAGS = [("mode_auto", "AUTO"), ("mode_heat", "HEAT"), ("mode_dry", "DRY"), ("mode_fan", "FAN"), ("mode_cool", "COOL")]
FAN_FLAGS = [("fan_auto", "AUTO"), ("fan_quiet", "QUIET"), ("fan_low", "LOW"), ("fan_medium", "MEDIUM"), ("fan_high", "HIGH"),
             ("fan_powerful", "POWERFUL"), ("fan_turbo", "TURBO"), ("fan_intelligent_auto", "INTELLIGENT_AUTO")]


class Unsupported(Exception):
    """the script contains a frame outside what the reference follows (e.g. an undefined code)"""


class Ref:
    def __init__(self, gen, airtouch_id="at-id-1", serial="serial-1", name=None, host="console.local"):
        self.gen = gen
        self.const = {"airtouch_id": s_hex(airtouch_id.encode().hex()), "serial": s_hex(serial.encode().hex()),
                      "name": s_hex((name or ("AirTouch 4" if gen == 4 else "Home")).encode().hex()), "host": s_hex(host.encode().hex()),
                      "model": "AIRTOUCH_%d" % gen}
        self.version = None          # (update available, [hex])
        self.names = {}              # zone -> name hex
        self.ability = []            # records of the latest ability frame
        self.ac_status = {}          # ac -> record (plus 'fan_code' for AT5)
        self.zone_status = {}
        self.timers = {}             # ac -> (on, off)
        self.err_desc = {}           # ac -> acceptable description atoms of the error being reported
        self.stray = {}              # ac -> texts received while no error was reported (since the last error went away)
        self.seen = set()
        self.entity_frames = 0

    # -------------------------------------------------------------------------------------------- structure
    def acs(self):
        return [int(a["ac"]) for a in self.ability]

    def zones_of(self, a):
        if self.gen == 5:
            zs = range(int(a["start_zone"]), int(a["start_zone"]) + int(a["zone_count"]))
        else:
            disp = a.get("group_display", "none")
            if disp == "none":
                # consoles before the bitmap was introduced: the AC's groups are start .. start + count - 1
                if len(self.ability) == 1:
                    zs = sorted(self.names)          # a lone AC of such a console owns every named group, whatever its start / count say (O14)
                else:
                    zs = range(int(a["start_group"]), int(a["start_group"]) + int(a["group_count"]))
            else:
                zs = [k for k, c in enumerate(disp) if c == "1"]
        return [z for z in zs if z in self.names]

    def all_zones(self):
        return [z for a in self.ability for z in self.zones_of(a)]

    # -------------------------------------------------------------------------------------------- frames
    def feed(self, op, reading=None):
        """one op line of the script; `reading` = the oracle's answer for it (msg ops with a vendor kind)"""
        k = kind_of(self.gen, op)
        if k is None:
            return
        payload = msg_parts(op)[1]
        if k == "TIMER":
            tm = read_timers(self.gen, payload)
            if tm is None:
                return
            self.seen.add(k)
            known = set(self.acs())
            for ac, on, off in tm:
                if ac in known:
                    self.timers[ac] = (on, off)      # a repeated AC in one frame: the later record is the more recent
            return
        recs = records(reading)
        if recs is None:
            return
        self.seen.add(k)
        if k == "FF30":
            r = recs[0]
            self.version = (r["update_available"] == "true", [v for v in r["versions"].split(",")] if r["versions"] != "" else [""])
        elif k in ("FF12", "FF13"):
            for r in recs:
                self.names[int(r["group" if self.gen == 4 else "zone"])] = r["name"]
        elif k == "FF11":
            self.ability = recs
        elif k in ("2D", "C023"):
            codes = at5_fan_codes(payload) if self.gen == 5 else [None] * len(recs)
            known = set(self.acs())
            for r, code in zip(recs, codes):
                ac = int(r["ac"])
                if ac not in known:
                    continue
                for f in ("power", "mode", "fan_speed"):
                    if r[f] == "not_available":
                        raise Unsupported("undefined %s code in an AC status" % f)
                r = dict(r, fan_code=code)
                old = self.ac_status.get(ac)
                self.ac_status[ac] = r
                had = old is not None and self.err_code(old) != 0
                has = self.err_code(r) != 0
                if not has:
                    if had:
                        self.stray[ac] = []          # what was received for the error that is gone is gone with it
                elif not had:
                    # a new error: nothing received for it yet (a text that arrived while no error was reported stays acceptable)
                    self.err_desc[ac] = ["None"] + self.stray.get(ac, [])
                    self.stray[ac] = []
                elif self.err_code(old) != self.err_code(r):
                    self.err_desc[ac] = list(dict.fromkeys(self.err_desc[ac] + ["None"]))
        elif k in ("2B", "C021"):
            known = set(self.all_zones())
            for r in recs:
                z = int(r["group" if self.gen == 4 else "zone"])
                if z not in known:
                    continue
                if r["power"].startswith("other"):
                    raise Unsupported("undefined zone power code")
                self.zone_status[z] = r
        elif k == "FF10":
            r = recs[0]
            ac = int(r["ac"])
            if ac not in set(self.acs()):
                return
            text = r["error_info"]
            opts = [s_hex(text)] if text else ["None", "s"]
            st = self.ac_status.get(ac)
            if st is not None and self.err_code(st) != 0:
                self.err_desc[ac] = opts
            else:
                # no error reported: error_info stays None; whether the text is remembered for a later error is left open
                self.stray[ac] = opts

    @staticmethod
    def err_code(r):
        return 0 if r["error_code"] in ("none", "0") else int(r["error_code"])

    def initialised(self):
        need = {"FF30", "FF11", "TIMER"} | ({"FF12", "2D", "2B"} if self.gen == 4 else {"FF13", "C023", "C021"})
        return need <= self.seen

    # -------------------------------------------------------------------------------------------- expected view
    def view(self):
        v = dict(self.const)
        v["initialised"] = "True" if self.initialised() else "False"
        v["update_available"] = "True" if (self.version and self.version[0]) else "False"
        v["console_versions"] = [s_hex(x) for x in self.version[1]] if self.version else []
        v["air_conditioners"] = {int(a["ac"]): self.view_ac(a) for a in self.ability}
        return v

    def view_ac(self, a):
        g = self.gen
        ac = int(a["ac"])
        st = self.ac_status[ac]
        e = {"ac_id": str(ac), "name": s_hex(a["name"])}
        e["supported_power_controls"] = SetOf(["TOGGLE", "TURN_OFF", "TURN_ON"] + (["SET_TO_AWAY", "SET_TO_SLEEP"] if g == 5 else []))
        e["supported_modes"] = SetOf([n for f, n in MODE_FLAGS if a.get(f) == "true"])
        e["supported_fan_speeds"] = SetOf([n for f, n in FAN_FLAGS if a.get(f) == "true"])
        e["power_state"] = POWER[st["power"]]
        e["selected_mode"] = SELECTED_MODE[st["mode"]]
        e["active_mode"] = ACTIVE_MODE[st["mode"]]
        if st["fan_speed"] == "intelligent_auto":
            e["selected_fan_speed"] = "INTELLIGENT_AUTO"
            e["active_fan_speed"] = FAN_BY_CODE[st["fan_code"] - 8]
        else:
            e["selected_fan_speed"] = e["active_fan_speed"] = FAN[st["fan_speed"]]
        e["current_temperature"] = ANY if st["temperature"] == "none" else t(st["temperature"])
        sp = st["target_setpoint" if g == 4 else "setpoint"]
        e["target_temperature"] = ANY if sp == "none" else t(sp)
        e["target_temperature_resolution"] = "t10" if g == 4 else "t1"
        if g == 4:
            e["min_target_temperature"], e["max_target_temperature"] = t(a["min_setpoint"]), t(a["max_setpoint"])
        else:
            lc, hc, lh, hh = (int(a[x]) for x in ("min_cool_setpoint", "max_cool_setpoint", "min_heat_setpoint", "max_heat_setpoint"))
            if st["mode"] == "heat":
                e["min_target_temperature"], e["max_target_temperature"] = t(lh), t(hh)
            elif st["mode"] == "cool":
                e["min_target_temperature"], e["max_target_temperature"] = t(lc), t(hc)
            elif st["mode"] == "auto":
                # plain AUTO: the unit may heat or cool, so every set-point admissible for either must be admissible - the union
                e["min_target_temperature"], e["max_target_temperature"] = t(min(lc, lh)), t(max(hc, hh))
            else:
                # AUTO_HEAT / AUTO_COOL / DRY / FAN: the statement does not say which range applies; anything inside the union is accepted
                e["min_target_temperature"] = e["max_target_temperature"] = Within(min(lc, lh), max(hc, hh))
                e["_min_le_max"] = True
        spill = st["spill"] == "true"
        bypass = st.get("bypass") == "true"
        e["spill_state"] = OneOf("SPILL", "BYPASS") if (spill and bypass) else "SPILL" if spill else "BYPASS" if bypass else "NONE"
        on, off = self.timers.get(ac, (None, None))
        e["on_timer"] = "None" if on is None else "tm%d:%d" % on
        e["off_timer"] = "None" if off is None else "tm%d:%d" % off
        code = self.err_code(st)
        if code == 0:
            e["error_info"] = "None"
        else:
            e["error_info"] = {"code": str(code), "description": OneOf(*self.err_desc.get(ac, ["None"]))}
        e["zones"] = {z: self.view_zone(z) for z in self.zones_of(a)}
        return e

    def view_zone(self, z):
        g = self.gen
        st = self.zone_status[z]
        e = {"zone_id": str(z), "name": s_hex(self.names[z])}
        turbo = g == 5 or st.get("turbo_support") == "true"
        e["supported_power_states"] = SetOf(["OFF", "ON"] + (["TURBO"] if turbo else []))
        e["power_state"] = st["power"].upper()
        e["control_method"] = "TEMPERATURE" if st["control_method"] == "temperature" else "DAMPER"
        sensor = st["has_sensor"] == "true"
        e["has_temp_sensor"] = "True" if sensor else "False"
        low = st["battery_low" if g == 4 else "low_battery"] == "true"
        # without sensor the docstring says NORMAL while the frame's battery bit may still say low: either is accepted then
        e["sensor_battery_status"] = ("LOW" if sensor else OneOf("NORMAL", "LOW")) if low else "NORMAL"
        if not sensor:
            e["current_temperature"] = "None"
        else:
            e["current_temperature"] = ANY if st["temperature"] == "none" else t(st["temperature"])
        sp = st["target_setpoint" if g == 4 else "setpoint"]
        if sensor:
            e["target_temperature"] = ANY if sp == "none" else t(sp)
        else:
            e["target_temperature"] = OneOf("None") if sp == "none" else OneOf("None", t(sp))
        e["target_temperature_resolution"] = "t10" if g == 4 else "t1"
        e["current_damper_percentage"] = st["open_percentage"]
        e["spill_active"] = "True" if st["spill"] == "true" else "False"
        return e


# ------------------------------------------------------------------------------------------------ VIEW text -> nested dicts
def _split(s):
    """split at top-level commas"""
    out, depth, cur = [], 0, []
    for ch in s:
        if ch in "([":
            depth += 1
        elif ch in ")]":
            depth -= 1
        if ch == "," and depth == 0:
            out.append("".join(cur))
            cur = []
        else:
            cur.append(ch)
    if cur or out:
        out.append("".join(cur))
    return out


def _value(s):
    if s.startswith("[") and s.endswith("]"):
        return [_value(x) for x in _split(s[1:-1])] if s != "[]" else []
    i = s.find("(")
    if i > 0 and s.endswith(")") and s[:i].isidentifier():
        d = {}
        for kv in _split(s[i + 1:-1]):
            k, _, v = kv.partition("=")
            d[k] = _value(v)
        d["_type"] = s[:i]
        return d
    return s


def parse_view(line):
    """`VIEW AirTouch(...)` -> {attr: atom | list | dict}; air_conditioners / zones become {id: dict}; '_dups' lists duplicate ids"""
    if line.startswith("VIEW "):
        line = line[5:]
    v = _value(line)
    v.pop("_type", None)
    dups = []
    acs = {}
    for a in v.get("air_conditioners", []):
        a.pop("_type", None)
        zs = {}
        for z in a.get("zones", []):
            z.pop("_type", None)
            if int(z["zone_id"]) in zs:
                dups.append("zone %s" % z["zone_id"])
            zs[int(z["zone_id"])] = z
        a["zones"] = zs
        if isinstance(a.get("error_info"), dict):
            a["error_info"].pop("_type", None)
        if int(a["ac_id"]) in acs:
            dups.append("ac %s" % a["ac_id"])
        acs[int(a["ac_id"])] = a
    v["air_conditioners"] = acs
    v["_dups"] = dups
    return v


def compare(exp, got):
    """-> list of (path, expected, got) where the view does not show what the reference demands"""
    bad = []
    if got.get("_dups"):
        bad.append(("duplicates", "none", ",".join(got["_dups"])))

    def level(path, e, g, skip):
        for k, ev in e.items():
            if k in skip or k.startswith("_"):
                continue
            if k not in g:
                bad.append((path + k, repr(ev), "<absent>"))
            elif not match(ev, g[k]):
                bad.append((path + k, ev if isinstance(ev, str) else repr(ev), g[k] if isinstance(g[k], str) else repr(g[k])))

    level("at.", exp, got, {"air_conditioners"})
    ea, ga = exp["air_conditioners"], got["air_conditioners"]
    if set(ea) != set(ga):
        bad.append(("at.air_conditioners", sorted(ea), sorted(ga)))
    for ac in sorted(set(ea) & set(ga)):
        level("ac.", ea[ac], ga[ac], {"zones"})
        if ea[ac].get("_min_le_max"):
            lo, hi = ga[ac].get("min_target_temperature", ""), ga[ac].get("max_target_temperature", "")
            try:
                if int(lo[1:]) > int(hi[1:]):
                    bad.append(("ac.min_target_temperature", "<= max", lo + ">" + hi))
            except ValueError:
                pass
        ez, gz = ea[ac]["zones"], ga[ac]["zones"]
        if set(ez) != set(gz):
            bad.append(("ac.zones", sorted(ez), sorted(gz)))
        for z in sorted(set(ez) & set(gz)):
            level("zone.", ez[z], gz[z], set())
    return bad


def scope_views(view):
    """parsed view -> {entity key: comparable text} for change detection (C12): ('at',), ('ac', id) own attributes, ('zone', id)"""
    out = {("at",): repr(sorted((k, repr(v)) for k, v in view.items() if k not in ("air_conditioners", "_dups")))}
    for ac, a in view["air_conditioners"].items():
        out[("ac", ac)] = repr(sorted((k, repr(v)) for k, v in a.items() if k != "zones"))
        for z, zz in a["zones"].items():
            out[("zone", z)] = repr(sorted(zz.items()))
    return out
