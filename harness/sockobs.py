"""Recorded steps -> observable event lines (the text form of Spec.Trace.Ev), and oracle judgement."""

FAULT_PEER = {"garbage", "badcrc", "trunc", "badtext", "badenum", "short"}


def _reorder(evs):
    """`send` purges expired entries before it accepts or rejects: put the apiSend marker after the
    expired-drops that directly follow it in the same step."""
    out = []
    i = 0
    while i < len(evs):
        e = evs[i]
        if e[0] == "apiSend":
            j = i + 1
            while j < len(evs) and evs[j][0] == "qdrop" and evs[j][2] == "expired":
                out.append(evs[j])
                j += 1
            out.append(e)
            i = j
        else:
            out.append(e)
            i += 1
    return out


def observable(result):
    steps = result["steps"]
    rejects = {}
    raised = set()
    for st in steps:
        for e in st["events"]:
            if e[0] == "reject":
                rejects[e[1]] = e[2]
            elif e[0] == "sendRaised":
                raised.add(e[1])
    out = []
    for st in steps:
        for e in _reorder(st["events"]):
            k = e[0]
            if k == "apiSend":
                _, sid, now, exp, retries, ok = e
                if sid in rejects:
                    out.append("reject %d %d %s" % (sid, now, rejects[sid]))
                elif sid in raised:
                    pass
                else:
                    out.append("accept %d %d %d %d %d" % (sid, now, exp, retries, ok))
            elif k in ("reject", "sendRaised", "apiRaised", "apiCancel", "deadwritePartial", "envNet", "lost_ran"):
                pass
            elif k in ("apiOpen", "apiClose", "apiCloseDone", "apiReset", "attempt", "refused", "heal"):
                out.append("%s %d" % (k, e[-1]))
            elif k == "opened":
                out.append("opened %d %d" % (e[1], e[2]))
            elif k == "client_close":
                out.append("clientClose %d %d" % (e[1], e[2]))
            elif k == "lost":
                out.append("lost %d %d" % (e[1], e[-1]))
            elif k in ("peer_reset", "peer_eof"):
                out.append("fault %d" % e[-1])
            elif k == "envPeerSend":
                if e[2] in FAULT_PEER:
                    out.append("fault %d" % e[-1])
            elif k in ("envFailWrites", "envPause"):
                if e[2]:
                    out.append("fault %d" % e[-1])
            elif k == "wire":
                out.append("wire %d %d %d" % (e[1], e[2], e[3]))
            elif k == "deadwrite":
                out.append("deadWrite %d %d %d" % (e[1], e[2], e[3]))
            elif k == "writeFault":
                out.append("writeFault %d %d %d" % (e[1], max(e[2], 0) if e[2] >= 0 else 999999, e[3]))
            elif k == "wireUnknown":
                out.append("wireUnknown %d %d" % (e[1], e[-1]))
            elif k == "notify":
                out.append("notify %d %d" % (e[1], e[2]))
            elif k == "deliver":
                out.append("deliver %d %d %d" % (max(e[1], 0), e[2], e[3]))
            elif k == "qdrop":
                if e[1] >= 0:
                    out.append("qdrop %d %d %s" % (e[1], e[3], e[2]))
            elif k == "probeDelivered":
                out.append("probeDelivered %d %d" % (e[1], e[2]))
            elif k in ("bgException", "readUnexpected", "dropped_write"):
                pass
            else:
                raise ValueError("unmapped harness event %r" % (e,))
    c = result["census"]
    out.append("census %d %d %d %d %d" % (c["t"], len(c["tasks"]), c["timers"], len(c["open_conns"]), len(c["leaked"])))
    return out


def judge_many(ctx, traces, monitors):
    """traces: list of lists of event lines. Returns one dict per trace: monitor -> bool."""
    lines = []
    for tr in traces:
        lines.append("trace-begin")
        lines += ["ev " + l for l in tr]
        lines.append("trace-end " + " ".join(monitors))
    out = ctx.oracle(lines)
    res = []
    i = 0
    for tr in traces:
        seg = out[i:i + len(tr) + 2]
        i += len(tr) + 2
        bad = [j for j, a in enumerate(seg[1:-1]) if a != "ok"]
        if bad:
            raise RuntimeError("oracle could not parse event %r" % tr[bad[0]])
        verdict = {}
        for kv in seg[-1].split():
            k, v = kv.split("=")
            verdict[k] = (v == "1")
        res.append(verdict)
    return res


# ---------------------------------------------------------------------------- trace validation
MODEL_EVENTS = {"apiOpen", "apiClose", "apiCloseDone", "apiReset", "attempt", "refused", "opened", "client_close",
                "lost", "wire", "deadwrite", "writeFault", "notify", "deliver", "qdrop", "apiSend"}
CLS = {"_connect": "connect", "_delay": "delay", "_read": "read", "_api_open": "apiOpen", "_api_close": "apiClose",
       "_api_reset": "apiReset"}


def _snap_words(sn):
    q = ",".join("%d:%d:%d" % (a, b, c) for a, b, c in sn["q"]) or "-"
    return "%d %d %d %s %s" % (sn["open"], sn["conn"], sn["connecting"], "-" if sn["w"] is None else sn["w"], q)


def validation_lines(result):
    """Recorded steps -> driver lines (`vl` environment labels, `vs` task blocks)."""
    steps = result["steps"]
    rejects = {}
    raised = set()
    for st in steps:
        for e in st["events"]:
            if e[0] == "reject":
                rejects[e[1]] = e[2]
            elif e[0] == "sendRaised":
                raised.add(e[1])
    lines = ["vt-begin"]
    now = 0
    hids = {}
    prev_snap = None
    for st in steps:
        name = st["task"]
        coro = name.split(":", 1)[1] if ":" in name else name
        if st["t"] > now:
            now = st["t"]
            lines.append("vl advance %d" % now)
        evs = _reorder(st["events"])
        if name == "-" or coro == "_main":
            for e in evs:
                k = e[0]
                if k == "lost_ran":
                    lines.append("vl envLostRan %d" % e[1])
                elif k == "peer_reset":
                    lines.append("vl envLost %d" % e[1])
                elif k == "envPause":
                    lines.append("vl envPause %d %d" % (e[1], e[2]))
                elif k == "envFailWrites":
                    lines.append("vl envFailWrites %d %d" % (e[1], e[2]))
                elif k == "apiCancel":
                    # ["apiCancel", sid, recorder name of the cancelled task or None, t]: the caller of send(sid) is cancelled ->
                    # label `cancel` of the extended model (Model/SockX.lean), addressed by the task id the `vs` lines of that
                    # caller carry.  A task cancelled before its first block has not called send() at all (the CancelledError
                    # is raised at the start of the coroutine; it has no name / no `vs` line yet): nothing for the model to follow.
                    if e[2] in hids:
                        lines.append("vl cancel %d" % hids[e[2]][0])
            prev_snap = st["snap"]
            continue
        model_evs = []
        cls = CLS.get(coro)
        skip_task = False
        late_labels = []
        for e in evs:
            k = e[0]
            if k == "envFailWrites":
                # a connection born with a failing first write: the environment label follows the block that opened it
                late_labels.append("vl envFailWrites %d %d" % (e[1], e[2]))
            elif k == "envPause":
                late_labels.append("vl envPause %d %d" % (e[1], e[2]))
            elif k == "apiSend":
                _, sid, t0, exp, retries, ok = e
                cls = "apiSend:%d:%d:%d:%d" % (sid, retries, exp - t0, ok)
                if sid in rejects:
                    model_evs.append("reject %d %d %s" % (sid, t0, rejects[sid]))
                elif sid in raised:
                    skip_task = True
                else:
                    model_evs.append("accept %d %d %d %d %d" % (sid, t0, exp, retries, ok))
            elif k in ("apiOpen", "apiClose", "apiCloseDone", "apiReset", "attempt", "refused"):
                model_evs.append("%s %d" % (k, e[-1]))
            elif k == "opened":
                model_evs.append("opened %d %d" % (e[1], e[2]))
            elif k == "client_close":
                model_evs.append("clientClose %d %d" % (e[1], e[2]))
            elif k == "lost":
                model_evs.append("lost %d %d" % (e[1], e[-1]))
            elif k == "wire":
                model_evs.append("wire %d %d %d" % (e[1], e[2], e[3]))
            elif k == "deadwrite":
                model_evs.append("deadWrite %d %d %d" % (e[1], e[2], e[3]))
            elif k == "writeFault":
                model_evs.append("writeFault %d %d %d" % (e[1], e[2] if e[2] >= 0 else 999999, e[3]))
            elif k == "notify":
                model_evs.append("notify %d %d" % (e[1], e[2]))
            elif k == "deliver":
                model_evs.append("deliver %d %d %d" % (max(e[1], 0), e[2], e[3]))
            elif k == "qdrop" and e[1] >= 0:
                model_evs.append("qdrop %d %d %s" % (e[1], e[3], e[2]))
            elif k == "wireUnknown":
                model_evs.append("wireUnknown %d %d" % (e[1], e[-1]))
        if cls is None:
            # later blocks of a task already known as an API send (harness send task, or a subscriber that sends)
            cls = hids.get(name, (None, None))[1]
        if cls is None or skip_task:
            # subscriber bodies and other harness tasks must not touch the socket
            if model_evs and not skip_task:
                lines.append("vs 0 connect 0 0 0 0 - - | wireUnknown 0 0")   # forces a mismatch report
            prev_snap = st["snap"]
            continue
        if name not in hids:
            hids[name] = (len(hids) + 1, cls)
        hid, cls0 = hids[name]
        silent = (not model_evs) and st["snap"] == prev_snap and not (st["done"] and False)
        prev_snap = st["snap"]
        # silent steps are sent too: the validator decides whether one is a model block with no
        # visible effect or a stutter (an asyncio-internal suspension inside one model block)
        lines.append("vs %d %s %d %s | %s" % (hid, cls0, 1 if st["done"] else 0, _snap_words(st["snap"]), " ; ".join(model_evs)))
        lines += late_labels
    lines.append("vt-end")
    return lines
