"""Full-stack harness: the REAL AirTouch4 / AirTouch5 object over the REAL AirTouchSocket on the virtual-clock loop,
talking through the in-memory transport to a scripted console that answers requests like a console does.

Used for the API-level clauses of C15 (shutdown at any instant), and for end-to-end scenarios of C08 / C14.

A *scenario* fixes the console behaviour (installation, answer delay, refusing network for some time, silence from a
handshake step on, client calls issued at given times).  A *moment* says when `shutdown()` is issued: `("event", j, k)` =
k loop passes after the j-th network event of the run, or `("tick", T, k)` = k loop passes after virtual time T.
`run(gen, scenario, moment, reinit)` returns a dict with everything observed after shutdown returned.
"""
import asyncio
import logging
import warnings

import consolesim
import vloop
from apiharness import view_at
from vloop import TICK, ticks


def _payloads(gen, inst):
    """handshake answers keyed by the request they answer: (message id, discriminator) -> payload bytes"""
    ops = consolesim.handshake(gen, inst)[2:]
    keys = ([(0x1F, 0x30), (0x1F, 0x12), (0x1F, 0x11), (0x2D, None), (0x37, None), (0x2B, None)] if gen == 4 else
            [(0x1F, 0x30), (0x1F, 0x13), (0x1F, 0x11), (0xC0, 0x23), (0xC0, 0x33), (0xC0, 0x21)])
    out = {}
    for k, op in zip(keys, ops):
        w = op.split()
        out[k] = (int(w[1], 16), bytes.fromhex(w[2]) if w[2] != "-" else b"")
    if gen == 5 and not inst["zones"]:
        # an AirTouch 5 system without zones answers the zone names / zone status requests by echoing the request (docs/design.md)
        out[(0x1F, 0x13)] = (0x1F, bytes([0xFF, 0x13]))
        out[(0xC0, 0x21)] = (0xC0, bytes([0x21, 0, 0, 0, 0, 0, 0, 0]))
    return out


class Console:
    """answers every complete request frame written by the client on the current connection"""

    def __init__(self, env):
        self.env = env
        self.buf = {}
        self.requests = []        # (tick, cid, key)
        self.answered = 0
        self.beats = 0
        self.outq = {}

    def on_write(self, cid, data):
        env = self.env
        b = self.buf.setdefault(cid, bytearray())
        b.extend(data)
        hd = env.reg.header_decoder
        while len(b) >= hd.header_length:
            try:
                hdr = hd.decode(bytes(b[:hd.header_length])).header
            except Exception:  # noqa: BLE001
                b.clear()
                return
            total = hd.header_length + hdr.message_length + 2
            if len(b) < total:
                return
            payload = bytes(b[hd.header_length:hd.header_length + hdr.message_length])
            del b[:total]
            if hdr.message_id == 0x1F:
                key = (0x1F, payload[1] if len(payload) > 1 else None)
            elif hdr.message_id == 0xC0:
                key = (0xC0, payload[0] if payload else None)
            else:
                key = (hdr.message_id, None)
            self.requests.append((ticks(env.loop.time()), cid, key))
            self.answer(cid, key, payload)

    def dynamic(self, key, req_payload):
        """answers that depend on the console's CURRENT state (scenario keys `ac_state`, `err_text`, changed over time by `changes`)
        -> (message id, payload) or None"""
        env = self.env
        st = env.console_state
        if st is None:
            return None
        gen = env.gen
        if key == ((0x2D, None) if gen == 4 else (0xC0, 0x23)):
            recs = [dict(a) for a in st["acs"]]
            op = consolesim.at4_ac_status(recs) if gen == 4 else consolesim.at5_ac_status([dict(r, setpoint=r.get("setpoint", 22) * 10 - 100) for r in recs])
            w = op.split()
            return int(w[1], 16), bytes.fromhex(w[2])
        if key == (0x1F, 0x10):
            ac = req_payload[2] if len(req_payload) > 2 else 0
            text = st["err_text"].get(ac, b"")
            w = consolesim.err_info(gen, ac, text).split()
            return int(w[1], 16), bytes.fromhex(w[2])
        return None

    def answer(self, cid, key, req_payload=b""):
        env = self.env
        sc = env.scenario
        dyn = self.dynamic(key, req_payload)
        if key not in env.payloads and dyn is None:
            return                                   # a command: a console sends no direct answer here
        n = sum(1 for r in self.requests if r[2] in env.payloads or r[2] == (0x1F, 0x10))
        if sc.get("silent_from") is not None and n > sc["silent_from"]:
            return
        mid, payload = dyn if dyn is not None else env.payloads[key]
        frame = env.frame(mid, payload)
        delay = sc.get("answer_delay", 0)
        conn = env.net.conns[cid]
        is_beat = key == (0x1F, 0x30) and env.hb_started
        if is_beat and getattr(env, "update_requests", 0) > 0:
            # the application's own check_for_updates(): not a heartbeat; this console leaves it unanswered
            env.update_requests -= 1
            env.hb_events.append(("appreq", ticks(env.loop.time())))
            return
        if is_beat:
            env.hb_events.append(("beat", ticks(env.loop.time())))
            pattern = sc.get("version_answers")
            if pattern is not None:
                i = self.beats
                self.beats += 1
                d = pattern[i] if i < len(pattern) else pattern[-1]
                if d is None:
                    return
                delay = d

        extra = sc.get("interleave")
        if extra:
            # frames a console may interleave with its answers: unknown type, unsolicited status, duplicate, foreign-addressed
            pre = []
            for what in extra:
                if what == "unknown":
                    pre.append(env.frame(0x7E, b"\x01\x02\x03"))
                elif what == "duplicate":
                    pre.append(frame)
                elif what == "foreign":
                    pre.append(env.frame(mid, payload, to=0xB7))
                elif what == "unsolicited":
                    k2 = [k for k in env.payloads if k[0] != 0x1F][0]
                    pre.append(env.frame(*env.payloads[k2]))
            frame = b"".join(pre) + frame
        seg = sc.get("segment")

        def deliver():
            if not conn.conn_lost and not conn.eof_sent:
                self.answered += 1
                if is_beat:
                    env.hb_events.append(("resp", ticks(env.loop.time())))
                if not seg:
                    conn.peer_send(frame)
                    return
                # TCP may cut the byte stream anywhere (but never reorders it): the console's output is one queue per
                # connection, delivered in pieces one loop pass apart
                q = self.outq.setdefault(cid, bytearray())
                idle = not q
                q.extend(frame)

                def pump(k=0):
                    if conn.conn_lost or conn.eof_sent:
                        q.clear()
                        return
                    n = seg[k % len(seg)]
                    chunk = bytes(q[:n])
                    del q[:n]
                    conn.peer_send(chunk)
                    if q:
                        env.loop.call_soon(pump, k + 1)
                if idle:
                    pump()
        if delay:
            env.loop.call_later(delay * TICK, deliver)
        else:
            env.loop.call_soon(deliver)


class Env:
    def __init__(self, gen, scenario):
        import pyairtouch.comms.socket as S
        self.gen = gen
        self.scenario = scenario
        self.loop = vloop.VLoop()
        if scenario.get("eager"):
            # applications that run their loop with the eager task factory (Python 3.12): a new task starts running inside create_task()
            self.loop.set_task_factory(asyncio.eager_task_factory)
        self.net = vloop.Net(self.loop)
        self.loop.net = self.net
        self.net.mode = "refuse" if scenario.get("refuse_until") else "accept"
        self.net.latency = scenario.get("latency", 0) * TICK
        if gen == 4:
            import pyairtouch.at4.api as A
            import pyairtouch.at4.comms.registry as R
            import pyairtouch.at4.comms.hdr as HD
            self.Hdr = HD.At4Header
            name = "AirTouch 4"
            cls = A.AirTouch4
        else:
            import pyairtouch.at5.api as A
            import pyairtouch.at5.comms.registry as R
            import pyairtouch.at5.comms.hdr as HD
            self.Hdr = HD.At5Header
            name = "Home"
            cls = A.AirTouch5
        self.S = S
        self.reg = R.INSTANCE
        self.payloads = _payloads(gen, scenario["inst"])
        self.console_state = None
        if scenario.get("ac_state"):
            # a console with memory: AC status and error-information answers are built from its current state
            self.console_state = {"acs": [dict(a) for a in scenario["ac_state"]], "err_text": dict(scenario.get("err_text", {}))}
        self.console = Console(self)
        self.events = []                 # (tick, kind, args) of the network, plus ("pass",) markers are not recorded
        self.moment_hooks = []
        self.net.listeners.append(self._on_net)
        self._orig_open = asyncio.open_connection
        self.sock = S.AirTouchSocket(loop=self.loop, host="console.local", port=9004 if gen == 4 else 9005, registry=R.INSTANCE)
        self.notifications = []

        self.mutated = []                # bytes handed to a congested transport that changed before they could leave it
        self.call_log = []               # (tick, call, "called" | "timed-out") of the scripted application calls
        self.callbacks = []              # (tick, which) of every application callback invoked by the client
        self.in_callback = None          # hook: coroutine function run INSIDE callback number n (shutdown requested from a subscriber)

        async def on_conn(*, connected):
            self.notifications.append((ticks(self.loop.time()), connected))
            if self.hb_started:
                self.hb_events.append(("conn", 1 if connected else 0, ticks(self.loop.time())))
            await self.callback("conn:%d" % connected)
        self.sock.subscribe_on_connection_changed(on_conn)
        self.at = cls(self.loop, "at-id-1", "serial-1", name, self.sock)
        self._subscribed = set()

        async def on_system(_id):
            self.subscribe_objects()
            await self.callback("system")
        self.at.subscribe(on_system)
        # heartbeat observation (C08 at API level): start/stop of the manager and the resets IT asks for
        self.hb_started = False
        self.hb_events = []
        hb = self.at._heartbeat_manager
        env = self
        orig_start, orig_stop = hb.start, hb.stop

        async def start():
            await orig_start()
            if not env.hb_started:
                env.hb_started = True
                env.hb_events.append(("start", ticks(env.loop.time())))
                env.hb_events.append(("conn", 1 if env.sock.is_connected else 0, ticks(env.loop.time())))

        async def stop():
            if env.hb_started:
                env.hb_started = False
                env.hb_events.append(("stop", ticks(env.loop.time())))
            await orig_stop()
        hb.start, hb.stop = start, stop

        class SocketSeenByHeartbeat:
            def __getattr__(self, name):
                return getattr(env.sock, name)

            async def reset_connection(self):
                env.hb_events.append(("reset", ticks(env.loop.time())))
                await env.sock.reset_connection()
                env.hb_events.append(("resetDone", ticks(env.loop.time())))
        hb._socket = SocketSeenByHeartbeat()

    async def callback(self, which):
        n = len(self.callbacks)
        self.callbacks.append((ticks(self.loop.time()), which))
        if self.scenario.get("callback_delay") and which.split(":")[0] in self.scenario.get("callback_delay_kinds", ("conn", "ac", "zone", "system")):
            await asyncio.sleep(self.scenario["callback_delay"] * TICK)      # an application whose callbacks take their time (I/O of their own)
        if self.in_callback is not None:
            await self.in_callback(n, which)
        nested = self.scenario.get("callback_calls", {}).get(n)
        if nested is not None:
            await _call(self, nested)           # an application reacting to news with a control call from inside its callback

    def subscribe_objects(self):
        """an application subscribes to every AC and zone once they exist"""
        for ac in self.at.air_conditioners:
            if id(ac) not in self._subscribed:
                self._subscribed.add(id(ac))

                async def on_ac(ac_id):
                    await self.callback("ac:%d" % ac_id)
                ac.subscribe(on_ac)
                for z in ac.zones:
                    async def on_zone(zone_id):
                        await self.callback("zone:%d" % zone_id)
                    z.subscribe(on_zone)

    def frame(self, mid, payload, to=0xB0):
        hdr = self.Hdr(to, 0x90 if mid == 0x1F else 0x80, 1, mid, len(payload))
        eh = self.reg.header_encoder.encode(hdr)
        return bytes(eh.header_bytes) + payload + bytes(self.reg.checksum_calculator.calculate(eh.checksum_data + payload))

    def _on_net(self, e):
        kind = e[0]
        if kind in ("attempt", "opened", "refused", "write", "client_close", "lost", "write_fault", "dropped_write"):
            self.events.append((e[1], kind) + tuple(x if not isinstance(x, (bytes, bytearray)) else len(x) for x in e[2:]))
            for hook in list(self.moment_hooks):
                hook(len(self.events) - 1)
            if self.scenario.get("subscribe_early"):
                # an application that subscribes to ACs and zones as soon as the object lists them (they are visible during the handshake)
                self.subscribe_objects()
        if kind == "mutated":
            self.mutated.append((e[1], e[2], e[3].hex(), e[4].hex()))
        if kind == "write":
            self.console.on_write(e[2], e[3])


async def _passes(k):
    for _ in range(k):
        await asyncio.sleep(0)


def run(gen, scenario, moment=None, reinit=False, idle=8000):
    """-> observation dict.  moment None = baseline run (no shutdown) up to scenario['horizon'] ticks."""
    warnings.simplefilter("ignore")
    logging.getLogger("pyairtouch").addHandler(logging.NullHandler())
    logging.getLogger("pyairtouch").propagate = False
    logging.getLogger("asyncio").setLevel(logging.CRITICAL)
    # the socket has branches that depend on the log level: debug logging is on in half of the runs
    import zlib
    h_ = zlib.crc32(repr((gen, moment, sorted((k, str(v)) for k, v in scenario.items() if k != "inst"))).encode())
    dbg = h_ & 1
    logging.getLogger("pyairtouch.comms.socket").setLevel(logging.DEBUG if dbg else logging.WARNING)
    env = Env(gen, scenario)
    env.net.kind_offset = (h_ >> 3) % 6          # which kind of failure a refused connection attempt meets first
    loop = env.loop
    loop.max_passes = 3_000_000
    obs = {"gen": gen, "moment": moment, "idle": idle}

    async def patched_open(host, port, **kw):
        return await env._orig_open(host, port, **kw)

    async def main():
        at = env.at
        init_task = loop.create_task(at.init())
        init_task.add_done_callback(lambda t: obs.__setitem__("init_done_at", ticks(loop.time())))
        init_task.add_done_callback(lambda t: env.subscribe_objects())
        trigger = loop.create_future()
        if scenario.get("refuse_until"):
            loop.call_later(scenario["refuse_until"] * TICK, lambda: setattr(env.net, "mode", "accept"))
        for (t, call) in scenario.get("calls", []):
            loop.call_later(t * TICK, lambda c=call: loop.create_task(_call(env, c)))
        for (t, what) in scenario.get("faults", []):
            loop.call_later(t * TICK, lambda w=what: _fault(env, w))
        for (t, ac, code, text) in scenario.get("changes", []):
            def change(ac=ac, code=code, text=text):
                for a in env.console_state["acs"]:
                    if a["id"] == ac:
                        a["err"] = code
                env.console_state["err_text"][ac] = text
            loop.call_later(t * TICK, change)
        for t in scenario.get("pushes", []):
            # the console pushes its current AC status (as consoles do when something changed)
            def push():
                c = env.net.conns[-1] if env.net.conns else None
                dyn = env.console.dynamic((0x2D, None) if gen == 4 else (0xC0, 0x23), b"")
                if c is not None and not c.conn_lost and not c.eof_sent and dyn is not None:
                    c.peer_send(env.frame(*dyn))
            loop.call_later(t * TICK, push)
        if scenario.get("chatter"):
            # unsolicited traffic (names, abilities, AC status, timer status, zone/group status in turn): not heartbeat responses
            keys = [k for k in env.payloads if k != (0x1F, 0x30)]
            period = scenario["chatter"]

            def chatter(i=0):
                c = env.net.conns[-1] if env.net.conns else None
                if c is not None and not c.conn_lost and not c.eof_sent and env.hb_started:
                    mid, payload = env.payloads[keys[i % len(keys)]]
                    c.peer_send(env.frame(mid, payload))
                loop.call_later(period * TICK, chatter, i + 1)
            loop.call_later(period * TICK, chatter)
        if moment is None:
            await asyncio.sleep(scenario.get("horizon", 200) * TICK)
            obs["baseline_events"] = len(env.events)
            obs["baseline_callbacks"] = list(env.callbacks)
            obs["call_log"] = list(env.call_log)
            obs["requests"] = list(env.console.requests)
            obs["init_done"] = init_task.done()
            obs["init_raised"] = (type(init_task.exception()).__name__ if init_task.done() and not init_task.cancelled() and init_task.exception() else None)
            obs["init_result"] = init_task.result() if init_task.done() and not init_task.cancelled() and not init_task.exception() else None
            obs["view"] = view_at(at)
            obs["event_log"] = list(env.events)
            obs["hb_events"] = list(env.hb_events) + [("stop", ticks(loop.time()))]
            init_task.cancel()
            try:
                await at.shutdown()
            except Exception:  # noqa: BLE001
                pass
            return
        kind, j, k = moment
        if kind == "callback":
            # shutdown() is requested by the application from INSIDE its j-th callback (k loop passes into it)
            async def inside(n, which):
                if n != j:
                    return
                env.in_callback = None
                obs["callback"] = which
                await _passes(k)
                obs["state_before"] = getattr(getattr(at, "_state", None), "name", None)
                obs["inner_shutdown"] = "pending"
                try:
                    await at.shutdown()
                    obs["inner_shutdown"] = "returned"
                except BaseException as e:  # noqa: BLE001
                    obs["inner_shutdown"] = type(e).__name__
                    raise
                finally:
                    if not trigger.done():
                        trigger.set_result(None)
            env.in_callback = inside
        elif kind == "event":
            def hook(idx):
                if idx == j and not trigger.done():
                    trigger.set_result(None)
            env.moment_hooks.append(hook)
            if j < 0:
                trigger.set_result(None)
        else:
            loop.call_later(j * TICK, lambda: trigger.done() or trigger.set_result(None))
        try:
            await asyncio.wait_for(trigger, (scenario.get("horizon", 200) + 50) * TICK)
        except asyncio.TimeoutError:
            obs["moment_not_reached"] = True
        if kind != "callback":
            await _passes(k)
            obs["state_before"] = getattr(getattr(at, "_state", None), "name", None)
        obs["t_shutdown"] = ticks(loop.time())
        try:
            # (after a shutdown from inside a callback this is a second, idempotent request from outside)
            await asyncio.wait_for(at.shutdown(), 2000 * TICK)
            obs["shutdown_raised"] = None
        except BaseException as e:  # noqa: BLE001
            obs["shutdown_raised"] = type(e).__name__
        n_events = len(env.events)
        n_notif = len(env.notifications)
        obs["t_returned"] = ticks(loop.time())
        me0 = asyncio.current_task()
        obs["tasks_at_return"] = sorted(getattr(t.get_coro(), "__qualname__", str(t.get_coro())) for t in asyncio.all_tasks(loop)
                                        if t is not me0 and not t.done() and t is not init_task)
        await asyncio.sleep(idle * TICK)
        me = asyncio.current_task()
        alive = [t for t in asyncio.all_tasks(loop) if t is not me and not t.done() and t is not init_task]
        obs["tasks_alive"] = sorted(getattr(t.get_coro(), "__qualname__", str(t.get_coro())) for t in alive)
        obs["timers"] = len(loop.pending_timers())
        obs["after_events"] = [e for e in env.events[n_events:] if e[1] in ("attempt", "opened", "write", "write_fault", "dropped_write")]
        obs["after_connected_notifications"] = [n for n in env.notifications[n_notif:] if n[1]]
        obs["open_conns"] = [c.cid for c in env.net.conns if not c.closing]
        obs["initialised_after"] = bool(at.initialised)
        obs["model_after"] = len(list(at.air_conditioners))
        obs["init_task_done"] = init_task.done()
        if init_task.done() and not init_task.cancelled():
            obs["init_exception"] = type(init_task.exception()).__name__ if init_task.exception() else None
        try:
            await at.check_for_updates()
            obs["send_after"] = "accepted"
        except env.S.NotOpenError:
            obs["send_after"] = "NotOpenError"
        except Exception as e:  # noqa: BLE001
            obs["send_after"] = type(e).__name__
        obs["unhandled"] = [str(c.get("message")) + ":" + type(c.get("exception")).__name__ for c in loop.unhandled]
        if reinit:
            env.net.mode = "accept"
            if "reinit_latency" in scenario:
                env.net.latency = scenario["reinit_latency"] * TICK
            scenario2 = dict(scenario)
            scenario2.pop("silent_from", None)
            env.scenario = scenario2
            n0 = len(env.console.requests)
            try:
                r = await asyncio.wait_for(at.init(), 100 * TICK)
            except Exception as e:  # noqa: BLE001
                r = type(e).__name__
            obs["reinit_result"] = r
            obs["reinit_view"] = view_at(at)
            await asyncio.sleep(2500 * TICK)         # past one heartbeat interval
            obs["reinit_view_late"] = view_at(at)
            obs["reinit_requests"] = [q[2] for q in env.console.requests[n0:n0 + 12]]
            obs["reinit_heartbeats"] = sum(1 for q in env.console.requests[n0:] if q[2] == (0x1F, 0x30))
            # AirTouch 4: the console pushes no group status in these scenarios, so the 300 s silence poll is due once in the 312 s
            # (one request belongs to the handshake)
            obs["reinit_group_requests"] = sum(1 for q in env.console.requests[n0:] if q[2] == (0x2B, None))
            try:
                await at.shutdown()
                obs["second_shutdown_raised"] = None
            except BaseException as e:  # noqa: BLE001
                obs["second_shutdown_raised"] = type(e).__name__
            await asyncio.sleep(idle * TICK)
            alive = [t for t in asyncio.all_tasks(loop) if t is not me and not t.done() and t is not init_task]
            obs["tasks_alive_2"] = sorted(getattr(t.get_coro(), "__qualname__", str(t.get_coro())) for t in alive)
            obs["timers_2"] = len(loop.pending_timers())
            obs["open_conns_2"] = [c.cid for c in env.net.conns if not c.closing]
        for t in asyncio.all_tasks(loop):
            if t is not me:
                try:
                    t.cancel()
                except RecursionError:        # a wait cycle among the client's tasks (recorded above as tasks left alive)
                    pass
        for _ in range(4):
            await asyncio.sleep(0)

    asyncio.set_event_loop(loop)
    try:
        loop.run_until_complete(main())
    finally:
        asyncio.set_event_loop(None)
        loop.close()
    return obs


async def _call(env, call):
    import pyairtouch.api as api
    if isinstance(call, tuple) and call[0] == "timeout":
        # the application bounds its call with a timeout (asyncio.wait_for cancels the call when it expires)
        _, inner, limit = call
        try:
            await asyncio.wait_for(_call(env, inner), limit * TICK)
        except asyncio.TimeoutError:
            env.call_log.append((ticks(env.loop.time()), inner, "timed-out"))
        return
    try:
        acs = list(env.at.air_conditioners)
        if not acs:
            return
        env.call_log.append((ticks(env.loop.time()), call, "called"))
        if call == "power":
            await acs[0].set_power(api.AcPowerControl.TURN_ON)
        elif call == "toggle":
            await acs[0].set_power(api.AcPowerControl.TOGGLE)
        elif call == "updates":
            env.update_requests = getattr(env, "update_requests", 0) + 1
            await env.at.check_for_updates()
        elif call == "zone":
            zs = list(acs[0].zones)
            if zs:
                await zs[0].set_power(api.ZonePowerState.OFF)
    except Exception:  # noqa: BLE001
        pass


def _fault(env, what):
    if what == "refuse":
        env.net.mode = "refuse"
        return
    if what == "accept":
        env.net.mode = "accept"
        return
    if what == "failnext":         # the next connection (only that one) is half-open: its first write fails
        env.net.fail_first_write = env.net.fail_first_once = True
        return
    c = env.net.conns[-1] if env.net.conns else None
    if c is None or c.conn_lost:
        return
    if what == "failw":            # the path is gone but nothing has told the client yet: its next write fails
        c.fail_writes = True
        return
    if what == "block":            # the link is congested: the transport asks the client to pause writing
        c.block_writes()
        return
    if what == "blockreset":            # the link is congested: the transport asks the client to pause writing
        c.block_writes()
        c.reset_on_close = True      # ... and the far end answers the client's close with a reset
        return
    if what == "unblock":
        c.unblock_writes()
        return
    if what == "eof":
        c.peer_eof()
    elif what == "reset":
        c.peer_reset()
    elif what == "timeout":
        c.peer_reset(2)          # the path is gone: recv() fails with ETIMEDOUT
    elif what == "unreach":
        c.peer_reset(3)          # ... or EHOSTUNREACH (OSErrors outside the ConnectionError family)
    elif what == "refuse":
        env.net.mode = "refuse"
    elif what == "accept":
        env.net.mode = "accept"
    elif what == "garbage":
        c.peer_send(bytes([0x13, 0x37] * 16))


INST = dict(acs=[dict(id=0, modes=0x1F, fans=0x7F, lo=16, hi=30, zones=[0, 1], mode=4)],
            zones={0: dict(sensor=True, ctrl=1), 1: dict(sensor=False)})
INST0 = dict(acs=[dict(id=0, modes=0x1F, fans=0x7F, lo=16, hi=30, zones=[], mode=4)], zones={})      # AirTouch 5 only: no zones at all

SCENARIOS = {
    "plain": dict(inst=INST, horizon=120),
    "slow_console": dict(inst=INST, answer_delay=3, horizon=160),
    "latency": dict(inst=INST, latency=5, answer_delay=1, horizon=160),
    "backoff": dict(inst=INST, refuse_until=40, horizon=200),
    "silent3": dict(inst=INST, silent_from=3, horizon=120),
    "silent0": dict(inst=INST, silent_from=0, horizon=120),
    "pending": dict(inst=INST, horizon=260, calls=[(60, "power"), (100, "toggle"), (101, "zone")], faults=[(90, "refuse"), (95, "eof"), (150, "accept")]),
    "pending_timeout": dict(inst=INST, horizon=260, calls=[(60, "power"), (100, "toggle"), (101, "zone")], faults=[(90, "refuse"), (95, "timeout"), (150, "accept")]),
    "lost_unreach": dict(inst=INST, horizon=200, calls=[(70, "zone")], faults=[(64, "unreach")]),
    # the send queue is filled to its capacity during an outage that spans the AirTouch 4 group-status poll / a heartbeat instant
    "pending10": dict(inst=INST, horizon=2700, faults=[(2340, "refuse"), (2345, "eof")],
                      calls=[(2350 + 3 * i, ["power", "zone", "toggle"][i % 3]) for i in range(10)]),
    "heartbeat": dict(inst=INST, horizon=2700),
    # a console with memory that pushes its AC status when something changes, and one lost connection: application callbacks of every kind
    "callbacks": dict(inst=INST, horizon=260, ac_state=[dict(id=0, power=1, mode=4, fan=0, setpoint=22, temp=235, err=0)], err_text={0: b""},
                      changes=[(60, 0, 5, b"ER05 compressor"), (75, 0, 0, b""), (150, 0, 7, b"ER07 fan locked")], pushes=[61, 76, 151],
                      faults=[(100, "eof")], calls=[(170, "zone")]),
    "dead_link": dict(inst=INST, horizon=5600, silent_from=8),
}


if __name__ == "__main__":
    import json
    import sys
    sys.path.insert(0, "/repo")
    g = int(sys.argv[1]) if len(sys.argv) > 1 else 5
    sc = SCENARIOS[sys.argv[2] if len(sys.argv) > 2 else "plain"]
    base = run(g, sc)
    print(json.dumps({k: v for k, v in base.items() if k != "event_log"}, indent=1)[:1500])
    for e in base["event_log"][:60]:
        print(e)
