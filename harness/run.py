#!/venv/bin/python
"""./check <Cxx> [--tier quick|thorough] [--replay FILE]   |   ./check --setup

One check = regenerate Gen from /repo, build oracle / driver / the property's theorems, audit
axioms, run the correspondence + oracle pass of the property, triage, write evidence.
"""
import argparse
import multiprocessing
import importlib
import json
import os
import sys
import time
import traceback

HERE = os.path.dirname(os.path.abspath(__file__))
sys.path.insert(0, HERE)
import core  # noqa: E402
from core import Ctx, Infra, BuildLock  # noqa: E402

sys.path.insert(0, core.REPO)
if os.environ.get("VERIF_COV_DIR"):      # diagnostic only: which lines of the package do the checks execute
    import covtrace  # noqa: E402
    covtrace.install(core.REPO)


def load_prop(pid):
    return importlib.import_module("props." + pid.lower())


def setup():
    t0 = time.time()
    ctx = Ctx("C00", "quick", 0)
    with BuildLock():
        if not ctx.regen():
            print("setup: translator reported:", ctx.broken)
            return 2
        ok, log = ctx.lake([], timeout=7000)
        print(log[-3000:])
        if not ok:
            return 2
    print("setup done in %.1fs" % (time.time() - t0))
    return 0


def finish(ctx, mod):
    """Triage and exit status (DESIGN.md section 4)."""
    findings, _ = core.load_known()
    known = {f["key"]: f for f in findings if f["property"] == ctx.prop}
    real = []
    seen_known = {}
    for v in ctx.violations:
        if v["key"] in known:
            seen_known[v["key"]] = known[v["key"]]
        else:
            real.append(v)
    for k, f in seen_known.items():
        print("KNOWN-FINDING: property=%s %s (key=%s)" % (ctx.prop, f["text"], k))
    status = 0
    reported = set()
    for v in real:
        if v["key"] in reported:
            continue
        reported.add(v["key"])
        path = core.write_replay(ctx, dict(v, property=ctx.prop, kind=v.get("kind", "input"), seed=ctx.seed, tier=ctx.tier))
        print("VIOLATION property=%s replay=%s" % (ctx.prop, path))
        print("  " + v["what"])
        status = 1
    if not real and ctx.broken:
        b = ctx.broken[0]
        path = core.write_replay(ctx, {
            "property": ctx.prop, "kind": "obligation", "seed": ctx.seed, "tier": ctx.tier,
            "what": b["name"], "detail": b["detail"], "all_broken": ctx.broken,
            "note": "the theorem / correspondence named here no longer checks against /repo's current source; "
                    "the search over the implementation (oracle-judged) found no concrete failing input",
        })
        print("VIOLATION property=%s replay=%s no-failing-input-found" % (ctx.prop, path))
        print("  broken: %s: %s" % (b["name"], b["detail"]))
        status = 1
    level = getattr(mod, "LEVEL", "proof")
    core.write_evidence(ctx, level, len(real) + (1 if (not real and ctx.broken) else 0))
    return status


def run_check(pid, tier, seed, replay):
    mod = load_prop(pid)
    ctx = Ctx(pid, tier, seed)
    if replay:
        data = json.load(open(replay))
        return mod.replay(ctx, data)
    prop_modules = mod.LEAN_MODULES
    with BuildLock():
        regen_ok = ctx.regen()
        if regen_ok:
            ctx.build(prop_modules)
        else:
            # Gen may be stale or partial: still try to have oracle available for the search
            ok, log = ctx.lake(["oracle"])
            ctx.oracle_ok = ok
        ctx.audit(prop_modules)
        if tier == "thorough" and ctx.props_ok:
            ctx.leanchecker(prop_modules)
    ctx.log("lean: props_ok=%s driver_ok=%s obligations=%d discharged=%d" % (
        ctx.props_ok, ctx.driver_ok, ctx.obligations, ctx.discharged))
    # correspondence + oracle pass
    mod.run(ctx)
    if ctx.broken and not ctx.violations and hasattr(mod, "search"):
        ctx.log("tie broken (%s); searching the implementation for a concrete failing input" % ctx.broken[0]["name"])
        mod.search(ctx)
    return finish(ctx, mod)


def main():
    ap = argparse.ArgumentParser()
    ap.add_argument("prop", nargs="?")
    ap.add_argument("--tier", default=os.environ.get("VERIF_TIER", "quick"), choices=["quick", "thorough"])
    ap.add_argument("--replay")
    ap.add_argument("--setup", action="store_true")
    a = ap.parse_args()
    if a.setup:
        return setup()
    seed = int(os.environ.get("VERIF_SEED", "0") or 0)
    # a check must terminate: a worker that died or a run that never ends is an infrastructure failure (exit 2), not a verdict
    import signal
    limit = int(os.environ.get("VERIF_TIMEOUT", "0") or 0) or (14400 if a.tier == "thorough" else 3600)

    def on_alarm(signum, frame):
        print("INFRA-FAILURE %s: the check did not finish within %d s" % (a.prop, limit), flush=True)
        for child in multiprocessing.active_children():
            child.terminate()
        os._exit(2)
    signal.signal(signal.SIGALRM, on_alarm)
    signal.alarm(limit)
    try:
        return run_check(a.prop, a.tier, seed, a.replay)
    except Infra as e:
        print("INFRA-FAILURE %s: %s" % (a.prop, e))
        return 2
    except Exception:
        traceback.print_exc()
        print("INFRA-FAILURE %s: unexpected exception in the check runner" % a.prop)
        return 2


if __name__ == "__main__":
    sys.exit(main())
