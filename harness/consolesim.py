"""A scripted console for the API-level checks: builds, byte by byte from the vendor documents' layouts (not with the
package's encoders), the op lines (`harness/apiharness.py` language) that bring a real AirTouch4 / AirTouch5 object to the
initialised state for a described installation.

Installation description (both generations):
  acs:   list of dicts  {id, modes (5-bit mask AUTO,HEAT,DRY,FAN,COOL = bits 0..4), fans (mask), lo, hi, [lo_heat, hi_heat],
                         zones: [zone numbers], mode: current mode code, power: code, fan: code, setpoint: degC}
  zones: dict zone number -> {sensor: bool, turbo: bool (AT4 only), power: code, ctrl: 0|1, damper, setpoint}
"""


def hx(b):
    return bytes(b).hex() or "-"


def msg(mid, payload):
    return "msg %02x %s" % (mid, hx(payload))


def zone_name(inst, z):
    """optional `name` (str) in the zone description; default Z<number>"""
    return inst["zones"][z].get("name", "Z%d" % z).encode()


def names_order(inst):
    """the order in which the names answer lists the zones / groups: every entry carries its own number, so any order describes the
    same installation (optional `names_order` in the installation; default ascending)"""
    order = inst.get("names_order")
    if not order:
        return sorted(inst["zones"])
    return [z for z in order if z in inst["zones"]] + [z for z in sorted(inst["zones"]) if z not in order]


def ac_name(a):
    return a.get("name", "AC%d" % a["id"]).encode()


# ------------------------------------------------------------------------------------------------ AirTouch 4
def at4_handshake(inst):
    ops = ["init", "conn 1"]
    text = inst.get("version", "1.2.3").encode()
    ops.append(msg(0x1F, bytes([0xFF, 0x30, inst.get("update", 0), len(text)]) + text))
    body = b""
    for z in names_order(inst):
        body += bytes([z]) + zone_name(inst, z)[:8].ljust(8, b"\0")
    ops.append(msg(0x1F, bytes([0xFF, 0x12]) + body))
    body = b""
    for a in inst["acs"]:
        bitmap = sum(1 << z for z in a["zones"])
        if inst.get("fmt") == "old":
            # consoles before the group bitmap was introduced: 22 bytes follow, the AC's groups are start .. start+count-1
            body += (bytes([a["id"], 22]) + ac_name(a)[:16].ljust(16, b"\0") + bytes([a["start"], a["count"], a["modes"], a["fans"], a["lo"], a["hi"]]))
            continue
        body += (bytes([a["id"], 24]) + ac_name(a)[:16].ljust(16, b"\0")
                 + bytes([a.get("start", 0), a.get("count", 0), a["modes"], a["fans"], a["lo"], a["hi"], bitmap & 0xFF, bitmap >> 8]))
    ops.append(msg(0x1F, bytes([0xFF, 0x11]) + body))
    body = b""
    for a in inst["acs"]:
        t = ((235 + 500) << 5) & 0xFFFF
        body += bytes([(a.get("power", 1) << 6) | a["id"], (a.get("mode", 4) << 4) | a.get("fan", 0), a.get("setpoint", 22) & 0x3F,
                       0, t >> 8, t & 0xFF, a.get("err", 0) >> 8, a.get("err", 0) & 255])
    ops.append(msg(0x2D, body))
    ops += start_errors(4, inst)
    ops.append(msg(0x37, b"".join(bytes([0x80, 0, 0x80, 0, 0, 0, 0, 0]) for _ in range(4))))
    body = b""
    for z in sorted(inst["zones"]):
        d = inst["zones"][z]
        t = (((225 + 500) << 5) & 0xFFE0) if d.get("sensor") and not d.get("no_reading") else 0xFF00
        body += bytes([(d.get("power", 1) << 6) | z, (d.get("ctrl", 0) << 7) | d.get("damper", 50),
                       (0x40 if d.get("turbo") else 0) | (d.get("setpoint", 22) & 0x3F), 0x80 if d.get("sensor") else 0, t >> 8, t & 0xFF])
    ops.append(msg(0x2B, body))
    return ops


# ------------------------------------------------------------------------------------------------ AirTouch 5
def cs(sub, rl, recs):
    body = b"".join(bytes(r) for r in recs)
    return msg(0xC0, bytes([sub, 0, 0, 0, rl >> 8, rl & 255, len(recs) >> 8, len(recs) & 255]) + body)


def at5_handshake(inst):
    ops = ["init", "conn 1"]
    text = inst.get("version", "1.2.3").encode()
    ops.append(msg(0x1F, bytes([0xFF, 0x30, inst.get("update", 0), len(text)]) + text))
    body = b""
    for z in names_order(inst):
        n = zone_name(inst, z)
        body += bytes([z, len(n)]) + n
    ops.append(msg(0x1F, bytes([0xFF, 0x13]) + body))
    body = b""
    for a in inst["acs"]:
        zs = a["zones"]
        body += (bytes([a["id"], 24]) + ac_name(a)[:16].ljust(16, b"\0")
                 + bytes([min(zs) if zs else 0, len(zs), a["modes"], a["fans"], a["lo"], a["hi"], a.get("lo_heat", a["lo"]), a.get("hi_heat", a["hi"])]))
    ops.append(msg(0x1F, bytes([0xFF, 0x11]) + body))
    ops.append(cs(0x23, 10, [[(a.get("power", 1) << 4) | a["id"], (a.get("mode", 4) << 4) | a.get("fan", 0),
                              a.get("setpoint", 22) * 10 - 100, 0, (735 >> 8), 735 & 255, a.get("err", 0) >> 8, a.get("err", 0) & 255, 0, 0] for a in inst["acs"]]))
    ops += start_errors(5, inst)
    ops.append(cs(0x33, 9, [[a["id"], 0x80, 0, 0x80, 0, 0, 0, 0, 0] for a in inst["acs"]]))
    recs = []
    for z in sorted(inst["zones"]):
        d = inst["zones"][z]
        recs.append([(d.get("power", 1) << 6) | z, (d.get("ctrl", 0) << 7) | d.get("damper", 50), d.get("setpoint", 22) * 10 - 100,
                     0x80 if d.get("sensor") else 0, (725 >> 8) if d.get("sensor") and not d.get("no_reading") else 0xFF,
                     (725 & 255) if d.get("sensor") and not d.get("no_reading") else 0xFF, 0, 0])
    ops.append(cs(0x21, 8, recs))
    return ops


def start_errors(gen, inst):
    """an AC that is ALREADY in error when the client connects: the client asks for the error text at once and the console answers at
    once - in the middle of the handshake"""
    return [msg(0x1F, bytes([0xFF, 0x10, a["id"], len(a.get("err_text", b""))]) + bytes(a.get("err_text", b""))) for a in inst["acs"] if a.get("err")]


def handshake(gen, inst):
    return at4_handshake(inst) if gen == 4 else at5_handshake(inst)


def installs(gen, thorough=False):
    """a small family covering: AC numbers at both ends, zone numbers 0..15, full and restricted abilities, limits"""
    top = 3 if gen == 4 else 15      # AC numbers: AT4 0..3, AT5 0..15 (four bits in status and control records)
    full_fans = 0x7F if gen == 4 else 0xFF
    out = [
        dict(acs=[dict(id=0, modes=0x1F, fans=full_fans, lo=16, hi=30, zones=list(range(0, 16)), mode=4)],
             # (zones 2, 8, 14: a wireless sensor that has lost contact - the sensor flag is set, the reading is "not available")
             zones={z: dict(sensor=(z % 2 == 0), turbo=(z % 4 == 0), ctrl=(1 if z % 2 == 0 else 0), no_reading=(z % 6 == 2)) for z in range(16)}),
        dict(acs=[dict(id=0, modes=0x1F, fans=full_fans, lo=17, hi=28, lo_heat=15, hi_heat=31, zones=[0, 1], mode=1),
                  dict(id=top, modes=0x13, fans=0x0E, lo=18, hi=25, zones=[14, 15], mode=4)],
             zones={0: dict(sensor=True, ctrl=1), 1: dict(sensor=False), 14: dict(sensor=True, turbo=True, ctrl=1), 15: dict(sensor=True, ctrl=0)}),
    ]
    if thorough:
        out.append(dict(acs=[dict(id=i, modes=0x1F, fans=full_fans, lo=16 + i, hi=30 - i, zones=[4 * i + k for k in range(4)], mode=(0 if i % 2 else 4))
                             for i in range(4)],
                        zones={z: dict(sensor=True, ctrl=1) for z in range(16)}))
        out.append(dict(acs=[dict(id=1, modes=0x1F, fans=full_fans, lo=0 if gen == 4 else 10, hi=63 if gen == 4 else 35, zones=[9], mode=4)], zones={9: dict(sensor=True, ctrl=1)}))
    return out


# ================================================================================================ status frames after the handshake
# (added for C10 / C12; byte by byte from the vendor layouts; every field is a raw code so that each defined value can be produced)
def temp_raw(tenths):
    """the 11-bit temperature VALUE of both generations: (VALUE - 500) / 10 degC; None = not available"""
    return None if tenths is None else tenths + 500


def at4_ac_status(recs):
    """0x2D; rec: id power mode fan spill timer setpoint(whole degC 0..63) temp(tenths | None) err"""
    body = b""
    for r in recs:
        v = temp_raw(r.get("temp", 235))
        b5, b6 = (0xFF, 0) if v is None else (v >> 3, (v & 7) << 5)
        body += bytes([(r.get("power", 1) << 6) | r["id"], (r.get("mode", 4) << 4) | r.get("fan", 0),
                       (r.get("spill", 0) << 7) | (r.get("timer", 0) << 6) | (r.get("setpoint", 22) & 0x3F), 0, b5, b6,
                       r.get("err", 0) >> 8, r.get("err", 0) & 255])
    return msg(0x2D, body)


def at4_group_status(recs):
    """0x2B; rec: id power ctrl damper batt turbo setpoint(whole degC) sensor temp(tenths | None) spill"""
    body = b""
    for r in recs:
        v = temp_raw(r.get("temp", 225))
        b5, b6 = (0xFF, 0) if v is None else (v >> 3, (v & 7) << 5)
        body += bytes([(r.get("power", 1) << 6) | r["id"], (r.get("ctrl", 0) << 7) | r.get("damper", 50),
                       (r.get("batt", 0) << 7) | (r.get("turbo", 0) << 6) | (r.get("setpoint", 22) & 0x3F),
                       r.get("sensor", 0) << 7, b5, b6 | (r.get("spill", 0) << 4)])
    return msg(0x2B, body)


def timer_bytes(t):
    """t = None (disabled) | (hour, minute) | (disabled flag, hour, minute)"""
    if t is None:
        return [0x80, 0]
    if len(t) == 2:
        return [t[0] & 0x1F, t[1] & 0x3F]
    return [(t[0] << 7) | (t[1] & 0x1F), t[2] & 0x3F]


def at4_timer_status(timers):
    """0x37 (not in the vendor document): always four ACs, AC number = position; timers: dict ac -> (on, off)"""
    body = []
    for ac in range(4):
        on, off = timers.get(ac, (None, None))
        body += timer_bytes(on) + timer_bytes(off) + [0, 0, 0, 0]
    return msg(0x37, body)


def at5_ac_status(recs, stride=10):
    """0xC0 0x23; rec: id power mode fan turbo bypass spill timer setpoint(raw byte) temp(tenths | None -> 2047) err"""
    out = []
    for r in recs:
        v = temp_raw(r.get("temp", 235))
        v = 2047 if v is None else v
        out.append([(r.get("power", 1) << 4) | r["id"], (r.get("mode", 4) << 4) | r.get("fan", 0), r.get("setpoint", 120),
                    (r.get("turbo", 0) << 3) | (r.get("bypass", 0) << 2) | (r.get("spill", 0) << 1) | r.get("timer", 0),
                    v >> 8, v & 255, r.get("err", 0) >> 8, r.get("err", 0) & 255] + [0] * (stride - 8))
    return cs(0x23, stride, out)


def at5_zone_status(recs, stride=8):
    """0xC0 0x21; rec: id power ctrl damper setpoint(raw byte, 255 = invalid) sensor temp(tenths | None) spill batt"""
    out = []
    for r in recs:
        v = temp_raw(r.get("temp", 225))
        v = 2047 if v is None else v
        out.append([(r.get("power", 1) << 6) | r["id"], (r.get("ctrl", 0) << 7) | r.get("damper", 50), r.get("setpoint", 120),
                    r.get("sensor", 0) << 7, v >> 8, v & 255, (r.get("spill", 0) << 1) | r.get("batt", 0), 0] + [0] * (stride - 8))
    return cs(0x21, stride, out)


def at5_timer_status(timers, stride=9):
    """0xC0 0x33 (not in the vendor document); timers: list of (ac, on, off)"""
    return cs(0x33, stride, [[ac] + timer_bytes(on) + timer_bytes(off) + [0] * (stride - 5) for ac, on, off in timers])


def err_info(gen, ac, text):
    """0x1F 0xFF 0x10: `text` bytes (empty = no error)"""
    return msg(0x1F, bytes([0xFF, 0x10, ac, len(text)]) + bytes(text))


def console_version(gen, update, versions):
    """0x1F 0xFF 0x30: versions joined with "|" (AirTouch 4) / "," (AirTouch 5)"""
    t = ("|" if gen == 4 else ",").join(versions).encode()
    return msg(0x1F, bytes([0xFF, 0x30, update, len(t)]) + t)


# ================================================================================================ random installations, a console with memory
DEFINED = {
    4: dict(power=[0, 1], mode=[0, 1, 2, 3, 4, 8, 9], fan=[0, 1, 2, 3, 4, 5, 6], zpower=[0, 1, 3], ac_ids=4, flags=["spill", "timer"]),
    5: dict(power=[0, 1, 2, 3, 5], mode=[0, 1, 2, 3, 4, 8, 9], fan=[0, 1, 2, 3, 4, 5, 6, 9, 10, 11, 12, 13, 14], zpower=[0, 1, 3], ac_ids=16,
            flags=["turbo", "bypass", "spill", "timer"]),
}
AC_NAMES = ["Main", "Upstairs AC unit", "Klima ä", "A", "Daikin", "x" * 16, "", "\ufeffMain AC", " Lead", "e\u0301t\u00e9 \U0001F3E0"]
ZONE_NAMES = ["Living", "Bed 1", "Café", "", "Küche", "Zone", "日本", "12345678", "a", "Kids", "\ufeffKids", " x", "a\tb", "\ufffd\ufffe"]
ERR_TEXTS = [b"ER: FFFE", b"E5", "Fehler ä".encode(), b"x" * 40, b"", b"AC error 7"]


def random_install(rng, gen, n_acs=None, n_zones=None):
    """1..4 ACs (any numbers), 0..16 zones (AirTouch 5: contiguous per AC from a start zone; AirTouch 4: 1..16 groups spread over the
    ACs by the group display bitmap, start/count bytes consistent with it when the groups happen to be contiguous, else 0/0)"""
    d = DEFINED[gen]
    n_acs = rng.randint(1, 4) if n_acs is None else n_acs
    if n_zones is None:
        n_zones = rng.choice([0, 1, 2, 3, 4, 5, 6, 8, 11, 16] if gen == 5 else [1, 2, 3, 4, 5, 6, 8, 11, 16])
    ids = rng.sample(range(d["ac_ids"]), n_acs)
    if rng.random() < 0.6:
        ids.sort()
    if gen == 5:
        first = rng.choice([0, 0, 0, rng.randint(0, 16 - n_zones)])
        numbers = list(range(first, first + n_zones))
        cuts = sorted(rng.randint(0, n_zones) for _ in range(n_acs - 1))
        bounds = [0] + cuts + [n_zones]
        owner = [numbers[bounds[i]:bounds[i + 1]] for i in range(n_acs)]
    else:
        numbers = sorted(rng.sample(range(16), n_zones))
        owner = [[] for _ in range(n_acs)]
        for z in numbers:
            owner[rng.randrange(n_acs)].append(z)
    acs = []
    for i, ac in enumerate(ids):
        lo, hi = rng.randint(10, 20), rng.randint(24, 35)
        a = dict(id=ac, name=rng.choice(AC_NAMES), modes=rng.choice([0x1F, 0x1F, rng.randint(1, 31)]),
                 **(dict(err=rng.choice([5, 7, 0x0105]), err_text=rng.choice([b"ER05 compressor", b"E7", b""])) if rng.random() < 0.15 else {}),
                 fans=rng.choice([0x7F if gen == 4 else 0xFF] * 2 + [rng.randint(1, 0x7F if gen == 4 else 0xFF)]), lo=lo, hi=hi,
                 zones=owner[i], mode=rng.choice([0, 1, 2, 3, 4]), power=rng.choice(d["power"]), fan=rng.choice(d["fan"][:7]),
                 setpoint=rng.randint(16, 30))
        if gen == 5:
            a["lo_heat"], a["hi_heat"] = rng.randint(10, 20), rng.randint(24, 35)
            if not owner[i]:
                a["start_zone"] = 0
        else:
            zs = owner[i]
            if zs and zs == list(range(zs[0], zs[0] + len(zs))):
                a["start"], a["count"] = zs[0], len(zs)
        acs.append(a)
    zones = {}
    for z in numbers:
        zones[z] = dict(name=rng.choice(ZONE_NAMES), sensor=bool(rng.randint(0, 1)), turbo=bool(rng.randint(0, 1)), ctrl=rng.randint(0, 1),
                        power=rng.choice(d["zpower"]), damper=rng.choice([0, 5, 50, 100, rng.randint(0, 100)]), setpoint=rng.randint(16, 30))
    if gen == 5 and zones and rng.random() < 0.15:
        # AirTouch 5 names are length-prefixed: descriptive names make the zone-names answer longer than 256 bytes
        stem = rng.choice(["Ground floor living room number ", "Küche und Esszimmer im Erdgeschoss ", "y" * 60 + " "])
        for z in zones:
            zones[z]["name"] = stem + str(z)
    extra = {}
    if len(zones) >= 2 and rng.random() < 0.25:
        order = sorted(zones)
        rng.shuffle(order)
        extra["names_order"] = order
    free = [z for z in range(16) if z not in zones]
    if free and rng.random() < 0.2:
        # a group / zone that has a name on the console but belongs to no air-conditioner (a spare damper output that was named once)
        for z in rng.sample(free, min(len(free), rng.choice([1, 2]))):
            zones[z] = dict(name=rng.choice(ZONE_NAMES), sensor=False, turbo=False, ctrl=0, power=0, damper=0, setpoint=22)
        extra["unowned"] = True
    if gen == 4 and all("start" in a for a in acs) and rng.random() < 0.5 and "unowned" not in extra:
        extra["fmt"] = "old"          # every AC's groups are one contiguous block: an old console can describe this installation
    return dict(acs=acs, zones=zones, version=rng.choice(["1.2.3", "1.0.5", "9.9"]), update=rng.choice([0, 0, 1]), **extra)


class Console:
    """A console that remembers the last record it reported per entity, to build changed / unchanged / partial status frames of
    defined values only.  Every method returns one `msg` op line."""

    def __init__(self, rng, gen, inst):
        self.rng, self.gen, self.inst = rng, gen, inst
        self.d = DEFINED[gen]
        self.ac_ids = [a["id"] for a in inst["acs"]]
        self.zone_ids = sorted(inst["zones"])
        self.ac = {}
        for a in inst["acs"]:
            self.ac[a["id"]] = dict(id=a["id"], power=a.get("power", 1), mode=a.get("mode", 4), fan=a.get("fan", 0), temp=235, err=a.get("err", 0),
                                    setpoint=a.get("setpoint", 22) if gen == 4 else a.get("setpoint", 22) * 10 - 100)
        self.zone = {}
        for z in self.zone_ids:
            zd = inst["zones"][z]
            self.zone[z] = dict(id=z, power=zd.get("power", 1), ctrl=zd.get("ctrl", 0), damper=zd.get("damper", 50), sensor=int(bool(zd.get("sensor"))),
                                temp=225 if zd.get("sensor") else None, turbo=int(bool(zd.get("turbo"))),
                                setpoint=zd.get("setpoint", 22) if gen == 4 else zd.get("setpoint", 22) * 10 - 100)
        self.timer = {ac: (None, None) for ac in self.ac_ids}
        self.last = None

    # ------------------------------------------------------------------ random defined field values
    def ac_temp(self):
        rng = self.rng
        return rng.choice([235, 0, -500, 1500 if self.gen == 5 else 1539, 199, 301, None, rng.randint(-500, 1500)])

    def ac_setpoint(self):
        rng = self.rng
        if self.gen == 4:
            return rng.choice([0, 16, 22, 30, 63, rng.randint(0, 63)])
        return rng.choice([0, 60, 115, 120, 250, 251, 255, rng.randint(0, 255)])

    def ac_field(self, r, f):
        rng, d = self.rng, self.d
        if f in ("power", "mode", "fan"):
            r[f] = rng.choice(d[f])
        elif f in d["flags"]:
            r[f] = rng.randint(0, 1)
        elif f == "setpoint":
            r[f] = self.ac_setpoint()
        elif f == "temp":
            r[f] = self.ac_temp()
        elif f == "err":
            r[f] = rng.choice([0, 0, 0, 5, 5, 0xFFFE, 0xFFFF, 256, rng.randint(1, 0xFFFF)])

    def zone_field(self, r, f):
        rng = self.rng
        if f == "power":
            r[f] = rng.choice(self.d["zpower"])
        elif f in ("ctrl", "sensor", "batt", "spill", "turbo"):
            r[f] = rng.randint(0, 1)
        elif f == "damper":
            r[f] = rng.choice([0, 1, 50, 99, 100, rng.randint(0, 100)])
        elif f == "setpoint":
            r[f] = self.ac_setpoint() if self.gen == 4 else rng.choice([0, 60, 115, 120, 250, 254, 255, rng.randint(0, 255)])
        elif f == "temp":
            r[f] = rng.choice([225, 0, -500, 1500 if self.gen == 5 else 1539, None, rng.randint(-500, 1500)])

    AC_FIELDS = ["power", "mode", "fan", "setpoint", "temp", "err"]
    ZONE_FIELDS = ["power", "ctrl", "damper", "setpoint", "sensor", "temp", "batt", "spill"]

    def evolve(self, r, fields, how):
        """how: 'same' | 'one' | 'few' | 'all'"""
        rng = self.rng
        r = dict(r)
        if how == "one":
            self.field(r, rng.choice(fields))
        elif how == "few":
            for f in rng.sample(fields, rng.randint(2, 3)):
                self.field(r, f)
        elif how == "all":
            for f in fields:
                self.field(r, f)
        return r

    def field(self, r, f):
        (self.ac_field if "mode" in r else self.zone_field)(r, f)

    # ------------------------------------------------------------------ frames
    def emit(self, op):
        self.last = op
        return op

    def ac_frame(self, recs):
        for r in recs:
            if r["id"] in self.ac:
                self.ac[r["id"]] = dict(r)
        if self.gen == 4:
            return self.emit(at4_ac_status(recs))
        return self.emit(at5_ac_status(recs, stride=self.rng.choice([10, 10, 10, 8, 12])))

    def zone_frame(self, recs):
        for r in recs:
            if r["id"] in self.zone:
                self.zone[r["id"]] = dict(r)
        if self.gen == 4:
            return self.emit(at4_group_status(recs))
        return self.emit(at5_zone_status(recs, stride=self.rng.choice([8, 8, 8, 10])))

    def timer_frame(self, timers):
        """timers: dict ac -> (on, off)"""
        for ac, v in timers.items():
            if ac in self.timer:
                self.timer[ac] = v
        if self.gen == 4:
            full = {ac: self.timer.get(ac, (None, None)) for ac in range(4)}
            full.update(timers)
            return self.emit(at4_timer_status(full))
        return self.emit(at5_timer_status([(ac, on, off) for ac, (on, off) in timers.items()], stride=self.rng.choice([9, 9, 11])))

    def random_timer(self):
        rng = self.rng
        k = rng.random()
        if k < 0.35:
            return None
        if k < 0.45:
            # disabled, with left-over digits in the time bits - also digits that are no time of day (all five / six bits set)
            return (1, rng.choice([rng.randint(0, 23), 24, 31]), rng.choice([rng.randint(0, 59), 60, 63]))
        return (rng.choice([0, 7, 23, rng.randint(0, 23)]), rng.choice([0, 30, 59, rng.randint(0, 59)]))

    def unknown_ac(self):
        cand = [i for i in range(self.d["ac_ids"]) if i not in self.ac_ids]
        return self.rng.choice(cand) if cand else None

    def unknown_zone(self):
        cand = [i for i in range(64) if i not in self.zone_ids]       # six bits in both generations' records
        return self.rng.choice(cand)

    def random_ac_frame(self):
        rng = self.rng
        fields = self.AC_FIELDS + self.d["flags"]
        ids = rng.sample(self.ac_ids, rng.randint(1, len(self.ac_ids)))
        if rng.random() < 0.15:
            ids.append(rng.choice(self.ac_ids))                       # the same AC twice in one frame
        recs = [self.evolve(self.ac[i], fields, rng.choice(["same", "one", "one", "few", "all"])) for i in ids]
        u = self.unknown_ac()
        if u is not None and rng.random() < 0.2:
            recs.insert(rng.randint(0, len(recs)), self.evolve(dict(self.ac[self.ac_ids[0]], id=u), fields, "all"))
        return self.ac_frame(recs)

    def random_zone_frame(self):
        rng = self.rng
        fields = self.ZONE_FIELDS + (["turbo"] if self.gen == 4 else [])
        ids = rng.sample(self.zone_ids, rng.randint(1, len(self.zone_ids))) if self.zone_ids else []
        if ids and rng.random() < 0.15:
            ids.append(rng.choice(self.zone_ids))
        recs = [self.evolve(self.zone[i], fields, rng.choice(["same", "one", "one", "few", "all"])) for i in ids]
        if rng.random() < 0.2 or not recs:
            proto = dict(id=0, power=1, ctrl=0, damper=50, sensor=1, temp=225, setpoint=22 if self.gen == 4 else 120)
            recs.insert(rng.randint(0, len(recs)), self.evolve(dict(proto, id=self.unknown_zone()), fields, "all"))
        return self.zone_frame(recs)

    def random_timer_frame(self):
        rng = self.rng
        if self.gen == 4:
            tm = {ac: (self.random_timer(), self.random_timer()) for ac in range(4) if rng.random() < 0.5}
        else:
            ids = rng.sample(self.ac_ids, rng.randint(1, len(self.ac_ids)))
            u = self.unknown_ac()
            if u is not None and rng.random() < 0.2:
                ids.insert(rng.randint(0, len(ids)), u)
            tm = {ac: (self.random_timer(), self.random_timer()) if rng.random() < 0.8 else self.timer.get(ac, (None, None)) for ac in ids}
        return self.timer_frame(tm)

    def random_err_frame(self):
        rng = self.rng
        u = self.unknown_ac()
        ac = u if (u is not None and rng.random() < 0.1) else rng.choice(self.ac_ids)
        return self.emit(err_info(self.gen, ac, rng.choice(ERR_TEXTS)))

    def random_version_frame(self):
        rng = self.rng
        return self.emit(console_version(self.gen, rng.choice([0, 0, 1, 1, 2, 255]),
                                         rng.choice([["1.2.3"], ["1.2.4"], ["1.0.5", "2.0"], ["2.0", "1.0.5"], ["9.9", "1.2.3"], ["1.2.3", "9.9"], ["1.2.3", "1.2.3"], ["1.2.3"]])))

    def random_frame(self):
        k = self.rng.randint(0, 19)
        if k == 0 and self.last:
            return self.last                                          # the console repeats itself byte for byte
        if k <= 7:
            return self.random_ac_frame()
        if k <= 13:
            return self.random_zone_frame()
        if k <= 15:
            return self.random_timer_frame()
        if k <= 17:
            return self.random_err_frame()
        return self.random_version_frame()
