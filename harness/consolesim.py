"""A scripted console for the API-level checks: builds, byte by byte from the vendor documents' layouts (not with the
package's encoders), the op lines (`harness/apiharness.py` language) that bring a real AirTouch4 / AirTouch5 object to the
initialised state for a described installation.

Installation description (both generations):
  acs:   list of dicts  {id, modes (5-bit mask AUTO,HEAT,DRY,FAN,COOL = bits 0..4), fans (mask), lo, hi, [lo_heat, hi_heat],
                         zones: [zone numbers], mode: current mode code, power: code, fan: code, setpoint: degC}
  zones: dict zone number -> {sensor: bool, turbo: bool (AT4 only), power: code, ctrl: 0|1, damper, setpoint}
"""


def hx(b):
    return bytes(b).hex() or "-"


def msg(mid, payload):
    return "msg %02x %s" % (mid, hx(payload))


# ------------------------------------------------------------------------------------------------ AirTouch 4
def at4_handshake(inst):
    ops = ["init", "conn 1"]
    text = b"1.2.3"
    ops.append(msg(0x1F, bytes([0xFF, 0x30, 0, len(text)]) + text))
    body = b""
    for z in sorted(inst["zones"]):
        body += bytes([z]) + ("Z%d" % z).encode().ljust(8, b"\0")
    ops.append(msg(0x1F, bytes([0xFF, 0x12]) + body))
    body = b""
    for a in inst["acs"]:
        bitmap = sum(1 << z for z in a["zones"])
        body += (bytes([a["id"], 24]) + ("AC%d" % a["id"]).encode().ljust(16, b"\0")
                 + bytes([0, 0, a["modes"], a["fans"], a["lo"], a["hi"], bitmap & 0xFF, bitmap >> 8]))
    ops.append(msg(0x1F, bytes([0xFF, 0x11]) + body))
    body = b""
    for a in inst["acs"]:
        t = ((235 + 500) << 5) & 0xFFFF
        body += bytes([(a.get("power", 1) << 6) | a["id"], (a.get("mode", 4) << 4) | a.get("fan", 0), a.get("setpoint", 22) & 0x3F,
                       0, t >> 8, t & 0xFF, 0, 0])
    ops.append(msg(0x2D, body))
    ops.append(msg(0x37, b"".join(bytes([0x80, 0, 0x80, 0, 0, 0, 0, 0]) for _ in range(4))))
    body = b""
    for z in sorted(inst["zones"]):
        d = inst["zones"][z]
        t = (((225 + 500) << 5) & 0xFFE0) if d.get("sensor") else 0xFF00
        body += bytes([(d.get("power", 1) << 6) | z, (d.get("ctrl", 0) << 7) | d.get("damper", 50),
                       (0x40 if d.get("turbo") else 0) | (d.get("setpoint", 22) & 0x3F), 0x80 if d.get("sensor") else 0, t >> 8, t & 0xFF])
    ops.append(msg(0x2B, body))
    return ops


# ------------------------------------------------------------------------------------------------ AirTouch 5
def cs(sub, rl, recs):
    body = b"".join(bytes(r) for r in recs)
    return msg(0xC0, bytes([sub, 0, 0, 0, rl >> 8, rl & 255, len(recs) >> 8, len(recs) & 255]) + body)


def at5_handshake(inst):
    ops = ["init", "conn 1"]
    text = b"1.2.3"
    ops.append(msg(0x1F, bytes([0xFF, 0x30, 0, len(text)]) + text))
    body = b""
    for z in sorted(inst["zones"]):
        n = ("Z%d" % z).encode()
        body += bytes([z, len(n)]) + n
    ops.append(msg(0x1F, bytes([0xFF, 0x13]) + body))
    body = b""
    for a in inst["acs"]:
        zs = a["zones"]
        body += (bytes([a["id"], 24]) + ("AC%d" % a["id"]).encode().ljust(16, b"\0")
                 + bytes([min(zs) if zs else 0, len(zs), a["modes"], a["fans"], a["lo"], a["hi"], a.get("lo_heat", a["lo"]), a.get("hi_heat", a["hi"])]))
    ops.append(msg(0x1F, bytes([0xFF, 0x11]) + body))
    ops.append(cs(0x23, 10, [[(a.get("power", 1) << 4) | a["id"], (a.get("mode", 4) << 4) | a.get("fan", 0),
                              a.get("setpoint", 22) * 10 - 100, 0, (735 >> 8), 735 & 255, 0, 0, 0, 0] for a in inst["acs"]]))
    ops.append(cs(0x33, 9, [[a["id"], 0x80, 0, 0x80, 0, 0, 0, 0, 0] for a in inst["acs"]]))
    recs = []
    for z in sorted(inst["zones"]):
        d = inst["zones"][z]
        recs.append([(d.get("power", 1) << 6) | z, (d.get("ctrl", 0) << 7) | d.get("damper", 50), d.get("setpoint", 22) * 10 - 100,
                     0x80 if d.get("sensor") else 0, (725 >> 8) if d.get("sensor") else 0xFF, (725 & 255) if d.get("sensor") else 0xFF, 0, 0])
    ops.append(cs(0x21, 8, recs))
    return ops


def handshake(gen, inst):
    return at4_handshake(inst) if gen == 4 else at5_handshake(inst)


def installs(gen, thorough=False):
    """a small family covering: AC numbers at both ends, zone numbers 0..15, full and restricted abilities, limits"""
    top = 3 if gen == 4 else 15      # AC numbers: AT4 0..3, AT5 0..15 (four bits in status and control records)
    full_fans = 0x7F if gen == 4 else 0xFF
    out = [
        dict(acs=[dict(id=0, modes=0x1F, fans=full_fans, lo=16, hi=30, zones=list(range(0, 16)), mode=4)],
             zones={z: dict(sensor=(z % 2 == 0), turbo=(z % 4 == 0), ctrl=(1 if z % 2 == 0 else 0)) for z in range(16)}),
        dict(acs=[dict(id=0, modes=0x1F, fans=full_fans, lo=17, hi=28, lo_heat=15, hi_heat=31, zones=[0, 1], mode=1),
                  dict(id=top, modes=0x13, fans=0x0E, lo=18, hi=25, zones=[14, 15], mode=4)],
             zones={0: dict(sensor=True, ctrl=1), 1: dict(sensor=False), 14: dict(sensor=True, turbo=True, ctrl=1), 15: dict(sensor=True, ctrl=0)}),
    ]
    if thorough:
        out.append(dict(acs=[dict(id=i, modes=0x1F, fans=full_fans, lo=16 + i, hi=30 - i, zones=[4 * i + k for k in range(4)], mode=(0 if i % 2 else 4))
                             for i in range(4)],
                        zones={z: dict(sensor=True, ctrl=1) for z in range(16)}))
        out.append(dict(acs=[dict(id=1, modes=0x1F, fans=full_fans, lo=0 if gen == 4 else 10, hi=63 if gen == 4 else 35, zones=[9], mode=4)], zones={9: dict(sensor=True, ctrl=1)}))
    return out
