"""Canonical text of pyairtouch message objects (must agree character for character with the Lean
`canon` functions): dataclasses as Name(field=value,...), enums by member name, floats as exact
tenths `t<int>`, str as `s<utf8 hex>`, bytes as `b<hex>`, None, True/False, lists, dicts in insertion
order, timedelta as `d<seconds>`, time as `tm<h>:<m>`."""
import dataclasses
import datetime
import enum


class NotCanonical(Exception):
    pass


def canon(x):
    if x is None:
        return "None"
    if isinstance(x, bool):
        return "True" if x else "False"
    if isinstance(x, enum.Enum):
        return x.name
    if isinstance(x, int):
        return str(x)
    if isinstance(x, float):
        q = x * 10.0
        r = round(q)
        if x != x or abs(q - r) > 1e-6:
            raise NotCanonical("float %r is not a whole number of tenths" % x)
        return "t%d" % r
    if isinstance(x, str):
        return "s" + x.encode("utf-8").hex()
    if isinstance(x, (bytes, bytearray)):
        return "b" + bytes(x).hex()
    if isinstance(x, datetime.timedelta):
        return "d%d" % int(x.total_seconds())
    if isinstance(x, datetime.time):
        return "tm%d:%d" % (x.hour, x.minute)
    if dataclasses.is_dataclass(x) and not isinstance(x, type):
        return type(x).__name__ + "(" + ",".join(
            "%s=%s" % (f.name, canon(getattr(x, f.name))) for f in dataclasses.fields(x)) + ")"
    if isinstance(x, dict):
        return "{" + ",".join("%s:%s" % (canon(k), canon(v)) for k, v in x.items()) + "}"
    if isinstance(x, (list, tuple)):
        return "[" + ",".join(canon(v) for v in x) + "]"
    if isinstance(x, (set, frozenset)):
        return "{" + ",".join(sorted(canon(v) for v in x)) + "}"
    raise NotCanonical("no canonical form for %r" % type(x))


EXC = {"DecodeError": "DecodeError", "error": "struct.error", "ValueError": "ValueError",
       "UnicodeDecodeError": "UnicodeDecodeError", "IndexError": "IndexError", "KeyError": "KeyError",
       "NotImplementedError": "NotImplementedError", "AttributeError": "AttributeError", "TypeError": "TypeError",
       "OverflowError": "OverflowError"}


def exc_name(e):
    n = type(e).__name__
    return "ERR:" + EXC.get(n, "Exception:" + n)
