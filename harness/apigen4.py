"""Generators of op scripts for the AirTouch 4 API differential (see apiharness.py for the op language).

Frames are built byte by byte (so that values no encoder would produce - hours above 23, undefined enum codes,
duplicate group numbers, short buffers - can be delivered); `selfcheck()` decodes a sample with the real
registry to make sure the builders mean what they say.

Limits of the generators (the model is total; these are the places where the harness cannot show the real
behaviour or where CPython scheduling is not pinned down):
  * `view` is never issued while an air-conditioner has an enabled timer with hour > 23 or minute > 59
    (`next_quick_timer` raises `ValueError` inside the harness's own `view` code and kills the run); that
    situation is exercised with calls instead (`invalid_timer_script`).
  * temperatures for `set_target_temperature` have at most two decimals (the model works in hundredths).
"""
import random

ALL_MODES = ["AUTO", "HEAT", "DRY", "FAN", "COOL"]
ALL_FANS = ["AUTO", "QUIET", "LOW", "MEDIUM", "HIGH", "POWERFUL", "TURBO", "INTELLIGENT_AUTO"]
ALL_POWER = ["TOGGLE", "TURN_OFF", "TURN_ON", "SET_TO_AWAY", "SET_TO_SLEEP"]
ZONE_POWER = ["OFF", "ON", "TURBO"]
TIMER_TYPES = ["OFF_TIMER", "ON_TIMER"]


def hx(b):
    return bytes(b).hex() or "-"


def msg(mid, payload):
    return "msg %02x %s" % (mid, hx(payload))


def ext(sub_id, body):
    return msg(0x1F, bytes([sub_id >> 8, sub_id & 0xFF]) + bytes(body))


# ---------------------------------------------------------------------------------------------- frames
def m_version(update, versions):
    text = "|".join(versions).encode()
    return ext(0xFF30, bytes([1 if update else 0, len(text)]) + text)


def m_names(pairs):
    body = b""
    for g, name in pairs:
        body += bytes([g]) + name.encode()[:8].ljust(8, b"\0")
    return ext(0xFF12, body)


def ability_rec(ac, name="AC", start=0, count=0, modes=0x1F, fans=0x7F, lo=16, hi=30, bitmap=None):
    following = 22 if bitmap is None else 24
    b = bytes([ac, following]) + name.encode()[:16].ljust(16, b"\0") + bytes([start, count, modes, fans, lo, hi])
    if bitmap is not None:
        b += bytes([bitmap & 0xFF, (bitmap >> 8) & 0xFF])
    return b


def m_ability(recs):
    return ext(0xFF11, b"".join(recs))


def ac_status_rec(ac, power=0, mode=0, fan=0, spill=False, timer=False, sp=22, temp10=235, err=0):
    enc_t = ((temp10 + 500) << 5) & 0xFFFF
    return bytes([(power << 6) | (ac & 0x3F), (mode << 4) | fan, (0x80 if spill else 0) | (0x40 if timer else 0) | (sp & 0x3F),
                  0, enc_t >> 8, enc_t & 0xFF, err >> 8, err & 0xFF])


def m_ac_status(recs):
    return msg(0x2D, b"".join(recs))


def timer_state(disabled, hour, minute):
    return bytes([(0x80 if disabled else 0) | (hour & 0x1F), minute & 0x3F])


def m_timer(slots, mid=0x37):
    """slots: list of (on, off) timer_state byte pairs, one per AC number 0.."""
    return msg(mid, b"".join(on + off + b"\0\0\0\0" for on, off in slots))


def group_rec(g, power=0, cm=0, damper=0, bat=0, turbo=False, sp=0, sensor=False, temp10=None, spill=False):
    if temp10 is None:
        b56 = 0xFF00 | (0x10 if spill else 0)
    else:
        b56 = (((temp10 + 500) << 5) & 0xFFE0) | (0x10 if spill else 0)
    return bytes([(power << 6) | (g & 0x3F), (cm << 7) | (damper & 0x7F), (bat << 7) | (0x40 if turbo else 0) | (sp & 0x3F),
                  0x80 if sensor else 0, b56 >> 8, b56 & 0xFF])


def m_groups(recs):
    return msg(0x2B, b"".join(recs))


def m_err(ac, text):
    if text is None:
        return ext(0xFF10, bytes([ac, 0]))
    t = text.encode()
    return ext(0xFF10, bytes([ac, len(t)]) + t)


# ---------------------------------------------------------------------------------------------- CPython set order
def py_set_order(gs):
    """iteration order of the set built by adding the ascending list `gs` (all < 16): the rule the model uses"""
    if len(gs) > 4:
        return list(gs)
    tbl = [None] * 8
    for v in gs:
        i = v % 8
        while tbl[i] is not None and tbl[i] != v:
            i = (i * 5 + 1) % 8
        tbl[i] = v
    return [v for v in tbl if v is not None]


# ---------------------------------------------------------------------------------------------- installations
class Install:
    """a random installation: zones (group number -> name), ACs with one of the three zone-assignment formats"""

    def __init__(self, rng, nacs=None, nzones=None, fmt=None):
        self.rng = rng
        nacs = nacs if nacs is not None else rng.choice([1, 1, 2, 2, 3, 4])
        nzones = nzones if nzones is not None else rng.choice([0, 1, 2, 3, 4, 5, 6, 8, 11, 16])
        self.zone_ids = sorted(rng.sample(range(16), nzones))
        if rng.random() < 0.5:
            self.zone_ids = list(range(nzones))
        self.names = [(g, "Z%d" % g) for g in self.zone_ids]
        if rng.random() < 0.2:
            rng.shuffle(self.names)
        self.ac_ids = list(range(nacs)) if rng.random() < 0.8 else sorted(rng.sample(range(8), nacs))
        self.fmt = fmt or rng.choice(["bitmap", "bitmap", "range", "single" if nacs == 1 else "bitmap"])
        # partition of the zones
        self.assign = {a: [] for a in self.ac_ids}
        if self.fmt == "range":
            ids = list(range(nzones))
            self.zone_ids = ids
            self.names = [(g, "Z%d" % g) for g in ids]
            cuts = sorted(rng.randint(0, nzones) for _ in range(nacs - 1))
            bounds = [0] + cuts + [nzones]
            for k, a in enumerate(self.ac_ids):
                self.assign[a] = list(range(bounds[k], bounds[k + 1]))
        else:
            for g in self.zone_ids:
                self.assign[rng.choice(self.ac_ids)].append(g)
        self.modes = {a: rng.choice([0x1F, 0x1F, rng.randrange(32)]) for a in self.ac_ids}
        self.fans = {a: rng.choice([0x7F, 0x7F, rng.randrange(128)]) for a in self.ac_ids}
        self.lo = {a: rng.choice([16, 16, 0, 10, 30]) for a in self.ac_ids}
        self.hi = {a: rng.choice([30, 30, 32, 16, 10, 63]) for a in self.ac_ids}

    def names_msg(self):
        return m_names(self.names)

    def ability_msg(self):
        recs = []
        for a in self.ac_ids:
            zs = self.assign[a]
            kw = dict(name="AC%d" % a, modes=self.modes[a], fans=self.fans[a], lo=self.lo[a], hi=self.hi[a])
            if self.fmt == "bitmap":
                recs.append(ability_rec(a, bitmap=sum(1 << g for g in zs), start=self.rng.randrange(4), count=self.rng.randrange(4), **kw))
            elif self.fmt == "range":
                recs.append(ability_rec(a, start=zs[0] if zs else 0, count=len(zs), **kw))
            else:   # single AC, old format: start/count are nonsense
                recs.append(ability_rec(a, start=self.rng.randrange(3), count=self.rng.choice([0, 0, 1, 7]), **kw))
        return m_ability(recs)

    def all_zones(self):
        if self.fmt == "single":
            return [g for g, _ in self.names]
        return [g for a in self.ac_ids for g in self.assign[a]]


class Gen:
    def __init__(self, seed):
        self.rng = random.Random(seed)
        self.sid = 0

    # ---- random records --------------------------------------------------------------------------
    def r_ac_status(self, inst, valid=True):
        rng = self.rng
        n = rng.choice([1, 1, 2, len(inst.ac_ids)])
        recs = []
        for _ in range(n):
            ac = rng.choice(inst.ac_ids + ([rng.randrange(8)] if rng.random() < 0.2 else []))
            recs.append(ac_status_rec(ac, power=rng.choice([0, 1]), mode=rng.choice([0, 1, 2, 3, 4, 8, 9]),
                                      fan=rng.randrange(7), spill=rng.random() < 0.3, timer=rng.random() < 0.3,
                                      sp=rng.choice([0, 16, 22, 25, 30, 63]), temp10=rng.choice([0, 215, 235, -500, -5, 1547]),
                                      err=rng.choice([0, 0, 0, 1, 7, 300])))
        return m_ac_status(recs)

    def r_timer(self, inst, valid=True, mid=0x37):
        rng = self.rng
        slots = []
        for _ in range(rng.choice([4, 4, 1, 2, len(inst.ac_ids)])):
            def st():
                if valid:
                    return timer_state(rng.random() < 0.5, rng.choice([0, 7, 12, 23]), rng.choice([0, 30, 59]))
                return timer_state(rng.random() < 0.3, rng.choice([0, 23, 24, 31]), rng.choice([0, 59, 60, 63]))
            slots.append((st(), st()))
        return m_timer(slots, mid)

    def r_groups(self, inst):
        rng = self.rng
        zs = inst.zone_ids
        n = rng.choice([1, 1, 2, 3, max(1, len(zs))])
        recs = []
        for _ in range(n):
            g = rng.choice(zs + [rng.randrange(20)]) if zs else rng.randrange(20)
            sensor = rng.random() < 0.6
            recs.append(group_rec(g, power=rng.choice([0, 1, 3]), cm=rng.choice([0, 1]), damper=rng.choice([0, 50, 100, 127]),
                                  bat=rng.choice([0, 0, 1]), turbo=rng.random() < 0.4, sp=rng.choice([0, 20, 22, 63]),
                                  sensor=sensor, temp10=rng.choice([None, 0, 215, -500, 1547, 1540]), spill=rng.random() < 0.3))
        return m_groups(recs)

    def r_version(self):
        rng = self.rng
        return m_version(rng.random() < 0.3, rng.choice([["1.0.3"], ["1.0.3", "1.0.9"], [""], ["2"]]))

    def r_err(self, inst):
        rng = self.rng
        return m_err(rng.choice(inst.ac_ids + [9]), rng.choice([None, "E1", "Er: 02", "überhitzt"]))

    def noise(self, inst):
        """frames the handshake must tolerate: unsolicited, unknown, undecodable, requests echoed back"""
        rng = self.rng
        k = rng.randrange(14)
        if k == 0:
            return msg(0x2D, b"")                       # AcStatusRequest
        if k == 1:
            return msg(0x2B, b"")
        if k == 2:
            return ext(0xFF30, b"")                     # ConsoleVersionRequest (a heartbeat response once CONNECTED)
        if k == 3:
            return msg(0x99, bytes(rng.randrange(256) for _ in range(rng.randrange(4))))   # unknown id
        if k == 4:
            return ext(0xFF77, b"\x01\x02")             # unknown extended id
        if k == 5:
            return msg(0x2D, b"\x00\x00\x00")           # DecodeError (length)
        if k == 6:
            return msg(0x1F, b"\xff")                   # struct.error
        if k == 7:
            return msg(0x2B, bytes([0x80, 0, 0, 0, 0, 0]))   # undefined group power state: ValueError
        if k == 8:
            return self.r_ac_status(inst)
        if k == 9:
            return self.r_groups(inst)
        if k == 10:
            return self.r_timer(inst)
        if k == 11:
            return self.r_err(inst)
        if k == 12:
            return msg(0x2C, bytes([0x80, 0xFF, 0x3F, 0]))      # an AcControlMessage arriving
        return msg(0x36, timer_state(False, 6, 15) + timer_state(True, 0, 0) + b"\0\0\0\0")   # AcTimerControlMessage

    def new_sid(self):
        self.sid += 1
        return "s%d" % self.sid

    # ---- handshake ---------------------------------------------------------------------------------
    def handshake(self, inst, noisy=0.0, stop_after=6, views=False):
        """init + conn 1 + the six answers (`stop_after` = how many answers are delivered)"""
        rng = self.rng
        answers = [self.r_version(), inst.names_msg(), inst.ability_msg(),
                   self.r_ac_status(inst) if rng.random() < 0.7 else m_ac_status([ac_status_rec(a) for a in inst.ac_ids]),
                   self.r_timer(inst), self.r_groups(inst) if rng.random() < 0.7 else m_groups([group_rec(g) for g in inst.zone_ids] or [group_rec(0)])]
        ops = ["init"]
        if rng.random() < noisy:
            ops.append(self.noise(inst))
        ops.append("conn 1")
        for k in range(stop_after):
            while rng.random() < noisy:
                r = rng.random()
                if r < 0.6:
                    ops.append(self.noise(inst))
                elif r < 0.75 and k > 0:
                    ops.append(answers[rng.randrange(k)])      # duplicate of an earlier step
                elif r < 0.85:
                    ops.append("adv %d" % rng.choice([1, 8, 39]))
                elif r < 0.9:
                    ops += ["conn 0", "conn 1"] if rng.random() < 0.5 else ["conn 1"]
                else:
                    ops.append("view")
            ops.append(answers[k])
            if views and rng.random() < 0.3:
                ops.append("view")
        return ops

    # ---- calls ---------------------------------------------------------------------------------------
    def r_call(self, inst):
        rng = self.rng
        acs = inst.ac_ids + [rng.randrange(8)]
        zs = (inst.all_zones() or [0]) + [rng.randrange(17)]
        k = rng.randrange(12)
        if k == 0:
            return "call at check_for_updates"
        if k == 1:
            return "call ac %d set_power %s" % (rng.choice(acs), rng.choice(ALL_POWER))
        if k == 2:
            return "call ac %d set_mode %s %d" % (rng.choice(acs), rng.choice(ALL_MODES), rng.randrange(2))
        if k == 3:
            return "call ac %d set_fan_speed %s" % (rng.choice(acs), rng.choice(ALL_FANS))
        if k == 4:
            t = rng.choice(["15.5", "16.5", "17.5", "22", "22.49", "22.5", "22.51", "23.5", "9.99", "0", "0.5", "1.5", "-0.5",
                            "-3", "29.5", "30.5", "31", "63.5", "64", "100", "255.5", "16", "30", "%d.%02d" % (rng.randrange(40), rng.randrange(100))])
            return "call ac %d set_target_temperature %s" % (rng.choice(acs), t)
        if k == 5:
            return "call ac %d set_quick_timer %s time %d %d" % (rng.choice(acs), rng.choice(TIMER_TYPES), rng.choice([0, 7, 23]), rng.choice([0, 30, 59]))
        if k == 6:
            return "call ac %d set_quick_timer %s duration %d" % (rng.choice(acs), rng.choice(TIMER_TYPES), rng.choice([0, 59, 60, 3600, 5400, 86399, 90000]))
        if k == 7:
            return "call ac %d clear_quick_timer %s" % (rng.choice(acs), rng.choice(TIMER_TYPES))
        if k == 8:
            return "call zone %d set_power %s" % (rng.choice(zs), rng.choice(ZONE_POWER))
        if k == 9:
            t = rng.choice(["20", "20.5", "21.5", "0.5", "-0.5", "-1.5", "-2.51", "300", "22.49", "%d.%d" % (rng.randrange(40), rng.randrange(10))])
            return "call zone %d set_target_temperature %s" % (rng.choice(zs), t)
        if k == 10:
            return "call zone %d set_damper_percentage %d" % (rng.choice(zs), rng.choice([-1, 0, 1, 50, 99, 100, 101, 255, -100]))
        return "view"

    def r_sub(self, inst):
        rng = self.rng
        kind = rng.choice(["sub", "sub", "unsub"])
        sid = rng.choice(["a", "b", "c", self.new_sid()])
        raises = " raise" if (kind == "sub" and rng.random() < 0.25) else ""
        t = rng.randrange(4)
        if t == 0:
            return "%s at %s%s" % (kind, sid, raises)
        if t == 1:
            return "%s ac %d general %s%s" % (kind, rng.choice(inst.ac_ids + [7]), sid, raises)
        if t == 2:
            return "%s ac %d state %s%s" % (kind, rng.choice(inst.ac_ids + [7]), sid, raises)
        return "%s zone %d %s%s" % (kind, rng.choice((inst.all_zones() or [0]) + [16]), sid, raises)

    # ---- whole scripts -----------------------------------------------------------------------------------
    def live_ops(self, inst, n, allow_view=True, adv_set=(1, 8, 39, 40, 41, 239, 240, 2159, 2160, 2399, 2400, 2401, 2639, 2640, 4800)):
        """ops for an initialised object"""
        rng = self.rng
        ops = []
        for _ in range(n):
            r = rng.random()
            if r < 0.16:
                ops.append(self.r_groups(inst))
            elif r < 0.30:
                ops.append(self.r_ac_status(inst))
            elif r < 0.38:
                ops.append(self.r_timer(inst, mid=rng.choice([0x37, 0x37, 0x36])))
            elif r < 0.44:
                ops.append(self.r_err(inst))
            elif r < 0.50:
                ops.append(self.r_version())
            elif r < 0.56:
                ops.append(self.noise(inst))
            elif r < 0.72:
                c = self.r_call(inst)
                if c != "view" or allow_view:
                    ops.append(c)
            elif r < 0.84:
                ops.append(self.r_sub(inst))
            elif r < 0.92:
                ops.append("adv %d" % rng.choice(adv_set))
            elif r < 0.96:
                ops += rng.choice([["conn 0"], ["conn 1"], ["conn 0", "conn 1"], ["conn 0", "adv 2400", "conn 1"]])
            elif allow_view:
                ops.append("view")
            # repeat the previous frame: an identical status must be silent
            if ops and ops[-1].startswith("msg") and rng.random() < 0.3:
                ops.append(ops[-1])
        return ops

    def script_full(self):
        """handshake (possibly noisy), then a life of frames / calls / subscriptions / clock"""
        rng = self.rng
        inst = Install(rng)
        ops = []
        for _ in range(rng.randrange(3)):
            ops.append(self.r_sub(inst) if rng.random() < 0.5 else "sub at %s" % self.new_sid())
        ops += self.handshake(inst, noisy=rng.choice([0, 0, 0.3, 0.6]), views=True)
        ops.append("view")
        ops += self.live_ops(inst, rng.randrange(5, 40))
        ops.append("view")
        if rng.random() < 0.4:
            ops.append("shutdown")
            ops += [self.r_call(inst), "view", "conn 1", self.r_groups(inst)]
            if rng.random() < 0.7:
                inst2 = Install(rng) if rng.random() < 0.5 else inst
                ops += self.handshake(inst2, noisy=rng.choice([0, 0.3]))
                ops += self.live_ops(inst2, rng.randrange(3, 15))
                ops.append("view")
        return ops

    def script_silence(self):
        """the console stops answering after k answers: init() must yield False at +40 ticks"""
        rng = self.rng
        inst = Install(rng)
        k = rng.randrange(6)
        ops = self.handshake(inst, noisy=rng.choice([0, 0.3]), stop_after=k)
        if rng.random() < 0.3:
            ops = ["init"] + (["adv %d" % rng.choice([1, 39])] if rng.random() < 0.5 else [])      # not even connected
        budget = 40 - sum(int(o.split()[1]) for o in ops if o.startswith("adv"))
        if budget > 1:
            ops += ["adv %d" % (budget - 1), "view", "adv 1", "view"]
        else:
            ops += ["adv 41", "view"]
        ops += [self.noise(inst), "adv 40"]
        if rng.random() < 0.5:
            # the answers arrive late: initialisation completes although init() has returned False
            answers = self.handshake(inst, stop_after=6)[2:]
            ops += answers[k:] if len(ops) > 3 and ops[1] == "conn 1" else []
            ops.append("view")
        return ops

    def script_keyerror(self):
        """ability messages naming a group without a name; the handshake may be retried"""
        rng = self.rng
        inst = Install(rng, nacs=rng.choice([1, 2, 3]), nzones=rng.choice([1, 2, 4]), fmt=rng.choice(["bitmap", "range"]))
        ops = ["init", "conn 1", self.r_version(), inst.names_msg()]
        missing = [g for g in range(16) if g not in inst.zone_ids]
        recs = []
        bad_at = rng.randrange(len(inst.ac_ids))
        for k, a in enumerate(inst.ac_ids):
            if k == bad_at:
                if inst.fmt == "bitmap":
                    recs.append(ability_rec(a, bitmap=(1 << rng.choice(missing)) | sum(1 << g for g in inst.assign[a])))
                else:
                    recs.append(ability_rec(a, start=len(inst.zone_ids) - 1 if inst.zone_ids else 0, count=3))
            else:
                recs.append(ability_rec(a, bitmap=sum(1 << g for g in inst.assign[a])) if inst.fmt == "bitmap"
                            else ability_rec(a, start=(inst.assign[a] or [0])[0], count=len(inst.assign[a])))
        ops += [m_ability(recs), "view"]
        for a in inst.ac_ids[:bad_at]:
            ops.append("sub ac %d general k%d" % (a, a))
        ops += [m_ac_status([ac_status_rec(a, power=1) for a in inst.ac_ids]), "adv 10"]
        ops += [inst.ability_msg(), "view"]
        ops += self.handshake(inst)[5:]
        ops += self.live_ops(inst, rng.randrange(3, 12))
        ops.append("view")
        return ops

    def script_double_init(self):
        """init() again without shutdown(): objects of the first handshake stay referenced"""
        rng = self.rng
        inst = Install(rng)
        ops = self.handshake(inst)
        ops += [self.r_sub(inst) for _ in range(rng.randrange(4))]
        ops += self.live_ops(inst, rng.randrange(0, 6))
        inst2 = inst if rng.random() < 0.4 else Install(rng)
        k = rng.randrange(7)
        ops += self.handshake(inst2, stop_after=k, noisy=rng.choice([0, 0.2]))
        ops.append("view")
        ops += self.live_ops(inst2, rng.randrange(3, 14))
        ops += ["view", "shutdown", "view"]
        if rng.random() < 0.6:
            ops += ["init", "conn 1", "adv %d" % rng.choice([39, 40, 2400, 2440])]
            ops += self.handshake(inst2)[2:]
            ops += self.live_ops(inst2, rng.randrange(2, 8))
            ops.append("view")
        return ops

    def script_calls(self):
        """every public call with every enum member and boundary numbers"""
        rng = self.rng
        inst = Install(rng, nacs=rng.choice([1, 2]), nzones=rng.choice([1, 2, 3]))
        ops = ["call at check_for_updates", "call ac 0 set_power TOGGLE"]
        ops += self.handshake(inst)
        a = rng.choice(inst.ac_ids)
        zs = inst.all_zones()
        ops.append(m_groups([group_rec(g, sensor=rng.random() < 0.5, turbo=rng.random() < 0.5, sp=20, temp10=210) for g in inst.zone_ids] or [group_rec(0)]))
        ops.append(self.r_timer(inst))
        ops.append("view")
        for p in ALL_POWER + ["BOGUS"]:
            ops.append("call ac %d set_power %s" % (a, p))
        for m in ALL_MODES + ["BOGUS"]:
            for po in (0, 1):
                ops.append("call ac %d set_mode %s %d" % (a, m, po))
        for f in ALL_FANS:
            ops.append("call ac %d set_fan_speed %s" % (a, f))
        lo, hi = inst.lo[a], inst.hi[a]
        for t in sorted({lo - 1, lo, lo + 1, hi - 1, hi, hi + 1, 0, 22}):
            for frac in ("", ".5", ".49", ".51", ".25", ".75"):
                ops.append("call ac %d set_target_temperature %d%s" % (a, t, frac))
        for tt in TIMER_TYPES:
            ops.append("call ac %d set_quick_timer %s time %d %d" % (a, tt, rng.randrange(24), rng.randrange(60)))
            ops.append("call ac %d set_quick_timer %s duration %d" % (a, tt, rng.choice([0, 60, 3600, 7260])))
            ops.append("call ac %d clear_quick_timer %s" % (a, tt))
            ops.append(self.r_timer(inst))
        for z in zs[:3] + [16]:
            for p in ZONE_POWER:
                ops.append("call zone %d set_power %s" % (z, p))
            for t in ("20", "20.5", "21.5", "-0.5", "-1.5", "255.5"):
                ops.append("call zone %d set_target_temperature %s" % (z, t))
            for d in (-1, 0, 100, 101):
                ops.append("call zone %d set_damper_percentage %d" % (z, d))
        ops += ["shutdown", "call at check_for_updates", "call ac %d set_power TURN_ON" % a, "conn 1", "view"]
        return ops

    def script_poll(self):
        """the 300 s group poll and the heartbeat around their deadlines"""
        rng = self.rng
        inst = Install(rng, nzones=rng.choice([1, 2, 3]))
        ops = self.handshake(inst)
        ops.append("sub zone %d p" % (inst.all_zones() or [0])[0])
        t = 0
        for _ in range(rng.randrange(4, 14)):
            r = rng.random()
            if r < 0.4:
                d = rng.choice([1, 239, 240, 241, 2159, 2160, 2399, 2400, 2401, 2639, 2640, 2641, 4799, 4800, 5280, 7200])
                ops.append("adv %d" % d)
                t += d
            elif r < 0.6:
                ops.append(self.r_groups(inst))
                if rng.random() < 0.5:
                    ops.append(ops[-1])
            elif r < 0.7:
                ops.append(self.r_version() if rng.random() < 0.5 else ext(0xFF30, b""))
            elif r < 0.8:
                ops += rng.choice([["conn 0"], ["conn 1"], ["conn 0", "conn 1"]])
            elif r < 0.9:
                # land exactly on the next multiple of 2400 / 2640 from the start of monitoring
                step = rng.choice([2400, 2640])
                d = step - (t % step)
                ops.append("adv %d" % d)
                t += d
            else:
                ops.append(self.r_ac_status(inst))
        ops.append("view")
        return ops

    def script_invalid_timer(self):
        """timer status with hour > 23 / minute > 59: no `view`, but the calls that re-send the other timer"""
        rng = self.rng
        inst = Install(rng, nacs=rng.choice([1, 2]))
        ops = self.handshake(inst)
        for _ in range(rng.randrange(2, 6)):
            ops.append(self.r_timer(inst, valid=False, mid=rng.choice([0x37, 0x36])))
            a = rng.choice(inst.ac_ids)
            tt = rng.choice(TIMER_TYPES)
            ops.append(rng.choice(["call ac %d clear_quick_timer %s" % (a, tt),
                                   "call ac %d set_quick_timer %s time %d %d" % (a, tt, rng.randrange(24), rng.randrange(60)),
                                   "call ac %d set_quick_timer %s time 24 0" % (a, tt),
                                   "call ac %d set_quick_timer %s time 3 60" % (a, tt)]))
        return ops

    def script_subs(self):
        """subscribe / unsubscribe placements, duplicates, raising subscribers"""
        rng = self.rng
        inst = Install(rng, nacs=rng.choice([1, 2, 3]), nzones=rng.choice([1, 2, 4, 6]))
        ops = ["sub at pre", "sub at pre", "sub ac 0 general early", "sub zone 0 early"]
        ops += self.handshake(inst, stop_after=3)
        for _ in range(rng.randrange(2, 10)):
            ops.append(self.r_sub(inst))
        ops += self.handshake(inst)[5:]
        for _ in range(rng.randrange(5, 25)):
            r = rng.random()
            if r < 0.4:
                ops.append(self.r_sub(inst))
            elif r < 0.6:
                ops.append(self.r_groups(inst))
            elif r < 0.75:
                ops.append(self.r_ac_status(inst))
            elif r < 0.85:
                ops.append(self.r_timer(inst))
            elif r < 0.92:
                ops.append(self.r_err(inst))
            else:
                ops.append(self.r_version())
            if ops[-1].startswith("msg") and rng.random() < 0.4:
                ops.append(ops[-1])
        return ops

    def script_overlap(self):
        """bitmaps that overlap, small bitmaps in CPython set order, zones not attached to any AC"""
        rng = self.rng
        nz = rng.choice([3, 5, 9, 16])
        names = [(g, "N%d" % g) for g in rng.sample(range(16), nz)]
        nacs = rng.choice([1, 2, 3])
        named = [g for g, _ in names]
        recs = []
        for a in range(nacs):
            k = rng.choice([0, 1, 2, 3, 4, 4, 5, min(nz, 7)])
            sel = rng.sample(named, min(k, nz))
            recs.append(ability_rec(a, bitmap=sum(1 << g for g in sel)))
        ops = ["init", "conn 1", self.r_version(), m_names(names + ([names[0]] if rng.random() < 0.3 else [])), m_ability(recs),
               m_ac_status([ac_status_rec(a) for a in range(nacs)]), m_timer([(timer_state(True, 0, 0), timer_state(True, 0, 0))] * 4),
               m_groups([group_rec(g, power=1) for g in named]), "view"]
        for g in rng.sample(named, min(3, nz)):
            ops += ["sub zone %d o%d" % (g, g), "call zone %d set_power ON" % g]
        for a in range(nacs):
            ops.append("sub ac %d general g%d" % (a, a))
            ops.append("sub ac %d state t%d" % (a, a))
        ops += [m_groups([group_rec(g, power=0, damper=10) for g in named]), "view"]
        return ops


FAMILIES = [("full", "script_full", 8), ("silence", "script_silence", 3), ("keyerror", "script_keyerror", 2),
            ("double_init", "script_double_init", 3), ("calls", "script_calls", 2), ("poll", "script_poll", 3),
            ("invalid_timer", "script_invalid_timer", 1), ("subs", "script_subs", 3), ("overlap", "script_overlap", 2)]


def scripts(seed, n):
    """-> list of (family, ops)"""
    g = Gen(seed)
    out = []
    weights = [w for _, _, w in FAMILIES]
    for _ in range(n):
        fam, fn, _ = g.rng.choices(FAMILIES, weights)[0]
        out.append((fam, getattr(g, fn)()))
    return out


_GENS = {}


def gen_script(rng, i=None):
    """same shape as apigen5.gen_script: -> (family, ops); the generator state is derived from `rng`"""
    key = id(rng)
    if key not in _GENS:
        g = Gen(rng.randrange(1 << 30))
        _GENS.clear()
        _GENS[key] = g
    g = _GENS[key]
    fam, fn, _ = g.rng.choices(FAMILIES, [w for _, _, w in FAMILIES])[0]
    return fam, getattr(g, fn)()


def selfcheck():
    """the hand-built frames decode to what the builders intend; the set-order rule agrees with CPython"""
    import itertools
    import pyairtouch.at4.comms.registry as R
    import pyairtouch.at4.comms.hdr as HD
    from pyairtouch.at4.comms.x1FFF11_ac_ability import AcAbilityDecoder

    def dec(line):
        _, mid, payload = line.split()
        mid = int(mid, 16)
        b = bytes.fromhex(payload) if payload != "-" else b""
        r = R.INSTANCE.get_decoder(mid).decode(b, HD.At4Header(0xB0, 0x80, 1, mid, len(b)))
        r.assert_complete()
        return r.message
    m = dec(m_ability([ability_rec(1, "X", 2, 3, 0x15, 0x2A, 17, 29, bitmap=0x8102)])).sub_message.ac_abilities[0]
    assert (m.ac_number, m.ac_name, m.start_group, m.group_count, m.min_set_point, m.max_set_point, m.groups) == (1, "X", 2, 3, 17, 29, {1, 8, 15})
    s = dec(m_ac_status([ac_status_rec(2, 1, 9, 3, True, False, 25, -5, 300)])).ac_status[0]
    assert (s.ac_number, s.power_state.name, s.mode.name, s.fan_speed.name, s.spill_active, s.timer_set, s.set_point, s.temperature, s.error_code) == \
        (2, "ON", "AUTO_COOL", "MEDIUM", True, False, 25, -0.5, 300)
    t = dec(m_timer([(timer_state(False, 31, 63), timer_state(True, 0, 0))])).ac_timer_status[0]
    assert (t.on_timer.disabled, t.on_timer.hour, t.on_timer.minute, t.off_timer.disabled) == (False, 31, 63, True)
    g = dec(m_groups([group_rec(5, 3, 1, 100, 1, True, 22, True, 215, True)])).groups[0]
    assert (g.group_number, g.power_state.name, g.control_method.name, g.damper_percentage, g.battery_status.name, g.supports_turbo,
            g.set_point, g.has_sensor, g.temperature, g.spill_active) == (5, "TURBO", "TEMPERATURE", 100, "LOW", True, 22, True, 21.5, True)
    assert dec(m_names([(3, "abc"), (1, "x")])).sub_message.group_names == {3: "abc", 1: "x"}
    assert dec(m_err(1, "E1")).sub_message.error_info == "E1" and dec(m_err(1, None)).sub_message.error_info is None
    assert dec(m_version(True, ["a", "b"])).sub_message.versions == ["a", "b"]
    d = AcAbilityDecoder()
    for bitmap in range(65536):
        gs = [i for i in range(16) if bitmap >> i & 1]
        assert list(d._decode_group_display(bitmap)) == py_set_order(gs), (bitmap, list(d._decode_group_display(bitmap)), py_set_order(gs))
    return True
