"""C09 - initialisation completes against any answering console, else fails cleanly.

Three parts:
 1. theorems over the API model (LEAN_MODULES);
 2. tie: the same op scripts through the real AirTouch4 / AirTouch5 object and the Lean model (`apicheck.compare`), on the
    generated API scripts (`apigen<g>`, every scenario) and on this module's own console scripts, for every generation the
    driver models;
 3. judgement of the real objects (both generations, no model involved) against the property statement: a scripted console
    (`harness/initsim.py`, frames built from the vendor layouts) describes an installation and answers the six discovery
    requests while interleaving other frames; observed are the requests the client transmits (classified by the bytes the
    real send path writes), the result and time of `init()`, and the public object model (`VIEW`).  The expected set of ACs
    and zones is computed from the vendor-document reading (oracle `spec`) of the names and ability payloads with the
    rules of the property statement (AT4: group bitmap if the record has one, else all groups for a single AC, else the
    start/count range; AT5: start/count range; AT5 zero zones: request echoes).
"""
import core
import importlib
import json
import logging
import multiprocessing
import random

import apicheck
import initsim as S

LEVEL = "proof"

TIMEOUT = 40          # 5 s in ticks of 1/8 s


def _lean_modules():
    import os
    import core
    mods = ["PyAirtouch.Props.C09At5"]
    if os.path.exists(os.path.join(core.LEAN_DIR, "PyAirtouch", "Props", "C09At4.lean")):
        mods.append("PyAirtouch.Props.C09At4")
    if os.path.exists(os.path.join(core.LEAN_DIR, "PyAirtouch", "Props", "C09At4b.lean")):
        mods.append("PyAirtouch.Props.C09At4b")
    if os.path.exists(os.path.join(core.LEAN_DIR, "PyAirtouch", "Props", "C09Bytes.lean")):
        mods.append("PyAirtouch.Props.C09Bytes")
    return mods


LEAN_MODULES = _lean_modules()


# ------------------------------------------------------------------------------------------------ scenario builders
def _spread(rng, budget, slots):
    """`slots` non-negative tick counts with a sum of at most `budget`"""
    out = [0] * slots
    left = budget
    for _ in range(rng.randint(0, min(4, slots))):
        if left <= 0:
            break
        n = rng.randint(1, max(1, left // 2))
        out[rng.randrange(slots)] += n
        left -= n
    return out


def build(rng, inst, family, extras=None, silent_at=None, connect_delay=0, connect=True, flap=False):
    """-> scenario dict.  extras: {step: [kind or None, ...]} frames interleaved while the client waits for the answer of
    `step`; silent_at = number of answers the console gives before it falls silent (None: answers everything);
    connect_delay = ticks between init() and the connection coming up."""
    extras = extras or {}
    ans = S.answers(rng, inst)
    ops, roles = ["init"], [["init"]]
    late = connect_delay >= TIMEOUT

    def add(op, *role):
        ops.append(op)
        roles.append(list(role))
    if late:
        add("adv %d" % (TIMEOUT - 1), "adv", TIMEOUT - 1)
        add("view", "view-before")
        add("adv 1", "deadline")
        add("view", "view-timeout")
        if connect_delay > TIMEOUT:
            add("adv %d" % (connect_delay - TIMEOUT), "adv", connect_delay - TIMEOUT)
    elif connect_delay:
        add("adv %d" % connect_delay, "adv", connect_delay)
    used = 0 if late else connect_delay
    n_answers = 6 if silent_at is None else silent_at
    budget = max(0, TIMEOUT - 2 - used)
    pauses = _spread(rng, budget if not late else 30, 14)
    if connect:
        if flap:
            add("conn 0", "conn0")
        add("conn 1", "conn1")
        done = []
        for k in range(6):
            for kind in extras.get(k, []):
                kk, line = S.extra(rng, inst, k, done, kind)
                add(line, "extra", k, kk)
            p = pauses[2 * k]
            if p:
                add("adv %d" % p, "adv", p)
                used += p
            if k >= n_answers:
                break
            add(ans[k], "answer", k)
            done.append(ans[k])
            p = pauses[2 * k + 1]
            if p and k < 5:
                add("adv %d" % p, "adv", p)
                used += p
        else:
            for kind in extras.get(6, []):
                kk, line = S.extra(rng, inst, 6, done, kind)
                add(line, "extra", 6, kk)
    if silent_at is not None or not connect:
        assert used < TIMEOUT - 1
        rest = TIMEOUT - 1 - used
        add("adv %d" % rest, "adv", rest)
        add("view", "view-before")
        add("adv 1", "deadline")
        add("view", "view-timeout")
        add("adv 1", "adv", 1)
        add("adv %d" % rng.choice([39, 40, 41, 400, 2700]), "adv", 0)
        add("view", "view-timeout")
    else:
        add("view", "view-final")
        add("adv 50", "adv", 50)
    return {"gen": inst.gen, "family": family, "inst": inst.describe(), "ops": ops, "roles": roles,
            "silent_at": silent_at, "connect_delay": connect_delay, "connect": connect,
            "names_payload": ans[1].split()[2], "ability_payload": ans[2].split()[2]}


# ------------------------------------------------------------------------------------------------ the reference
def expected_from_reading(gen, names_reading, ability_reading):
    """{ac id: (name, {zone: name})} as the property statement requires, from the vendor readings of the two payloads"""
    names = {}
    for r in (names_reading or []):
        names[int(r["group" if gen == 4 else "zone"])] = bytes.fromhex(r["name"]).decode("utf-8", "replace")
    exp = {}
    recs = ability_reading or []
    for r in recs:
        start, count = int(r["start_group" if gen == 4 else "start_zone"]), int(r["group_count" if gen == 4 else "zone_count"])
        if gen == 4 and r.get("group_display", "none") != "none":
            bits = r["group_display"]
            zs = [i for i, b in enumerate(bits) if b == "1"]          # the reader prints group 1 (= zone 0) first
        elif gen == 4 and len(recs) == 1:
            zs = sorted(names)
        else:
            zs = list(range(start, start + count))
        exp[int(r["ac"])] = (bytes.fromhex(r["name"]).decode("utf-8", "replace"), {z: names.get(z) for z in zs})
    return exp


def judge(sc, outs, kinds, end, expected):
    """-> list of (aspect, text): where the observed behaviour departs from the property statement"""
    bad = []
    ops, roles = sc["ops"], sc["roles"]
    step = 0                      # answers delivered so far = index of the request that is outstanding
    connected = False
    finished = None               # op index at which RESULT init appeared
    complete = sc["silent_at"] is None and sc["connect"] and sc["connect_delay"] < TIMEOUT
    late = sc["connect_delay"] >= TIMEOUT
    for i, (op, role, lines, ks) in enumerate(zip(ops, roles, outs, kinds)):
        results = [ln for ln in lines if ln.startswith("RESULT init")]
        cut = len(lines)
        for pos, ln in enumerate(lines):
            if ln.startswith("RESULT init") or ln == "HBSTART":
                cut = pos
                break
        sent = [k for (k, pos) in ks if pos < cut and k in S.STEPS]
        want = []
        if role[0] == "conn1" and not connected:
            connected = True
            want = ["version"]
        elif role[0] == "answer":
            step = role[1] + 1
            want = [S.STEPS[step]] if step < 6 else []
        # ------------------------------------------------ requests: one at a time, fixed order, next only after the answer
        if finished is None and not (late and connected):
            if sent != want:
                bad.append(("order", "op %d `%s` (%s): discovery requests transmitted %s, the property allows %s here "
                            "(%d answers delivered so far)" % (i, op[:60], " ".join(map(str, role)), sent, want, step)))
        # ------------------------------------------------ result of init()
        for r in results:
            val = r.split()[-1]
            if finished is not None:
                bad.append(("result", "op %d: init() reported a second result %s" % (i, r)))
            finished = i
            if complete:
                if val != "True" or role != ["answer", 5]:
                    bad.append(("result", "op %d `%s`: %s, but the console has answered %d of 6 requests and 5 s have not passed"
                                % (i, op[:60], r, step)))
            else:
                if val != "False" or role[0] != "deadline":
                    bad.append(("timeout", "op %d `%s` (%s): %s; the property demands `False` exactly 40 ticks after init()"
                                % (i, op[:60], " ".join(map(str, role)), r)))
        if complete and role == ["answer", 5] and not results:
            bad.append(("result", "op %d: the sixth answer was delivered but init() did not return" % i))
        if not complete and role[0] == "deadline" and not results:
            bad.append(("timeout", "op %d: 40 ticks after init() and the console silent since %s: init() has not returned"
                        % (i, "answer %d" % step if sc["connect"] else "before the connection")))
        # ------------------------------------------------ views
        if role[0].startswith("view") and lines and lines[0].startswith("VIEW"):
            v = S.parse_view(lines[0])
            if role[0] == "view-timeout" and v["initialised"] != "False" and not (late and connected):
                bad.append(("timeout", "op %d: initialised=%s after init() gave up" % (i, v["initialised"])))
            if role[0] == "view-final" and complete:
                if v["initialised"] != "True":
                    bad.append(("exposed", "op %d: the console has answered all six requests within 5 s but initialised=%s" % (i, v["initialised"])))
                got, dup = S.exposed(v)
                if dup:
                    bad.append(("exposed", "op %d: duplicated in the object model: %s" % (i, dup)))
                if got != expected:
                    bad.append(("exposed", "op %d: exposed ACs/zones %s; the console described %s" % (i, got, expected)))
    if end == "pending":
        bad.append(("hang", "init() never returned (no RESULT line although the clock was advanced far beyond 5 s)"))
    elif end and end.startswith("raised"):
        bad = [(a, t + " [init() " + end + "]") for a, t in bad]
        bad.append(("raises", "init() %s" % end))
    return bad


def run_scenario(sc):
    outs, kinds, end = S.run(sc["gen"], sc["ops"])
    return outs, kinds, end


def _drop(sc, i):
    d = dict(sc)
    d["ops"] = sc["ops"][:i] + sc["ops"][i + 1:]
    d["roles"] = sc["roles"][:i] + sc["roles"][i + 1:]
    return d


def shrink(sc, aspect, expected):
    """delete interleaved frames while the same aspect still fails"""
    i = len(sc["ops"]) - 1
    while i >= 0:
        if sc["roles"][i][0] == "extra":
            cand = _drop(sc, i)
            try:
                bad = judge(cand, *run_scenario(cand), expected)
            except Exception:  # noqa: BLE001
                bad = []
            if any(a == aspect for a, _ in bad):
                sc = cand
        i -= 1
    return sc


# ------------------------------------------------------------------------------------------------ families
def families(rng, thorough):
    """yields scenarios; quick about 2300, thorough about 45000"""
    reps = 30 if thorough else 1
    for gen in (4, 5):
        # (a) every shape of installation, no interleaving
        for n_acs in (1, 2, 3, 4):
            for n_zones in range(0 if gen == 5 else 1, 17):
                for fmt in (("new", "old") if gen == 4 else (None,)):
                    for _ in range(2 * reps if thorough else 1):
                        yield build(rng, S.random_install(rng, gen, n_acs, n_zones, fmt), "clean")
        # (b) one interleaved frame of every kind at every position (before each answer and after the last)
        for step in range(7):
            for kind in S.EXTRA_KINDS:
                for _ in range(3 * reps):
                    yield build(rng, S.random_install(rng, gen), "one-extra", extras={step: [kind]})
        # (c) many interleaved frames
        for _ in range((500 if not thorough else 250) * reps):
            ex = {k: [None] * rng.choice([0, 0, 1, 1, 2, 3]) for k in range(7)}
            yield build(rng, S.random_install(rng, gen), "noisy", extras=ex, flap=rng.random() < 0.15)
        # (d) silence after s answers (with and without other traffic), never connected
        for s in range(6):
            for _ in range(20 * reps):
                ex = {k: [None] * rng.choice([0, 0, 1, 2]) for k in range(s + 1)} if rng.random() < 0.7 else {}
                yield build(rng, S.random_install(rng, gen), "silence", extras=ex, silent_at=s,
                            connect_delay=rng.choice([0, 0, 0, 3, 17]))
        for _ in range(4 * reps):
            yield build(rng, S.random_install(rng, gen), "never-connected", connect=False)
        # (e) connection established late
        for d in [0, 1, 8, 20, 30, 37, 38, 40, 41, 47, 80, 400, 3000] + [rng.randint(2, 38) for _ in range(4 * reps)] \
                + [rng.randint(41, 5000) for _ in range(4 * reps)]:
            ex = {k: [None] * rng.choice([0, 0, 1]) for k in range(7)}
            yield build(rng, S.random_install(rng, gen), "late-connect" if d >= TIMEOUT else "connect-delay", extras=ex, connect_delay=d)


def inconsistent(rng, gen):
    """consoles outside the property's quantifier (recorded, not judged)"""
    k = rng.randint(0, 3)
    inst = S.random_install(rng, gen, n_zones=rng.randint(2, 8))
    if gen == 4 and k == 0:
        inst = S.random_install(rng, 4, n_zones=0, fmt=rng.choice(["new", "old"]))
        label = "at4-zero-groups"
    elif k == 1:
        a = rng.choice(inst.acs)
        missing = [z for z in range(16) if z not in inst.zones]
        if gen == 4 and inst.fmt == "new" and missing:
            a["zones"] = sorted(a["zones"] + [missing[0]])
        else:
            a["count"] += 2
        label = "zone-without-name"
    elif k == 2 and len(inst.acs) > 1:
        inst.acs[1]["id"] = inst.acs[0]["id"]
        label = "duplicate-ac-number"
    else:
        a = inst.acs[0]
        if a["zones"]:
            a["zones"] = a["zones"][1:]
            a["count"] = max(0, a["count"] - 1)
            a["start"] = a["start"] + 1
        label = "zone-of-no-ac"
    ops = ["init", "conn 1"] + S.answers(rng, inst) + ["view", "adv 39", "adv 1", "view"]
    return label, ops


# ------------------------------------------------------------------------------------------------ the tie
def pmap(fn, jobs):
    """map over forked workers that are replaced after 64 jobs: module-level state of the package under test (a cache, a
    shared list that grows) must neither leak from one script into many others nor into the check's own process"""
    if not jobs:
        return []
    with multiprocessing.get_context("fork").Pool(12, maxtasksperchild=4) as pool:
        return pool.map(fn, jobs, chunksize=16)


def modelled_generations(ctx):
    gens = []
    if not ctx.driver_ok:
        return gens
    for g in (4, 5):
        try:
            if ctx.driver(["api-new %d" % g])[0].strip() == "ok":
                gens.append(g)
        except Exception:  # noqa: BLE001
            pass
    return gens


_CTX = None


def compare(ctx, gen, ops):
    """apicheck.compare; a difference it reports is looked at again: within one `adv` op the order of the output lines is not compared when the same lines
    were produced: an `adv` may contain several timers that expire at the same virtual instant (AirTouch 4 poll and
    heartbeat are both armed when initialisation completes, with the same period) and the order at equal times is not
    prescribed.  -> (first mismatch or None, number of `adv` ops with the same lines in another order)"""
    if not ctx.driver_ok:
        return None, 0
    real, first = apicheck.compare(ctx, gen, ops)
    if first is None:
        return None, 0
    model = apicheck.run_model(ctx, gen, ops)
    reordered = 0
    for i, (o, r, m) in enumerate(zip(ops, real, model)):
        if apicheck.canon_out(r) != apicheck.canon_out(m):
            if o.startswith("adv ") and sorted(r) == sorted(m):
                reordered += 1
                continue
            return {"index": i, "op": o, "implementation": r, "model": m}, reordered
    return None, reordered


def _tie_one(args):
    gen, label, ops = args
    ctx = _CTX
    logging.disable(logging.CRITICAL)
    key = "api-tie:set-aside-scheduling-tie"
    before = ctx.dist.get(key, 0)
    try:
        mm, reordered = compare(ctx, gen, ops)
    except Exception as e:  # noqa: BLE001
        return label, gen, ops, {"error": "%s: %s" % (type(e).__name__, e)}, 0, 0
    return label, gen, ops, mm, reordered, ctx.dist.get(key, 0) - before


def tie(ctx, scripts, prop):
    """scripts: [(gen, label, ops)] -> runs apicheck.compare on each, in parallel"""
    if not scripts:
        return
    global _CTX
    _CTX = ctx
    jobs = list(scripts)
    res = pmap(_tie_one, jobs)
    first = {}
    for label, gen, ops, mm, reordered, aside in res:
        if mm and str(mm.get("error", "")).startswith("Infra"):
            raise core.Infra(mm["error"])                       # e.g. the driver binary vanished under a concurrent rebuild: exit 2, not a verdict
        ctx.count("tie:%d:%s:%s" % (gen, label, "differs" if mm else ("set-aside-scheduling-tie" if aside else "agrees")))
        if reordered:
            ctx.count("tie:%d:adv-ops-with-simultaneous-events-in-another-order" % gen, reordered)
        ctx.traces_validated += 0 if (mm or aside) else 1
        if aside:
            continue
        if mm and (gen, label) not in first:
            first[(gen, label)] = (ops, mm)
    for (gen, label), (ops, mm) in sorted(first.items())[:3]:
        ctx.tie_broken("%s:api-model-%d" % (prop, gen), "script family %s: the AirTouch %d API model and the implementation differ at %s"
                       % (label, gen, str(mm)[:600]), gen=gen, ops=ops)


def generated_scripts(ctx, gens, n):
    out = []
    for g in gens:
        try:
            mod = importlib.import_module("apigen%d" % g)
        except ImportError:
            continue
        rng = random.Random(ctx.seed * 7919 + g)
        if hasattr(mod, "gen_script"):
            for i in range(n):
                name, ops = mod.gen_script(rng, i)
                out.append((g, "apigen%d.%s" % (g, name), list(ops)))
        elif hasattr(mod, "scripts"):          # apigen4: scripts(seed, n) -> (family, ops) pairs
            for name, ops in mod.scripts(ctx.seed * 7919 + g, n):
                out.append((g, "apigen%d.%s" % (g, name), list(ops)))
    return out


# ------------------------------------------------------------------------------------------------ run
def _judge_one(sc):
    logging.disable(logging.CRITICAL)
    outs, kinds, end = run_scenario(sc)
    return outs, kinds, end


def run(ctx, deep=False):
    logging.disable(logging.CRITICAL)
    thorough = deep or ctx.tier == "thorough"
    ctx.coverage["rule"] = (
        "judgement (AirTouch 4 and 5, real objects over the stub socket, virtual clock): scripted consoles for installations of 1..4 ACs "
        "and 0..16 zones (AT4 1..16) with every kind of zone-to-AC description (AT4 following-length-24 records with the group bitmap and "
        "arbitrary non-contiguous partitions, legacy start/count bytes consistent, zero or meaningless; AT4 following-length-22 records "
        "with start/count ranges; a single old-format AC with meaningless start/count; AT5 contiguous ranges; AT5 zero zones with the "
        "zone-names and zone-status requests answered by echoes addressed to the client); families: clean, one interleaved frame of each "
        "kind (unknown message id, unknown sub-type, undecodable, duplicate of an earlier answer, unsolicited status, answer to a later "
        "step out of turn, AC error information, control echo, foreign-addressed frame, foreign-addressed request echo) at each of the 7 "
        "positions, random mixes, silence after 0..5 answers and never connected, connection 0..39 and 40..5000 ticks after init(). "
        "Compared with the property statement: the discovery requests transmitted (classified from the bytes the real send path writes) "
        "appear one per answering op in the fixed order and nowhere else; `init()` returns True in the op delivering the sixth answer / "
        "False in the op that moves the clock from 39 to 40 ticks after init(), exactly once, never raises, never stays pending; "
        "initialised flag; ACs (id, name) and zones (id, name, owning AC) of the VIEW equal the installation computed from the "
        "vendor-document reading of the names and ability payloads.  tie: apicheck.compare on apigen<g> scripts (all scenarios) and on the "
        "judged scripts for each generation the driver models.  distinct = distinct op scripts")
    ctx.assumptions += [
        "segmentation of the console's bytes is below the stub socket used here: the split into frames is covered by C06/C13 at the socket level, "
        "the API object receives whole decoded frames in both the real stack and this harness",
        "a frame of the awaited answer type addressed to another party is not generated (the property does not say whether it counts as the answer)",
        "the group bitmap of an AirTouch 4 ability record (documented as 'group display option') is read as the AC's set of zones, as the property statement says",
        "consoles that describe inconsistent installations (a zone without a name, AirTouch 4 without groups, a zone of no AC) are run and counted, not judged",
    ]
    rng = random.Random(ctx.seed * 1000003 + 9)
    scens = list(families(rng, thorough))
    # expected installations from the vendor reading of the payloads the console sent
    req = []
    for sc in scens:
        g = sc["gen"]
        req.append("spec %d %s %s" % (g, "FF12" if g == 4 else "FF13", sc["names_payload"]))
        req.append("spec %d FF11 %s" % (g, sc["ability_payload"]))
    ans = ctx.oracle(req)
    results = pmap(_judge_one, scens)
    worst = {}
    for n, (sc, (outs, kinds, end)) in enumerate(zip(scens, results)):
        inst = S.Inst.from_json(sc["inst"])
        expected = expected_from_reading(sc["gen"], S.parse_spec(ans[2 * n]), S.parse_spec(ans[2 * n + 1]))
        if expected != inst.expected():
            ctx.tie_broken("C09:console-script", "the vendor reading of the scripted console's names/ability payloads %s is not the installation "
                           "it was built from %s" % (expected, inst.expected()))
            continue
        ctx.case((sc["gen"], tuple(sc["ops"])))
        bad = judge(sc, outs, kinds, end, expected)
        ctx.count("%d:%s:%s" % (sc["gen"], sc["family"], "ok" if not bad else "fails:" + bad[0][0]))
        ctx.count("install:%s:acs=%d" % (inst.kind(), len(inst.acs)))
        for r in sc["roles"]:
            if r[0] == "extra":
                ctx.count("extra:%d:step%d:%s" % (sc["gen"], r[1], r[2]))
        for o in outs:
            for ln in o:
                if ln.startswith(("UNDECODABLE", "SUBSCRIBER-EXC")):
                    ctx.count("%d:%s" % (sc["gen"], ln))
        if sc["family"] == "late-connect":
            fin = [ln for o in outs for ln in o if ln.startswith("VIEW")]
            ctx.count("%d:late-connect:finally-%s" % (sc["gen"], "initialised" if fin and "initialised=True" in fin[-1] else "not-initialised"))
        if n < 2:
            ctx.sample({"family": sc["family"], "gen": sc["gen"], "ops": sc["ops"][:10], "expected": str(expected)})
        for aspect, text in bad[:1]:         # the earliest departure; what follows it is usually its consequence
            key = "C09:%d:%s" % (sc["gen"], aspect)
            if key not in worst or len(sc["ops"]) < len(worst[key][0]["ops"]):
                worst[key] = (sc, text, expected)
    for key, (sc, text, expected) in sorted(worst.items()):
        aspect = key.split(":")[2]
        small = shrink(sc, aspect, expected)
        bad = [t for a, t in judge(small, *run_scenario(small), expected) if a == aspect]
        ctx.violation(key, "AirTouch %d, %s console (%s): %s" % (sc["gen"], sc["family"], S.Inst.from_json(sc["inst"]).kind(), (bad or [text])[0]),
                      kind="history", gen=sc["gen"], ops=small["ops"], scenario=small, expected={str(k): [v[0], {str(z): n for z, n in v[1].items()}] for k, v in expected.items()})
    # recorded, not judged
    for gen in (4, 5):
        for _ in range(40 if not thorough else 400):
            label, ops = inconsistent(rng, gen)
            outs, kinds, end = S.run(gen, ops)
            res = [ln for o in outs for ln in o if ln.startswith("RESULT init")]
            exc = any(ln.startswith("SUBSCRIBER-EXC") for o in outs for ln in o)
            ctx.count("not-judged:%d:%s:%s%s%s" % (gen, label, res[0] if res else "no-result", ":subscriber-exception" if exc else "",
                                                  ":" + end if end != "returned" else ""))
    full_stack(ctx, thorough, rng)
    # tie
    gens = modelled_generations(ctx)
    ctx.count("tie:modelled-generations:%s" % ",".join(map(str, gens)))
    scripts = generated_scripts(ctx, gens, 5000 if thorough else 300)
    own = [sc for sc in scens if sc["gen"] in gens]
    own = own[::4] if not thorough else own[::3]
    scripts += [(sc["gen"], "c09." + sc["family"], sc["ops"]) for sc in own]
    tie(ctx, scripts, "C09")


def full_stack(ctx, thorough, rng):
    """the same guarantee through the REAL socket: connect latency below / above the 5 s limit, a refusing network, answers cut
    into arbitrary segments with unknown / duplicate / foreign / unsolicited frames in between, silence at a step"""
    import fullstack
    scen = []
    for lat in (0, 1, 8, 24, 39, 41, 56, 200):
        for silent in (None, 0, 3, 5):
            scen.append(dict(inst=fullstack.INST, latency=lat, silent_from=silent, horizon=lat + 120))
    scen.append(dict(inst=fullstack.INST, eager=True, horizon=120))
    scen.append(dict(inst=fullstack.INST, eager=True, latency=8, horizon=160))
    scen.append(dict(inst=fullstack.INST, eager=True, refuse_until=17, horizon=200))
    for refuse in (8, 15, 17, 24, 31, 33, 48):
        scen.append(dict(inst=fullstack.INST, refuse_until=refuse, horizon=200))
    for _ in range(40 if thorough else 8):
        seg = [rng.choice([1, 1, 2, 3, 5, 7, 13, 40]) for _ in range(rng.randint(1, 5))]
        il = rng.sample(["unknown", "duplicate", "foreign", "unsolicited"], rng.randint(0, 4))
        scen.append(dict(inst=fullstack.INST, segment=seg, interleave=il, answer_delay=rng.choice([0, 0, 1, 3]), horizon=160))
    for gen in (4, 5):
        ref_view = fullstack.run(gen, fullstack.SCENARIOS["plain"])["view"]
        # many sessions in ONE process (registries, header factories and decoders are process-wide singletons): every one of them
        # must initialise like the first - 48 sessions put well over 256 frames through the generation's header factory
        for k in range(48):
            b = fullstack.run(gen, fullstack.SCENARIOS["plain"])
            ctx.case(("full-stack-session", gen, k))
            if b.get("init_result") is not True or b["view"] != ref_view:
                ctx.violation("C09:%d:full-stack:later-session" % gen, "AirTouch %d over the real socket: session number %d in the same process against a plainly answering console: "
                              "init() returned %s after %s ticks%s" % (gen, k + 2, b.get("init_result"), b.get("init_done_at"), "" if b["view"] == ref_view else ", object model differs"),
                              kind="history", level="full-stack", gen=gen, scenario={"horizon": 120, "sessions": k + 2},
                              implementation_output={"init_result": b.get("init_result"), "init_done_at": b.get("init_done_at")}, spec_verdict="init() returns True with the described model")
                break
        # a session abandoned while its connection attempt is still in flight (the console is unreachable: init() gives up after 5 s,
        # the application shuts the client down), then a new session against a console that answers at once
        for lat, when in ((56, 45), (56, 41), (200, 60), (41, 40)):
            sc0 = dict(inst=fullstack.INST, latency=lat, reinit_latency=0, horizon=lat + 80)
            o = fullstack.run(gen, sc0, ("tick", when, 1), True)
            ctx.case(("full-stack-abandoned", gen, lat, when))
            if o.get("reinit_result") is not True or o.get("reinit_view") != ref_view:
                ctx.violation("C09:%d:full-stack:after-abandoned-session" % gen, "AirTouch %d over the real socket: init() against an unreachable console (connect takes %d ticks) "
                              "returned, shutdown() was called %d ticks after init() with the connection attempt still in flight, then init() against a console that answers "
                              "at once returned %s%s" % (gen, lat, when, o.get("reinit_result"), "" if o.get("reinit_view") == ref_view else " (object model not the described one)"),
                              kind="history", level="full-stack", gen=gen, scenario={"latency": lat, "reinit_latency": 0, "horizon": lat + 80, "shutdown_at": when},
                              implementation_output={"reinit_result": str(o.get("reinit_result"))}, spec_verdict="the later init() returns True with the described model")
                break
        for sc in scen:
            b = fullstack.run(gen, sc)
            key = {k: v for k, v in sc.items() if k != "inst"}
            ctx.case(("full-stack", gen, json.dumps(key, sort_keys=True)))
            t, res = b.get("init_done_at"), b.get("init_result")
            why = None
            if b.get("init_raised"):
                why = "init() raised %s" % b["init_raised"]
            elif t is None:
                why = "init() did not return within %d ticks" % sc["horizon"]
            elif t > TIMEOUT:
                why = "init() returned %s after %d ticks (the limit is %d)" % (res, t, TIMEOUT)
            elif res is False and t != TIMEOUT:
                why = "init() returned False after %d ticks, before the %d-tick limit" % (t, TIMEOUT)
            elif res is False and sc.get("silent_from") is None and sc.get("refuse_until") is None and sc.get("latency", 0) <= 32:
                why = "init() returned False although the console is reachable%s and answers every request at once" % (
                    " (connecting takes %d ticks)" % sc["latency"] if sc.get("latency") else "")
            elif res is False and sc.get("refuse_until") is not None and ((sc["refuse_until"] + 15) // 16) * 16 <= 32:
                # connection attempts are 2 s (16 ticks) apart: the first one after the console became reachable is well inside the limit,
                # the console answers everything at once - a connect delay below 5 s
                why = "init() returned False although the console accepts connections from tick %d on (attempts are due at 0, 16, 32) and answers every request" % sc["refuse_until"]
            elif res is True and b["view"] != ref_view and sc.get("silent_from") is None:
                why = "init() returned True but the object model differs from the one a plainly answering console yields"
            elif res is True and sc.get("silent_from") is not None:
                why = "init() returned True although the console fell silent after %d answers" % sc["silent_from"]
            ctx.count("full-stack:%d:init=%s" % (gen, res))
            if why:
                k2 = "C09:%d:full-stack:%s" % (gen, why.split(" ")[1])
                ctx.violation(k2, "AirTouch %d over the real socket, console scenario %s: %s" % (gen, key, why), kind="history", level="full-stack",
                              gen=gen, scenario=key, implementation_output={"init_result": res, "init_done_at": t}, spec_verdict=why)
                break
    ctx.coverage["rule"] += ("  Full stack: the real API object over the real socket and the in-memory transport (also with the loop's eager task factory); connect latency 0..200 ticks x console silent "
                             "after 0 / 3 / 5 answers or answering, a refusing network for 8..48 ticks (one or two refused attempts before the console is reachable: init() must then return True), answers cut into random segments with unknown / duplicate / "
                             "foreign-addressed / unsolicited frames in front: init() returns within 40 ticks, False exactly at 40, True only with the complete model.")


def search(ctx):
    if ctx.tier != "thorough":
        saved = list(ctx.broken)
        run(ctx, deep=True)
        ctx.broken[:] = saved + [b for b in ctx.broken[len(saved):] if b["name"] not in {s["name"] for s in saved}]


def replay(ctx, data):
    if data.get("level") == "full-stack":
        import fullstack
        sc = dict(data["scenario"], inst=fullstack.INST)
        b = fullstack.run(data["gen"], sc)
        print({k: b.get(k) for k in ("init_result", "init_done_at", "init_raised")}, data.get("spec_verdict"))
        return 1
    logging.disable(logging.CRITICAL)
    sc = data["scenario"]
    expected = {int(k): (v[0], {int(z): n for z, n in v[1].items()}) for k, v in data["expected"].items()}
    outs, kinds, end = run_scenario(sc)
    for op, role, o in zip(sc["ops"], sc["roles"], outs):
        print("%-70s %s" % (op[:70], " ".join(map(str, role))))
        for ln in o:
            print("      " + ln[:300])
    print("init():", end)
    bad = judge(sc, outs, kinds, end, expected)
    for a, t in bad:
        print("FAILS %s: %s" % (a, t))
    return 1 if bad else 0
