"""C07 — the connection heals itself, never wedges, and stays single."""
import sockcheck

LEAN_MODULES = ["PyAirtouch.Props.C07", "PyAirtouch.Props.C07Heal"]
LEVEL = "proof"
MONITORS = ["c07a", "c07b", "c07c", "c01a", "c01d", "c02a", "c02b"]


def _nontrivial(script, r):
    return any(op[0] in ("peer", "failw", "block", "reset", "subraise") or (op[0] == "send" and op[2] != "ok") or
               (op[0] == "net" and op[1] == "refuse") for op in script)


def run(ctx, deep=False):
    thorough = deep or ctx.tier == "thorough"
    n = 20000 if thorough else 2000
    ctx.coverage["rule"] = (
        "fault scripts of depth 1..6 over {refuse, accept with latency, peer EOF, peer reset, garbage, bad CRC, truncated frame, "
        "write error on the next write, blocked drain, unencodable message (struct.error / NotImplementedError / AttributeError), "
        "raising subscriber, reset_connection()} with random timings against sends and the 2 s retry delay, plus outages of 20 min (thorough: also 30 min) of refused attempts; each script ends with "
        "the network behaving again, a probe status frame from the peer and a probe command. Monitors: at most one open transport "
        "at every instant, no leaked transport at the end, probe delivered and probe command written. Every run replayed against "
        "the Lean model. non-trivial = contains at least one fault")
    for gen in (4, 5):
        items = sockcheck.gen_scripts(ctx.seed * 17 + gen, [("faults", n)])
        # a long-lived client: more commands than the one-byte packet counter has values, a peer close in the middle, then the
        # probe - it must still be transmitting
        long_run = [("net", "accept"), ("open",), ("adv", 8)]
        for i in range(300):
            long_run.append(("send", i + 1, "ok", "idem"))
            if i % 9 == 0:
                long_run.append(("turn", 1))
            if i == 150:
                long_run += [("peer", "eof"), ("adv", 8)]
        long_run += [("adv", 8), ("heal",)]
        items.append(("faults", long_run))
        # an outage of twenty / thirty minutes (600 / 900 refused attempts in a row), then the console is back
        for outage in ((9600,) if not thorough else (9600, 14400)):        # (the trace monitors are quadratic in the length of a run)
            items.append(("faults", [("net", "refuse"), ("open",), ("adv", 4), ("send", 1, "ok", "idem"), ("adv", outage), ("heal",)]))
            items.append(("faults", [("net", "accept"), ("open",), ("adv", 8), ("net", "refuse"), ("peer", "eof"), ("adv", outage), ("heal",)]))
        # one loss noticed by two parties (the read loop and a sender whose flush is held up) while the application's connection callback
        # is slow: the reconnection completes while the old read loop is still inside the "disconnected" notification
        for slow in (2, 4, 8, 16):
            for k in (0, 1, 2, 3):
                for fail in ("reset", "timeout"):
                    items.append(("faults", [("net", "accept"), ("subslow", slow), ("open",), ("adv", 8), ("block", 1), ("send", 1, "ok", "idem"), ("turn", k),
                                             ("peer", fail), ("adv", 40), ("heal",)]))
                    # ... slow on "disconnected" only (cleaning up takes the application longer than greeting a new connection)
                    items.append(("faults", [("net", "accept"), ("subslow", slow * 2, 0), ("open",), ("adv", 8), ("block", 1), ("send", 1, "ok", "idem"), ("turn", k),
                                             ("peer", fail), ("adv", 40), ("heal",)]))
        good = sockcheck.judge_family(ctx, "C07", items, MONITORS, gen=gen, nontrivial=_nontrivial)
        sockcheck.validate_against_model(ctx, good, "AT%d" % gen)
    ctx.assumptions += ["real half-open TCP detection and OS errors other than the injected ones are environment"]


def search(ctx):
    if ctx.tier != "thorough":
        run(ctx, deep=True)


def replay(ctx, data):
    return sockcheck.replay(ctx, data)
