"""C14 - state is refreshed after every reconnection and after AirTouch 4 group silence.

 1. theorems over the API model (LEAN_MODULES);
 2. tie: `apicheck.compare` (real object vs Lean API model, same op lines) on the generated API scripts (`apigen<g>`, every
    scenario) and on this module's own scripts, for every generation the driver models;
 3. judgement of the real AirTouch4 / AirTouch5 objects against the property statement, on histories built by a scripted
    console (`harness/initsim.py`): initialisation, subscribers on everything, status traffic, connection losses at
    arbitrary moments, console state changed (or not) during the outage, reconnection, answered or unanswered refresh,
    long silences.  Observed: the requests transmitted (classified from the bytes the real send path writes), the op in
    which they appear on the virtual clock, NOTIFY lines, the public object model (`VIEW`).
    Reference: at `conn 1` after a loss both an AC status request and a zone/group status request are transmitted; after
    the answers the AC power / selected and active mode and the zone power / damper percentage shown are the
    vendor-document reading (oracle `spec`) of the answers, and the whole VIEW equals the VIEW of a second client freshly
    initialised against the console in its present state; answers equal to what the client already has cause no NOTIFY
    and leave the VIEW as it was.  AirTouch 4: with the connection up since the last group status frame (received at
    time t) group status requests appear in exactly the `adv` ops that contain t+2400, t+4800, ...; after an outage the
    phase is not prescribed: no more than 2400 ticks of connected silence without a request, and never a poll in the
    2400 ticks after a received group status.  AirTouch 5: no zone status request in any `adv` op.
"""
import logging
import os
import random

import initsim as S
from props import c09

LEVEL = "proof"
PERIOD = 2400            # 300 s in ticks


def _lean_modules():
    import core
    mods = ["PyAirtouch.Props.C14At5"]
    if os.path.exists(os.path.join(core.LEAN_DIR, "PyAirtouch", "Props", "C14At4.lean")):
        mods.append("PyAirtouch.Props.C14At4")
    if os.path.exists(os.path.join(core.LEAN_DIR, "PyAirtouch", "Props", "C14At4b.lean")):
        mods.append("PyAirtouch.Props.C14At4b")
    return mods


LEAN_MODULES = _lean_modules()

AC_POWER = {"on": "ON", "off": "OFF", "away_off": "OFF_AWAY", "away_on": "ON_AWAY", "sleep": "SLEEP"}
AC_SELECTED = {"auto": "AUTO", "heat": "HEAT", "dry": "DRY", "fan": "FAN", "cool": "COOL", "auto_heat": "AUTO", "auto_cool": "AUTO"}
AC_ACTIVE = {"auto": "AUTO", "heat": "HEAT", "dry": "DRY", "fan": "FAN", "cool": "COOL", "auto_heat": "HEAT", "auto_cool": "COOL"}
ZONE_POWER = {"on": "ON", "off": "OFF", "turbo": "TURBO"}


# ------------------------------------------------------------------------------------------------ scenario builder
class Builder:
    """keeps the console's state and the clock while a script is written"""

    def __init__(self, rng, inst):
        self.rng, self.inst, self.gen = rng, inst, inst.gen
        self.ops, self.roles = [], []
        self.now = 0
        self.anchors = []            # times from which a 2400-tick period could be counted: adv ends avoid them modulo 2400
        self.ac = S.random_ac_state(rng, inst)
        self.zone = S.random_zone_state(rng, inst)
        self.client_ac = None        # what the client has last been told
        self.client_zone = None
        self.connected = False

    def add(self, op, *role):
        self.ops.append(op)
        self.roles.append(list(role))

    def handshake(self):
        rng = self.rng
        ans = S.answers(rng, self.inst, self.ac, self.zone)
        self.add("init", "hs")
        self.add("conn 1", "hs")
        for k, a in enumerate(ans):
            if rng.random() < 0.15:
                self.adv(rng.randint(1, 4))
            self.add(a, "hs-answer", k)
        self.client_ac, self.client_zone = dict(self.ac), dict(self.zone)
        self.connected = True
        self.anchors.append(self.now)
        self.add("view", "view", "initial")

    def subscribe(self):
        self.add("sub at a", "sub")
        for a in self.inst.acs:
            self.add("sub ac %d general g%d" % (a["id"], a["id"]), "sub")
            self.add("sub ac %d state s%d" % (a["id"], a["id"]), "sub")
        for z in sorted(self.inst.zones):
            self.add("sub zone %d z%d" % (z, z), "sub")

    def adv(self, n):
        """advance by about n ticks, never ending on a possible deadline"""
        while n > 0:
            step = min(n, 1500)
            if n > 1500 and self.rng.random() < 0.5:
                step = n                                # long single steps too (several deadlines inside one op)
            end = self.now + step
            while any((end - a) % PERIOD == 0 for a in self.anchors):
                end += 1
            self.add("adv %d" % (end - self.now), "adv", end - self.now)
            n -= end - self.now
            self.now = end

    def change_console(self, p=0.5):
        rng = self.rng
        fresh_a, fresh_z = S.random_ac_state(rng, self.inst), S.random_zone_state(rng, self.inst)
        for i in self.ac:
            if rng.random() < p:
                self.ac[i] = fresh_a[i]
        for z in self.zone:
            if rng.random() < p:
                self.zone[z] = dict(fresh_z[z], turbo=self.zone[z]["turbo"])

    def ac_status(self, role):
        line = S.m_ac_status(self.inst, self.ac)
        unchanged = self.ac == self.client_ac
        self.add(line, role, "unchanged" if unchanged else "changed")
        self.client_ac = {k: dict(v) for k, v in self.ac.items()}

    def zone_status(self, role):
        unknown = None
        if self.inst.zones and self.rng.random() < 0.25:
            free = [z for z in range(16) if z not in self.inst.zones]
            if free:
                unknown = self.rng.choice(free)       # a zone / group enabled on the console after the client was initialised, listed first
        line = S.m_zone_status(self.inst, self.zone, unknown_first=unknown)
        unchanged = self.zone == self.client_zone
        self.add(line, role, "unchanged" if unchanged else "changed")
        self.client_zone = {k: dict(v) for k, v in self.zone.items()}
        if self.gen == 4 or self.inst.zones:
            self.anchors.append(self.now)

    def outage(self, length, change, answer):
        rng = self.rng
        self.add("view", "view", "before-loss")
        self.add("conn 0", "conn0")
        self.connected = False
        if length:
            self.adv(length)
        if change:
            self.change_console(rng.choice([0.2, 0.5, 1.0]))
        self.add("conn 1", "conn1")
        self.connected = True
        self.anchors.append(self.now)
        if answer == "none":
            return
        if rng.random() < 0.3:
            self.adv(rng.randint(1, 6))
        order = ["ac", "zone"] if rng.random() < 0.6 else ["zone", "ac"]
        if answer == "ac-only":
            order = ["ac"]
        for j, what in enumerate(order):
            if rng.random() < 0.25:
                kk, line = S.extra(rng, self.inst, 6, [], rng.choice(["unknown-id", "unknown-sub", "foreign-request-echo", "control-echo", "undecodable"]))
                self.add(line, "extra", kk)
            if what == "ac":
                self.ac_status("answer-ac")
            else:
                self.zone_status("answer-zone")
        self.add("view", "view", "after-refresh" if len(order) == 2 else "after-partial-refresh")

    def scenario(self, family):
        return {"gen": self.gen, "family": family, "inst": self.inst.describe(), "ops": self.ops, "roles": self.roles}


CALLS = ["call ac %(ac)d set_power TURN_ON", "call ac %(ac)d set_power TURN_OFF", "call ac %(ac)d set_mode COOL 0", "call at check_for_updates"]
ZCALLS = ["call zone %(z)d set_power ON", "call zone %(z)d set_power OFF", "call zone %(z)d set_damper_percentage 40"]


def build(rng, gen, family):
    n_zones = None
    inst = S.random_install(rng, gen, n_acs=rng.choice([1, 1, 2, 3, 4]), n_zones=n_zones)
    b = Builder(rng, inst)
    b.handshake()
    b.subscribe()
    if family == "reconnect":
        for _ in range(rng.randint(1, 3)):
            # the moment of the loss: right away, after traffic, after a call, in the middle of a silence
            k = rng.randint(0, 5)
            if k == 1:
                b.change_console()
                b.ac_status("status-ac")
            elif k == 2 and (gen == 4 or inst.zones):
                b.change_console()
                b.zone_status("status-zone")
            elif k == 3:
                tmpl = rng.choice(CALLS + (ZCALLS if inst.zones else []))
                b.add(tmpl % {"ac": rng.choice(inst.acs)["id"], "z": rng.choice(sorted(inst.zones) or [0])}, "call")
            elif k == 4:
                b.adv(rng.choice([1, 39, 300, 1000, 2000, 2399, 2401, 3000]))
            length = rng.choice([0, 0, 1, 8, 39, 80, 240, 1000, 2399, 2401, 2600, 5000, 9000, rng.randint(0, 6000)])
            b.outage(length, change=rng.random() < 0.6, answer=rng.choice(["both", "both", "both", "both", "ac-only", "none"]))
            if rng.random() < 0.5:
                b.adv(rng.choice([5, 100, 900, 2500]))
    elif family == "unchanged-refresh":
        for _ in range(rng.randint(1, 2)):
            if rng.random() < 0.5:
                b.change_console()
                b.ac_status("status-ac")
                if gen == 4 or inst.zones:
                    b.zone_status("status-zone")
            b.outage(rng.choice([0, 1, 80, 1000, 2401, 7000]), change=False, answer="both")
    elif family == "silence":
        for _ in range(rng.randint(2, 6)):
            k = rng.randint(0, 6)
            if k <= 2:
                b.adv(rng.choice([1, 100, 1000, 2399, 2401, 2500, 4799, 4801, 5000, 7300, 12100, rng.randint(1, 9000)]))
            elif k == 3 and (gen == 4 or inst.zones):
                if rng.random() < 0.5:
                    b.change_console()
                b.zone_status("status-zone")
            elif k == 4:
                b.change_console()
                b.ac_status("status-ac")
            elif k == 5:
                b.adv(rng.choice([2000, 2399, 2300]))
                if gen == 4 or inst.zones:
                    b.zone_status("status-zone")
                b.adv(rng.choice([2000, 2399, 2401, 2800]))
            else:
                tmpl = rng.choice(CALLS)
                b.add(tmpl % {"ac": rng.choice(inst.acs)["id"]}, "call")
        b.adv(rng.choice([2401, 5000]))
    elif family == "reinit":
        # a session, shutdown(), a later init() on the same object: refresh and (AirTouch 4) the silence poll must work as on a fresh object
        if rng.random() < 0.5:
            b.adv(rng.choice([10, 1000, 2600]))
        b.add("shutdown", "shutdown")
        if rng.random() < 0.5:
            b.adv(rng.choice([1, 100, 3000]))
        b.change_console()
        b.handshake()
        b.subscribe()
        for _ in range(rng.randint(1, 3)):
            b.adv(rng.choice([1000, 2401, 2500, 5000]))
        if rng.random() < 0.6:
            b.outage(rng.choice([0, 80, 2600]), change=rng.random() < 0.5, answer="both")
            b.adv(rng.choice([100, 2500]))
    elif family == "silence-and-outage":
        for _ in range(rng.randint(1, 3)):
            b.adv(rng.choice([10, 1000, 2000, 2399, 2500, 5000]))
            b.outage(rng.choice([0, 10, 500, 2399, 2401, 3000, 5000, 7500, rng.randint(0, 8000)]), change=rng.random() < 0.5,
                     answer=rng.choice(["none", "none", "ac-only", "both"]))
            for _ in range(rng.randint(1, 4)):
                b.adv(rng.choice([700, 1500, 2300, 2500, 4000, 7300]))
            if rng.random() < 0.3 and (gen == 4 or inst.zones):
                b.zone_status("status-zone")
                b.adv(rng.choice([2399, 2401, 5000]))
    b.add("view", "view", "final")
    return b.scenario(family)


# ------------------------------------------------------------------------------------------------ reference and judgement
def reading_requests(sc):
    """oracle request lines for every status message of the scenario: {op index: request}"""
    g = sc["gen"]
    req = {}
    for i, (op, role) in enumerate(zip(sc["ops"], sc["roles"])):
        if role[0] in ("answer-ac", "status-ac") or role == ["hs-answer", 3]:
            req[i] = "spec %d %s %s" % (g, "2D" if g == 4 else "C023", op.split()[2])
        elif role[0] in ("answer-zone", "status-zone") or role == ["hs-answer", 5]:
            w = op.split()
            if g == 5 and len(w[2]) == 16:
                continue                # the zero-zone echo carries no records
            req[i] = "spec %d %s %s" % (g, "2B" if g == 4 else "C021", w[2])
    return req


def fresh_script(sc, upto):
    """the script of a second client initialised against the console as it is after op `upto`: the same version, names,
    ability and timer answers, and the latest AC / zone status frames the console has produced"""
    hs = [op for op, r in zip(sc["ops"], sc["roles"]) if r[0] == "hs-answer"]
    last_ac, last_zone = hs[3], hs[5]
    for op, r in list(zip(sc["ops"], sc["roles"]))[:upto + 1]:
        if r[0] in ("answer-ac", "status-ac"):
            last_ac = op
        elif r[0] in ("answer-zone", "status-zone"):
            last_zone = op
    return ["init", "conn 1", hs[0], hs[1], hs[2], last_ac, hs[4], last_zone, "view"]


def check_view(gen, view, ac_read, zone_read):
    """differences between the parsed VIEW and the vendor readings of the latest AC / zone status frames"""
    bad = []
    acs = {int(a["ac_id"]): a for a in view["air_conditioners"]}
    zones = {int(z["zone_id"]): z for a in view["air_conditioners"] for z in a["zones"]}
    for r in ac_read or []:
        a = acs.get(int(r["ac"]))
        if a is None:
            continue
        want = {"power_state": AC_POWER.get(r["power"]), "selected_mode": AC_SELECTED.get(r["mode"]), "active_mode": AC_ACTIVE.get(r["mode"])}
        for k, v in want.items():
            if v is not None and a[k] != v:
                bad.append("AC %s %s=%s, the console's latest status says %s (%s)" % (r["ac"], k, a[k], v, r["power"] + "/" + r["mode"]))
    for r in zone_read or []:
        z = zones.get(int(r["group" if gen == 4 else "zone"]))
        if z is None:
            continue
        want = {"power_state": ZONE_POWER.get(r["power"]), "current_damper_percentage": r["open_percentage"]}
        for k, v in want.items():
            if v is not None and z[k] != v:
                bad.append("zone %s %s=%s, the console's latest status says %s" % (r["group" if gen == 4 else "zone"], k, z[k], v))
    return bad


def judge(sc, outs, kinds, readings, fresh_views):
    """-> list of (aspect, op index, text)"""
    gen = sc["gen"]
    bad = []
    now = 0
    connected = False
    initialised = False
    last_gs = None          # time the last group status frame was received
    up_since = None         # time since which the connection has been up without interruption
    last_req_hi = None      # latest time by which the most recent group status request had been transmitted
    view_before_loss = None
    refresh_unchanged = True
    latest_ac = latest_zone = None
    for i, (op, role, lines, ks) in enumerate(zip(sc["ops"], sc["roles"], outs, kinds)):
        sent = [k for k, _ in ks]
        notes = [ln for ln in lines if ln.startswith("NOTIFY")]
        start = now
        if role[0] == "adv":
            now += role[1]
        polls = sent.count("zone_status")
        if role[0] == "hs":
            if op == "conn 1":
                connected, up_since = True, now
        elif role[0] == "hs-answer":
            if role[1] == 3:
                latest_ac = readings.get(i)
            if role[1] == 5:
                latest_zone = readings.get(i)
                last_gs = now
                initialised = any(ln == "RESULT init True" for ln in lines)
                if not initialised:
                    return [("setup", i, "the scripted console did not initialise the client")]
        elif role[0] == "shutdown":
            connected = initialised = False
            last_gs = up_since = last_req_hi = view_before_loss = None
        elif role[0] == "conn0":
            connected = False
        elif role[0] == "conn1":
            connected, up_since = True, now
            refresh_unchanged = True
            for need, label in (("ac_status", "AC status"), ("zone_status", "zone status" if gen == 5 else "group status")):
                if need not in sent:
                    bad.append(("refresh", i, "the connection came back %d ticks after init and no %s request was transmitted in that op (transmitted: %s)"
                                % (now, label, sent)))
            if "zone_status" in sent:
                last_req_hi = now
        elif role[0] in ("answer-ac", "status-ac", "answer-zone", "status-zone"):
            is_zone = role[0].endswith("zone")
            if is_zone:
                latest_zone = readings.get(i, latest_zone)
                if gen == 4 or len(op.split()[2]) > 16:
                    last_gs = now
            else:
                latest_ac = readings.get(i, latest_ac)
            if role[1] == "unchanged":
                if notes:
                    bad.append(("notify", i, "%s frame equal to what the client already had caused %s" % ("a zone status" if is_zone else "an AC status", notes)))
            elif role[0].startswith("answer"):
                refresh_unchanged = False
        elif role[0] == "adv":
            if gen == 5:
                if polls:
                    bad.append(("poll-at5", i, "AirTouch 5 transmitted %d zone status request(s) during `%s` (clock %d..%d)" % (polls, op, start, now)))
            elif initialised and connected:
                strict = up_since is not None and last_gs is not None and up_since <= last_gs
                if strict:
                    want = (now - last_gs) // PERIOD - (start - last_gs) // PERIOD
                    if polls != want:
                        bad.append(("poll", i, "`%s` moves the clock from %d to %d; the last group status frame arrived at %d and the connection has been up since %d: "
                                    "%d group status request(s) are due in this op, %d transmitted" % (op, start, now, last_gs, up_since, want, polls)))
                else:
                    if polls and last_gs is not None and now < last_gs + PERIOD:
                        bad.append(("poll-early", i, "`%s` (clock %d..%d): a group status request although a group status frame arrived at %d, less than 2400 ticks ago"
                                    % (op, start, now, last_gs)))
                    ref = max(x for x in (last_req_hi, last_gs, up_since) if x is not None)
                    if not polls and now - ref > PERIOD:
                        bad.append(("poll", i, "`%s` ends at %d: connected since %d, last group status frame at %s, last group status request no later than %s: "
                                    "more than 2400 ticks of silence without a request" % (op, now, up_since, last_gs, last_req_hi)))
                if polls:
                    last_req_hi = now
        elif role[0] == "view" and lines and lines[0].startswith("VIEW"):
            v = S.parse_view(lines[0])
            if role[1] == "before-loss":
                view_before_loss = lines[0]
            if role[1] in ("after-refresh", "initial", "final") or role[1] == "after-partial-refresh":
                # partial: the AC part is judged against the answer, the zone part against the last frame the client was given
                for t in check_view(gen, v, latest_ac, latest_zone):
                    bad.append(("converge", i, "after %s: %s" % (role[1], t)))
            if role[1] == "after-refresh":
                fv = fresh_views.get(i)
                if fv is not None and fv != lines[0]:
                    bad.append(("converge-fresh", i, "after the refresh the object model differs from that of a client freshly initialised against the same console state: %s"
                                % diff_views(lines[0], fv)))
                if refresh_unchanged and view_before_loss is not None and view_before_loss != lines[0]:
                    bad.append(("notify", i, "the refresh returned unchanged data but the object model changed: %s" % diff_views(view_before_loss, lines[0])))
    return bad


def diff_views(a, b):
    fa, fb = flatten(S.parse_view(a)), flatten(S.parse_view(b))
    d = ["%s: %s / %s" % (k, fa.get(k), fb.get(k)) for k in sorted(set(fa) | set(fb)) if fa.get(k) != fb.get(k)]
    return "; ".join(d[:6])


def flatten(v, prefix=""):
    """parsed VIEW -> {dotted path: atom}; list elements that are ACs / zones are keyed by their id"""
    out = {}
    if isinstance(v, dict):
        for k, x in v.items():
            if k != "_":
                out.update(flatten(x, prefix + k + "."))
    elif isinstance(v, list) and v and isinstance(v[0], dict):
        for x in v:
            out.update(flatten(x, "%s%s%s." % (prefix, x["_"], x.get("ac_id") or x.get("zone_id") or "")))
    else:
        out[prefix.rstrip(".")] = str(v)
    return out


def apiref_module():
    """harness/apiref.py (the reference of the whole public object model, written for C10/C12) if it is present with the
    interface this module knows; None otherwise"""
    try:
        import apiref
    except Exception:  # noqa: BLE001
        return None
    if all(hasattr(apiref, n) for n in ("spec_requests", "Ref", "compare", "parse_view")):
        return apiref
    return None


def apiref_judge(apiref, sc, outs, readings):
    """-> (list of (aspect, op index, text), note): every VIEW of the history against apiref's reference fed with the same ops"""
    bad = []
    try:
        ref = apiref.Ref(sc["gen"])
        for i, (op, role, lines) in enumerate(zip(sc["ops"], sc["roles"], outs)):
            if not any(ln.startswith("UNDECODABLE") for ln in lines) and len(op.split()) < 4:
                ref.feed(op, readings.get(i))        # frames the socket would drop / frames for another party are not the console's report
            if role[0] == "view" and lines and lines[0].startswith("VIEW") and role[1] != "before-loss":
                for path, e, g in apiref.compare(ref.view(), apiref.parse_view(lines[0])):
                    if not path.startswith(("ac.", "zone.")):
                        continue                     # only the attributes of ACs and zones (what the refresh is about) are taken from it
                    bad.append(("converge-ref", i, "after %s: %s shows %s, the reference reading of the frames the console sent says %s" % (role[1], path, g, e)))
    except Exception as e:  # noqa: BLE001  (a history the reference does not support, or a changed interface: not judged)
        return [], "skipped:" + type(e).__name__
    return bad, "judged"


def _run_one(sc):
    logging.disable(logging.CRITICAL)
    outs, kinds, end = S.run(sc["gen"], sc["ops"])
    fresh = {}
    for i, r in enumerate(sc["roles"]):
        if r == ["view", "after-refresh"]:
            fo, _, _ = S.run(sc["gen"], fresh_script(sc, i))
            fresh[i] = fo[-1][0] if fo[-1] else None
    return outs, kinds, fresh


def truncate(sc, i):
    d = dict(sc)
    d["ops"], d["roles"] = sc["ops"][:i + 1], sc["roles"][:i + 1]
    return d


def evaluate(ctx, sc, res=None):
    """one scenario, everything included (used by replay)"""
    outs, kinds, fresh = res or _run_one(sc)
    req = reading_requests(sc)
    idx = sorted(req)
    ans = ctx.oracle([req[i] for i in idx]) if idx else []
    readings = {i: S.parse_spec(a) for i, a in zip(idx, ans)}
    bad = judge(sc, outs, kinds, readings, fresh)
    apiref = apiref_module()
    if apiref is not None:
        try:
            rq = apiref.spec_requests(sc["gen"], sc["ops"])
            rr = dict(zip([i for i, _ in rq], ctx.oracle([r for _, r in rq]) if rq else []))
            bad = sorted(bad + apiref_judge(apiref, sc, outs, rr)[0], key=lambda b: b[1])
        except Exception:  # noqa: BLE001
            pass
    return bad, outs


# ------------------------------------------------------------------------------------------------ run
FAMILIES = [("reconnect", 10), ("unchanged-refresh", 3), ("silence", 5), ("silence-and-outage", 5), ("reinit", 3)]


def run(ctx, deep=False):
    logging.disable(logging.CRITICAL)
    thorough = deep or ctx.tier == "thorough"
    ctx.coverage["rule"] = (
        "judgement (AirTouch 4 and 5, real objects over the stub socket, virtual clock): random consistent installations (1..4 ACs, 0..16 zones, "
        "every description format of C09), initialisation, subscribers on the AirTouch, every AC (both sets) and every zone; families: reconnect "
        "(loss right after init / after status traffic / after a control call / inside a silence; outage 0..9000 ticks; console state changed for "
        "a random subset of ACs and zones or not at all; refresh answered in either order, partly, or not at all, with unknown / foreign / "
        "undecodable frames between the answers; up to three outages per history), unchanged-refresh, silence (advances of 1..12100 ticks in one "
        "op or in pieces, group status frames 1 tick before / after a deadline, AC status traffic and control calls that must not move the "
        "deadline), silence-and-outage (outages straddling deadlines, unanswered refresh, long connected silence afterwards).  Compared: at "
        "`conn 1` both refresh requests in that op; AC power/selected/active mode and zone power/damper of the VIEW against the vendor reading of "
        "the latest frames; whole VIEW against a freshly initialised second client; no NOTIFY and identical VIEW for unchanged data; AirTouch 4 "
        "group status requests in exactly the ops containing t+2400k (connection up since the last group status frame at t), otherwise at most "
        "2400 ticks of connected silence without a request and none within 2400 ticks of a received frame; AirTouch 5 none.  tie: apicheck.compare "
        "on apigen<g> scripts and on these scripts for each generation the driver models.  distinct = distinct op scripts")
    ctx.assumptions += [
        "the reconnection itself (socket level) is C07's subject; here the socket's `connection changed` notifications are scripted",
        "`adv` steps never end exactly on a poll deadline (the order of events at equal virtual times is not prescribed)",
        "after an outage the phase of the AirTouch 4 poll is not prescribed by the property: only the 300 s bound on connected silence and the "
        "300 s distance from the last received group status frame are judged",
        "harness/apiref.py was not available when this module was written: the attribute comparison is limited to AC power / mode and zone power / "
        "damper percentage (vendor reading), everything else is covered by the comparison with a freshly initialised second client",
    ]
    rng = random.Random(ctx.seed * 1000003 + 14)
    scens = []
    mult = 160 if thorough else 14
    for gen in (4, 5):
        for fam, w in FAMILIES:
            for _ in range(w * mult):
                scens.append(build(rng, gen, fam))
    results = c09.pmap(_run_one, scens)
    # one oracle call for all readings
    reqs, where = [], []
    for n, sc in enumerate(scens):
        for i, r in sorted(reading_requests(sc).items()):
            reqs.append(r)
            where.append((n, i))
    ans = ctx.oracle(reqs) if reqs else []
    readings = [dict() for _ in scens]
    for (n, i), a in zip(where, ans):
        readings[n][i] = S.parse_spec(a)
    apiref = apiref_module()
    ref_readings = [dict() for _ in scens]
    if apiref is not None:
        try:
            reqs, where = [], []
            for n, sc in enumerate(scens):
                for i, r in apiref.spec_requests(sc["gen"], sc["ops"]):
                    reqs.append(r)
                    where.append((n, i))
            for (n, i), a in zip(where, ctx.oracle(reqs) if reqs else []):
                ref_readings[n][i] = a
        except Exception as e:  # noqa: BLE001
            ctx.count("apiref:unusable:" + type(e).__name__)
            apiref = None
    ctx.count("apiref:%s" % ("present" if apiref is not None else "absent"))
    worst = {}
    for n, (sc, (outs, kinds, fresh)) in enumerate(zip(scens, results)):
        ctx.case((sc["gen"], tuple(sc["ops"])))
        bad = judge(sc, outs, kinds, readings[n], fresh)
        if apiref is not None:
            more, note = apiref_judge(apiref, sc, outs, ref_readings[n])
            ctx.count("apiref:%d:%s" % (sc["gen"], note))
            bad = sorted(bad + more, key=lambda b: b[1])
        ctx.count("%d:%s:%s" % (sc["gen"], sc["family"], "ok" if not bad else "fails:" + bad[0][0]))
        for r, o, ks in zip(sc["roles"], outs, kinds):
            if r[0] in ("conn1", "answer-ac", "answer-zone", "status-ac", "status-zone"):
                ctx.count("%d:op:%s" % (sc["gen"], " ".join(map(str, r))))
            if r[0] == "adv" and any(k == "zone_status" for k, _ in ks):
                ctx.count("%d:polls-observed" % sc["gen"], sum(1 for k, _ in ks if k == "zone_status"))
            if r[0] == "view" and r[1].startswith("after"):
                ctx.count("%d:view:%s" % (sc["gen"], r[1]))
            if r[0] == "conn0" and any(ln.startswith("NOTIFY") for ln in o):
                ctx.count("%d:notify-at-connection-loss" % sc["gen"])
        if n < 2:
            ctx.sample({"family": sc["family"], "gen": sc["gen"], "ops": [o[:60] for o in sc["ops"] if not o.startswith("sub")][:14]})
        if bad and bad[0][0] == "setup":
            ctx.tie_broken("C14:console-script", "AirTouch %d: %s (%s)" % (sc["gen"], bad[0][2], sc["ops"][:8]))
            continue
        for aspect, i, text in bad[:1]:
            key = "C14:%d:%s" % (sc["gen"], aspect)
            if key not in worst or i < worst[key][1]:
                worst[key] = (sc, i, text)
    for key, (sc, i, text) in sorted(worst.items()):
        small = truncate(sc, i)
        ctx.violation(key, "AirTouch %d, %s history, op %d: %s" % (sc["gen"], sc["family"], i, text), kind="history",
                      gen=sc["gen"], ops=[o for o in small["ops"]], scenario=small)
    # tie
    gens = c09.modelled_generations(ctx)
    ctx.count("tie:modelled-generations:%s" % ",".join(map(str, gens)))
    scripts = c09.generated_scripts(ctx, gens, 5000 if thorough else 300)
    own = [sc for sc in scens if sc["gen"] in gens]
    full_stack(ctx, thorough)
    full_stack_nested_loss(ctx, thorough)
    full_stack_pending_commands(ctx, thorough)
    full_stack_two_outages(ctx, thorough)
    scripts += [(sc["gen"], "c14." + sc["family"], sc["ops"]) for sc in own]
    c09.tie(ctx, scripts, "C14")


def full_stack(ctx, thorough):
    """closed loop: the real API object over the real socket against a console WITH MEMORY (it answers AC status and error-information
    requests from its current state).  The console's AC error changes while the client is disconnected; after the reconnection the
    client must converge to what the console reports then - code and the description that belongs to it."""
    import re
    import fullstack
    texts = {0: b"", 5: b"ER05 compressor", 7: b"ER07 fan locked", 300: b"E300"}
    cases = [(a, b) for a in (0, 5, 7) for b in (0, 5, 7, 300) if a != b]
    for gen in (4, 5):
        for (c0, c1) in cases:
            for outage in ((100, 105, 200), (100, 105, 2700)) if thorough else ((100, 105, 200),):
                refuse, lose, accept = outage
                sc = dict(inst=fullstack.INST, horizon=accept + 200, ac_state=[dict(id=0, power=1, mode=4, fan=0, setpoint=22, temp=235, err=c0)],
                          err_text={0: texts[c0]}, changes=[(lose + 15, 0, c1, texts[c1])], faults=[(refuse, "refuse"), (lose, "eof"), (accept, "accept")])
                b = fullstack.run(gen, sc)
                ctx.case(("full-stack-error", gen, c0, c1, accept))
                if b.get("init_result") is not True:
                    ctx.tie_broken("C14:console-script", "the full-stack console no longer initialises the AirTouch %d object" % gen)
                    continue
                m = re.search(r"error_info=(None|Err\(code=(\d+),description=(s[0-9a-f]*|None)\))", b["view"])
                got = None if m is None or m.group(1) == "None" else (int(m.group(2)), None if m.group(3) == "None" else bytes.fromhex(m.group(3)[1:]))
                want = None if c1 == 0 else (c1, texts[c1])
                ctx.count("full-stack:error %d->%d:%s" % (c0, c1, "ok" if got == want else "differs"))
                if got != want:
                    ctx.violation("C14:%d:full-stack:error-info" % gen, "AirTouch %d over the real socket: the console's AC error was %s before the connection was lost and %s "
                                  "when it came back (it answers AC status and error-information requests accordingly); %d ticks after the reconnection the client shows "
                                  "error_info = %s" % (gen, (c0, texts[c0]), (c1, texts[c1]), 200, got), kind="history", level="full-stack", gen=gen,
                                  scenario={k: (v if k != "err_text" else {kk: vv.decode() for kk, vv in v.items()}) for k, v in sc.items() if k not in ("inst", "changes")},
                                  implementation_output=str(got), spec_verdict=str(want))
                    break


def full_stack_pending_commands(ctx, thorough):
    """the application's commands pile up in the send buffer during the outage (0..10 of them); the console's state changes meanwhile.
    After the reconnection the client must still converge to what the console reports then."""
    import fullstack
    text = b"ER05 compressor"
    for gen in (4, 5):
        # (an outage of 12 s: the commands are still wanted when the connection returns; of 37 s: all of them have outlived the 30 s their
        # sender asked for and are discarded - they hold no room against the refresh)
        # (n = 2 at back = 201: the first command is issued in the very tick in which the console closes the connection - while the client is
        # still taking the connection down)
        for n, back in [(n, 200) for n in (0, 1, 5, 8, 9, 10)] + [(n, 400) for n in (5, 9, 10)] + [(2, 201), (3, 201)]:
            first_call = 105 if back == 201 else 106
            sc = dict(inst=fullstack.INST, horizon=back + 300, ac_state=[dict(id=0, power=1, mode=4, fan=0, setpoint=22, temp=235, err=0)], err_text={0: b""},
                      changes=[(120, 0, 5, text)], faults=[(100, "refuse"), (105, "eof"), (back, "accept")],
                      calls=[(first_call + i, ["power", "zone", "toggle"][i % 3]) for i in range(n)])
            b = fullstack.run(gen, sc)
            ctx.case(("full-stack-pending-commands", gen, n, back))
            if b.get("init_result") is not True:
                ctx.tie_broken("C14:console-script", "the full-stack console no longer initialises the AirTouch %d object" % gen)
                continue
            got = _error_info_of(b["view"])
            refresh = [r for r in b["requests"] if r[0] >= back and r[2] in (((0x2D, None), (0x2B, None)) if gen == 4 else ((0xC0, 0x23), (0xC0, 0x21)))]
            ctx.count("full-stack:pending-commands:%d:%s" % (n, "ok" if got == (5, text) else "differs"))
            if got != (5, text):
                # with the buffer exactly full the refresh requests are refused (listed in known_findings.txt under this key); any other
                # number of pending commands has its own key and is reported
                key = "C14:full-stack:refresh-refused-full-buffer" if (n == 10 and back == 200 and not refresh) else "C14:%d:full-stack:pending-commands" % gen
                ctx.violation(key, "AirTouch %d over the real socket: %d commands were accepted during an outage (ticks 105..%d) in which the console's AC error became 5 '%s'; "
                              "300 ticks after the reconnection the client shows error_info = %s; status requests seen by the console after the reconnection: %s" % (
                                  gen, n, back, text.decode(), got, [r[0] for r in refresh]), kind="history", level="full-stack-pending", gen=gen, pending=n, back=back,
                              implementation_output=str(got), spec_verdict=str((5, text)))


def full_stack_two_outages(ctx, thorough):
    """two separate events in one session: first the connection is lost and the one that replaces it is half-open (the refresh request's
    write fails, the next attempt succeeds at once); much later the connection is lost again while the console refuses one or two
    attempts and changes its state.  After that second reconnection the client converges as always."""
    import fullstack
    text = b"ER05 compressor"
    for gen in (4, 5):
        for refused_for in (3, 20, 40):
            for first in ("eof", "reset"):
                sc = dict(inst=fullstack.INST, horizon=700, ac_state=[dict(id=0, power=1, mode=4, fan=0, setpoint=22, temp=235, err=0)], err_text={0: b""},
                          changes=[(310, 0, 5, text)], faults=[(100, "failnext"), (100, first), (300, "refuse"), (305, "eof"), (305 + refused_for, "accept")])
                b = fullstack.run(gen, sc)
                ctx.case(("full-stack-two-outages", gen, refused_for, first))
                if b.get("init_result") is not True:
                    ctx.tie_broken("C14:console-script", "the full-stack console no longer initialises the AirTouch %d object" % gen)
                    continue
                got = _error_info_of(b["view"])
                opened = [e[0] for e in b["event_log"] if e[1] == "opened"]
                ctx.count("full-stack:two-outages:%s" % ("ok" if got == (5, text) else "differs"))
                if got != (5, text):
                    ctx.violation("C14:%d:full-stack:two-outages" % gen, "AirTouch %d over the real socket: connection lost at tick 100 (%s), its replacement half-open (first write fails), "
                                  "the next one fine; lost again at 305 with the console refusing for %d ticks and its AC error becoming 5 '%s' at 310. At tick 700 the client shows "
                                  "error_info = %s; connections were opened at ticks %s" % (gen, first, refused_for, text.decode(), got, opened), kind="history",
                                  level="full-stack-pending", gen=gen, implementation_output=str(got), spec_verdict=str((5, text)))
                    return


def _nested_scenario(delay, lat):
    import fullstack
    texts = {5: b"ER05 compressor", 7: b"ER07 fan locked"}
    return dict(inst=fullstack.INST, horizon=400, latency=lat, ac_state=[dict(id=0, power=1, mode=4, fan=0, setpoint=22, temp=235, err=0)], err_text={0: b""},
                changes=[(100, 0, 5, texts[5]), (102 if lat else 110, 0, 7, texts[7])], faults=[(100, "failw")], pushes=[101] + ([] if lat else [111]),
                callback_delay=delay)


def _error_info_of(view):
    import re
    m = re.search(r"error_info=(None|Err\(code=(\d+),description=(s[0-9a-f]*|None)\))", view)
    return None if m is None or m.group(1) == "None" else (int(m.group(2)), None if m.group(3) == "None" else bytes.fromhex(m.group(3)[1:]))


def full_stack_nested_loss(ctx, thorough):
    """the loss of the connection is discovered by a write the client issues WHILE IT IS HANDLING A FRAME (the error-text request sent
    from inside the AC status handler), with application callbacks that take their time; the console's state changes once more while
    the client is away.  After the reconnection the client must converge to what the console reports then."""
    import re
    import fullstack
    texts = {5: b"ER05 compressor", 7: b"ER07 fan locked"}
    for gen in (4, 5):
        for delay in ((0, 1, 2, 3, 5, 10, 20) if thorough else (0, 1, 3, 10)):      # (a callback that takes 5 s or more would hold up init() itself)
            for lat in (0, 2, 4, 9):
                # connecting takes `lat` ticks: the console's error changes again one tick after the loss, i.e. before the refresh; with an
                # immediate reconnection (lat 0) it changes ten ticks later and the console pushes the new status itself
                sc = _nested_scenario(delay, lat)
                b = fullstack.run(gen, sc)
                ctx.case(("full-stack-nested-loss", gen, delay, lat))
                if b.get("init_result") is not True:
                    ctx.tie_broken("C14:console-script", "the full-stack console no longer initialises the AirTouch %d object" % gen)
                    continue
                m = re.search(r"error_info=(None|Err\(code=(\d+),description=(s[0-9a-f]*|None)\))", b["view"])
                got = None if m is None or m.group(1) == "None" else (int(m.group(2)), None if m.group(3) == "None" else bytes.fromhex(m.group(3)[1:]))
                want = (7, texts[7])
                lost = [e for e in b["event_log"] if e[1] in ("write_fault", "lost")]
                ctx.count("full-stack:nested-loss:%s:%s" % ("loss-seen" if lost else "no-loss", "ok" if got == want else "differs"))
                if got != want:
                    ctx.violation("C14:%d:full-stack:nested-loss" % gen, "AirTouch %d over the real socket: the write of the error-text request (sent while the AC status frame "
                                  "that reports error 5 is being handled; application callbacks take %d ticks) fails because the path is gone; the client reconnects; meanwhile "
                                  "the console's error became 7 '%s'. %d ticks later the client shows error_info = %s" % (gen, delay, texts[7].decode(), 400 - 101, got),
                                  kind="history", level="full-stack-nested", gen=gen, delay=delay, latency=lat, implementation_output=str(got), spec_verdict=str(want))
                    return


def search(ctx):
    if ctx.tier != "thorough":
        saved = list(ctx.broken)
        run(ctx, deep=True)
        ctx.broken[:] = saved + [b for b in ctx.broken[len(saved):] if b["name"] not in {s["name"] for s in saved}]


def replay(ctx, data):
    logging.disable(logging.CRITICAL)
    if data.get("level") == "full-stack-nested":
        import fullstack
        b = fullstack.run(data["gen"], _nested_scenario(data["delay"], data["latency"]))
        got = _error_info_of(b["view"])
        for e in b["event_log"]:
            if e[0] >= 99:
                print("   ", e)
        print("the client shows error_info =", got, "; the console reports (7, b'ER07 fan locked')")
        return 0 if got == (7, b"ER07 fan locked") else 1
    if data.get("level") == "full-stack-pending":
        print(data.get("what"))
        return 1
    if data.get("level") == "full-stack":
        import fullstack
        sc = dict(data["scenario"], inst=fullstack.INST)
        print("scenario", sc)
        print("observed", data.get("implementation_output"), "expected", data.get("spec_verdict"))
        return 1
    sc = data["scenario"]
    bad, outs = evaluate(ctx, sc)
    now = 0
    for op, role, o in zip(sc["ops"], sc["roles"], outs):
        if role[0] == "sub":
            continue
        if role[0] == "adv":
            now += role[1]
        print("[%6d] %-64s %s" % (now, op[:64], " ".join(map(str, role))))
        for ln in o:
            print("           " + ln[:260])
    for a, i, t in bad:
        print("FAILS %s at op %d: %s" % (a, i, t))
    return 1 if bad else 0
