"""C13 — reception is independent of TCP segmentation."""
import json
import os
import sys

import sockcheck

LEAN_MODULES = ["PyAirtouch.Props.C13"]
LEVEL = "proof"


def _cuts(data, rng, thorough):
    n = len(data)
    res = []
    if n <= 64 or thorough:
        pts = range(1, n)
        for a in pts:
            res.append([a])
        if n <= 40:
            for a in range(1, n):
                for b in range(a + 1, n):
                    res.append([a, b])
    for _ in range(30 if thorough else 6):
        k = rng.randint(1, min(12, n - 1))
        res.append(sorted(rng.sample(range(1, n), k)))
    res.append(list(range(1, n)))          # byte by byte
    return res


def _segments(data, cuts):
    segs = []
    prev = 0
    for c in cuts + [len(data)]:
        segs.append(data[prev:c])
        prev = c
    return segs


def run(ctx, deep=False):
    thorough = deep or ctx.tier == "thorough"
    rng = ctx.rng
    ctx.coverage["rule"] = (
        "streams of 1..3 frames written by the real send path (all registered message ids, wrappers included, both generations); "
        "every single cut point, every pair of cut points for short streams, random multi-cut segmentations, byte-by-byte delivery, "
        "with 0..60 loop turns or pauses of 1/8 s .. 5 min between segments and before the stream, in a third of the runs with the application transmitting between the segments; fed to the real AirTouchSocket through the in-memory transport and the real "
        "asyncio StreamReader; the delivered (header, message) lists must equal those of the unsegmented delivery and the Lean "
        "model's `parse` of the same bytes. distinct = distinct (stream, segmentation) pairs")
    import frame_try
    for gen in (4, 5):
        real = frame_try.Real(gen)
        raw = frame_try.gen_cases(real, rng, 60 if thorough else 12, ctx)
        frames = []
        for c in raw:
            tag, b = (c[0], c[1]) if isinstance(c, tuple) and len(c) >= 2 else ("?", c)
            if isinstance(b, (bytes, bytearray)) and str(tag).startswith("sent") and 10 <= len(b) <= 120:
                frames.append(bytes(b))
        rng.shuffle(frames)
        streams = []
        for i in range(0, min(len(frames), 90 if thorough else 24), 1):
            k = rng.choice([1, 1, 2, 3])
            streams.append(b"".join(frames[i:i + k]))
        items = []
        meta = []
        for st in streams[: (60 if thorough else 14)]:
            base = [("net", "accept"), ("open",), ("adv", 8), ("peerbytes", st.hex()), ("adv", 8)]
            items.append(("steady", base))
            meta.append((st, None))
            for cuts in _cuts(st, rng, thorough)[: (400 if thorough else 60)]:
                sc = [("net", "accept"), ("open",), ("adv", rng.choice([8, 8, 231, 239, 2392]))]
                talk = rng.random() < 0.35          # the application transmits while frames are half received (a control call, a heartbeat)
                sid = 0
                for seg in _segments(st, cuts):
                    sc.append(("peerbytes", seg.hex()))
                    if talk and rng.random() < 0.6:
                        sid += 1
                        sc.append(("turn", rng.choice([0, 1, 2])))
                        sc.append(("send", sid, "ok", rng.choice(["idem", "nonidem", "conn"])))
                    if rng.random() < 0.3:
                        # the network stalls in the middle of the stream (segments seconds or minutes apart)
                        sc.append(("adv", rng.choice([1, 8, 9, 80, 239, 241, 400, 2400])))
                    else:
                        t = rng.choice([0, 0, 1, 2, 7, 60])
                        if t:
                            sc.append(("turn", t))
                sc.append(("adv", 8))
                items.append(("steady", sc))
                meta.append((st, cuts))
        results = sockcheck.run_scripts([s for _, s in items], gen=gen)
        ref = {}
        model = ctx.driver(["parse %d %s" % (gen, st.hex()) for st, c in meta if c is None]) if ctx.driver_ok else []
        mi = 0
        worst = None
        for (st, cuts), r, (_, script) in zip(meta, results, items):
            if "error" in r:
                raise RuntimeError("harness failed: %s" % r["error"])
            ctx.case((gen, st, tuple(cuts or [])), nontrivial=cuts is not None)
            if cuts is None:
                ref[st] = r["delivered"]
                if model:
                    first = model[mi]
                    mi += 1
                    if first.startswith("D ") and r["delivered"]:
                        hm = first[2:].rsplit("|", 1)[0]
                        if hm != r["delivered"][0]:
                            ctx.tie_broken("correspondence:parse", "model delivers %s, implementation %s" % (hm[:300], r["delivered"][0][:300]),
                                           stream=st.hex())
                continue
            ctx.count("cuts:%d" % min(len(cuts), 5))
            if r["delivered"] != ref[st]:
                if worst is None or len(script) < len(worst[0]):
                    worst = (script, st, cuts, r["delivered"], ref[st])
        if worst:
            script, st, cuts, got, exp = worst
            ctx.violation("C13:segmentation", "stream %s cut at %s delivers %d message(s), unsegmented delivers %d" % (st.hex(), cuts, len(got), len(exp)),
                          kind="history", monitor="c13", script=script, gen=gen, implementation_output=got, spec_verdict=exp)
        if meta:
            ctx.sample({"gen": gen, "stream": meta[0][0].hex(), "delivered": ref.get(meta[0][0], [])[:2]})
    ctx.assumptions += ["loop turns between segments are bounded by 60 in the recorded runs; the theorem covers every segmentation"]


def search(ctx):
    if ctx.tier != "thorough":
        run(ctx, deep=True)


def replay(ctx, data):
    rr = sockcheck._run_one((data["script"], data.get("gen", 4)))
    print("delivered:", rr.get("delivered"))
    print("expected :", data.get("spec_verdict"))
    return 0 if rr.get("delivered") == data.get("spec_verdict") else 1
