"""C13 — reception is independent of TCP segmentation."""
import json
import os
import sys

import sockcheck

LEAN_MODULES = ["PyAirtouch.Props.C13"]
LEVEL = "proof"


def _cuts(data, rng, thorough):
    n = len(data)
    res = []
    if n <= 64 or thorough:
        pts = range(1, n)
        for a in pts:
            res.append([a])
        if n <= 40:
            for a in range(1, n):
                for b in range(a + 1, n):
                    res.append([a, b])
    for _ in range(30 if thorough else 6):
        k = rng.randint(1, min(12, n - 1))
        res.append(sorted(rng.sample(range(1, n), k)))
    res.append(list(range(1, n)))          # byte by byte
    return res


def _segments(data, cuts):
    segs = []
    prev = 0
    for c in cuts + [len(data)]:
        segs.append(data[prev:c])
        prev = c
    return segs


def run(ctx, deep=False):
    thorough = deep or ctx.tier == "thorough"
    rng = ctx.rng
    ctx.coverage["rule"] = (
        "streams of 1..3 frames written by the real send path (all registered message ids, wrappers included, both generations), in 30 % of the streams with the first frame repeated back to back; "
        "every single cut point, every pair of cut points for short streams, random multi-cut segmentations, byte-by-byte delivery, "
        "with 0..60 loop turns or pauses of 1/8 s .. 5 min between segments and before the stream, in a third of the runs with the application transmitting between the segments; fed to the real AirTouchSocket through the in-memory transport and the real "
        "asyncio StreamReader; the delivered (header, message) lists must equal those of the unsegmented delivery and the Lean "
        "model's `parse` of the same bytes. distinct = distinct (stream, segmentation) pairs")
    import frame_try
    for gen in (4, 5):
        real = frame_try.Real(gen)
        raw = frame_try.gen_cases(real, rng, 60 if thorough else 12, ctx)
        frames = []
        for c in raw:
            tag, b = (c[0], c[1]) if isinstance(c, tuple) and len(c) >= 2 else ("?", c)
            if isinstance(b, (bytes, bytearray)) and str(tag).startswith("sent") and 10 <= len(b) <= 120:
                frames.append(bytes(b))
        # frames of types the client does not know (delivered as unsupported messages): cut like any other
        for mid, n_pl in ((0x7E, 3), (0x01, 9), (0x7E, 0)):
            frames.append(bytes(real.raw_frame(mid, bytes(range(1, n_pl + 1)))))
        rng.shuffle(frames)
        streams = []
        for i in range(0, min(len(frames), 90 if thorough else 24), 1):
            k = rng.choice([1, 1, 2, 3])
            if rng.random() < 0.3:
                # a console that says the same thing again (the very same frame two or three times back to back, then possibly another):
                # each copy is delivered, wherever the segment boundaries fall
                streams.append(frames[i] * rng.choice([2, 2, 3]) + b"".join(frames[i + 1:i + k]))
                ctx.count("streams with a frame repeated back to back")
            else:
                streams.append(b"".join(frames[i:i + k]))
        items = []
        meta = []
        for st in streams[: (60 if thorough else 14)]:
            base = [("net", "accept"), ("open",), ("adv", 8), ("peerbytes", st.hex()), ("adv", 8)]
            items.append(("steady", base))
            meta.append((st, None))
            for cuts in _cuts(st, rng, thorough)[: (400 if thorough else 60)]:
                sc = [("net", "accept"), ("open",), ("adv", rng.choice([8, 8, 231, 239, 2392]))]
                talk = rng.random() < 0.35          # the application transmits while frames are half received (a control call, a heartbeat)
                sid = 0
                for seg in _segments(st, cuts):
                    sc.append(("peerbytes", seg.hex()))
                    if talk and rng.random() < 0.6:
                        sid += 1
                        sc.append(("turn", rng.choice([0, 1, 2])))
                        sc.append(("send", sid, "ok", rng.choice(["idem", "nonidem", "conn"])))
                    if rng.random() < 0.3:
                        # the network stalls in the middle of the stream (segments seconds or minutes apart)
                        sc.append(("adv", rng.choice([1, 8, 9, 80, 239, 241, 400, 2400])))
                    else:
                        t = rng.choice([0, 0, 1, 2, 7, 60])
                        if t:
                            sc.append(("turn", t))
                sc.append(("adv", 8))
                items.append(("steady", sc))
                meta.append((st, cuts))
                if rng.random() < 0.1:
                    # nobody is subscribed while the (segmented) stream arrives - the application's subscriber left before and comes back
                    # after: what it is handed afterwards (the same stream once more, in one piece) does not depend on the segmentation
                    body = [op for op in sc[2:-1]]
                    sc3 = sc[:2] + [("adv", 8), ("msgsub", 0)] + body + [("turn", 2), ("msgsub", 1), ("peerbytes", st.hex()), ("adv", 8)]
                    items.append(("steady", sc3))
                    meta.append((st, ("nosub", tuple(cuts))))
                if rng.random() < 0.15:
                    # two subscribers: one fails on every frame, the other needs a few loop passes per frame - what the second one has
                    # handled, in the order it finished, does not depend on the segmentation (nor on the first one's failures)
                    sc4 = sc[:2] + [("subraise", "msg", 1), ("msgsub2", rng.choice([1, 3, 8]))] + [op for op in sc[2:]]
                    items.append(("steady", sc4))
                    meta.append((st, ("two-subs", tuple(cuts))))
                if rng.random() < 0.15:
                    # the console closes the connection: its FIN arrives together with the last data segment, or a few loop turns / a
                    # pause later; the client reconnects and the console sends the stream again - what is delivered (both copies) does
                    # not depend on where the FIN sits
                    tail = [("net", "accept")]
                    for fin_gap in (0, 1, 3):
                        sc2 = [op for op in sc[:-1]]
                        while sc2 and sc2[-1][0] in ("turn", "adv"):
                            sc2.pop()
                        sc2 = sc2 + ([("turn", fin_gap)] if fin_gap else []) + [("peer", "eof"), ("adv", 24), ("peerbytes", st.hex()), ("adv", 8)]
                        items.append(("steady", sc2))
                        meta.append((st, ("fin", tuple(cuts), fin_gap)))
        results = sockcheck.run_scripts([s for _, s in items], gen=gen)
        ref = {}
        model = ctx.driver(["parse %d %s" % (gen, st.hex()) for st, c in meta if c is None]) if ctx.driver_ok else []
        mi = 0
        worst = None
        for (st, cuts), r, (_, script) in zip(meta, results, items):
            if "error" in r:
                raise RuntimeError("harness failed: %s" % r["error"])
            ctx.case((gen, st, tuple(cuts or [])) if not (cuts and cuts[0] in ("fin", "nosub", "two-subs")) else (gen, st, cuts), nontrivial=cuts is not None)
            if cuts is None:
                ref[st] = r["delivered"]
                if model:
                    first = model[mi]
                    mi += 1
                    if first.startswith("D ") and r["delivered"]:
                        hm = first[2:].rsplit("|", 1)[0]
                        if hm != r["delivered"][0]:
                            ctx.tie_broken("correspondence:parse", "model delivers %s, implementation %s" % (hm[:300], r["delivered"][0][:300]),
                                           stream=st.hex())
                continue
            if cuts and cuts[0] == "two-subs":
                ctx.count("two-subscribers-one-failing-one-slow")
                if r["handled2"] != ref[st] or r["delivered"] != ref[st]:
                    if worst is None or len(script) < len(worst[0]):
                        worst = (script, st, list(cuts[1]) + ["a failing subscriber and a second one that takes a few loop passes per frame: what the second one handled, in the order it finished"],
                                 r["handled2"] if r["handled2"] != ref[st] else r["delivered"], ref[st])
                continue
            if cuts and cuts[0] == "nosub":
                ctx.count("no-subscriber-while-segmented")
                if r["delivered"] != ref[st]:
                    if worst is None or len(script) < len(worst[0]):
                        worst = (script, st, list(cuts[1]) + ["nobody subscribed while these segments arrived; the stream again, whole, with the subscriber back"], r["delivered"], ref[st])
                continue
            if cuts and cuts[0] == "fin":
                ctx.count("fin-gap:%d" % cuts[2])
                if r["delivered"] != ref[st] + ref[st]:
                    if worst is None or len(script) < len(worst[0]):
                        worst = (script, st, list(cuts[1]) + ["FIN %d turns after the last segment, then the stream again on the new connection" % cuts[2]], r["delivered"], ref[st] + ref[st])
                continue
            ctx.count("cuts:%d" % min(len(cuts), 5))
            if r["delivered"] != ref[st]:
                if worst is None or len(script) < len(worst[0]):
                    worst = (script, st, cuts, r["delivered"], ref[st])
        if worst:
            script, st, cuts, got, exp = worst
            ctx.violation("C13:segmentation", "stream %s cut at %s delivers %d message(s), unsegmented delivers %d" % (st.hex(), cuts, len(got), len(exp)),
                          kind="history", monitor="c13", script=script, gen=gen, implementation_output=got, spec_verdict=exp)
        if meta:
            ctx.sample({"gen": gen, "stream": meta[0][0].hex(), "delivered": ref.get(meta[0][0], [])[:2]})
    two_consoles(ctx, thorough)
    ctx.assumptions += ["loop turns between segments are bounded by 60 in the recorded runs; the theorem covers every segmentation"]


def _two_consoles(gen, stream_a, cuts, frame_b, turns):
    """two clients of the same generation in one process (a home with two consoles): A's stream arrives in segments, B's whole frame
    arrives between A's segments -> (messages delivered to A, messages delivered to B)"""
    import asyncio
    import importlib
    import logging
    import vloop
    S = importlib.import_module("pyairtouch.comms.socket")
    R = importlib.import_module("pyairtouch.at%d.comms.registry" % gen)
    from canon import canon
    logging.getLogger("pyairtouch").setLevel(logging.CRITICAL)
    loop = vloop.VLoop()
    net = vloop.Net(loop)
    loop.net = net
    net.mode = "accept"
    got = {"a": [], "b": []}
    socks = {}
    for name in ("a", "b"):
        sk = S.AirTouchSocket(loop=loop, host="console-%s.local" % name, port=9004 if gen == 4 else 9005, registry=R.INSTANCE)

        async def on_msg(header, message, name=name):
            got[name].append(canon(message))
        sk.subscribe_on_message_received(on_msg)
        socks[name] = sk

    async def main():
        await socks["a"].open_socket()
        await asyncio.sleep(4 * vloop.TICK)
        await socks["b"].open_socket()
        await asyncio.sleep(4 * vloop.TICK)
        ca, cb = net.conns[0], net.conns[1]
        segs = _segments(stream_a, cuts)
        for i, seg in enumerate(segs):
            ca.peer_send(seg)
            for _ in range(turns):
                await asyncio.sleep(0)
            if i + 1 < len(segs):
                cb.peer_send(frame_b)
                for _ in range(turns):
                    await asyncio.sleep(0)
        await asyncio.sleep(8 * vloop.TICK)
        for sk in socks.values():
            await sk.close()
    asyncio.set_event_loop(loop)
    try:
        loop.run_until_complete(main())
    finally:
        asyncio.set_event_loop(None)
        loop.close()
    return got["a"], got["b"]


def two_consoles(ctx, thorough):
    """reception by one client is independent of how ITS stream is segmented also when a second client of the same generation (same
    process-wide registry: decoders, checksum calculator, header codec) receives frames in the gaps"""
    import frame_try
    rng = ctx.rng
    for gen in (4, 5):
        real = frame_try.Real(gen)
        raw = frame_try.gen_cases(real, rng, 6, ctx)
        frames = [bytes(c[1]) for c in raw if str(c[0]).startswith("sent") and 10 <= len(c[1]) <= 90]
        rng.shuffle(frames)
        worst = None
        for k in range(min(len(frames) - 1, 24 if thorough else 8)):
            a, b = frames[k] + frames[(k + 3) % len(frames)], frames[k + 1]
            ref_a, ref_b = _two_consoles(gen, a, [], b, 1)
            cuts_list = [[c] for c in range(1, len(a))] if len(a) <= 70 or thorough else [[c] for c in sorted(rng.sample(range(1, len(a)), 40))]
            cuts_list += [sorted(rng.sample(range(1, len(a)), 3)) for _ in range(6)]
            for cuts in cuts_list:
                got_a, got_b = _two_consoles(gen, a, cuts, b, rng.choice([1, 2, 4]))
                ctx.case(("two-consoles", gen, a, tuple(cuts)), nontrivial=True)
                ctx.count("two-consoles:cuts:%d" % len(cuts))
                why = None
                if got_a != ref_a:
                    why = "client A was delivered %d message(s), unsegmented %d" % (len(got_a), len(ref_a))
                elif len(got_b) != len(cuts) * len(ref_b[:1]) and ref_b is not None and got_b and got_b[0] != (ref_b or got_b)[0]:
                    why = "client B was delivered something else than its frame"
                if why and (worst is None or len(a) < len(worst[0])):
                    worst = (a, b, cuts, why)
        if worst:
            a, b, cuts, why = worst
            ctx.violation("C13:%d:two-consoles" % gen, "two AirTouch %d clients in one process: A's stream %s cut at %s with B's frame %s arriving in the gaps: %s" % (
                gen, a.hex(), cuts, b.hex(), why), kind="history", level="two-consoles", gen=gen, a=a.hex(), b=b.hex(), cuts=cuts,
                implementation_output=why, spec_verdict="as unsegmented")


def search(ctx):
    if ctx.tier != "thorough":
        run(ctx, deep=True)


def replay(ctx, data):
    if data.get("level") == "two-consoles":
        a, b = bytes.fromhex(data["a"]), bytes.fromhex(data["b"])
        ref = _two_consoles(data["gen"], a, [], b, 1)
        got = _two_consoles(data["gen"], a, data["cuts"], b, 1)
        print("unsegmented: A", ref[0])
        print("cut at %s : A" % data["cuts"], got[0])
        return 0 if got[0] == ref[0] else 1
    rr = sockcheck._run_one((data["script"], data.get("gen", 4)))
    print("delivered:", rr.get("delivered"))
    print("expected :", data.get("spec_verdict"))
    return 0 if rr.get("delivered") == data.get("spec_verdict") else 1
