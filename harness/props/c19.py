"""C19 — the unified API behaves the same over AirTouch 4 and AirTouch 5.

One abstract installation and one abstract history (status updates, timers, error texts, versions, calls) expressible in both
protocols is rendered byte by byte for each generation (harness/consolesim.py builders, vendor layouts) and fed to the REAL
AirTouch4 and AirTouch5 objects; after every step the two public views are compared attribute by attribute (those both
generations support), every call must be accepted or refused by both alike, and the frames of accepted calls must have the same
meaning when each is read by its own generation's vendor reader.  Differences are allowed only where the property names them:
set-point resolution, away/sleep and intelligent-auto support, bypass reporting, per-mode limits."""
import logging
import os
import warnings

import apicheck
import apiharness
import apiref
import consolesim as cs
from props import c04

LEVEL = "proof"


def lean_modules():
    here = os.path.join(os.path.dirname(os.path.dirname(os.path.dirname(os.path.abspath(__file__)))), "lean", "PyAirtouch", "Props")
    return ["PyAirtouch.Props.C19"] if os.path.exists(os.path.join(here, "C19.lean")) else []


LEAN_MODULES = lean_modules()

# attributes that differ by design (the documented differences) or that identify the generation itself
SKIP_AT = {"model", "name", "_dups"}
SKIP_AC = {"target_temperature_resolution", "supported_power_controls"}
SKIP_ZONE = {"target_temperature_resolution"}
NAMES = ["Living", "Bed 1", "Study", "Kids", "Z", "Kitchen", "Hall", "Attic"]


def abstract_install(rng):
    n_acs = rng.choice([1, 1, 2, 3, 4])
    total = rng.choice([1, 2, 3, 4, 6, 8, 11, 16])
    total = max(total, n_acs)
    cuts = sorted(rng.sample(range(1, total), n_acs - 1)) if n_acs > 1 else []
    bounds = [0] + cuts + [total]
    acs = []
    zones = {}
    for i in range(n_acs):
        zs = list(range(bounds[i], bounds[i + 1]))
        lo = rng.choice([16, 17, 18])
        hi = rng.choice([28, 30, 32])
        acs.append(dict(id=i, name="AC%d" % i, modes=rng.choice([0x1F, 0x1F, 0x13, 0x1D, rng.randrange(1, 32)]),
                        fans=rng.choice([0x7F, 0x7F, 0x0E, 0x55, rng.randrange(1, 128)]), lo=lo, hi=hi, zones=zs,
                        mode=rng.choice([0, 1, 2, 3, 4]), power=rng.choice([0, 1]), fan=rng.choice(range(7)), setpoint=rng.randint(lo, hi)))
        for z in zs:
            zones[z] = dict(name=rng.choice(NAMES), sensor=rng.random() < 0.7, turbo=True, ctrl=rng.choice([0, 1]),
                            power=rng.choice([0, 1, 3]), damper=rng.choice([0, 5, 50, 100]), setpoint=rng.randint(18, 28))
    if n_acs < 4 and rng.random() < 0.25:
        # one more unit that serves no zone at all (an unzoned split system next to the ducted one): empty group bitmap on AirTouch 4 -
        # whose legacy start / count fields are then meaningless, as real consoles leave them - and zone count 0 on AirTouch 5
        lo, hi = 17, 30
        acs.append(dict(id=n_acs, name="Unzoned", modes=0x1F, fans=0x7F, lo=lo, hi=hi, zones=[], start=rng.choice([0, 1, 3]), count=rng.choice([1, 2, 4]),
                        mode=rng.choice([0, 1, 4]), power=rng.choice([0, 1]), fan=0, setpoint=22))
    return dict(acs=acs, zones=zones, version=rng.choice(["1.2.3", "9"]), update=0)


def render_ac(gen, r):
    r = dict(r)
    if gen == 5:
        r["setpoint"] = r["setpoint"] * 10 - 100
    return r


def render_zone(gen, r):
    r = dict(r)
    if gen == 5:
        # a zone without sensor has no target set-point: AirTouch 5 reports the documented invalid value 0xFF,
        # AirTouch 4 cannot report one at all (its public value is None without a sensor)
        r["setpoint"] = r["setpoint"] * 10 - 100 if r.get("sensor") else 255
    else:
        r["turbo"] = 1
    return r


def initial_steps(inst):
    """the installation's own state as ordinary status frames (the handshake of consolesim renders no-sensor zones naively)"""
    zrecs = [dict(id=z, power=d["power"], ctrl=d["ctrl"], damper=d["damper"], setpoint=d["setpoint"], sensor=1 if d["sensor"] else 0,
                  temp=225 if d["sensor"] else None, spill=0, batt=0) for z, d in sorted(inst["zones"].items())]
    arecs = [dict(id=a["id"], power=a["power"], mode=a["mode"], fan=a["fan"], spill=0, timer=0, setpoint=a["setpoint"], temp=235, err=0)
             for a in inst["acs"]]
    return [("zone", zrecs), ("ac", arecs)]


def history(rng, inst, n):
    """-> list of abstract steps: ("ac", [recs]) | ("zone", [recs]) | ("timer", {ac: (on, off)}) | ("err", ac, text) | ("ver", update, [v]) | ("call", words)"""
    steps = []
    acs = [a["id"] for a in inst["acs"]]
    zs = sorted(inst["zones"])
    lim = {a["id"]: (a["lo"], a["hi"]) for a in inst["acs"]}
    for _ in range(n):
        r = rng.random()
        if r < 0.25:
            recs = []
            for a in rng.sample(acs, rng.randint(1, len(acs))):
                recs.append(dict(id=a, power=rng.choice([0, 1]), mode=rng.choice([0, 1, 2, 3, 4, 8, 9, 8, 9]), fan=rng.choice(range(7)), spill=rng.choice([0, 1]),
                                 timer=rng.choice([0, 1]), setpoint=rng.randint(*lim[a]), temp=rng.choice([235, 0, -55, 301, 999, 180]),
                                 err=rng.choice([0, 0, 0, 5, 7, 300])))
                if recs[-1]["spill"] and rng.random() < 0.5:
                    # an AirTouch 5 console that reports the bypass damper open as well while the unit spills (a bit AirTouch 4 does not have):
                    # the state both generations can express is "spilling", and both must show it
                    recs[-1]["bypass"] = 1
            steps.append(("ac", recs))
            if rng.random() < 0.3:
                # the same report again with only the automatic sub-mode changed (auto <-> auto-heat <-> auto-cool): nothing else moves
                again = [dict(x, mode={0: 8, 8: 9, 9: 8}.get(x["mode"], x["mode"])) for x in recs]
                steps.append(("ac", again))
        elif r < 0.5 and zs:
            recs = []
            for z in rng.sample(zs, rng.randint(1, min(len(zs), 4))):
                sensor = 1 if inst["zones"][z]["sensor"] else 0
                recs.append(dict(id=z, power=rng.choice([0, 1, 3]), ctrl=rng.choice([0, 1]), damper=rng.choice([0, 1, 35, 99, 100]),
                                 setpoint=rng.randint(16, 30), sensor=sensor, temp=rng.choice([225, 0, 310, 150]) if sensor else None,
                                 spill=rng.choice([0, 1]), batt=rng.choice([0, 1]) if sensor else 0))
            steps.append(("zone", recs))
        elif r < 0.6:
            def tm():
                return None if rng.random() < 0.4 else (rng.randint(0, 23), rng.randint(0, 59))
            steps.append(("timer", {a: (tm(), tm()) for a in acs}))
        elif r < 0.67:
            # (an empty text is what a console answers when it has no description for the code now active)
            steps.append(("err", rng.choice(acs), rng.choice([b"E5", b"ER: 01", b"fault 7", b"", b""])))
        elif r < 0.72:
            steps.append(("ver", rng.choice([0, 1]), [rng.choice(["1.2.3", "2.0", "10.11"])]))
        else:
            a = rng.choice(acs)
            k = rng.random()
            if k < 0.2:
                w = "call ac %d set_power %s" % (a, rng.choice(["TOGGLE", "TURN_OFF", "TURN_ON", "SET_TO_AWAY", "SET_TO_SLEEP"]))
            elif k < 0.4:
                w = "call ac %d set_mode %s %d" % (a, rng.choice(["AUTO", "HEAT", "DRY", "FAN", "COOL"]), rng.choice([0, 1]))
            elif k < 0.55:
                w = "call ac %d set_fan_speed %s" % (a, rng.choice(["AUTO", "QUIET", "LOW", "MEDIUM", "HIGH", "POWERFUL", "TURBO", "INTELLIGENT_AUTO"]))
            elif k < 0.63:
                w = "call ac %d set_target_temperature %d" % (a, rng.randint(10, 36))
            elif k < 0.7:
                tt = rng.choice(["ON_TIMER", "OFF_TIMER"])
                r_ = rng.random()
                w = ("call ac %d clear_quick_timer %s" % (a, tt)) if r_ < 0.3 else (
                    "call ac %d set_quick_timer %s time %d %d" % (a, tt, rng.randint(0, 23), rng.randint(0, 59))) if r_ < 0.65 else (
                    # a duration with a seconds part (an application computing "until 22:00" from now), near the minute / hour / day edges too
                    "call ac %d set_quick_timer %s duration %d" % (a, tt, rng.choice([59, 90, 3599, 5431, 86380, rng.randrange(1, 86400)])))
            elif k < 0.8 and zs:
                w = "call zone %d set_power %s" % (rng.choice(zs), rng.choice(["OFF", "ON", "TURBO"]))
            elif k < 0.9 and zs:
                w = "call zone %d set_damper_percentage %d" % (rng.choice(zs), rng.choice([-1, 0, 30, 100, 101]))
            elif zs:
                w = "call zone %d set_target_temperature %d" % (rng.choice(zs), rng.randint(16, 30))
            else:
                w = "call ac %d set_power TURN_ON" % a
            steps.append(("call", w))
    return steps


def render(gen, inst, steps, early=False):
    hs = cs.handshake(gen, inst)
    if early:
        # an application (a UI task) looks at the objects while the handshake is still waiting for its last answer
        ops = hs[:-1] + ["view"] + hs[-1:] + ["view"]
    else:
        ops = hs + ["view"]
    marks = []
    for st in steps:
        k = st[0]
        if k == "ac":
            op = (cs.at4_ac_status if gen == 4 else cs.at5_ac_status)([render_ac(gen, r) for r in st[1]])
        elif k == "zone":
            op = (cs.at4_group_status if gen == 4 else cs.at5_zone_status)([render_zone(gen, r) for r in st[1]])
        elif k == "timer":
            op = cs.at4_timer_status(st[1]) if gen == 4 else cs.at5_timer_status([(a, on, off) for a, (on, off) in sorted(st[1].items())])
        elif k == "err":
            op = cs.err_info(gen, st[1], st[2])
        elif k == "ver":
            op = cs.console_version(gen, st[1], st[2])
        else:
            op = st[1]
        marks.append(len(ops))
        ops.append(op)
        if k != "call":
            ops.append("view")
    return ops, marks


def project(view):
    out = {k: v for k, v in view.items() if k not in SKIP_AT and k != "air_conditioners"}
    out["air_conditioners"] = {}
    for i, a in view["air_conditioners"].items():
        pa = {k: v for k, v in a.items() if k not in SKIP_AC and k != "zones"}
        pa["zones"] = {z: {k: v for k, v in zz.items() if k not in SKIP_ZONE} for z, zz in a["zones"].items()}
        out["air_conditioners"][i] = pa
    return out


def diff(a, b, path=""):
    if isinstance(a, dict) and isinstance(b, dict):
        for k in sorted(set(a) | set(b), key=str):
            if k not in a or k not in b:
                return "%s.%s present in one generation only" % (path, k)
            d = diff(a[k], b[k], "%s.%s" % (path, k))
            if d:
                return d
        return None
    return None if a == b else "%s: AirTouch 4 shows %s, AirTouch 5 shows %s" % (path, a, b)


def meaning(gen, reading):
    """vendor reading of a control frame -> generation-neutral meaning"""
    d, ch = c04.parse(reading)
    out = {}
    p = d.get("power", "keep")
    out["power"] = "toggle" if p in ("toggle", "change", "next") else p
    for k in ("mode", "fan_speed", "setpoint"):
        if k in d:
            out[k] = d[k]
    if "setting" in d:      # AirTouch 4 group control
        s = d["setting"]
        out["value"] = "keep" if s == "keep" else s.replace("set_open_percentage", "percentage").replace("set_target_setpoint", "setpoint")
    if "value" in d and "zone" in d:
        out["value"] = d["value"]
    out["target"] = d.get("ac", d.get("group", d.get("zone")))
    return out


def run(ctx, deep=False):
    thorough = deep or ctx.tier == "thorough"
    n_inst = 200 if thorough else 24
    n_steps = 60 if thorough else 40
    ctx.coverage["rule"] = (
        "abstract installations (1..4 air-conditioners, 1..16 zones in contiguous ranges, ASCII names, arbitrary mode and common fan-speed ability "
        "masks, one whole-degree limit pair, sensors present/absent) and abstract histories (AC status over power on/off x the five modes x the seven "
        "common fan speeds x flags x whole-degree set-points x temperatures x error codes, zone status over off/on/turbo x control method x damper x "
        "set-point x sensor x battery x spill, timers, error texts, versions, and calls with common arguments) rendered for each generation from the "
        "vendor layouts and fed to the real AirTouch4 and AirTouch5 objects (in half of the runs the application also looks at the objects while the handshake is waiting for its last answer); after every frame the two public views are compared attribute by "
        "attribute (skipped: model, console name, set-point resolution, supported power controls), every call must be accepted or refused by both "
        "alike except SET_TO_AWAY / SET_TO_SLEEP (documented), and the two frames of an accepted call are read by their own vendor readers and must "
        "mean the same (target entity, power, mode, fan speed, set-point / damper value).")
    rng = ctx.rng
    spec_lines, pend = [], []
    worst = {}

    def bad(key, what, **data):
        if key not in worst or len(str(data)) < len(str(worst[key][1])):
            worst[key] = (what, data)

    for i in range(n_inst):
        inst = abstract_install(rng)
        steps = initial_steps(inst) + history(rng, inst, n_steps)
        runs = {}
        logging.disable(logging.CRITICAL)
        for gen in (4, 5):
            early = i % 2 == 1
            ops, marks = render(gen, inst, steps, early)
            api = apiharness.Api(gen)
            with warnings.catch_warnings():
                warnings.simplefilter("ignore")
                out = api.run(ops)
            runs[gen] = (ops, marks, out, api)
        (ops4, m4, out4, api4), (ops5, m5, out5, api5) = runs[4], runs[5]
        hs = len(cs.handshake(4, inst)) + early
        ok4 = any("RESULT init True" in x for o in out4[:hs] for x in o)
        ok5 = any("RESULT init True" in x for o in out5[:len(cs.handshake(5, inst)) + early] for x in o)
        if not (ok4 and ok5):
            ctx.tie_broken("C19:console-script", "the scripted consoles no longer initialise both objects (AT4 %s, AT5 %s) for %s" % (ok4, ok5, inst))
            continue
        # views: position of each `view` op
        v4 = [x for o in out4 for x in o if x.startswith("VIEW")]
        v5 = [x for o in out5 for x in o if x.startswith("VIEW")]
        labels = (["during the handshake"] if early else []) + ["after the handshake"] + [repr(st)[:160] for st in steps if st[0] != "call"]
        for j, (a, b) in enumerate(zip(v4, v5)):
            if j < 2 + early:
                continue                   # before the installation's own state has been reported in full by both consoles
            ctx.case(("view", i, j))
            d = diff(project(apiref.parse_view(a)), project(apiref.parse_view(b)))
            if d:
                attr = d.split(":")[0].split(".")[-1]
                bad("C19:view:%s" % attr, "equivalent consoles, %s: %s" % (labels[j], d), inst=inst, steps=[list(s) if not isinstance(s, str) else s for s in steps[:j + 1]], kind_="view")
                break
        for st, i4, i5 in zip(steps, m4, m5):
            if st[0] != "call":
                continue
            ctx.case(("call", i, st[1]))
            r4 = [x for x in out4[i4] if x.startswith("RESULT")]
            r5 = [x for x in out5[i5] if x.startswith("RESULT")]
            s4, s5 = api4.op_sent[i4], api5.op_sent[i5]
            away = "SET_TO_AWAY" in st[1] or "SET_TO_SLEEP" in st[1]
            ctx.count("call:%s:%s/%s" % (st[1].split()[3], r4[0] if r4 else "-", r5[0] if r5 else "-"))
            if away:
                continue                      # documented difference
            if r4 != r5 or len(s4) != len(s5):
                bad("C19:accept:%s" % st[1].split()[3], "equivalent consoles, `%s`: AirTouch 4 -> %s (%d frames), AirTouch 5 -> %s (%d frames)" % (
                    st[1], r4, len(s4), r5, len(s5)), inst=inst, call=st[1], kind_="accept")
                continue
            if len(s4) == 1:
                p4, p5 = s4[0][1], s5[0][1]
                if (p4.max_retries, p4.max_lifetime) != (p5.max_retries, p5.max_lifetime):
                    bad("C19:policy:%s" % st[1].split()[3], "equivalent consoles, `%s`: AirTouch 4 sends it with retry policy (retries %s, lifetime %s s), AirTouch 5 with (retries %s, lifetime %s s)" % (
                        st[1], p4.max_retries, p4.max_lifetime, p5.max_retries, p5.max_lifetime), inst=inst, call=st[1], kind_="policy")
                try:
                    f4 = c04.frame_of(api4, s4[0][0])
                    f5 = c04.frame_of(api5, s5[0][0])
                except Exception:  # noqa: BLE001
                    ctx.count("call:unencodable")
                    continue
                if " duration " in st[1]:
                    # the quick-timer message of both generations: sub-id, then AC, timer type, hours, minutes
                    if f4[1][2:] != f5[1][2:]:
                        bad("C19:meaning:quick_timer_duration", "equivalent consoles, `%s`: the AirTouch 4 message carries (AC, type, hours, minutes) = %s, the AirTouch 5 message %s" % (
                            st[1], list(f4[1][2:]), list(f5[1][2:])), inst=inst, call=st[1], kind_="meaning")
                    continue
                if "quick_timer" in st[1]:
                    a = int(st[1].split()[2])
                    t4, t5 = c04.timer_record(4, a, f4[1]), c04.timer_record(5, a, f5[1])
                    if t4 != t5:
                        bad("C19:meaning:quick_timer", "equivalent consoles, `%s`: the AirTouch 4 frame sets (on, off) = %s, the AirTouch 5 frame %s" % (st[1], t4, t5),
                            inst=inst, call=st[1], kind_="meaning")
                    continue
                k4 = {0x2A: "2A", 0x2C: "2C"}.get(f4[3].message_id)
                k5 = {0x20: "C020", 0x22: "C022"}.get(f5[1][0]) if f5[3].message_id == 0xC0 else None
                if k4 and k5:
                    pend.append((len(spec_lines), st[1], inst))
                    spec_lines.append("spec 4 %s %s" % (k4, f4[1].hex()))
                    spec_lines.append("spec 5 %s %s" % (k5, f5[1].hex()))
    readings = ctx.oracle(spec_lines) if spec_lines else []
    for pos, call, inst in pend:
        a, b = meaning(4, readings[pos]), meaning(5, readings[pos + 1])
        if a != b:
            bad("C19:meaning:%s" % call.split()[3], "equivalent consoles, `%s`: the AirTouch 4 frame means %s, the AirTouch 5 frame means %s" % (call, a, b),
                inst=inst, call=call, kind_="meaning")
    for key, (what, data) in worst.items():
        ctx.violation(key, what, kind="history", **{k: v for k, v in data.items()})
    ctx.assumptions += ["the AirTouch 4 group bit 'turbo supported' is set in the equivalent installation (AirTouch 5 has no such bit)",
                        "AirTouch 4 group control also names the control method when it sets a value; AirTouch 5 zone control has no such field: only target, power and value are compared"]
    # tie of both API models (the Lean theorem relates the two models)
    if ctx.driver_ok:
        import importlib
        for g in (4, 5):
            mod = importlib.import_module("apigen%d" % g)
            for k in range(150 if thorough else 15):
                name, ops = mod.gen_script(rng, k)
                _, mism = apicheck.compare(ctx, g, ops, label=name)
                if mism:
                    ctx.tie_broken("C19:model-vs-implementation:at%d" % g, "script %s op %d %r: implementation %s, model %s" % (
                        name, mism["index"], mism["op"], mism["implementation"][:3], mism["model"][:3]))
                    break


def search(ctx):
    if ctx.tier != "thorough":
        run(ctx, deep=True)


def replay(ctx, data):
    print(data.get("what"))
    return 1
