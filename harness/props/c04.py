"""C04 — commands on the wire mean what the vendor protocol says.

Every public control call of the real API objects (over the stub socket) -> the message it sends -> the frame the
real send path writes for it (header factory, wrappers, encoders, CRC) -> read with the independent vendor-document
reader (oracle `spec`, `specframe`) and compared with the *intended meaning* of the call, written here directly from
the property statement and the public docstrings."""
import itertools
import json
import warnings

import apiharness

LEAN_MODULES = ["PyAirtouch.Props.C04"]
LEVEL = "proof"


def parse(text):
    body, _, tail = text.partition(" changes=")
    ch = tail.split(" ")[0] if tail else ""
    d = dict(kv.split("=", 1) for kv in body.split(";") if "=" in kv)
    return d, set(x for x in ch.split(",") if x)


class Rig:
    """an initialised real API object whose sends are captured as message objects"""

    def __init__(self, gen, ac_count, zones, sensors, turbo, limits):
        import apigen_min
        self.gen = gen
        self.api = apiharness.Api(gen)
        self.sent = []
        orig = self.api.sock.send

        async def send(message, retry_policy):
            self.sent.append((message, retry_policy))
            await orig(message, retry_policy)
        self.api.sock.send = send
        self.ops = apigen_min.handshake(gen, ac_count, zones, sensors, turbo, limits)

    def frame(self, message):
        reg = self.api.reg
        enc = reg.get_encoder(message.message_id)
        hdr = reg.header_factory.create_from_message(message, enc.size(message))
        eh = reg.header_encoder.encode(hdr)
        mb = enc.encode(hdr, message)
        crc = reg.checksum_calculator.calculate(eh.checksum_data + mb)
        return bytes(eh.header_bytes), bytes(mb), bytes(crc), hdr


def intended(gen, target, method, args, state):
    """the meaning of a public call in the Spec's vocabulary: (kind, expected field values, expected changed attributes)"""
    if target == "ac":
        kind = "2C" if gen == 4 else "C022"
        exp = {"ac": str(state["id"]), "power": "keep", "mode": "keep", "fan_speed": "keep", "setpoint": "keep"}
        ch = set()
        if method == "set_power":
            exp["power"] = {"TOGGLE": "toggle" if gen == 4 else "change", "TURN_OFF": "off", "TURN_ON": "on",
                            "SET_TO_AWAY": "away", "SET_TO_SLEEP": "sleep"}[args[0]]
            ch = {"power"}
        elif method == "set_mode":
            exp["mode"] = args[0].lower()
            ch = {"mode"}
            if args[1] == "1":
                exp["power"] = "on"
                ch.add("power")
        elif method == "set_fan_speed":
            exp["fan_speed"] = args[0].lower()
            ch = {"fan_speed"}
        elif method == "set_target_temperature":
            t = float(args[0])
            lo, hi = state["min"], state["max"]
            if gen == 4:
                v = min(max(round(lo), round(t)), round(hi)) * 10
            else:
                v = round(min(max(lo, round(t, 1)), hi) * 10)
            exp["setpoint"] = "set(%d)" % v
            ch = {"setpoint"}
        return kind, exp, ch
    kind = "2A" if gen == 4 else "C020"
    if gen == 4:
        exp = {"group": str(state["id"]), "setting": "keep", "control_method": "keep", "power": "keep"}
        ch = set()
        if method == "set_power":
            exp["power"] = args[0].lower()
            ch = {"power"}
        elif method == "set_target_temperature":
            exp["setting"] = "set_target_setpoint(%d)" % (round(float(args[0])) * 10)
            exp["control_method"] = "temperature"      # documented in at4/api.py: the control method follows the requested setting
            ch = {"setting", "control_method"}
        elif method == "set_damper_percentage":
            exp["setting"] = "set_open_percentage(%d)" % int(args[0])
            exp["control_method"] = "percentage"
            ch = {"setting", "control_method"}
        return kind, exp, ch
    exp = {"zone": str(state["id"]), "control_type": "keep", "power": "keep", "value": "keep"}
    ch = set()
    if method == "set_power":
        exp["power"] = args[0].lower()
        ch = {"power"}
    elif method == "set_target_temperature":
        exp["value"] = "setpoint(%d)" % round(round(float(args[0]), 1) * 10)
        ch = {"value"}
    elif method == "set_damper_percentage":
        exp["value"] = "percentage(%d)" % int(args[0])
        ch = {"value"}
    return kind, exp, ch


def run(ctx, deep=False):
    import apigen_min
    thorough = deep or ctx.tier == "thorough"
    ctx.coverage["rule"] = (
        "real AirTouch4 / AirTouch5 objects initialised against a scripted console (AC numbers 0..3 / 0..15 sampled incl. both ends, "
        "zone numbers 0..15, several ability records incl. all-modes / all-speeds and restricted ones, min/max limits); every public "
        "control call with every enum argument, AC temperatures on a 0.05 degC grid from -10 to 60 (quick: 0.35 grid + all x.5 / x.x5 "
        "ties near the limits), zone temperatures over the documented range, damper 0..100; each accepted call's message is framed by "
        "the real send path and read by the independent vendor reader: addressed entity, exactly the requested attribute changed to "
        "exactly the requested value, every other attribute keep, to-address 0x80 (0x90 for 0x1F), from 0xB0, check bytes = "
        "CRC-16/MODBUS of address..payload. distinct = distinct (generation, entity, call, arguments)")
    import pyairtouch.api as A
    step = 0.05 if thorough else 0.35
    temps = []
    x = -10.0
    while x <= 60.0001:
        temps.append(round(x, 2))
        x += step
    temps += [15.5, 16.5, 29.5, 30.5, 15.95, 16.05, 30.05, 29.95, 22.25, 22.35, 22.45]
    spec_lines, frame_lines, metas = [], [], []
    for gen in (4, 5):
        configs = apigen_min.configs(gen, thorough)
        for cfg in configs:
            rig = Rig(gen, **cfg)
            calls = []
            for ac in range(cfg["ac_count"]):
                acid = apigen_min.ac_ids(gen, cfg)[ac]
                st = {"id": acid, "min": cfg["limits"][0], "max": cfg["limits"][1]}
                for p in A.AcPowerControl:
                    calls.append(("ac", acid, "set_power", [p.name], st))
                for m in A.AcMode:
                    for po in ("0", "1"):
                        calls.append(("ac", acid, "set_mode", [m.name, po], st))
                for f in A.AcFanSpeed:
                    calls.append(("ac", acid, "set_fan_speed", [f.name], st))
                for t in (temps if ac == 0 else temps[::7]):
                    calls.append(("ac", acid, "set_target_temperature", [repr(t)], st))
            for z in cfg["zones"]:
                st = {"id": z}
                for p in A.ZonePowerState:
                    calls.append(("zone", z, "set_power", [p.name], st))
                for d in (range(0, 101) if z == cfg["zones"][0] else (0, 1, 50, 99, 100)):
                    calls.append(("zone", z, "set_damper_percentage", [str(d)], st))
                zt = [t for t in temps if (10.0 <= t <= 35.0 if gen == 5 else 0.0 <= t <= 40.0)]
                for t in (zt if z == cfg["zones"][0] else zt[::9]):
                    calls.append(("zone", z, "set_target_temperature", [repr(t)], st))
            ops = list(rig.ops)
            marks = []
            for (target, ident, method, args, st) in calls:
                marks.append(len(ops))
                ops.append("call %s %d %s %s" % (target, ident, method, " ".join(args)))
            with warnings.catch_warnings():
                warnings.simplefilter("ignore")
                n_before = []
                results = None
                # run op by op to know which messages each call sent
                api = rig.api
                out = api.run_collect(ops, rig.sent)
            for (target, ident, method, args, st), idx in zip(calls, marks):
                res, sent = out[idx]
                ctx.case((gen, target, ident, method, tuple(args), json.dumps(cfg, sort_keys=True)))
                ctx.count("%d:%s.%s:%s" % (gen, target, method, "sent" if sent else (res or "nothing")))
                if not sent:
                    continue
                if len(sent) != 1:
                    ctx.violation("C04:frames-per-call", "%s %s.%s%s transmitted %d frames" % (gen, target, method, args, len(sent)), kind="input",
                                  call=[gen, target, ident, method, args], implementation_output=len(sent), spec_verdict="exactly one frame")
                    continue
                msg = sent[0][0]
                try:
                    hb, mb, crc, hdr = rig.frame(msg)
                except Exception as e:  # noqa: BLE001  (unencodable: nothing reaches the wire)
                    ctx.count("%d:%s.%s:unencodable:%s" % (gen, target, method, type(e).__name__))
                    continue
                kind, exp, ch = intended(gen, target, method, args, st)
                spec_lines.append("spec %d %s %s" % (gen, kind, mb.hex()))
                inner = (hb + mb + crc) if gen == 4 else (hb + mb + crc)[10:]
                frame_lines.append("specframe %d %s" % (gen, inner.hex()))
                metas.append((gen, target, ident, method, args, exp, ch, hdr, (hb + mb + crc).hex()))
    spec = ctx.oracle(spec_lines) if spec_lines else []
    frames = ctx.oracle(frame_lines) if frame_lines else []
    worst = {}
    for (gen, target, ident, method, args, exp, ch, hdr, fr), s, f in zip(metas, spec, frames):
        why = None
        if s in ("none", "bad-op"):
            why = "the vendor reader does not accept the payload as a %s control message" % target
        else:
            got, gch = parse(s)
            for k, v in exp.items():
                if got.get(k) != v:
                    why = "%s: frame says %s=%s, the call intends %s" % (k, k, got.get(k), v)
                    break
            if why is None and gch != ch:
                why = "attributes changed by the frame %s, intended %s" % (sorted(gch), sorted(ch))
        if why is None:
            fd, _ = parse(f)
            want_to = "90" if hdr.message_id == 0x1F else "80"
            if f in ("none", "bad-op"):
                why = "the vendor frame reader rejects the frame"
            elif fd.get("check_ok") not in ("true", None) or (fd.get("check_ok") is None and "check" not in f):
                why = "check bytes are not CRC-16/MODBUS of address..payload"
            elif hdr.to_address != int(want_to, 16) or hdr.from_address != 0xB0:
                why = "addressed to 0x%02x from 0x%02x" % (hdr.to_address, hdr.from_address)
        if why:
            key = "C04:%d:%s.%s" % (gen, target, method)
            if key not in worst:
                worst[key] = (gen, target, ident, method, args, why, fr, s)
    for key, (gen, target, ident, method, args, why, fr, s) in worst.items():
        ctx.violation(key, "AirTouch %d %s %d %s(%s): %s (frame %s; vendor reading: %s)" % (gen, target, ident, method, ", ".join(args), why, fr, s[:300]),
                      kind="input", call=[gen, target, ident, method, args], implementation_output=fr, spec_verdict=why)
    if metas:
        ctx.sample({"call": list(metas[0][:5]), "frame": metas[0][8], "vendor_reading": spec[0][:200]})
    ctx.assumptions += ["quick-timer and AC-timer control messages are not in the vendor documents (reverse-engineered upstream): only their addressing and check bytes are judged",
                        "Python's round() is used as is by the intended-meaning computation (same interpreter)"]


def search(ctx):
    if ctx.tier != "thorough":
        run(ctx, deep=True)


def replay(ctx, data):
    print(data.get("call"), data.get("spec_verdict"))
    return 1
