"""C04 — commands on the wire mean what the vendor protocol says.

Every public control call of the real API objects (over the stub socket) -> the message it sends -> the frame the
real send path writes for it (header factory, wrappers, encoders, CRC) -> read with the independent vendor-document
reader (oracle `spec`, `specframe`) and compared with the *intended meaning* of the call, written here directly from
the property statement and the public docstrings."""
import itertools
import json
import warnings

import apiharness

LEAN_MODULES = ["PyAirtouch.Props.C04", "PyAirtouch.Props.C11At5", "PyAirtouch.Props.C11At4"]
LEVEL = "proof"


def parse(text):
    body, _, tail = text.partition(" changes=")
    ch = tail.split(" ")[0] if tail else ""
    d = dict(kv.split("=", 1) for kv in body.split(";") if "=" in kv)
    return d, set(x for x in ch.split(",") if x)


class SendPathError(Exception):
    """the send path failed on a message whose own payload is encodable: header factory / header encoder / checksum"""


def frame_of(api, message):
    """the bytes the real send path writes for `message` (same calls as AirTouchSocket.send / _write).  A message the message
    encoder itself cannot express raises whatever the encoder raises (nothing reaches the wire: the caller's business);
    a failure anywhere else in the send path raises SendPathError - an accepted, encodable command would be lost"""
    reg = api.reg
    enc = reg.get_encoder(message.message_id)
    size = enc.size(message)
    probe = reg.header_encoder  # noqa: F841
    try:
        hdr = reg.header_factory.create_from_message(message, size)
    except Exception as e:  # noqa: BLE001
        raise SendPathError("header factory: %s: %s" % (type(e).__name__, e)) from e
    mb = enc.encode(hdr, message)
    try:
        eh = reg.header_encoder.encode(hdr)
        crc = reg.checksum_calculator.calculate(eh.checksum_data + mb)
    except Exception as e:  # noqa: BLE001
        raise SendPathError("header %r cannot be encoded: %s: %s" % (hdr, type(e).__name__, e)) from e
    return bytes(eh.header_bytes), bytes(mb), bytes(crc), hdr


def timer_record(gen, ac, payload):
    """-> (on, off) of AC `ac` in a timer control payload as text ("disabled" | "hh:mm"), or an error string"""
    if gen == 4:
        if len(payload) < 8 * (ac + 1):
            return "the timer control message has no record for AC %d" % ac
        rec = payload[8 * ac:8 * ac + 4]
    else:
        if len(payload) < 8 or payload[0] != 0x32:
            return "not an AC timer control message"
        rl = payload[4] << 8 | payload[5]
        recs = [payload[8 + i * rl:8 + (i + 1) * rl] for i in range(payload[6] << 8 | payload[7])]
        mine = [r for r in recs if r and r[0] == ac]
        if len(mine) != 1:
            return "%d records for AC %d" % (len(mine), ac)
        rec = mine[0][1:5]

    def show(b):
        return "disabled" if b[0] & 0x80 else "%02d:%02d" % (b[0] & 0x1F, b[1] & 0x3F)
    return show(rec[0:2]), show(rec[2:4])


def timer_meaning(gen, ac, method, args, payload, reported):
    """AC timer control (0x36 / 0xC0 0x32; layout reverse-engineered upstream, as in consolesim: per timer `0x80 if disabled | hour, minute`,
    ON timer first): the requested timer must carry the requested time (or be disabled for clear), the OTHER timer exactly what the
    console last reported.  -> None or what is wrong"""
    if reported is None:
        return None
    if gen == 4:
        if len(payload) < 8 * (ac + 1):
            return "the timer control message has no record for AC %d" % ac
        rec = payload[8 * ac:8 * ac + 4]
    else:
        if len(payload) < 8 or payload[0] != 0x32:
            return "not an AC timer control message"
        rl = payload[4] << 8 | payload[5]
        recs = [payload[8 + i * rl:8 + (i + 1) * rl] for i in range(payload[6] << 8 | payload[7])]
        mine = [r for r in recs if r and r[0] == ac]
        if len(mine) != 1:
            return "%d records for AC %d" % (len(mine), ac)
        rec = mine[0][1:5]

    def show(b):
        return "disabled" if b[0] & 0x80 else "%02d:%02d" % (b[0] & 0x1F, b[1] & 0x3F)

    def want(t):
        return "disabled" if t is None else "%02d:%02d" % t
    on, off = rec[0:2], rec[2:4]
    which = args[0]
    req, other, other_rep = (on, off, reported[1]) if which == "ON_TIMER" else (off, on, reported[0])
    target = "disabled" if method == "clear_quick_timer" else "%02d:%02d" % (int(args[2]), int(args[3]))
    if show(req) != target:
        return "the %s is sent as %s, requested %s" % (which, show(req), target)
    if show(other) != want(other_rep):
        return "the other timer is sent as %s although the console last reported it as %s (it must be kept)" % (show(other), want(other_rep))
    return None


def limits(gen, ac):
    """[min, max] in force, from the installation description: AT4 one pair; AT5 the pair of the current mode"""
    if gen == 4:
        return ac["lo"], ac["hi"]
    lo_h, hi_h = ac.get("lo_heat", ac["lo"]), ac.get("hi_heat", ac["hi"])
    mode = ac.get("mode", 4)
    if mode == 1:
        return lo_h, hi_h
    if mode == 4:
        return ac["lo"], ac["hi"]
    return min(lo_h, ac["lo"]), max(hi_h, ac["hi"])


def intended(gen, target, method, args, state):
    """the meaning of a public call in the Spec's vocabulary: (kind, expected field values, expected changed attributes)"""
    if target == "ac":
        kind = "2C" if gen == 4 else "C022"
        exp = {"ac": str(state["id"]), "power": "keep", "mode": "keep", "fan_speed": "keep", "setpoint": "keep"}
        ch = set()
        if method == "set_power":
            exp["power"] = {"TOGGLE": "toggle" if gen == 4 else "change", "TURN_OFF": "off", "TURN_ON": "on",
                            "SET_TO_AWAY": "away", "SET_TO_SLEEP": "sleep"}[args[0]]
            ch = {"power"}
        elif method == "set_mode":
            exp["mode"] = args[0].lower()
            ch = {"mode"}
            if args[1] == "1":
                exp["power"] = "on"
                ch.add("power")
        elif method == "set_fan_speed":
            exp["fan_speed"] = args[0].lower()
            ch = {"fan_speed"}
        elif method == "set_target_temperature":
            t = float(args[0])
            lo, hi = state["min"], state["max"]
            if gen == 4:
                v = min(max(round(lo), round(t)), round(hi)) * 10
            else:
                v = round(min(max(lo, round(t, 1)), hi) * 10)
            exp["setpoint"] = "set(%d)" % v
            ch = {"setpoint"}
        return kind, exp, ch
    kind = "2A" if gen == 4 else "C020"
    if gen == 4:
        exp = {"group": str(state["id"]), "setting": "keep", "control_method": "keep", "power": "keep"}
        ch = set()
        if method == "set_power":
            exp["power"] = args[0].lower()
            ch = {"power"}
        elif method == "set_target_temperature":
            exp["setting"] = "set_target_setpoint(%d)" % (round(float(args[0])) * 10)
            exp["control_method"] = "temperature"      # documented in at4/api.py: the control method follows the requested setting
            ch = {"setting", "control_method"}
        elif method == "set_damper_percentage":
            exp["setting"] = "set_open_percentage(%d)" % int(args[0])
            exp["control_method"] = "percentage"
            ch = {"setting", "control_method"}
        return kind, exp, ch
    exp = {"zone": str(state["id"]), "control_type": "keep", "power": "keep", "value": "keep"}
    ch = set()
    if method == "set_power":
        exp["power"] = args[0].lower()
        ch = {"power"}
    elif method == "set_target_temperature":
        exp["value"] = "setpoint(%d)" % round(round(float(args[0]), 1) * 10)
        ch = {"value"}
    elif method == "set_damper_percentage":
        exp["value"] = "percentage(%d)" % int(args[0])
        ch = {"value"}
    return kind, exp, ch


def run(ctx, deep=False):
    import consolesim
    import pyairtouch.api as A
    thorough = deep or ctx.tier == "thorough"
    ctx.coverage["rule"] = (
        "real AirTouch4 / AirTouch5 objects initialised against a scripted console (AC numbers at both ends of 0..3 / 0..15, "
        "zone numbers 0..15, full and restricted ability records, per-mode limits); every public control call with every enum "
        "argument, AC temperatures on a 0.05 degC grid from -10 to 60 (quick: 0.35 grid plus ties near the limits), zone temperatures, "
        "dampers -5..105; each accepted call's message is framed by the real send path (header factory, wrappers, encoder, CRC) and "
        "read by the independent vendor reader: addressed entity, exactly the requested attribute changed to exactly the requested "
        "value, every other attribute keep, to-address 0x80 (0x90 for 0x1F), from 0xB0, check bytes = CRC-16/MODBUS of address..payload. "
        "the power / mode calls repeated after every power state the console can report; distinct = distinct (generation, installation, entity, call, arguments)")
    step = 0.05 if thorough else 0.35
    temps = []
    x = -10.0
    while x <= 60.0001:
        temps.append(round(x, 2))
        x += step
    temps += [15.5, 16.5, 29.5, 30.5, 15.95, 16.05, 30.05, 29.95, 22.25, 22.35, 22.45, 17.5, 18.5, 24.5, 25.5, 27.5, 28.5]
    spec_lines, metas = [], []
    for gen in (4, 5):
        for ci, inst in enumerate(consolesim.installs(gen, thorough)):
            calls = []
            for k, ac in enumerate(inst["acs"]):
                lo, hi = limits(gen, ac)
                st = {"id": ac["id"], "min": lo, "max": hi}
                for p in A.AcPowerControl:
                    calls.append(("ac", ac["id"], "set_power", [p.name], st))
                for m in A.AcMode:
                    for po in ("0", "1"):
                        calls.append(("ac", ac["id"], "set_mode", [m.name, po], st))
                for f in A.AcFanSpeed:
                    calls.append(("ac", ac["id"], "set_fan_speed", [f.name], st))
                for t in (temps if k == 0 else temps[::7]):
                    calls.append(("ac", ac["id"], "set_target_temperature", [repr(t)], st))
                for tt in A.AcTimerType:
                    for secs in ("5400", "59", "57600", "59400", "86340", "90000", "172740"):
                        calls.append(("ac", ac["id"], "set_quick_timer", [tt.name, "duration", secs], st))
                    for (h, m) in ((6, 30), (23, 59), (0, 0)):
                        calls.append(("ac", ac["id"], "set_quick_timer", [tt.name, "time", str(h), str(m)], st))
                    calls.append(("ac", ac["id"], "clear_quick_timer", [tt.name], st))
            first = True
            for z in sorted(inst["zones"]):
                st = {"id": z}
                for p in A.ZonePowerState:
                    calls.append(("zone", z, "set_power", [p.name], st))
                for d in (range(-5, 106) if first else (0, 1, 50, 99, 100)):
                    calls.append(("zone", z, "set_damper_percentage", [str(d)], st))
                zt = [t for t in temps if 0.0 <= t <= 40.0]
                for t in (zt if first else zt[::9]):
                    calls.append(("zone", z, "set_target_temperature", [repr(t)], st))
                first = False
            calls.append(("at", 0, "check_for_updates", [], {}))
            # the same power / mode calls again after the console has reported each power state it can report (AirTouch 5 also off-away,
            # on-away, sleep): what a call means does not depend on what the unit was last reported to be doing
            for p_state in ([0, 1] if gen == 4 else [0, 1, 2, 3, 5]):
                recs = [dict(id=ac["id"], power=p_state, mode=ac.get("mode", 4), fan=0, setpoint=(22 if gen == 4 else 120), temp=235) for ac in inst["acs"]]
                calls.append(("frame", 0, (consolesim.at4_ac_status if gen == 4 else consolesim.at5_ac_status)(recs), [], {}))
                for ac in inst["acs"][:2]:
                    lo, hi = limits(gen, ac)
                    st = {"id": ac["id"], "min": lo, "max": hi}
                    for m in list(A.AcMode)[:3]:
                        calls.append(("ac", ac["id"], "set_mode", [m.name, "1"], st))
                    for pc in A.AcPowerControl:
                        calls.append(("ac", ac["id"], "set_power", [pc.name], st))
            # the AC status frames' own "a timer is set" flag goes up and down (a timer ran out, the other is still pending), then timer calls:
            # the other timer is retained as the last TIMER status reported it
            for flag in (1, 0):
                recs = [dict(id=ac["id"], power=1, mode=ac.get("mode", 4), fan=0, timer=flag, setpoint=(22 if gen == 4 else 120), temp=235) for ac in inst["acs"]]
                calls.append(("frame", 0, (consolesim.at4_ac_status if gen == 4 else consolesim.at5_ac_status)(recs), [], {}))
            for ac in inst["acs"]:
                st = {"id": ac["id"]}
                for tt in A.AcTimerType:
                    calls.append(("ac", ac["id"], "set_quick_timer", [tt.name, "time", "6", "45"], st))
                    calls.append(("ac", ac["id"], "clear_quick_timer", [tt.name], st))
            ops = consolesim.handshake(gen, inst)
            # the console reports quick timers that differ per AC and between ON and OFF, so "the other timer is kept" is visible
            reported = {ac["id"]: ((7 + k, 5 + ac["id"]), None if k % 2 else (21, 40 + k)) for k, ac in enumerate(inst["acs"])}
            if gen == 4:
                ops.append(consolesim.at4_timer_status({a: t for a, t in reported.items() if a < 4}))
            else:
                ops.append(consolesim.at5_timer_status([(a, on, off) for a, (on, off) in sorted(reported.items())]))
            base = len(ops)
            for (target, ident, method, args, st) in calls:
                if target == "frame":
                    ops.append(method)
                    continue
                ops.append(("call at check_for_updates" if target == "at" else "call %s %d %s %s" % (target, ident, method, " ".join(args))).strip())
            api = apiharness.Api(gen)
            with warnings.catch_warnings():
                warnings.simplefilter("ignore")
                out = api.run(ops)
            if not any("RESULT init True" in x for o in out[:base] for x in o):
                ctx.tie_broken("C04:console-script", "the scripted console no longer initialises the AirTouch %d object (installation %d): %s" % (gen, ci, out[:base]))
                continue
            for j, (target, ident, method, args, st) in enumerate(calls):
                if target == "frame":
                    continue
                res = [x for x in out[base + j] if x.startswith("RESULT")]
                sent = api.op_sent[base + j]
                ctx.case((gen, ci, target, ident, method, tuple(args)))
                ctx.count("%d:%s.%s:%s" % (gen, target, method, "sent" if sent else (res[0] if res else "nothing")))
                if not sent:
                    # a command that is certainly admissible (the zone's status carries the sensor flag and the value is inside what
                    # every documented set-point field expresses; a damper percentage 0..100; zone on / off) and was refused: nothing on
                    # the wire means nothing like what the vendor protocol says for it
                    zd = inst["zones"].get(ident, {}) if target == "zone" else {}
                    sure = target == "zone" and ((method == "set_target_temperature" and zd.get("sensor") and 16.0 <= float(args[0]) <= 30.0)
                                                 or (method == "set_damper_percentage" and 0 <= int(args[0]) <= 100)
                                                 or (method == "set_power" and args[0] in ("ON", "OFF")))
                    if sure:
                        ctx.violation("C04:%d:zone.%s:nothing-sent" % (gen, method), "AirTouch %d zone %d %s(%s): an admissible command (zone status: %s) transmitted nothing (%s)" % (
                            gen, ident, method, ", ".join(args), zd, res[0] if res else "no result"), kind="input",
                            call=[gen, ci, target, ident, method, args], implementation_output=res[0] if res else "", spec_verdict="one control frame")
                    continue
                if len(sent) != 1:
                    ctx.violation("C04:%d:frames-per-call" % gen, "AirTouch %d %s.%s%s transmitted %d frames" % (gen, target, method, args, len(sent)), kind="input",
                                  call=[gen, ci, target, ident, method, args], implementation_output=len(sent), spec_verdict="exactly one frame")
                    continue
                try:
                    hb, mb, crc, hdr = frame_of(api, sent[0][0])
                except SendPathError as e:
                    ctx.violation("C04:%d:send-path" % gen, "AirTouch %d %s %d %s(%s): the call was accepted and its message is encodable, but the send path cannot frame it: %s "
                                  "(the socket would log an encoding error and transmit nothing)" % (gen, target, ident, method, ", ".join(args), e), kind="input",
                                  call=[gen, ci, target, ident, method, args], implementation_output=str(e), spec_verdict="one frame on the wire")
                    break
                except Exception as e:  # noqa: BLE001  (unencodable: the socket logs it and nothing reaches the wire)
                    ctx.count("%d:%s.%s:unencodable:%s" % (gen, target, method, type(e).__name__))
                    continue
                if method == "set_quick_timer" and len(args) > 1 and args[1] == "duration":
                    # quick-timer message (0x1F FF20 / FF49, layout reverse-engineered upstream): AC, timer type (0 off / 1 on), hours, minutes
                    # of the requested duration truncated to whole minutes (hours modulo 24 - the field has no days)
                    secs = int(args[2])
                    want = bytes([ident, 1 if args[0] == "ON_TIMER" else 0, (secs // 3600) % 24, (secs // 60) % 60])
                    if mb[2:] != want:
                        ctx.violation("C04:%d:ac.set_quick_timer" % gen, "AirTouch %d ac %d set_quick_timer(%s, %s s): the quick-timer message carries %s, the request means %s "
                                      "(AC, type, hours, minutes)" % (gen, ident, args[0], secs, mb[2:].hex(), want.hex()), kind="input",
                                      call=[gen, ci, target, ident, method, args], implementation_output=mb.hex(), spec_verdict=want.hex())
                if "quick_timer" in method and not (len(args) > 1 and args[1] == "duration"):
                    why_t = timer_meaning(gen, ident, method, args, mb, reported.get(ident))
                    if why_t:
                        key = "C04:%d:ac.%s" % (gen, method)
                        ctx.violation(key, "AirTouch %d ac %d %s(%s): %s (frame %s)" % (gen, ident, method, ", ".join(args), why_t, (hb + mb + crc).hex()),
                                      kind="input", call=[gen, ci, target, ident, method, args], implementation_output=(hb + mb + crc).hex(), spec_verdict=why_t)
                if target == "at" or "quick_timer" in method:
                    kind, exp, ch = None, {}, set()
                else:
                    kind, exp, ch = intended(gen, target, method, args, st)
                fr = hb + mb + crc
                if kind:
                    spec_lines.append("spec %d %s %s" % (gen, kind, mb.hex()))
                else:
                    spec_lines.append("crc -")
                metas.append((gen, ci, target, ident, method, args, exp, ch, hdr, fr, kind))
    spec = ctx.oracle(spec_lines) if spec_lines else []
    crc_lines = []
    for m in metas:
        fr = m[9]
        covered = fr[2:-2] if m[0] == 4 else fr[14:-2]
        crc_lines.append("crc %s" % (covered.hex() or "-"))
    crcs = ctx.oracle(crc_lines) if crc_lines else []
    worst = {}
    for (gen, ci, target, ident, method, args, exp, ch, hdr, fr, kind), s, c in zip(metas, spec, crcs):
        why = None
        if kind:
            if s in ("none", "bad-op") or s.startswith("error"):
                why = "the vendor reader does not accept the payload as a %s control message (%s)" % (target, s[:60])
            else:
                got, gch = parse(s)
                if (gen == 5 and target == "zone" and method == "set_target_temperature"
                        and not 10.0 <= round(float(args[0]), 1) <= 35.0 and not gch):
                    # outside the range the AirTouch 5 zone set-point byte can express (10.0 .. 35.0 degC): not an admissible
                    # argument; the frame must then change nothing at all (the vendor reading of an invalid value is "keep")
                    exp = {}
                for k, v in exp.items():
                    if got.get(k) != v:
                        why = "%s: the frame says %s, the call intends %s" % (k, got.get(k), v)
                        break
                if why is None and exp and gch != ch:
                    why = "attributes changed by the frame %s, intended %s" % (sorted(gch), sorted(ch))
        if why is None:
            prefix = bytes([0x55, 0x55]) if gen == 4 else bytes([0x55, 0x55, 0x55, 0xAA])
            want_to = 0x90 if hdr.message_id == 0x1F else 0x80
            outer = b""
            if gen == 5:
                # the undocumented outer header of AirTouch 5 frames (reverse-engineered upstream): 55 55 55 ab, two zero
                # bytes, the inner frame's length twice; only its consistency with the inner frame is judged
                outer, fr = fr[:10], fr[10:]
            n = len(prefix)
            if gen == 5 and outer != bytes([0x55, 0x55, 0x55, 0xAB, 0, 0, len(fr) >> 8, len(fr) & 255, len(fr) >> 8, len(fr) & 255]):
                why = "outer header %s does not announce the inner frame of %d bytes" % (outer.hex(), len(fr))
            elif fr[:n] != prefix:
                why = "frame does not start with the documented prefix"
            elif fr[n] != want_to or fr[n + 1] != 0xB0:
                why = "addressed to 0x%02x from 0x%02x (documented: to 0x%02x from 0xb0)" % (fr[n], fr[n + 1], want_to)
            elif fr[-2:].hex() != c.strip().replace(" ", "").lower()[-4:]:
                why = "check bytes %s are not CRC-16/MODBUS of address..payload (%s)" % (fr[-2:].hex(), c)
            else:
                ln = (fr[n + 4] << 8 | fr[n + 5])
                if ln != len(fr) - n - 6 - 2:
                    why = "length field %d but %d payload bytes" % (ln, len(fr) - n - 8)
        if why:
            key = "C04:%d:%s.%s" % (gen, target, method)
            if key not in worst:
                worst[key] = (gen, ci, target, ident, method, args, why, fr.hex(), s)
    for key, (gen, ci, target, ident, method, args, why, fr, s) in worst.items():
        ctx.violation(key, "AirTouch %d %s %d %s(%s): %s (frame %s; vendor reading: %s)" % (gen, target, ident, method, ", ".join(args), why, fr, s[:300]),
                      kind="input", call=[gen, ci, target, ident, method, args], implementation_output=fr, spec_verdict=why)
    concurrent(ctx)
    status_then_call(ctx)
    if metas:
        ctx.sample({"call": [str(x) for x in metas[0][:6]], "frame": metas[0][9].hex(), "vendor_reading": spec[0][:200]})
    ctx.assumptions += ["quick-timer control messages are not in the vendor documents (reverse-engineered upstream): only their addressing, length and check bytes are judged here; their content is covered by C11/C03",
                        "Python's round() is used as is by the intended-meaning computation (same interpreter)"]


def status_then_call(ctx):
    """AirTouch 5, distinct heat / cool limits: the console reports a change of mode (COOL -> HEAT, with an error code, so the client has a
    request of its own to send) while the link is congested; a few loop passes later the application sets a temperature that only the
    old mode admits.  The frame carries what the limits of the mode LAST REPORTED allow."""
    import asyncio
    import consolesim
    import fullstack
    from vloop import TICK
    inst = dict(acs=[dict(id=0, modes=0x1F, fans=0xFF, lo=18, hi=32, lo_heat=16, hi_heat=28, zones=[0, 1], mode=4)],
                zones={0: dict(sensor=True, ctrl=1), 1: dict(sensor=False)})
    for passes in (4, 5, 8):        # (the report has been handed to the client's handler by then: two passes are enough on the unchanged code)
        for err in (0, 5, 55):      # (55: the unit has been in fault for a while - an earlier report, mode COOL, carried the error code already)
            env = fullstack.Env(5, dict(inst=inst))
            loop = env.loop
            loop.max_passes = 500000
            wire = bytearray()
            state = {"mark": None}

            def on_net(e, wire=wire, state=state):
                if e[0] == "write" and state["mark"] is not None:
                    wire.extend(e[3])
            env.net.listeners.append(on_net)

            async def main(env=env, state=state, passes=passes, err=err):
                if not await env.at.init():
                    return False
                await asyncio.sleep(4 * TICK)
                conn = env.net.conns[-1]
                ac = list(env.at.air_conditioners)[0]
                if err == 55:
                    w0 = consolesim.at5_ac_status([dict(id=0, power=1, mode=4, fan=0, setpoint=120, temp=235, err=5)]).split()
                    conn.peer_send(env.frame(int(w0[1], 16), bytes.fromhex(w0[2])))
                    await asyncio.sleep(8 * TICK)
                conn.block_writes()
                w = consolesim.at5_ac_status([dict(id=0, power=1, mode=1, fan=0, setpoint=120, temp=235, err=5 if err == 55 else err)]).split()
                conn.peer_send(env.frame(int(w[1], 16), bytes.fromhex(w[2])))
                for _ in range(passes):
                    await asyncio.sleep(0)
                state["mark"] = 0
                state["mode_at_call"] = ac.selected_mode.name
                t = loop.create_task(ac.set_target_temperature(31.0))
                await asyncio.sleep(0)
                await asyncio.sleep(0)
                conn.unblock_writes()
                await asyncio.gather(t, return_exceptions=True)
                await asyncio.sleep(4 * TICK)
                state["mark"] = None
                state["mode"] = ac.selected_mode.name
                await env.at.shutdown()
                return True
            asyncio.set_event_loop(loop)
            try:
                ok = loop.run_until_complete(main())
            finally:
                asyncio.set_event_loop(None)
                loop.close()
            ctx.case(("status-then-call", passes, err))
            if not ok:
                ctx.tie_broken("C04:console-script", "the full-stack console no longer initialises the AirTouch 5 object")
                continue
            data = bytes(wire)
            # the AC control frames (0xC0 / 0x22) in what was written after the call
            payloads = []
            i = 0
            while i + 20 <= len(data):
                if data[i:i + 4] == bytes([0x55, 0x55, 0x55, 0xAB]):
                    ln = data[i + 18] << 8 | data[i + 19]
                    if data[i + 17] == 0xC0 and data[i + 20:i + 21] == b"\x22":
                        payloads.append(data[i + 20:i + 20 + ln])
                    i += 20 + ln + 2
                else:
                    i += 1
            reads = [parse(x)[0] for x in ctx.oracle(["spec 5 C022 %s" % p.hex() for p in payloads])] if payloads else []
            sp = [r.get("setpoint") for r in reads]
            ctx.count("status-then-call:%s:shown-at-call=%s" % ("ok" if sp == ["set(280)"] else "differs", state.get("mode_at_call")))
            if state.get("mode") == "HEAT" and sp != ["set(280)"]:
                ctx.violation("C04:5:status-then-call", "AirTouch 5 (cool 18..32, heat 16..28): the console reports mode HEAT%s on a congested link, %d loop passes later the application calls "
                              "set_target_temperature(31.0): the AC control frames written read set-point %s; the limits of the reported mode admit 28.0 (set(280))" % (
                                  " with error code 5" if err else "", passes, sp), kind="history", level="status-then-call", gen=5, passes=passes, err=err,
                              implementation_output=str(sp), spec_verdict="['set(280)']")
                return


def concurrent(ctx):
    """several control calls in flight at once on a congested link (the transport has paused writing, `drain()` really suspends):
    what the console receives must still be whole frames, one per call, each with the meaning of its call"""
    import asyncio
    import fullstack
    import pyairtouch.api as A
    from vloop import TICK
    for gen in (4, 5):
        for pause_passes in (0, 1, 2, 3, 5, 8):
            env = fullstack.Env(gen, dict(inst=fullstack.INST))
            loop = env.loop
            loop.max_passes = 500000
            wire = bytearray()
            state = {"mark": None}

            def on_net(e, wire=wire, state=state):
                if e[0] == "write" and state["mark"] is not None:
                    wire.extend(e[3])
            env.net.listeners.append(on_net)
            calls = [("ac", 0, "set_power", ["TURN_ON"]), ("ac", 0, "set_target_temperature", ["23.0"]), ("zone", 0, "set_damper_percentage", ["35"]),
                     ("ac", 0, "set_mode", ["HEAT", "0"]), ("ac", 0, "set_quick_timer", ["ON_TIMER", "duration", "5400"]),
                     ("ac", 0, "set_quick_timer", ["OFF_TIMER", "duration", "1800"]), ("ac", 0, "set_quick_timer", ["ON_TIMER", "time", "22:30"]),
                     ("ac", 0, "clear_quick_timer", ["OFF_TIMER"])]

            async def main(env=env, state=state, pause_passes=pause_passes):
                ok = await env.at.init()
                if not ok:
                    return False
                await asyncio.sleep(4 * TICK)            # let the first heartbeat go out
                conn = env.net.conns[-1]
                state["mark"] = 0
                conn.block_writes()
                ac = list(env.at.air_conditioners)[0]
                zone = list(ac.zones)[0]
                import datetime
                ts = [loop.create_task(ac.set_power(A.AcPowerControl.TURN_ON)), loop.create_task(ac.set_target_temperature(23.0)),
                      loop.create_task(zone.set_damper_percentage(35)), loop.create_task(ac.set_mode(A.AcMode.HEAT)),
                      loop.create_task(ac.set_quick_timer(A.AcTimerType.ON_TIMER, datetime.timedelta(seconds=5400))),
                      loop.create_task(ac.set_quick_timer(A.AcTimerType.OFF_TIMER, datetime.timedelta(seconds=1800))),
                      loop.create_task(ac.set_quick_timer(A.AcTimerType.ON_TIMER, datetime.time(22, 30))),
                      loop.create_task(ac.clear_quick_timer(A.AcTimerType.OFF_TIMER))]
                for _ in range(pause_passes):
                    await asyncio.sleep(0)
                conn.unblock_writes()
                await asyncio.gather(*ts, return_exceptions=True)
                await asyncio.sleep(4 * TICK)
                state["mark"] = None
                await env.at.shutdown()
                return True
            asyncio.set_event_loop(loop)
            try:
                ok = loop.run_until_complete(main())
            finally:
                asyncio.set_event_loop(None)
                loop.close()
            ctx.case(("concurrent", gen, pause_passes))
            if not ok:
                ctx.tie_broken("C04:console-script", "the full-stack console no longer initialises the AirTouch %d object" % gen)
                continue
            # split the byte stream the console saw into frames by the documented layout
            data = bytes(wire)
            frames, i, why = [], 0, None
            if env.mutated:
                t, cid, was, now = env.mutated[0]
                why = ("bytes handed to the congested transport (%s) had become %s by the time the congestion cleared - a transport that cannot send at once "
                       "keeps the object it was given, so this is what leaves" % (was, now))
            pre = bytes([0x55, 0x55]) if gen == 4 else bytes([0x55, 0x55, 0x55, 0xAB])
            while i < len(data):
                if gen == 5:
                    if data[i:i + 4] != pre or len(data) < i + 10:
                        why = "bytes at offset %d are not the start of a frame" % i
                        break
                    i += 10
                if data[i:i + (2 if gen == 4 else 4)] != (pre if gen == 4 else bytes([0x55, 0x55, 0x55, 0xAA])):
                    why = "bytes at offset %d are not the start of a frame" % i
                    break
                h = i + (2 if gen == 4 else 4)
                if len(data) < h + 6:
                    why = "truncated header at offset %d" % i
                    break
                ln = data[h + 4] << 8 | data[h + 5]
                end = h + 6 + ln + 2
                if len(data) < end:
                    why = "frame at offset %d announces %d payload bytes, the stream ends before" % (i, ln)
                    break
                frames.append((data[h:h + 6], data[h + 6:h + 6 + ln], data[end - 2:end]))
                i = end
            if why is None:
                crcs = ctx.oracle(["crc %s" % (hd + pl).hex() for hd, pl, _ in frames]) if frames else []
                for (hd, pl, ck), c in zip(frames, crcs):
                    if ck.hex() != c.strip().lower()[-4:]:
                        why = "a frame with wrong check bytes (%s, CRC-16/MODBUS is %s)" % (ck.hex(), c)
                if why is None and len(frames) != len(calls):
                    why = "%d frames for %d calls" % (len(frames), len(calls))
            if why is None:
                st = {"id": 0, "min": fullstack.INST["acs"][0]["lo"], "max": fullstack.INST["acs"][0]["hi"]}
                want = []
                for (target, ident, method, args) in calls[:4]:          # (the two timer frames are judged by the timer family; here they count and must be whole)
                    kind, exp, ch = intended(gen, target, method, args, dict(st))
                    want.append((kind, exp, ch))
                lines = []
                for hd, pl, _ in frames:
                    kind = ({0x2A: "2A", 0x2C: "2C"}.get(hd[3]) if gen == 4 else ({0x20: "C020", 0x22: "C022"}.get(pl[0]) if hd[3] == 0xC0 and pl else None))
                    lines.append("spec %d %s %s" % (gen, kind, pl.hex()) if kind else "crc -")
                got = [parse(x) for x in ctx.oracle(lines)]
                for kind, exp, ch in want:
                    hit = [g for g in got if all(g[0].get(k) == v for k, v in exp.items()) and g[1] == ch]
                    if not hit:
                        why = "no frame on the wire means %s (changes %s); frames read: %s" % (exp, sorted(ch), [g[0] for g in got])
                        break
            if why:
                ctx.violation("C04:%d:concurrent" % gen, "AirTouch %d, eight control calls in flight on a congested link (writing resumed after %d loop passes): %s (bytes on the wire %s)" % (
                    gen, pause_passes, why, data.hex()), kind="history", level="concurrent", gen=gen, pause_passes=pause_passes, implementation_output=data.hex(), spec_verdict=why)
                break


def search(ctx):
    if ctx.tier != "thorough":
        run(ctx, deep=True)


def replay(ctx, data):
    print(data.get("call"), data.get("spec_verdict"))
    return 1
