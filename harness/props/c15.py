"""C15 — shutdown is final, leak-free and reversible: socket level (close() at any point of recorded scripts, judged by the
Spec monitor and replayed against the model) and API level (shutdown() of the real AirTouch4/5 object over the real socket at
every instant of console scenarios, judged directly)."""
import multiprocessing
import os

import fullstack
import sockcheck

LEAN_MODULES = ["PyAirtouch.Props.C15", "PyAirtouch.Props.C15At4", "PyAirtouch.Props.C15At5", "PyAirtouch.Props.C15Session"]
LEVEL = "proof"
MONITORS = ["c15", "c07a", "c07b", "c07c"]


def _nontrivial(script, r):
    return any(op[0] == "close" for op in script) and len(script) > 4


def run(ctx, deep=False):
    thorough = deep or ctx.tier == "thorough"
    n = 20000 if thorough else 2000
    ctx.coverage["rule"] = (
        "scripts of the outage / steady / fault families cut at a random point by close(), optionally followed by a send, then "
        "1000 s of virtual idle time with the network accepting; at the end the loop's pending timers, unfinished tasks and the "
        "fake network's open transports are counted. Monitor: after close() has returned no connection attempt, no transport "
        "opened, no frame written, no connected notification, sends rejected with not-open; census all zero; in 40% of the scripts the socket is opened again afterwards and must reconnect, deliver a probe frame and transmit a probe command. Every run replayed "
        "against the Lean model.")
    for gen in (4, 5):
        items = sockcheck.gen_scripts(ctx.seed * 23 + gen, [("close", n)])
        # closed while the console is unreachable (a retry pending / an attempt in flight), opened again later when it is reachable, and the
        # new session's first fault: recovered from as on a fresh object
        for t in (1, 3, 15, 16, 17):
            for fault in (("peer", "reset"), ("peer", "eof"), ("peer", "badcrc"), ("reset",)):
                items.append(("close", [("net", "refuse"), ("open",), ("adv", t), ("close",), ("net", "accept"), ("adv", 8000), ("open",), ("heal",), ("adv", 8), fault,
                                        ("adv", 24), ("heal",)]))
        good = sockcheck.judge_family(ctx, "C15", items, MONITORS, gen=gen, nontrivial=_nontrivial)
        sockcheck.validate_against_model(ctx, good, "AT%d" % gen)
    api_level(ctx, thorough)
    session_level(ctx, thorough)
    ctx.assumptions += ["cancellation semantics of asyncio tasks are trusted"]


# ------------------------------------------------------------------------------------------------ suspended handshake handlers
def _sess_one(job):
    import sessharness
    gen, ops = job
    try:
        return sessharness.run_ops(gen, ops), None
    except Exception as e:  # noqa: BLE001
        return None, "%s: %s" % (type(e).__name__, e)


def session_level(ctx, thorough):
    """tie of `Model/Session.lean` (theorems: Props/C15Session.lean): the real AirTouch 4 / 5 objects over a stub socket, handshake
    answers whose application callbacks are held up across shutdown() / init(), against the model's `step guardNew`"""
    import random
    import sessharness
    rng = random.Random(ctx.seed * 104729 + 15)
    n = 2500 if thorough else 250
    fixed = [["init", "f0", "f1", "f2", "h3", "shutdown", "init", "f0", "f1", "f2", "r", "f3", "f4", "f5"],
             ["init", "f0", "f1", "f2", "f3", "h4", "shutdown", "init", "f0", "f1", "f2", "f3", "r", "f4", "f5"],
             ["init", "f0", "f1", "f2", "f3", "f4", "h5", "shutdown", "init", "f0", "f1", "f2", "f3", "f4", "r", "f5"],
             ["init", "f0", "f1", "f2", "h3", "r", "f4", "f5"],
             ["init", "f0", "f1", "f2", "h3", "h3", "r", "r", "f4", "f5", "h3", "h5", "shutdown", "r", "init", "r"],
             ["init", "f0", "f1", "f2", "h3", "shutdown", "init", "f0", "f1", "f2", "h3", "shutdown", "init", "f0", "f1", "f2", "h3", "r", "r", "r", "f4", "f5"]]
    jobs = [(gen, ops) for gen in (4, 5) for ops in fixed + [sessharness.gen_script(rng) for _ in range(n)]]
    with multiprocessing.get_context("fork").Pool(min(16, os.cpu_count() or 4)) as pool:
        reals = pool.map(_sess_one, jobs, chunksize=8)
    models = ctx.driver(["sess new " + " ".join(ops) for _, ops in jobs]) if ctx.driver_ok else [None] * len(jobs)
    worst = None
    for (gen, ops), (real, err), model in zip(jobs, reals, models):
        if err:
            raise RuntimeError("session harness failed on %r: %s" % ((gen, ops), err))
        ctx.case(("session", gen, " ".join(ops)), nontrivial="shutdown" in ops and any(o[0] == "h" for o in ops))
        ctx.count("session:suspended", sum(1 for r in real if r.endswith(",1")))
        ctx.count("session:releases", ops.count("r"))
        ctx.count("session:initialised", sum(1 for r in real if r.split(",")[2] == "1"))
        if model is not None and model.split() != real and (worst is None or len(ops) < len(worst[1])):
            worst = (gen, ops, real, model.split())
    if worst is not None:
        gen, ops, real, model = worst
        k = next(i for i, (a, b) in enumerate(zip(real, model)) if a != b)
        ctx.tie_broken("correspondence:session", "AirTouch %d: model (Session.step guardNew) and implementation differ at op %d (%s) of %s: model %s, implementation %s "
                       "(phase, requests sent, heartbeat started, handler suspended)" % (gen, k, ops[k], " ".join(ops), model[k], real[k]), scenario=[gen, ops])
    ctx.coverage["rule"] += (
        " Suspended handshake handlers: the real AirTouch 4 / 5 objects over a stub socket; handshake answers processed to the end or held up in an "
        "application callback (the frame is delivered by a task of its own), shutdown(), init(), releases in any order (six fixed histories "
        "and %d generated ones per generation, a quarter of them arbitrary op sequences); after every op the handshake phase, the number of "
        "requests sent, whether the heartbeat was started and whether a handler was left suspended are compared with Model/Session.lean "
        "(driver command `sess new`), about which Props/C15Session.lean proves that a later init() behaves as on a fresh object." % n)


# ------------------------------------------------------------------------------------------------ API level
def judge_api(o):
    """the clauses of the statement, on what was observed after shutdown() returned"""
    bad = []
    if o.get("moment") and o["moment"][0] == "callback" and not o.get("moment_not_reached") and o.get("inner_shutdown") != "returned":
        bad.append(("shutdown-in-callback", "shutdown() requested from inside the application's '%s' callback: %s" % (
            o.get("callback"), "never returned" if o.get("inner_shutdown") == "pending" else "raised %s" % o.get("inner_shutdown"))))
    if o.get("shutdown_raised"):
        bad.append(("shutdown-raises", "shutdown() raised %s" % o["shutdown_raised"]))
    if o.get("idle", 8000) < 1000:
        # a new session a second later: the scenario's own later events are still pending as timers of the harness - tasks are judged, timers are not
        left = o.get("tasks_alive") or o.get("tasks_at_return")
        if left:
            chain = all(("_message_received" in t) or t in ("_call",) or ".update_" in t or "_process_" in t or "Env.callback" in t or "on_ac" in t or "on_zone" in t for t in left)
            # the one history listed in known_findings.txt: shutdown() from outside while an application callback of a status frame is
            # still running - the task that delivers that frame to the subscribers outlives shutdown()
            bad.append(("leak-notification-in-flight" if (chain and o.get("slow_callbacks")) else "leak",
                        "still scheduled when shutdown() returned: tasks %s" % (left,)))
    elif o.get("tasks_alive") or o.get("timers"):
        bad.append(("leak", "still scheduled after shutdown() returned and 1000 s passed: tasks %s, %d timers" % (o.get("tasks_alive"), o.get("timers", 0))))
    if o.get("after_events"):
        bad.append(("activity", "network activity after shutdown() returned: %s" % (o["after_events"][:4],)))
    if o.get("after_connected_notifications"):
        bad.append(("notify", "connected notification after shutdown() returned"))
    if o.get("open_conns"):
        bad.append(("open-connection", "connections still open: %s" % o["open_conns"]))
    if o.get("send_after") != "NotOpenError":
        bad.append(("send", "sending after shutdown: %s (must raise the not-open error)" % o.get("send_after")))
    if o.get("initialised_after"):
        bad.append(("initialised", "the object reports initialised after shutdown() returned"))
    if "reinit_result" in o and o.get("fresh_handshake"):
        # a console that takes 1.5 s per answer: init() may give up waiting after 5 s (False), the handshake goes on in the background -
        # what the new session transmits and what the object shows afterwards are a fresh object's
        fh = [tuple(k) for k in o["fresh_handshake"]]
        got = [tuple(k) for k in o.get("reinit_requests", [])][:len(fh)]
        if got != fh:
            bad.append(("reinit-handshake", "the new session's first requests are %s, a fresh object's are %s" % (got, fh)))
        elif o.get("reinit_view_late") != o.get("fresh_view"):
            bad.append(("reinit-model", "the model shown 312 s after a later init() differs from a fresh object's after the same time"))
    elif "reinit_result" in o:
        if o["reinit_result"] is not True:
            bad.append(("reinit", "a later init() returned %s" % (o["reinit_result"],)))
        elif o.get("reinit_view") != o.get("baseline_view") and not (o.get("idle", 8000) < 1000 and o.get("later_scripted")):
            bad.append(("reinit-model", "the model rebuilt by a later init() differs from a fresh object's"))
        elif o.get("reinit_heartbeats", 0) < 2:
            # the handshake itself asks for the console version once; a heartbeat is a further request
            bad.append(("reinit-heartbeat", "no heartbeat request within 312 s after a later init() (version requests seen: %d, one belongs to the handshake)" % o.get("reinit_heartbeats", 0)))
        stale = [k for k in o.get("reinit_requests", []) if k in ((0x2A, None), (0x2C, None), (0xC0, 0x20), (0xC0, 0x22))]
        if o.get("idle", 8000) < 1000 and o.get("later_scripted"):
            stale = []               # the scenario itself calls / changes the console after the new session began: not the old session's backlog
        if stale or (o.get("reinit_requests") and o["reinit_requests"][0] != (0x1F, 0x30)):
            bad.append(("reinit-stale-frames", "the new session transmitted %s first (a fresh object's first frame is the console version request); control frames of the "
                        "earlier session among them: %d" % (o["reinit_requests"][:4], len(stale))))
        if o.get("gen") == 4 and o.get("reinit_result") is True and o.get("reinit_view") == o.get("baseline_view") and o.get("reinit_group_requests", 0) < 2:
            bad.append(("reinit-poll", "AirTouch 4: no group status request within 312 s of console silence after a later init() (group status requests seen: %d, one belongs to "
                        "the handshake) - a fresh object polls after 300 s" % o.get("reinit_group_requests", 0)))
        if o.get("second_shutdown_raised"):
            bad.append(("reinit-shutdown", "the shutdown() after the later init() raised %s" % o["second_shutdown_raised"]))
        if o.get("idle", 8000) < 1000:
            o = dict(o, timers_2=0)
        if o.get("tasks_alive_2") or o.get("timers_2") or o.get("open_conns_2"):
            bad.append(("reinit-leak", "left after the second shutdown(): tasks %s, %s timers, connections %s" % (o.get("tasks_alive_2"), o.get("timers_2"), o.get("open_conns_2"))))
    return bad


def _settled(sc):
    """the console a later init() meets: the scenario's console after all its scripted changes, with no faults"""
    if not sc.get("ac_state"):
        return fullstack.SCENARIOS["plain"]
    acs = [dict(a) for a in sc["ac_state"]]
    text = dict(sc.get("err_text", {}))
    for (_, ac, code, t) in sorted(sc.get("changes", [])):
        for a in acs:
            if a["id"] == ac:
                a["err"] = code
        text[ac] = t
    return dict(inst=sc["inst"], horizon=120, ac_state=acs, err_text=text)


def _api_one(job):
    gen, name, moment, reinit, base_view = job[:5]
    idle = job[5] if len(job) > 5 else 8000
    extra = dict(job[6]) if len(job) > 6 else {}
    fresh = (extra.pop("_fresh_handshake", None), extra.pop("_fresh_view", None))
    try:
        o = fullstack.run(gen, dict(fullstack.SCENARIOS[name], **extra), tuple(moment), reinit, idle=idle)
        o["slow_callbacks"] = bool(extra.get("callback_delay"))
        o["extra"] = {k: (list(v) if isinstance(v, tuple) else v) for k, v in extra.items()}
        if fresh[0] is not None:
            o["fresh_handshake"], o["fresh_view"] = fresh
        sc_ = fullstack.SCENARIOS[name]
        o["later_scripted"] = any(t >= o.get("t_shutdown", 0) for t, _ in sc_.get("calls", [])) or any(c[0] >= o.get("t_shutdown", 0) for c in sc_.get("changes", []))
    except Exception as e:  # noqa: BLE001
        return job, None, "%s: %s" % (type(e).__name__, e)
    o["baseline_view"] = base_view
    return job, o, None


def api_level(ctx, thorough):
    kmax = 12 if thorough else 6
    jobs = []
    for gen in (4, 5):
        for name, sc in fullstack.SCENARIOS.items():
            base = fullstack.run(gen, sc)
            ctx.count("api:baseline:%s:init=%s" % (name, base["init_result"]))
            n = base["baseline_events"]
            ref_view = fullstack.run(gen, _settled(sc))["view"]
            for j in range(0, n):
                for k in range(0, kmax + 1):
                    if not thorough and n > 40 and (j * 31 + k * 7 + ctx.seed) % 3:
                        continue
                    jobs.append((gen, name, ("event", j, k), (j + k + ctx.seed) % 3 == 0, ref_view))
            for j in range(len(base.get("baseline_callbacks", []))):
                # shutdown requested by the application from inside its j-th callback (connection, AC, zone or system subscriber)
                for k in (0, 1, 2, 3):
                    jobs.append((gen, name, ("callback", j, k), (j + k) % 2 == 0, ref_view))
            if name == "callbacks":
                # application callbacks of status frames that take four seconds: shutdown() from outside while one is running, a new session a second later
                for t in (62, 70, 77, 152):
                    for k in (0, 1):
                        jobs.append((gen, name, ("tick", t, k), True, ref_view, 10, dict(callback_delay=30, callback_delay_kinds=("ac", "zone"))))
                # the application subscribes as soon as the objects are listed (during the handshake), its callbacks take four seconds, the
                # console takes 1.5 s per answer: shutdown() while a handshake status frame is being processed, a new session a second later
                # that is still in an earlier handshake step when the old callback returns
                # (callbacks of 4 s: the old handler wakes while the new handshake is in an earlier step; of 6 .. 7 s: while it is in the SAME step
                # again; of 11 s: after it)
                for cd in (30, 48, 52, 56, 90):
                    early = dict(callback_delay=cd, callback_delay_kinds=("ac", "zone"), subscribe_early=True, answer_delay=12, changes=[], pushes=[], faults=[], calls=[],
                                 horizon=2600)
                    b2 = fullstack.run(gen, dict(sc, **early))
                    keys = [q[2] for q in b2["requests"]]
                    beats = [i for i, q in enumerate(keys) if q == (0x1F, 0x30)]
                    # what a fresh object transmits up to its first heartbeat, and what it shows 2500 ticks later
                    early = dict(early, _fresh_handshake=keys[:beats[1] + 1] if len(beats) > 1 else keys, _fresh_view=b2["view"])
                    for (t, which) in [c for c in b2.get("baseline_callbacks", []) if c[1].split(":")[0] in ("ac", "zone")][:3]:
                        for k in (1, 9):
                            jobs.append((gen, name, ("tick", t + k, 0), True, ref_view, 10, early))
            if name == "plain":
                # a command is in flight on a stalled link (its write accepted by the transport, the caller waiting in drain()) when
                # shutdown() is called; a new session a second later: nothing of the old session is transmitted in it
                # (the stalled link either lets the close through, or its far end answers the close with a reset: the waiting command's
                # write then fails AFTER shutdown() has begun)
                for kind in ("block", "blockreset"):
                    for k in (0, 1, 3):
                        jobs.append((gen, name, ("tick", 64, k), True, ref_view, 10, dict(faults=[(60, kind)], calls=[(62, "power"), (63, "zone")])))
            if sc.get("calls") and sc.get("faults"):
                # commands are waiting for a connection when shutdown() is called, and the application starts a new session a second later
                # (well inside the commands' 30 s lifetime): nothing of the old session may be transmitted in the new one
                t_calls = [t for t, _ in sc["calls"]]
                for t in sorted(set([max(t_calls) + 1, max(t_calls) + 8])):        # (after the scenario's last call: what follows is the old session's backlog only)
                    for k in (0, 1, 3):
                        jobs.append((gen, name, ("tick", t, k), True, ref_view, 10))
            horizon = sc.get("horizon", 200)
            ticks_ = sorted(set([1, 2, 15, 16, 17, 39, 40, 41, 42] + [t for t in (2399, 2400, 2401, 2639, 2640, 2641, 4800, 5040, 5041) if t < horizon + 40]
                                + [ctx.rng.randrange(1, horizon) for _ in range(20 if thorough else 6)]))
            for t in ticks_:
                for k in (0, 1, 2, 3) if not thorough else range(0, 8):
                    jobs.append((gen, name, ("tick", t, k), (t + k) % 2 == 0, ref_view))
    with multiprocessing.get_context("fork").Pool(min(16, os.cpu_count() or 4)) as pool:
        results = pool.map(_api_one, jobs, chunksize=16)
    worst = {}
    for job, o, err in results:
        gen, name, moment, reinit = job[:4]
        if err:
            raise RuntimeError("full-stack harness failed on %r: %s" % ((gen, name, moment), err))
        ctx.case(("api", gen, name, tuple(moment), reinit))
        ctx.count("api:%s:state_at_shutdown=%s" % (name, o.get("state_before")))
        if o.get("moment_not_reached"):
            ctx.count("api:moment-not-reached")
        for kind, what in judge_api(o):
            key = "C15:api:%d:%s" % (gen, kind) if kind != "leak-notification-in-flight" else "C15:api:leak-notification-in-flight"
            if key not in worst:
                worst[key] = (gen, name, moment, reinit, what, o)
    for key, (gen, name, moment, reinit, what, o) in worst.items():
        ctx.violation(key, "AirTouch %d, console scenario '%s', shutdown() issued %s (API state %s): %s" % (
            gen, name, "%d loop passes after network event %d" % (moment[2], moment[1]) if moment[0] == "event" else
            "%d loop passes into application callback number %d" % (moment[2], moment[1]) if moment[0] == "callback" else "%d loop passes after tick %d" % (moment[2], moment[1]),
            o.get("state_before"), what), kind="history", level="api", gen=gen, scenario=name, moment=list(moment), reinit=reinit,
            idle=o.get("idle", 8000), extra=o.get("extra") or {}, fresh=[o.get("fresh_handshake"), o.get("fresh_view")],
            implementation_output={k: v for k, v in o.items() if k not in ("reinit_view", "baseline_view")}, spec_verdict=what)
    ctx.coverage["rule"] += (
        " API level: the real AirTouch4 / AirTouch5 object over the real socket and the in-memory transport against a scripted console "
        "(scenarios: %s); shutdown() issued k = 0..%d loop passes after EVERY network event of the run (connect attempt, connection, each "
        "transport write), after selected instants (retry delays, the 5 s init deadline, heartbeat and timeout instants) and from INSIDE every application callback of the run (connection, AC, zone subscribers), then 1000 s idle, "
        "census of tasks / timers / transports / network activity / notifications, a send (must raise not-open), and in a third of the runs a "
        "later init() whose model must equal a fresh object's, which must send heartbeats again and shut down cleanly." % (", ".join(fullstack.SCENARIOS), kmax))


def search(ctx):
    if ctx.tier != "thorough":
        run(ctx, deep=True)


def replay(ctx, data):
    if data.get("level") == "api":
        extra = dict(data.get("extra") or {})
        if "callback_delay_kinds" in extra:
            extra["callback_delay_kinds"] = tuple(extra["callback_delay_kinds"])
        o = fullstack.run(data["gen"], dict(fullstack.SCENARIOS[data["scenario"]], **extra), tuple(data["moment"]), data.get("reinit", False), idle=data.get("idle", 8000))
        o["slow_callbacks"] = bool(extra.get("callback_delay"))
        sc_ = fullstack.SCENARIOS[data["scenario"]]
        o["later_scripted"] = any(t >= o.get("t_shutdown", 0) for t, _ in sc_.get("calls", [])) or any(c[0] >= o.get("t_shutdown", 0) for c in sc_.get("changes", []))
        if (data.get("fresh") or [None])[0] is not None:
            o["fresh_handshake"], o["fresh_view"] = data["fresh"]
        o["baseline_view"] = fullstack.run(data["gen"], _settled(fullstack.SCENARIOS[data["scenario"]]))["view"]
        bad = judge_api(o)
        print({k: v for k, v in o.items() if "view" not in k})
        print(bad)
        return 1 if bad else 0
    return sockcheck.replay(ctx, data)
