"""C15 — shutdown is final, leak-free and reversible (socket level; API level added by the API harness)."""
import sockcheck

LEAN_MODULES = ["PyAirtouch.Props.C15"]
LEVEL = "proof"
MONITORS = ["c15", "c07a", "c07b", "c07c"]


def _nontrivial(script, r):
    return any(op[0] == "close" for op in script) and len(script) > 4


def run(ctx, deep=False):
    thorough = deep or ctx.tier == "thorough"
    n = 20000 if thorough else 2000
    ctx.coverage["rule"] = (
        "scripts of the outage / steady / fault families cut at a random point by close(), optionally followed by a send, then "
        "1000 s of virtual idle time with the network accepting; at the end the loop's pending timers, unfinished tasks and the "
        "fake network's open transports are counted. Monitor: after close() has returned no connection attempt, no transport "
        "opened, no frame written, no connected notification, sends rejected with not-open; census all zero; in 40% of the scripts the socket is opened again afterwards and must reconnect, deliver a probe frame and transmit a probe command. Every run replayed "
        "against the Lean model.")
    for gen in (4, 5):
        items = sockcheck.gen_scripts(ctx.seed * 23 + gen, [("close", n)])
        good = sockcheck.judge_family(ctx, "C15", items, MONITORS, gen=gen, nontrivial=_nontrivial)
        sockcheck.validate_against_model(ctx, good, "AT%d" % gen)
    ctx.assumptions += ["cancellation semantics of asyncio tasks are trusted"]


def search(ctx):
    if ctx.tier != "thorough":
        run(ctx, deep=True)


def replay(ctx, data):
    return sockcheck.replay(ctx, data)
