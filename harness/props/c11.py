"""C11 — invalid requests are refused locally; valid ones are shaped as documented.

Independent judgement (both generations): real AirTouch4 / AirTouch5 objects (apiharness, stub socket) initialised by a
scripted console whose frames are built byte by byte from the vendor layouts.  Everything the judge knows about the
installation it takes from the op lines themselves: the ability / status frames *the console sent* are read with the
vendor-document reader (`oracle spec`), the timer status frames with the layout documented in consolesim.  Every public
control call is then judged from the property statement and the public docstrings (`pyairtouch/api.py`):

  refused   <=>  power control / mode / fan speed not advertised, zone power state not supported, damper outside 0..100,
                 set-point for a zone without sensor:   `RESULT ValueError` and no `SEND`
  accepted  ==>  `RESULT OK`, exactly one `SEND`, encodable by the real send path (c04.frame_of); the payload read by the
                 vendor reader means: requested attribute = requested value (set-point: a nearest multiple of the model's
                 resolution, clamped into the limits in force for air-conditioners), everything else keep
  timers    ==>  one timer control frame whose record for this AC has the requested timer as requested and the OTHER
                 timer as in the last timer status frame the console sent

Tie: apicheck.compare (real object vs Lean API model) on apigen<g> `sc_calls` scripts and on this module's scripts.
"""
import fractions
import importlib
import logging
import math
import multiprocessing
import os
import random
import re
import warnings

import apicheck
import apiharness
import consolesim
import core
from props import c04

LEAN_MODULES = ["PyAirtouch.Props.C11At5"]
if os.path.exists(os.path.join(core.LEAN_DIR, "PyAirtouch", "Props", "C11At4.lean")):
    LEAN_MODULES.append("PyAirtouch.Props.C11At4")
LEVEL = "proof"

AC_POWER = ["TOGGLE", "TURN_OFF", "TURN_ON", "SET_TO_AWAY", "SET_TO_SLEEP"]
AC_MODES = ["AUTO", "HEAT", "DRY", "FAN", "COOL"]
AC_FANS = ["AUTO", "QUIET", "LOW", "MEDIUM", "HIGH", "POWERFUL", "TURBO", "INTELLIGENT_AUTO"]
ZONE_POWER = ["OFF", "ON", "TURBO"]
TIMERS = ["OFF_TIMER", "ON_TIMER"]
MODE_CODES = [0, 1, 2, 3, 4, 8, 9]          # AC status mode field: auto heat dry fan cool auto-heat auto-cool (vendor tables)
DISABLED = (0x80, 0)
EPS = fractions.Fraction(1, 10 ** 9)
# arguments outside the documented domain (zone set-points the wire format cannot express, durations of a day or more) are
# accepted by the implementation and then produce no frame at all (encoder error) or a frame that means something else.
# The property text does not define them; set to True to have "accepted => exactly one frame on the wire" enforced there too.
STRICT_UNSPECIFIED = False


# ====================================================================================================== console frames
# (vendor layouts, as in consolesim; timer status: reverse-engineered layout documented in consolesim / the guide)
def ac_status_op(gen, acs):
    if gen == 4:
        body = b""
        t = ((235 + 500) << 5) & 0xFFFF
        for a in acs:
            body += bytes([(a.get("power", 1) << 6) | a["id"], (a.get("mode", 4) << 4) | a.get("fan", 0), (a.get("timer", 0) << 6) | (a.get("setpoint", 22) & 0x3F),
                           0, t >> 8, t & 0xFF, 0, 0])
        return consolesim.msg(0x2D, body)
    return consolesim.cs(0x23, 10, [[(a.get("power", 1) << 4) | a["id"], (a.get("mode", 4) << 4) | a.get("fan", 0),
                                     a.get("setpoint", 22) * 10 - 100, a.get("timer", 0), (735 >> 8), 735 & 255, 0, 0, 0, 0] for a in acs])


def zone_status_op(gen, zones):
    if gen == 4:
        body = b""
        for z in sorted(zones):
            d = zones[z]
            # a sensor may be present while its reading is (momentarily) not available: legal, and the zone still takes set-points
            t = (((225 + 500) << 5) & 0xFFE0) if d.get("sensor") and not d.get("temp_na") else 0xFF00
            body += bytes([(d.get("power", 1) << 6) | z, (d.get("ctrl", 0) << 7) | d.get("damper", 50),
                           (0x40 if d.get("turbo") else 0) | (d.get("setpoint", 22) & 0x3F), 0x80 if d.get("sensor") else 0, t >> 8, t & 0xFF])
        return consolesim.msg(0x2B, body)
    recs = []
    for z in sorted(zones):
        d = zones[z]
        recs.append([(d.get("power", 1) << 6) | z, (d.get("ctrl", 0) << 7) | d.get("damper", 50), d.get("setpoint", 22) * 10 - 100,
                     0x80 if d.get("sensor") else 0, (725 >> 8) if d.get("sensor") and not d.get("temp_na") else 0xFF,
                     (725 & 255) if d.get("sensor") and not d.get("temp_na") else 0xFF, 0, 0])
    return consolesim.cs(0x21, 8, recs)


def timer_status_op(gen, recs):
    """recs: {ac number: ((on byte0, on byte1), (off byte0, off byte1))}; byte0 = 0x80 (disabled) | hour, byte1 = minute"""
    if gen == 4:
        body = b""
        for i in range(4):                                   # always four records, AC number = position
            on, off = recs.get(i, (DISABLED, DISABLED))
            body += bytes([on[0], on[1], off[0], off[1], 0, 0, 0, 0])
        return consolesim.msg(0x37, body)
    return consolesim.cs(0x33, 9, [[a, on[0], on[1], off[0], off[1], 0, 0, 0, 0] for a, (on, off) in sorted(recs.items())])


# ====================================================================================================== running scripts
VIEW_AC = re.compile(r"AC\(ac_id=(\d+),name=[^,]*,supported_power_controls=\[([^\]]*)\],supported_modes=\[([^\]]*)\],"
                     r"supported_fan_speeds=\[([^\]]*)\],power_state=(\w+),.*?min_target_temperature=([^,]*),max_target_temperature=([^,]*),")
VIEW_ZONE = re.compile(r"Zone\(zone_id=(\d+),name=[^,]*,supported_power_states=\[([^\]]*)\],power_state=(\w+),control_method=(\w+),has_temp_sensor=(\w+)")


def _lst(s):
    return [x for x in s.split(",") if x]


def parse_view(line):
    acs, zones = {}, {}
    for m in VIEW_AC.finditer(line):
        acs[int(m.group(1))] = {"power_controls": _lst(m.group(2)), "modes": _lst(m.group(3)), "fans": _lst(m.group(4)),
                                "power_state": m.group(5), "min": m.group(6), "max": m.group(7)}
    for m in VIEW_ZONE.finditer(line):
        zones[int(m.group(1))] = {"power_states": _lst(m.group(2))}
    return {"acs": acs, "zones": zones}


def run_real(job):
    """(gen, ops) -> per op a compact record:
         call:  (result word or None, [frame, ...])   frame = "<type hex>:<payload hex>" | "!<exception name>"
         view:  parsed view;   other ops: list of the remarkable output lines (UNDECODABLE, RESULT init ..)"""
    gen, ops = job
    api = apiharness.Api(gen)
    with warnings.catch_warnings():
        warnings.simplefilter("ignore")
        out = api.run(ops)
    res = []
    for i, op in enumerate(ops):
        if op.startswith("call"):
            r = [x.split(" ", 1)[1] for x in out[i] if x.startswith("RESULT")]
            frames = []
            for (m, _pol) in api.op_sent[i]:
                try:
                    hb, mb, _crc, _hdr = c04.frame_of(api, m)
                    ty = hb[5] if gen == 4 else hb[17]                 # message type byte of the (inner) frame header
                    frames.append("%02x:%s" % (ty, mb.hex()))
                except Exception as e:  # noqa: BLE001   (unencodable: the socket logs it, nothing reaches the wire)
                    frames.append("!" + type(e).__name__)
            n_send = sum(1 for x in out[i] if x.startswith("SEND"))
            if n_send != len(frames):
                frames.append("!send-lines-%d" % n_send)
            res.append((r[0] if len(r) == 1 else (None if not r else "+".join(r)), frames))
        elif op == "view":
            v = [x for x in out[i] if x.startswith("VIEW")]
            res.append(parse_view(v[0]) if v else {"acs": {}, "zones": {}})
        else:
            res.append([x for x in out[i] if x.startswith(("UNDECODABLE", "RESULT", "SUBSCRIBER-EXC"))])
    return res


def run_isolated(jobs):
    """every script in a fresh forked process (module-level state of the package cannot leak between scripts and the
    outcome does not depend on scheduling)"""
    if not jobs:
        return []
    import pyairtouch.at4.api  # noqa: F401  (loaded before forking: children start with the modules imported, state untouched)
    import pyairtouch.at5.api  # noqa: F401
    import pyairtouch.comms.heartbeat  # noqa: F401
    n = min(16, os.cpu_count() or 1, len(jobs))
    with multiprocessing.get_context("fork").Pool(n, maxtasksperchild=1) as p:
        return list(p.imap(run_real, jobs, 1))


# ====================================================================================================== vendor readings
def spec_requests(gen, ops, res):
    """the oracle lines needed to judge this script"""
    need = []
    for op, r in zip(ops, res):
        w = op.split()
        if w[0] == "msg" and len(w) >= 3:
            k = console_kind(gen, w)
            if k and k != "timer":
                need.append("spec %d %s %s" % (gen, k, w[2]))
        elif w[0] == "call":
            for f in r[1]:
                k = frame_kind(gen, f)
                if k in ("2A", "2C", "C020", "C022"):
                    need.append("spec %d %s %s" % (gen, k, f.split(":")[1]))
    return need


def console_kind(gen, w):
    mid, p = int(w[1], 16), w[2]
    if mid == 0x1F:
        return "FF11" if p.startswith("ff11") else None
    if gen == 4:
        return {0x2D: "2D", 0x2B: "2B", 0x37: "timer"}.get(mid)
    if mid == 0xC0:
        return {"23": "C023", "21": "C021", "33": "timer"}.get(p[:2])
    return None


def frame_kind(gen, f):
    if f.startswith("!"):
        return None
    ty, p = f.split(":")
    if ty == "1f":
        return "quick" if p.startswith("ff20" if gen == 4 else "ff49") else "1f?"
    if gen == 4:
        return {"2a": "2A", "2c": "2C", "36": "timerctl"}.get(ty, ty)
    if ty == "c0":
        return {"20": "C020", "22": "C022", "32": "timerctl"}.get(p[:2], "c0" + p[:2])
    return ty


def records(answer):
    out = []
    for rec in answer.split(" | "):
        body = rec.partition(" changes=")[0]
        out.append(dict(kv.split("=", 1) for kv in body.split(";") if "=" in kv))
    return out


class Console:
    """what the console has told the client so far (vendor reading of the frames in the script)"""

    def __init__(self, gen):
        self.gen = gen
        self.abil = {}        # ac -> {"modes": set, "fans": set, "cool": (lo, hi), "heat": (lo, hi)}   (tenths)
        self.acst = {}        # ac -> {"mode": .., "power": ..}
        self.zone = {}        # zone -> {"sensor": bool, "turbo": bool}
        self.timer = {}       # ac -> ((on0, on1), (off0, off1))
        self.view = None
        self.view_fresh = False
        self.bad = None
        self.listings = set()

    def hears(self, w, spec):
        gen = self.gen
        k = console_kind(gen, w)
        if k is None:
            return
        self.view_fresh = False
        if k == "timer":
            b = bytes.fromhex(w[2])
            if gen == 4:
                for i in range(len(b) // 8):
                    self.timer[i] = ((b[8 * i], b[8 * i + 1]), (b[8 * i + 2], b[8 * i + 3]))
            else:
                nr, rl, rc = b[2] << 8 | b[3], b[4] << 8 | b[5], b[6] << 8 | b[7]
                for i in range(rc):
                    r = b[8 + nr + i * rl: 8 + nr + (i + 1) * rl]
                    self.timer[r[0]] = ((r[1], r[2]), (r[3], r[4]))
            return
        ans = spec.get("spec %d %s %s" % (gen, k, w[2]))
        if ans is None or ans in ("none", "bad-op") or ans.startswith("error"):
            self.bad = "the vendor reader does not read the console's own %s frame %s (%s)" % (k, w[2], ans)
            return
        for r in records(ans):
            if k == "FF11":
                modes = {m for m in AC_MODES if r.get("mode_" + m.lower()) == "true"}
                fans = {f for f in AC_FANS if r.get("fan_" + f.lower()) == "true"}
                if gen == 4:
                    cool = heat = (int(r["min_setpoint"]), int(r["max_setpoint"]))
                else:
                    cool = (int(r["min_cool_setpoint"]), int(r["max_cool_setpoint"]))
                    heat = (int(r["min_heat_setpoint"]), int(r["max_heat_setpoint"]))
                self.abil[int(r["ac"])] = {"modes": modes, "fans": fans, "cool": cool, "heat": heat}
            elif k in ("2D", "C023"):
                self.acst[int(r["ac"])] = {"mode": r["mode"], "power": r["power"]}
            elif k == "2B":
                self.zone[int(r["group"])] = {"sensor": r["has_sensor"] == "true", "turbo": r["turbo_support"] == "true"}
            elif k == "C021":
                self.zone[int(r["zone"])] = {"sensor": r["has_sensor"] == "true", "turbo": None}


def tenths_of(s):
    """view text t170 -> 170"""
    return int(s[1:]) if s.startswith("t") and s[1:].lstrip("-").isdigit() else None


def nearest(x, per_degree):
    """the multiples of 1/per_degree degC nearest to the double x, in tenths (both neighbours at a tie)"""
    q = fractions.Fraction(x) * per_degree
    f = math.floor(q)
    d = q - f
    unit = 10 // per_degree
    if abs(d * 2 - 1) <= EPS:                # an exact tie, or so close to one that ordinary float arithmetic cannot tell
        return [f * unit, (f + 1) * unit]
    return [f * unit] if d * 2 < 1 else [(f + 1) * unit]


def clamp(v, lo, hi):
    return min(max(v, lo), hi)


# ====================================================================================================== the judge
class Finding:
    def __init__(self, key, what, index, got, want):
        self.key, self.what, self.index, self.got, self.want = key, what, index, got, want


def judge(ctx, gen, ops, res, spec, stats=None):
    """-> list of Finding.  `stats` (a dict) receives distribution counts; ctx.case is called per judged call when given."""
    con = Console(gen)
    out = []
    seen_controls = None
    zone_states5 = None

    def cnt(k, n=1):
        if stats is not None:
            stats[k] = stats.get(k, 0) + n

    for i, (op, r) in enumerate(zip(ops, res)):
        w = op.split()
        if w[0] == "msg":
            if any(x.startswith("UNDECODABLE") for x in r):
                con.bad = "the client could not decode the console frame %s" % op
            con.hears(w, spec)
            continue
        if w[0] == "view":
            con.view, con.view_fresh = r, True
            # ---- listings (the advertised sets the calls are judged against are partly taken from them)
            for a, v in r["acs"].items():
                pc = v["power_controls"]
                con.listings.add(tuple(pc))
                if seen_controls is None:
                    seen_controls = pc
                elif set(pc) != set(seen_controls):
                    out.append(Finding("C11:%d:ac.supported_power_controls" % gen,
                                       "AirTouch %d: AC %d lists the power controls %s, another AC of the same generation %s" % (gen, a, pc, seen_controls),
                                       i, str(pc), str(seen_controls)))
            for z, v in r["zones"].items():
                ps = set(v["power_states"])
                if gen == 4:
                    if z in con.zone:
                        want = {"OFF", "ON"} | ({"TURBO"} if con.zone[z]["turbo"] else set())
                        if ps != want:
                            out.append(Finding("C11:4:zone.supported_power_states",
                                               "AirTouch 4: zone %d lists the power states %s; the console reported turbo support = %s, so %s"
                                               % (z, v["power_states"], con.zone[z]["turbo"], sorted(want)), i, str(v["power_states"]), str(sorted(want))))
                else:
                    if zone_states5 is None:
                        zone_states5 = ps
                    if not {"OFF", "ON"} <= ps or ps != zone_states5:
                        out.append(Finding("C11:5:zone.supported_power_states",
                                           "AirTouch 5: zone %d lists the power states %s (other zones: %s; OFF and ON are always supported)"
                                           % (z, v["power_states"], sorted(zone_states5)), i, str(v["power_states"]), str(sorted(zone_states5))))
            continue
        if w[0] != "call" or w[1] not in ("ac", "zone"):
            continue
        if con.bad:
            cnt("%d:skipped:console-script" % gen)
            continue
        target, ident, method, args = w[1], int(w[2]), w[3], w[4:]
        result, frames = r
        f = judge_call(gen, con, target, ident, method, args, result, frames, spec, cnt)
        if ctx is not None and f is not False:
            ctx.case((gen, target, method, tuple(args), sig(con, target, ident)))
        if f:
            key, what, got, want = f
            out.append(Finding("C11:%d:%s.%s:%s" % (gen, target, method, key),
                               "AirTouch %d, %s: %s" % (gen, op, what), i, got, want))
    return out, con


def sig(con, target, ident):
    if target == "ac":
        a = con.abil.get(ident, {})
        return (tuple(sorted(a.get("modes", ()))), tuple(sorted(a.get("fans", ()))), a.get("cool"), a.get("heat"),
                tuple(sorted((con.acst.get(ident) or {}).items())), con.timer.get(ident))
    return tuple(sorted((con.zone.get(ident) or {}).items()))


def judge_call(gen, con, target, ident, method, args, result, frames, spec, cnt):
    """-> None (fine) | False (not judged) | (key suffix, what, got, want)"""
    view = con.view or {"acs": {}, "zones": {}}
    name = "%d:%s.%s" % (gen, target, method)
    unspecified = False
    why_invalid = None
    if target == "ac":
        if ident not in con.abil or ident not in view["acs"]:
            cnt(name + ":not-judged:unknown-entity")
            return False
        ab = con.abil[ident]
        if method == "set_power":
            if args[0] not in view["acs"][ident]["power_controls"]:
                why_invalid = "power control %s is not among the supported power controls %s" % (args[0], view["acs"][ident]["power_controls"])
        elif method == "set_mode":
            if args[0] not in ab["modes"]:
                why_invalid = "the console's ability record advertises the modes %s" % sorted(ab["modes"])
        elif method == "set_fan_speed":
            if args[0] not in ab["fans"]:
                why_invalid = "the console's ability record advertises the fan speeds %s" % sorted(ab["fans"])
        elif method == "set_quick_timer" and args[1] == "duration":
            unspecified = not 0 <= int(args[2]) < 86400
    else:
        if ident not in con.zone or ident not in view["zones"]:
            cnt(name + ":not-judged:unknown-entity")
            return False
        zs = con.zone[ident]
        if method == "set_power":
            if gen == 4:
                if args[0] == "TURBO" and not zs["turbo"]:
                    why_invalid = "the console reported that the zone does not support turbo"
            elif args[0] not in view["zones"][ident]["power_states"]:
                why_invalid = "%s is not among the zone's supported power states %s" % (args[0], view["zones"][ident]["power_states"])
        elif method == "set_target_temperature":
            if not zs["sensor"]:
                why_invalid = "the console reported that the zone has no sensor"
            else:
                cand = nearest(float(args[0]), 1 if gen == 4 else 10)
                lo, hi = (0, 630) if gen == 4 else (100, 350)          # what the documented set-point fields can express
                unspecified = not all(lo <= c <= hi for c in cand)
        elif method == "set_damper_percentage":
            if not 0 <= int(args[0]) <= 100:
                why_invalid = "%s is outside 0..100" % args[0]
    got = "RESULT %s, frames %s" % (result, frames)
    # ---------------------------------------------------------------- refusal
    if why_invalid:
        cnt(name + ":invalid")
        if result != "ValueError" or frames:
            cnt(name + ":invalid:NOT-REFUSED")
            return ("not-refused", "an invalid request (%s) must raise ValueError and transmit nothing; observed %s" % (why_invalid, got),
                    got, "RESULT ValueError, no frame")
        return None
    if unspecified:
        # outside what the documents define (zone set-points the wire format cannot express, durations of a day or more):
        # only the shape "refused and silent, or accepted with at most one message" is required
        cnt(name + ":unspecified-argument:%s" % ("refused" if result == "ValueError" else
                                                  "unencodable" if any(f.startswith("!") for f in frames) else "sent"))
        if (result == "ValueError" and frames) or len(frames) > 1 or result not in ("OK", "ValueError"):
            return ("frames", "observed %s" % got, got, "ValueError and nothing, or OK and one message")
        if result == "OK" and target == "zone" and method == "set_target_temperature" and (len(frames) != 1 or frames[0].startswith("!")):
            # "each accepted call transmits exactly one frame": a zone set-point the wire format cannot express is accepted (no ValueError) and
            # then nothing reaches the wire - reported under its own key (listed in known_findings.txt)
            return ("zone-setpoint-accepted-unencodable", "zone.set_target_temperature(%s) returned normally and transmitted nothing (the encoder failed inside the socket's "
                    "send path); observed %s" % (args[0], got), got, "ValueError and nothing, or exactly one frame")
        if STRICT_UNSPECIFIED and result == "OK" and (len(frames) != 1 or frames[0].startswith("!")):
            return ("frames", "an accepted call transmits exactly one frame; observed %s" % got, got, "exactly one frame")
        return None
    # ---------------------------------------------------------------- acceptance
    cnt(name + ":valid")
    if result != "OK":
        cnt(name + ":valid:REFUSED")
        return ("refused", "a valid request must be accepted; observed %s" % got, got, "RESULT OK, one frame")
    if len(frames) != 1 or frames[0].startswith("!"):
        cnt(name + ":valid:NOT-ONE-FRAME")
        return ("frames", "an accepted call transmits exactly one frame; observed %s" % got, got, "exactly one frame")
    fr = frames[0]
    kind = frame_kind(gen, fr)
    payload = bytes.fromhex(fr.split(":")[1])
    # ---------------------------------------------------------------- quick timers
    if method in ("set_quick_timer", "clear_quick_timer"):
        tt = args[0]
        if method == "set_quick_timer" and args[1] == "duration":
            if kind != "quick":
                return ("content", "a duration is sent as the quick-timer message; observed frame %s" % fr, fr, "quick timer message")
            body = payload[2:]
            want = [ident, 0 if tt == "OFF_TIMER" else 1]
            mins = int(args[2]) // 60
            if len(body) != 4 or list(body[:2]) != want or body[2] * 60 + body[3] != mins or body[3] >= 60:
                return ("content", "quick-timer message %s does not say AC %d, %s, %d h %d min (the duration truncated to minutes)"
                        % (body.hex(), ident, tt, mins // 60, mins % 60), fr, "%02x%02x%02x%02x" % (want[0], want[1], mins // 60, mins % 60))
            cnt(name + ":duration-ok")
            return None
        if kind != "timerctl":
            return ("content", "expected an AC timer control message; observed frame %s" % fr, fr, "timer control message")
        if gen == 4:
            recs = {k: payload[8 * k: 8 * k + 8] for k in range(len(payload) // 8)}
            others_zero = all(not any(recs[k]) for k in recs if k != ident)
            cnt("4:timer-control:records-of-other-ACs-%s" % ("all-zero" if others_zero else "filled"))
        else:
            nr, rl, rc = payload[2] << 8 | payload[3], payload[4] << 8 | payload[5], payload[6] << 8 | payload[7]
            recs = {}
            for k in range(rc):
                rec = payload[8 + nr + k * rl: 8 + nr + (k + 1) * rl]
                if len(rec) < 5 or rec[0] in recs:
                    return ("content", "malformed timer control message %s" % fr, fr, "one record per AC")
                recs[rec[0]] = rec[1:]
            cnt("5:timer-control:records-%d" % rc)
        rec = recs.get(ident)
        if rec is None or len(rec) < 4:
            return ("content", "the timer control message %s has no record for AC %d" % (fr, ident), fr, "a record for AC %d" % ident)
        sent = {"ON_TIMER": (rec[0], rec[1]), "OFF_TIMER": (rec[2], rec[3])}
        other = "OFF_TIMER" if tt == "ON_TIMER" else "ON_TIMER"
        if ident not in con.timer:
            cnt(name + ":not-judged:no-timer-report")
            return False
        rep = dict(zip(("ON_TIMER", "OFF_TIMER"), con.timer[ident]))[other]
        so = sent[other]
        same = (so[0] & 0x80 and rep[0] & 0x80) or so == rep
        cnt(name + ":other-timer-reported-%s" % ("disabled" if rep[0] & 0x80 else "enabled"))
        if not same:
            return ("other-timer", "the console last reported the %s of AC %d as %s; the timer control message sets it to %s (frame %s)"
                    % (other, ident, show_timer(rep), show_timer(so), fr), show_timer(so), show_timer(rep))
        mine = sent[tt]
        if method == "clear_quick_timer":
            if not mine[0] & 0x80:
                return ("timer", "clearing the %s sent it as %s (frame %s)" % (tt, show_timer(mine), fr), show_timer(mine), "disabled")
        else:
            want = (int(args[2]), int(args[3]))
            if mine != want:
                return ("timer", "setting the %s to %02d:%02d sent it as %s (frame %s)" % (tt, want[0], want[1], show_timer(mine), fr),
                        show_timer(mine), show_timer(want))
        return None
    # ---------------------------------------------------------------- control messages (vendor reading)
    if target == "ac":
        ab = con.abil[ident]
        st = con.acst.get(ident, {})
        lim = None
        if method == "set_target_temperature":
            mode = st.get("mode")
            if gen == 4 or mode == "cool":
                lim = ab["cool"]
            elif mode == "heat":
                lim = ab["heat"]
            elif mode == "auto":
                # plain AUTO: the unit may heat or cool - every set-point admissible for either must pass unclamped (the union)
                lim = (min(ab["cool"][0], ab["heat"][0]), max(ab["cool"][1], ab["heat"][1]))
            else:
                # which limits apply in the other modes is not documented: the object's own current [min, max] is taken,
                # provided each is one of the advertised limits
                v = view["acs"][ident]
                lo, hi = tenths_of(v["min"]), tenths_of(v["max"])
                if not con.view_fresh:
                    cnt(name + ":not-judged:stale-view")
                    return False
                if lo not in (ab["cool"][0], ab["heat"][0]) or hi not in (ab["cool"][1], ab["heat"][1]):
                    return ("limits", "in mode %s the object reports the limits [%s, %s]; the console advertised cool %s heat %s (tenths)"
                            % (mode, v["min"], v["max"], ab["cool"], ab["heat"]), "%s..%s" % (v["min"], v["max"]), "advertised limits")
                lim = (lo, hi)
            if lim[0] > lim[1]:
                cnt(name + ":not-judged:inverted-limits")
                return False
        kindw, exp, ch = c04.intended(gen, "ac", method, args, {"id": ident, "min": (lim or (0, 0))[0] / 10, "max": (lim or (0, 0))[1] / 10})
        alt = {k: {v} for k, v in exp.items()}
        ch_min, ch_max = set(ch), set(ch)
        if method == "set_target_temperature":
            cand = nearest(float(args[0]), 1 if gen == 4 else 10)
            alt["setpoint"] = {"set(%d)" % clamp(c, lim[0], lim[1]) for c in cand}
            if len(cand) == 2:
                cnt(name + ":tie-or-near-tie")
            x10 = float(args[0]) * 10
            cnt(name + (":below-min" if x10 < lim[0] else ":above-max" if x10 > lim[1] else ":inside"))
        if method == "set_mode" and args[1] == "1" and st.get("power") != "off":
            # "optionally powers on the air-conditioner if it is currently turned off": nothing to do when it is not off
            alt["power"] = {"on", "keep"}
            ch_min = ch_min - {"power"}
    else:
        kindw, exp, ch = c04.intended(gen, "zone", method, args, {"id": ident})
        alt = {k: {v} for k, v in exp.items()}
        ch_min, ch_max = set(ch), set(ch)
        if method == "set_target_temperature":
            cand = nearest(float(args[0]), 1 if gen == 4 else 10)
            if len(cand) == 2:
                cnt(name + ":tie-or-near-tie")
            if gen == 4:
                alt["setting"] = {"set_target_setpoint(%d)" % c for c in cand}
            else:
                alt["value"] = {"setpoint(%d)" % c for c in cand}
    if kind != kindw:
        return ("content", "expected a %s message; observed frame %s" % (kindw, fr), fr, kindw)
    ans = spec.get("spec %d %s %s" % (gen, kind, fr.split(":")[1]))
    if ans is None or ans in ("none", "bad-op") or ans.startswith("error"):
        return ("content", "the vendor reader does not accept the payload %s as a %s message (%s)" % (fr, kind, ans), fr, kind)
    if " | " in ans:
        return ("content", "the message carries more than one record: %s" % ans[:300], ans[:300], "one record")
    gotd, gch = c04.parse(ans)
    for k, allowed in alt.items():
        if gotd.get(k) not in allowed:
            return ("content", "%s: the frame says %s, the call means %s (vendor reading: %s)" % (k, gotd.get(k), " or ".join(sorted(allowed)), ans[:300]),
                    "%s=%s" % (k, gotd.get(k)), "%s=%s" % (k, "|".join(sorted(allowed))))
    if not ch_min <= gch <= ch_max:
        return ("content", "attributes changed by the frame %s, intended %s (vendor reading: %s)" % (sorted(gch), sorted(ch_max), ans[:300]),
                str(sorted(gch)), str(sorted(ch_max)))
    if method == "set_target_temperature":
        cand = nearest(float(args[0]), 1 if gen == 4 else 10)
        if len(cand) == 2 and (target != "ac" or (lim[0] <= cand[0] and cand[1] <= lim[1])):
            v = gotd.get("setpoint") if target == "ac" else gotd.get("setting" if gen == 4 else "value")
            n = int(re.sub(r"[^0-9-]", "", v)) // (10 if gen == 4 else 1)
            cnt(name + ":tie-or-near-tie-resolved-to-%s" % ("even" if n % 2 == 0 else "odd"))
    return None


def show_timer(t):
    return "disabled(%02x %02x)" % (t[0], t[1]) if t[0] & 0x80 else "%02d:%02d" % (t[0], t[1])


# ====================================================================================================== scripts
def all_timer_states():
    return [DISABLED, (0x80 | 23, 59), (0x80 | 5, 7)] + [(h, m) for h in range(24) for m in range(60)]


def temps_for(gen, lims, grid):
    """grid values plus ties and the neighbourhood of every limit (degC floats)"""
    t = list(grid)
    for lim in lims:
        for d in (-1.0, -0.55, -0.5, -0.45, -0.25, -0.15, -0.1, -0.06, -0.05, -0.04, 0.0, 0.04, 0.05, 0.06, 0.1, 0.15, 0.25, 0.45, 0.5, 0.55, 1.0):
            t.append(round(lim + d, 2))
    return t


TIES = [x + 0.5 for x in range(9, 37)] + [21.05, 21.15, 21.25, 21.35, 21.45, 21.55, 21.65, 21.75, 21.85, 21.95, 22.25, 22.75,
                                          -0.5, -1.5, 0.5, 1.5, 2.5, 0.25, 0.75, 99.5, 100.5, -12.25, -12.35, 123.45]


def call(target, ident, method, *args):
    return "call %s %d %s %s" % (target, ident, method, " ".join(str(a) for a in args))


class Plan:
    """sizes of the phases of one script"""

    def __init__(self, enum=True, temps=0, grid=(), zone_temps=(), dampers="few", flip=False, timer_rounds=0, mode_rounds=0):
        self.enum, self.temps, self.grid, self.zone_temps = enum, temps, grid, zone_temps
        self.dampers, self.flip, self.timer_rounds, self.mode_rounds = dampers, flip, timer_rounds, mode_rounds


def build_install(gen, pairs, k, rng):
    n = len(pairs)
    ids = list(range(n)) if gen == 4 else sorted(rng.sample(range(16), n))
    per = max(1, 16 // n)
    acs = []
    for j, (m, f) in enumerate(pairs):
        lo, hi = rng.randint(14, 20), rng.randint(26, 32)
        lo_h = rng.choice([x for x in range(14, 21) if x != lo])
        hi_h = rng.choice([x for x in range(26, 33) if x != hi])
        acs.append(dict(id=ids[j], modes=m, fans=f, lo=lo, hi=hi, lo_heat=lo_h, hi_heat=hi_h, zones=list(range(j * per, (j + 1) * per)),
                        mode=rng.choice([0, 1, 2, 3, 4]), power=rng.choice([0, 1]), fan=rng.choice([0, 1, 2, 3, 4]), setpoint=rng.randint(18, 26)))
    zones = {}
    for z in range(per * n):
        zones[z] = dict(sensor=((z + k) % 2 == 0), temp_na=((z + k) % 6 == 4), turbo=(((z >> 1) + k) % 2 == 0), ctrl=rng.choice([0, 1]), power=rng.choice([0, 1, 3]),
                        damper=rng.choice([0, 35, 50, 100]), setpoint=rng.randint(18, 26))
    return dict(acs=acs, zones=zones)


def build_script(gen, inst, plan, rng, counter):
    """counter: a mutable [int] shared by the scripts of one run: drives the systematic timer-state / time-of-day sweep"""
    ops = consolesim.handshake(gen, inst)
    acs, zones = inst["acs"], inst["zones"]
    if zones and any(d.get("temp_na") for d in zones.values()):
        ops.append(zone_status_op(gen, zones))       # some sensors report "reading not available"
    ops.append("view")
    if plan.enum:
        for a in acs:
            for p in AC_POWER:
                ops.append(call("ac", a["id"], "set_power", p))
            for m in AC_MODES:
                for po in (0, 1):
                    ops.append(call("ac", a["id"], "set_mode", m, po))
            for f in AC_FANS:
                ops.append(call("ac", a["id"], "set_fan_speed", f))
        for z in sorted(zones):
            for p in ZONE_POWER:
                ops.append(call("zone", z, "set_power", p))
    for rnd in range(plan.mode_rounds):
        for j, a in enumerate(acs):
            a["mode"] = MODE_CODES[(counter[0] + j + rnd) % len(MODE_CODES)]
            # every power state the console can report (AirTouch 5 also: off-away 2, on-away 3, sleep 5)
            a["power"] = ([0, 1] if gen == 4 else [0, 1, 2, 3, 5])[(counter[0] + j + rnd) % (2 if gen == 4 else 5)]
        counter[0] += 1
        ops.append(ac_status_op(gen, acs))
        ops.append("view")
        for j, a in enumerate(acs):
            lims = [a["lo"], a["hi"]] + ([a["lo_heat"], a["hi_heat"]] if gen == 5 else [])
            ts = temps_for(gen, lims, plan.grid[j::len(acs)] if plan.temps == 0 else (plan.grid if j < plan.temps else plan.grid[j::29]))
            if rnd == 0:
                ts += TIES
            for t in ts:
                ops.append(call("ac", a["id"], "set_target_temperature", repr(t)))
            for m in AC_MODES[(rnd + j) % 5:][:2]:
                ops.append(call("ac", a["id"], "set_mode", m, 1))
    first = True
    for z in sorted(zones):
        if plan.zone_temps:
            zt = plan.zone_temps if first or (zones[z]["sensor"] and z < 4) else plan.zone_temps[z::16]
            for t in zt:
                ops.append(call("zone", z, "set_target_temperature", repr(t)))
        if plan.dampers == "all" or (plan.dampers == "first" and z < 2):
            ds = range(-5, 106)
        elif plan.dampers == "none":
            ds = ()
        else:
            ds = (-5, -1, 0, 1, 50, 99, 100, 101, 105)
        for d in ds:
            ops.append(call("zone", z, "set_damper_percentage", d))
        first = False
    if plan.flip:
        for z in zones:
            zones[z]["sensor"] = not zones[z]["sensor"]
            if z % 4 < 2:
                zones[z]["turbo"] = not zones[z]["turbo"]
        ops.append(zone_status_op(gen, zones))
        ops.append("view")
        for z in sorted(zones):
            for p in ZONE_POWER:
                ops.append(call("zone", z, "set_power", p))
            ops.append(call("zone", z, "set_target_temperature", "21.5"))
            ops.append(call("zone", z, "set_damper_percentage", 40))
    states = all_timer_states()
    for rnd in range(plan.timer_rounds):
        recs = {}
        for a in acs:
            c = counter[0]
            counter[0] += 1
            special = [(0, 0), (0, 5), (5, 0), (1, 9), (9, 1), (77, 77)]
            if c < len(special):
                on, off = states[special[c][0]], states[special[c][1]]
            else:
                on, off = states[(c * 37) % len(states)], states[(c * 101 + c // len(states)) % len(states)]
                if c % 5 == 0:
                    on = states[(c // 5) % 3]                 # the three disabled variants
                if c % 7 == 0:
                    off = states[(c // 7) % 3]
            recs[a["id"]] = (on, off)
        send = dict(recs)
        if gen == 5 and len(acs) > 1 and rnd % 3 == 2:
            # an unsolicited status that covers only some ACs: the others keep what was reported before
            send = {a: v for n, (a, v) in enumerate(sorted(recs.items())) if n % 2 == 0}
        ops.append(timer_status_op(gen, send))
        if rnd % 2 == 1:
            # the AC status frames' own "a timer is set" flag goes up and down in between (a timer ran out, another is still pending):
            # what a later timer call retains is what the last TIMER status reported, whatever that flag does
            ops.append(ac_status_op(gen, [dict(a, timer=1) for a in acs]))
            ops.append(ac_status_op(gen, [dict(a, timer=0) for a in acs]))
        for a in acs:
            if a["id"] not in send:
                continue
            c = counter[0]
            counter[0] += 1
            h, m = c % 24, (c * 7) % 60
            ops.append(call("ac", a["id"], "set_quick_timer", "ON_TIMER", "time", h, m))
            ops.append(call("ac", a["id"], "set_quick_timer", "OFF_TIMER", "time", (h + 11) % 24, (m + 31) % 60))
            ops.append(call("ac", a["id"], "clear_quick_timer", "ON_TIMER"))
            ops.append(call("ac", a["id"], "clear_quick_timer", "OFF_TIMER"))
            if c % 4 == 0:
                secs = [0, 59, 60, 61, 3599, 3600, 5430, 86340, 86399, 86400, 90061][(c // 4) % 11] if c % 8 == 0 else (c * 61) % 86400
                ops.append(call("ac", a["id"], "set_quick_timer", TIMERS[(c // 4) % 2], "duration", secs))
    return ops


def grid(lo, hi, step):
    out = []
    n = int(round((hi - lo) / step))
    for i in range(n + 1):
        out.append(round(lo + i * step, 2))
    return out


def make_scripts(gen, rng, thorough):
    """-> list of (label, ops)"""
    n_ac = 4 if gen == 4 else 8
    fan_masks = list(range(128 if gen == 4 else 256))
    mode_masks = list(range(32))
    rng.shuffle(fan_masks)
    rng.shuffle(mode_masks)
    counter = [rng.randrange(0, 1443)]
    scripts = []
    coarse = grid(-10.0, 60.0, 0.35)
    zt_q = [t for t in grid(0.0, 40.0, 0.7)] + [21.05, 21.15, 21.25, 21.5, 22.5, 21.75, 9.9, 9.95, 10.0, 10.04, 35.0, 35.04, 35.05, 35.5, 63.0, 63.5, 64,
                                                -0.4, -0.5, -3, 99.99, 300]
    # ---- the full-featured scripts: every mode mask and every fan mask at least once
    pairs = [(mode_masks[i % 32], fan_masks[i]) for i in range(len(fan_masks))]
    for k in range(len(pairs) // n_ac):
        plan = Plan(enum=True, temps=0, grid=coarse, zone_temps=zt_q if k % 4 == 0 else zt_q[k % 7::7], dampers="first" if k % 8 == 0 else "few",
                    flip=True, timer_rounds=6, mode_rounds=1 if k % 4 else 2)
        inst = build_install(gen, pairs[k * n_ac:(k + 1) * n_ac], k, rng)
        scripts.append(("full", build_script(gen, inst, plan, rng, counter)))
    # a single-AC and a two-AC installation with extreme limits
    for k, (n, lo, hi) in enumerate([(1, 10, 35), (2, 16, 16)]):
        inst = build_install(gen, [(0x1F, 0x7F if gen == 4 else 0xFF)] * n, k, rng)
        for a in inst["acs"]:
            a.update(lo=lo, hi=hi, lo_heat=lo + (1 if k else 0), hi_heat=hi + (1 if k else 0))
        scripts.append(("limits", build_script(gen, inst, Plan(enum=True, grid=coarse, zone_temps=zt_q, dampers="all", flip=True, timer_rounds=3, mode_rounds=7),
                                               rng, counter)))
    if thorough:
        # ---- every (mode mask, fan mask) pair
        allpairs = [(m, f) for m in range(32) for f in range(len(fan_masks))]
        rng.shuffle(allpairs)
        for k in range(len(allpairs) // n_ac):
            inst = build_install(gen, allpairs[k * n_ac:(k + 1) * n_ac], k, rng)
            scripts.append(("enum", build_script(gen, inst, Plan(enum=True, dampers="none"), rng, counter)))
        # ---- fine temperature grid in every mode
        fine = grid(-10.0, 60.0, 0.05)
        zfine = grid(-2.0, 66.0, 0.05)
        for k in range(28):
            inst = build_install(gen, [(rng.randrange(32), rng.randrange(len(fan_masks))) for _ in range(2)], k, rng)
            scripts.append(("temps", build_script(gen, inst, Plan(enum=False, temps=2, grid=fine, zone_temps=zfine if k < 4 else (), dampers="all" if k < 2 else "none",
                                                                  mode_rounds=1), rng, counter)))
        # ---- timer states: every state of one timer against a sweep of the other
        rounds = 60
        for k in range((1443 * 40) // (rounds * n_ac) + 1):
            inst = build_install(gen, [(0x1F, 0x0F)] * n_ac, k, rng)
            scripts.append(("timers", build_script(gen, inst, Plan(enum=False, dampers="none", timer_rounds=rounds), rng, counter)))
    return scripts


# ====================================================================================================== evaluation
SPEC = {}


def evaluate(ctx, jobs, stats=None, count_cases=False):
    """jobs: [(gen, ops)] -> [(findings, console)]"""
    results = run_isolated(jobs)
    need = []
    for (gen, ops), res in zip(jobs, results):
        need += [x for x in spec_requests(gen, ops, res) if x not in SPEC]
    need = sorted(set(need))
    if need:
        for q, a in zip(need, ctx.oracle(need)):
            SPEC[q] = a
    out = []
    for (gen, ops), res in zip(jobs, results):
        out.append(judge(ctx if count_cases else None, gen, ops, res, SPEC, stats))
    return out


def fails(ctx, gen, ops, key):
    (fs, _con), = evaluate(ctx, [(gen, ops)])
    return any(f.key == key and f.index == len(ops) - 1 for f in fs)


def shrink(ctx, gen, ops, index, key, base):
    """a shorter script that still shows the finding `key` at its last op"""
    full = ops[:index + 1]
    last = full[-1]
    head, mid = full[:base], full[base:-1]
    tail = [last] if last == "view" else ["view", last]
    cands = [head + tail,
             head + [o for o in mid if o.startswith("msg")] + tail,
             head + [o for o in mid if o.startswith(("msg", "view"))] + [last]]
    for c in cands:
        if fails(ctx, gen, c, key):
            return c
    if not fails(ctx, gen, full, key):
        return full
    # chunked deletion with a small budget
    cur, budget, n = mid, 40, 2
    while budget > 0 and len(cur) >= 2 and n <= len(cur):
        size = max(1, len(cur) // n)
        for s in range(0, len(cur), size):
            budget -= 1
            trial = cur[:s] + cur[s + size:]
            if fails(ctx, gen, head + trial + [last], key):
                cur, n = trial, max(n - 1, 2)
                break
            if budget <= 0:
                break
        else:
            n *= 2
    return head + cur + [last]


def handshake_len(ops):
    for i, o in enumerate(ops):
        if o == "view":
            return i
    return 0


def run(ctx, deep=False):
    thorough = deep or ctx.tier == "thorough"
    logging.disable(logging.CRITICAL)          # the package logs every refused / odd console frame of the generated scripts
    try:
        mine = judgement(ctx, thorough)
        tie(ctx, thorough, mine)
        full_stack(ctx, thorough)
    finally:
        logging.disable(logging.NOTSET)


def judgement(ctx, thorough):
    ctx.coverage["rule"] = (
        "real AirTouch4 / AirTouch5 objects initialised by a scripted console (frames built byte by byte from the vendor layouts); "
        "installations of 4 (AT4) / 8 (AT5) air-conditioners whose ability records sweep all 2^5 mode masks and all 2^7 / 2^8 fan-speed masks "
        "(thorough: every (mode mask, fan mask) pair), distinct cool / heat limits, zones with / without sensor and (AT4) with / without turbo support, "
        "flipped by a later zone status; AC status frames putting the units into every mode code (auto heat dry fan cool auto-heat auto-cool) and on/off; "
        "timer status frames sweeping (on, off) states over disabled / disabled-with-residue / every hh:mm (quick: a stride through the 1443 states; thorough: "
        "every state of one timer against 40 of the other), full and (AT5) partial reports.  Calls: every AC power control, mode x power_on, fan speed, every zone "
        "power state, AC set-points -10..60 degC (quick 0.35 grid, thorough 0.05 grid) plus x.5 / x.x5 / x.25 ties and the neighbourhood of every limit, zone "
        "set-points incl. values the wire format cannot express, dampers -5..105, set / clear of each quick timer at all hours and minutes, durations.  "
        "Judged per call against the vendor reading of the console's own frames: refusal (ValueError, nothing sent) exactly for unadvertised / unsupported / "
        "out-of-range / sensor-less requests; otherwise RESULT OK, exactly one message, encodable by the real send path, whose payload read by the vendor reader "
        "sets exactly the requested attribute to the requested value (set-point = nearest multiple of 1 / 0.1 degC, either neighbour within 1e-9 of a midpoint, clamped "
        "into the limits of the current mode for ACs), everything else keep; timer control frames compared byte-wise with the last timer status frame sent.  "
        "distinct = distinct (generation, call, arguments, console state relevant to the entity).  Tie: apicheck.compare on apigen sc_calls scripts and on "
        "a sample of these scripts for every generation the Lean API model answers for")
    rng = ctx.rng
    stats = {}
    worst = {}
    mine = {}
    for gen in (4, 5):
        scripts = make_scripts(gen, random.Random(rng.getrandbits(64)), thorough)
        for label, _ in scripts:
            ctx.count("%d:scripts:%s" % (gen, label))
        batch = 256
        masks_m, masks_f, masks_p, listings = set(), set(), set(), set()
        for s in range(0, len(scripts), batch):
            part = scripts[s:s + batch]
            jobs = [(gen, ops) for _, ops in part]
            for (label, ops), (fs, con) in zip(part, evaluate(ctx, jobs, stats, count_cases=True)):
                if con.bad:
                    ctx.tie_broken("C11:console-script", "AirTouch %d: %s" % (gen, con.bad), gen=gen, ops=ops[:handshake_len(ops) + 1])
                listings |= con.listings
                for a in con.abil.values():
                    m, f = tuple(sorted(a["modes"])), tuple(sorted(a["fans"]))
                    masks_m.add(m)
                    masks_f.add(f)
                    masks_p.add((m, f))
                for f in fs:
                    if f.key not in worst or f.index < worst[f.key][2].index:
                        worst[f.key] = (gen, ops, f)
        ctx.count("%d:power-control-listings:%s" % (gen, " / ".join(",".join(x) for x in sorted(listings))))
        ctx.count("%d:distinct-mode-sets-advertised" % gen, len(masks_m))
        ctx.count("%d:distinct-fan-sets-advertised" % gen, len(masks_f))
        ctx.count("%d:distinct-(mode,fan)-set-pairs" % gen, len(masks_p))
        if scripts:
            ops = scripts[0][1]
            ctx.sample({"gen": gen, "script_ops": len(ops), "ability_frame": ops[4][:120], "calls": [o for o in ops if o.startswith("call")][:3]})
        mine[gen] = scripts
    for k, v in sorted(stats.items()):
        ctx.count(k, v)
    for n, (key, (gen, ops, f)) in enumerate(sorted(worst.items())):
        small = ops[:f.index + 1]
        if n < 12:
            small = shrink(ctx, gen, ops, f.index, key, handshake_len(ops))
        ctx.violation(key, f.what + "  [script of %d ops, finding at the last one]" % len(small), kind="history", gen=gen, ops=small,
                      implementation_output=f.got, spec_verdict=f.want)
    ctx.assumptions[:] = [a for a in ctx.assumptions if not a.startswith("[C11] ")] + ["[C11] " + a for a in [
        "which power controls a generation offers at all (AirTouch 4: no away / sleep) and whether AirTouch 5 zones support TURBO is taken from the object's "
        "own supported_power_controls / supported_power_states (required to be the same for every AC / zone of the generation and to contain OFF, ON); "
        "AirTouch 4 zone TURBO support is judged against the turbo-support bit the console reported",
        "limits in force: AirTouch 4 the single advertised pair; AirTouch 5 the cool pair in COOL, the heat pair in HEAT, the union of both in plain AUTO; in the other modes (not documented) "
        "the object's own current [min, max] provided each is one of the advertised limits; limits with min <= max only",
        "rounding: any nearest multiple of the resolution of the double passed in; either neighbour when the double lies within 1e-9 of the midpoint (x.5 for AT4, x.x5 for AT5), so half-even and half-up are both accepted - the rule actually observed is in the distribution and the exact rule is fixed by the tie to the Lean model",
        "zone set-points the documented fields cannot express (AT4 outside 0..63, AT5 outside 10.0..35.0 after rounding) and durations outside [0, 24 h) are outside "
        "the documented domain: only 'refused and silent, or accepted with at most one message' is required (observed outcomes are in the distribution; several are unencodable, i.e. nothing reaches the wire)",
        "quick-timer (0x1F 0xFF20 / 0xFF49) and AC timer control (0x36 / 0xC0 0x32) layouts are not in the vendor documents: record layout as in consolesim "
        "(0x80 | hour, minute; on timer first), quick-timer body = AC, type (0 off, 1 on), hours, minutes; a duration is judged as 'the requested duration truncated to "
        "minutes'; the other timer counts as unchanged when it is disabled in both or byte-identical; reported timer states with hour > 23 or minute > 59 are not generated",
        "AirTouch 4 timer control frames always carry four positional records; the records of the other ACs are not judged (distribution: 4:timer-control:records-of-other-ACs-*)",
        "a time of day with seconds cannot be passed through the harness op language (hour and minute only); set_mode(power_on=True) on a unit that is not off may send power on or keep",
    ]]
    return mine


def generated_call_scripts(mod, rng, n):
    """n scripts of the call-heavy scenario of an apigen module, for either of the two shapes in use:
    apigen5: SCENARIOS (functions of a random.Random, one named sc_calls) + gen_script(rng, i);
    apigen4: class Gen(seed) with a method script_calls() / scripts(seed, n) -> [(family, ops)]"""
    out = []
    if hasattr(mod, "gen_script"):
        names = [f.__name__ for f in getattr(mod, "SCENARIOS", [])]
        idx = names.index("sc_calls") if "sc_calls" in names else None
        for _ in range(n):
            out.append(mod.gen_script(rng, idx)[1])
    elif hasattr(mod, "Gen") and hasattr(mod.Gen, "script_calls"):
        g = mod.Gen(rng.getrandbits(48))
        for _ in range(n):
            out.append(g.script_calls())
    elif hasattr(mod, "scripts"):
        all_ = mod.scripts(rng.getrandbits(48), 6 * n)
        out = [ops for fam, ops in all_ if "call" in fam][:n] or [ops for _, ops in all_][:n]
    return out


def tie(ctx, thorough, mine):
    if not ctx.driver_ok:
        ctx.count("tie:skipped-no-driver")
        return
    rng = random.Random(ctx.rng.getrandbits(64))
    for g in (4, 5):
        try:
            mod = importlib.import_module("apigen%d" % g)
        except ImportError:
            mod = None
        if ctx.driver(["api-new %d" % g])[0].strip() != "ok":
            ctx.count("tie:%d:no-model" % g)
            continue
        scripts = generated_call_scripts(mod, rng, 300 if thorough else 40) if mod is not None else []
        ctx.count("tie:%d:generated-call-scripts" % g, len(scripts))
        pool = [ops for label, ops in mine.get(g, [])]
        k = min(len(pool), 48 if thorough else 6)
        scripts += rng.sample(pool, k)
        for ops in scripts:
            real, mm = apicheck.compare(ctx, g, ops, label="C11")
            ctx.traces_validated += 1
            ctx.count("tie:%d:scripts" % g)
            ctx.count("tie:%d:ops" % g, len(ops))
            if mm:
                ctx.tie_broken("correspondence:api%d" % g, "op %d `%s`: implementation %s, model %s" % (mm["index"], mm["op"], mm["implementation"], mm["model"]),
                               gen=g, ops=ops[:mm["index"] + 1])
                break


def _fs_judge(gen, b):
    """one frame per accepted call, on the wire as the console sees it: a call the application gave up on (timeout) may have put its one
    frame on the wire or not; every other call exactly one; nothing else of the control kinds"""
    keys = {"ac": (0x2C, None) if gen == 4 else (0xC0, 0x22), "zone": (0x2A, None) if gen == 4 else (0xC0, 0x20)}
    kind_of = {"power": "ac", "toggle": "ac", "zone": "zone"}
    for kind, key in keys.items():
        made = [c for c in b["call_log"] if c[2] == "called" and kind_of[c[1]] == kind]
        gave_up = [c for c in b["call_log"] if c[2] == "timed-out" and kind_of[c[1]] == kind]
        seen = [r for r in b["requests"] if r[2] == key]
        if not (len(made) - len(gave_up) <= len(seen) <= len(made)):
            return "%d accepted %s control call(s) (%d of them abandoned by a timeout around the call) put %d %s control frames on the wire (at ticks %s)" % (
                len(made), kind, len(gave_up), len(seen), kind, [r[0] for r in seen])
    return None


def full_stack(ctx, thorough):
    """the real API object over the real socket on a congested link: the application bounds a control call with a timeout that expires
    while the write is held up, then makes further calls.  Each accepted call still puts exactly one frame on the wire."""
    import fullstack
    ctx.coverage["rule"] += (
        "; full stack (real socket, in-memory transport, scripted console): control calls on a congested link, one of them abandoned by a timeout "
        "around the call at every offset into the congestion, followed by further calls - the console counts the control frames it receives")
    worst = None
    for gen in (4, 5):
        for first in ("toggle", "zone", "power"):
            for second in ("zone", "power"):
                for lim in ((1, 5, 30) if thorough else (5,)):
                    for lead in ((0, 1, 3) if thorough else (1,)):
                        for clear in (10, 40):
                            sc = dict(inst=fullstack.INST, horizon=260, faults=[(60, "block"), (60 + clear, "unblock")],
                                      calls=[(60 + lead, ("timeout", first, lim)), (60 + lead + 2, second), (130, first), (131, second)])
                            b = fullstack.run(gen, sc)
                            ctx.case(("full-stack", gen, first, second, lim, lead, clear))
                            if b.get("init_result") is not True:
                                ctx.tie_broken("C11:console-script", "the full-stack console no longer initialises the AirTouch %d object" % gen)
                                continue
                            why = _fs_judge(gen, b)
                            ctx.count("full-stack:%s" % ("ok" if why is None else "differs"))
                            if why and worst is None:
                                worst = (gen, sc, why, b)
    # control calls made from INSIDE application callbacks (connection / AC subscribers of a console that pushes status changes)
    base = fullstack.SCENARIOS["callbacks"]
    for gen in (4, 5):
        n_cb = len(fullstack.run(gen, base).get("baseline_callbacks", []))
        for j in range(n_cb):
            for what in ("toggle", "zone"):
                sc = dict(base, callback_calls={j: what})
                b = fullstack.run(gen, sc)
                ctx.case(("full-stack-callback-call", gen, j, what))
                why = _fs_judge(gen, b)
                if not any(c[1] == what and c[0] != 170 for c in b["call_log"]) and b.get("init_result") is True and j > 0:
                    why = why or "the control call made inside callback %d never started" % j
                ctx.count("full-stack:callback-call:%s" % ("ok" if why is None else "differs"))
                if why and worst is None:
                    worst = (gen, sc, why, b)
    if worst:
        gen, sc, why, b = worst
        ctx.violation("C11:%d:full-stack:frames-per-call" % gen, "AirTouch %d over the real socket, link congested from tick 60 (faults %s), calls %s: %s" % (
            gen, sc["faults"], sc["calls"] + [("in callback %d" % k, v) for k, v in sc.get("callback_calls", {}).items()], why), kind="history", level="full-stack", gen=gen,
            scenario={k: ({str(kk): vv for kk, vv in v.items()} if isinstance(v, dict) else v) for k, v in sc.items() if k not in ("inst", "err_text", "changes", "ac_state")},
            implementation_output=str([r for r in b["requests"] if r[0] >= 60]), spec_verdict=why)


def search(ctx):
    if ctx.tier != "thorough":
        logging.disable(logging.CRITICAL)
        try:
            judgement(ctx, True)
        finally:
            logging.disable(logging.NOTSET)


def replay(ctx, data):
    logging.disable(logging.CRITICAL)
    if data.get("level") == "full-stack":
        import fullstack
        sc = dict(data["scenario"], inst=fullstack.INST)
        if "callback_calls" in sc:
            sc = dict(fullstack.SCENARIOS["callbacks"], callback_calls={int(k): v for k, v in sc["callback_calls"].items()})
        sc["calls"] = [(t, tuple(c) if isinstance(c, list) else c) for t, c in sc["calls"]]
        sc["faults"] = [tuple(f) for f in sc["faults"]]
        b = fullstack.run(data["gen"], sc)
        print("calls   ", b["call_log"])
        print("requests", [r for r in b["requests"] if r[0] >= 60])
        why = _fs_judge(data["gen"], b)
        print(why or "one frame per accepted call")
        return 1 if why else 0
    if "ops" not in data and data.get("all_broken"):
        # a broken tie: the recorded script, real object against the Lean API model
        data = dict(data["all_broken"][0], key=None)
        if "ops" in data and str(data.get("name", "")).startswith("correspondence"):
            ctx.driver_ok = os.path.exists(os.path.join(core.BIN_DIR, "driver"))
            real, mm = apicheck.compare(ctx, data["gen"], data["ops"])
            if mm:
                print("op %d `%s`\n  implementation %s\n  model          %s" % (mm["index"], mm["op"], mm["implementation"], mm["model"]))
                return 1
            print("implementation and model agree on the recorded script (%d ops)" % len(data["ops"]))
    if "ops" not in data:
        print("nothing to replay in", sorted(data))
        return 1
    gen, ops = data["gen"], data["ops"]
    (fs, con), = evaluate(ctx, [(gen, ops)])
    res = run_real((gen, ops))
    for o, r in list(zip(ops, res))[-6:]:
        print(o, "->", r if not isinstance(r, dict) else "(view)")
    if con.bad:
        print("console script:", con.bad)
    hit = [f for f in fs if f.key == data.get("key")] or fs
    for f in hit:
        print("%s at op %d: %s" % (f.key, f.index, f.what))
    if not hit:
        print("no finding: the property holds on this script")
    return 1 if hit else 0
