"""C05 — status frames are interpreted as the vendor protocol defines."""
import contextlib
import io
import random
import re

import codec
import specmap
import codeccheck

LEAN_MODULES = ["PyAirtouch.Props.C054", "PyAirtouch.Props.C055"]
LEVEL = "proof"
STATUS_KEYS = [(4, "2B"), (4, "2D"), (4, "FF11"), (4, "FF12"), (4, "FF10"), (4, "FF30"),
               (5, "C021"), (5, "C023"), (5, "FF11"), (5, "FF13"), (5, "FF10"), (5, "FF30")]


def slug(cls):
    m = re.search(r"\[([^\]]+)\]", cls)
    core = m.group(1) if m else cls.split(" ", 1)[1]
    core = re.sub(r"[^A-Za-z0-9]+", "-", core).strip("-").lower()[:80]
    return cls.split(" ", 1)[0] + ":" + core


def judge_spec(ctx, keys, control=False, thorough=False):
    import spec_try
    spec_try.N = 3000 if thorough else 400
    spec_try.PAIRS = bool(thorough)
    spec_try.SEED = ctx.seed + 1
    tally = spec_try.Tally()
    buf = io.StringIO()
    with contextlib.redirect_stdout(buf):
        for key in keys:
            if control:
                spec_try.run_control(key, tally)
            else:
                rng = random.Random(spec_try.SEED * 1000003 + keys.index(key))
                spec_try.run_status(key, tally, rng)
    for line in buf.getvalue().splitlines():
        if "MISMATCH" in line:
            ctx.notes.append(line.strip()[:300])
    ctx.evaluations += tally.cases
    for i in range(min(tally.cases, 200000)):
        ctx.distinct.add(("spec", control, i))          # spec_try de-duplicates its cases itself
    for (key, name), c in tally.relax.items():
        ctx.count("relaxation:%d/%s:%s" % (key[0], key[1], name), c)
    return tally


def run(ctx, deep=False):
    thorough = deep or ctx.tier == "thorough"
    ctx.coverage["rule"] = (
        "for the 12 status / ability / names / version / error payload kinds of both generations: every byte value at every "
        "position of a record over several base patterns, grammar-generated and random payloads, all record counts 0..16, announced "
        "strides >= the known layout and non-zero normal-data lengths (AT5), both AT4 ability record formats%s; each payload is decoded "
        "by the REAL decoder inside its real wrapper; if it decodes, every field the public type can express is compared with the "
        "reading of the independent vendor-document reader (Spec/At4Read, Spec/At5Read, written without sight of the implementation), "
        "through harness/specmap.py with a short list of named, byte-exact relaxations; an undefined code must be rejected, never "
        "mapped to a defined value. The decoders' Lean models are compared with the implementation on the same payloads (C03 run)."
        % (", every 16-bit value of adjacent byte pairs" if thorough else ""))
    tally = judge_spec(ctx, STATUS_KEYS, thorough=thorough)
    # the documented not-available sentinels of fields whose public type has no absent value decode to ordinary numbers: the statement
    # says they decode to absent values ("never decoded to a different defined value") - each is reported under its own key (listed in
    # known_findings.txt with the exact byte values), so that any other disagreement is still a violation
    for (key, name), c in sorted(tally.relax.items()):
        if name.endswith("_HAS_NO_ABSENT_VALUE"):
            ctx.violation("C05:sentinel:" + name, "%d/%s: %s (%d payloads in this run)" % (key[0], key[1], specmap.RELAXATIONS[name]["why"], c), kind="input",
                          mismatch_class=name, implementation_output="a number", spec_verdict="not available")
    for cls, (count, example) in sorted(tally.classes.items()):
        ctx.violation("C05:" + slug(cls), "vendor reading differs from the implementation's decoding: %s (%d cases), e.g. %s" % (cls, count, example[:500]),
                      kind="input", mismatch_class=cls, example=example, implementation_output=example, spec_verdict=cls)
    # model/implementation correspondence of the status decoders (the theorems are about the model)
    for mod in codec.MODULES:
        if (mod.gen, mod.key) in STATUS_KEYS:
            mod.load()
            codeccheck.run_module(ctx, mod, 1500 if thorough else 150, prop="C05", check_roundtrip=False, pairs=False)
    ctx.sample({"kind": "4/2B", "payload": "40640000ff0041e41a806180",
                "spec": "group=0;power=on;...;temperature=none | group=1;...;target_setpoint=260;temperature=280"})
    ctx.assumptions += ["harness/specmap.py (mapping of implementation objects to the Spec's vocabulary and its RELAXATIONS table) is trusted",
                        "UTF-8 validity and float division are bridged by the differential runs"]


def search(ctx):
    if ctx.tier != "thorough":
        run(ctx, deep=True)


def replay(ctx, data):
    print(data.get("mismatch_class"))
    print(data.get("example"))
    return 1
