"""C06 — checksum is CRC-16/MODBUS; damaged frames are never delivered."""
import itertools

LEAN_MODULES = ["PyAirtouch.Props.C06"]
LEVEL = "proof"


def _hex(b):
    return b.hex() if b else "-"


def _impl():
    from pyairtouch.comms.crc16 import Crc16Modbus
    return Crc16Modbus()


def _compare_calculate(ctx, inputs, tag):
    """impl.calculate vs model (driver) vs spec (oracle) on the given byte strings."""
    calc = _impl()
    lines = ["crc " + _hex(b) for b in inputs]
    spec = ctx.oracle(lines)
    model = ctx.driver(lines) if ctx.driver_ok else [None] * len(lines)
    for b, s, m in zip(inputs, spec, model):
        try:
            got = _hex(calc.calculate(b))
        except Exception as e:  # noqa: BLE001
            got = type(e).__name__
        ctx.case(("calc", b), nontrivial=len(b) > 0)
        if got != s:
            ctx.violation("crc-calculate", "calculate(%s) = %s but CRC-16/MODBUS (high byte first) is %s" % (_hex(b), got, s),
                          input=_hex(b), implementation_output=got, spec_verdict=s, model_output=m)
        if m is not None and m != got:
            ctx.tie_broken("correspondence:crc.calculate", "model %s != implementation %s on %s" % (m, got, _hex(b)),
                           input=_hex(b))
    ctx.count(tag, len(inputs))


def _compare_validate(ctx, n):
    calc = _impl()
    rng = ctx.rng
    cases = []
    for _ in range(n):
        ln = rng.choice([0, 1, 2, 6, 8, 10, 18, 40, 300])
        d = bytes(rng.randrange(256) for _ in range(ln))
        good = calc.calculate(d)
        kind = rng.randrange(6)
        if kind == 0:
            k = good
        elif kind == 1:
            i = rng.randrange(16)
            k = bytes([good[0] ^ ((1 << i) >> 8 & 0xFF), good[1] ^ ((1 << i) & 0xFF)])
        elif kind == 2:
            k = bytes(rng.randrange(256) for _ in range(2))
        elif kind == 3:
            k = bytes(rng.randrange(256) for _ in range(rng.choice([0, 1, 3, 4])))
        elif kind == 4 and ln:
            dd = bytearray(d)
            dd[rng.randrange(ln)] ^= 1 << rng.randrange(8)
            d, k = bytes(dd), good
        else:
            k = bytes(reversed(good))
        cases.append((d, k))
    lines = ["validate %s %s" % (_hex(d), _hex(k)) for d, k in cases]
    model = ctx.driver(lines) if ctx.driver_ok else [None] * len(lines)
    spec = ctx.oracle(["crc " + _hex(d) for d, _ in cases])
    for (d, k), m, s in zip(cases, model, spec):
        try:
            got = "true" if calc.validate(d, k) else "false"
        except ValueError:
            got = "ValueError"
        except Exception as e:  # noqa: BLE001
            got = type(e).__name__
        ctx.case(("val", d, k))
        ctx.count("validate:" + got)
        expect = "ValueError" if len(k) != 2 else ("true" if _hex(k) == s else "false")
        if got != expect:
            ctx.violation("crc-validate", "validate(%s, %s) = %s, the specification says %s" % (_hex(d), _hex(k), got, expect),
                          input=[_hex(d), _hex(k)], implementation_output=got, spec_verdict=expect, model_output=m)
        if m is not None and m != got:
            ctx.tie_broken("correspondence:crc.validate", "model %s != implementation %s on (%s,%s)" % (m, got, _hex(d), _hex(k)))
    ctx.sample({"validate": [_hex(cases[0][0]), _hex(cases[0][1])], "model": model[0]})


def run(ctx, deep=False):
    thorough = deep or ctx.tier == "thorough"
    ctx.coverage["rule"] = (
        "calculate(): every 0..2-byte string exhaustively (this exercises every (low register byte, data byte) pair "
        "of the table step), 3-byte strings (%s), seeded random strings up to 600 bytes; validate(): seeded cases with "
        "correct / single-bit-damaged / random / wrong-length / byte-swapped check values. distinct = distinct inputs; "
        "non-trivial = non-empty data" % ("all 16.7 M" if thorough else "100 000 seeded"))
    one_two = [b""] + [bytes([a]) for a in range(256)] + [bytes([a, b]) for a in range(256) for b in range(256)]
    _compare_calculate(ctx, one_two, "calculate:len0-2")
    ctx.sample({"calculate": "80b0012b0000", "expected": "f52f (vendor example)"})
    _compare_calculate(ctx, [bytes.fromhex("80b0012b0000"), bytes.fromhex("80b0012a000401020000"), b"123456789"], "calculate:vendor")
    rng = ctx.rng
    if thorough:
        for a in range(256):
            chunk = [bytes([a, b, c]) for b in range(256) for c in range(256)]
            _compare_calculate(ctx, chunk, "calculate:len3")
        ctx.exhaustive = True
    else:
        _compare_calculate(ctx, [bytes(rng.randrange(256) for _ in range(3)) for _ in range(100000)], "calculate:len3")
    rnd = [bytes(rng.randrange(256) for _ in range(rng.choice([4, 6, 8, 10, 14, 22, 60, 300, 600]))) for _ in range(20000 if thorough else 3000)]
    _compare_calculate(ctx, rnd, "calculate:random")
    ctx.sample({"calculate": _hex(rnd[0])})
    _compare_validate(ctx, 20000 if thorough else 3000)
    ctx.assumptions += [
        "bytes objects are modelled as lists of naturals < 256",
    ]


def search(ctx):
    if ctx.tier != "thorough":
        run(ctx, deep=True)


def replay(ctx, data):
    calc = _impl()
    inp = data.get("input")
    if isinstance(inp, list):
        d, k = [bytes.fromhex(x) if x != "-" else b"" for x in inp]
        try:
            got = "true" if calc.validate(d, k) else "false"
        except ValueError:
            got = "ValueError"
        print("validate ->", got, "; specification:", data.get("spec_verdict"))
        return 1 if got != data.get("spec_verdict") else 0
    b = bytes.fromhex(inp) if inp != "-" else b""
    got = _hex(calc.calculate(b))
    print("calculate(%s) -> %s ; specification: %s" % (inp, got, data.get("spec_verdict")))
    return 1 if got != data.get("spec_verdict") else 0
