"""C06 — checksum is CRC-16/MODBUS; damaged frames are never delivered."""
import itertools

LEAN_MODULES = ["PyAirtouch.Props.C06", "PyAirtouch.Props.C06Frame"]
LEVEL = "proof"


def _hex(b):
    return b.hex() if b else "-"


def _impl():
    from pyairtouch.comms.crc16 import Crc16Modbus
    return Crc16Modbus()


def _compare_calculate(ctx, inputs, tag):
    """impl.calculate vs model (driver) vs spec (oracle) on the given byte strings."""
    calc = _impl()
    lines = ["crc " + _hex(b) for b in inputs]
    spec = ctx.oracle(lines)
    model = ctx.driver(lines) if ctx.driver_ok else [None] * len(lines)
    for b, s, m in zip(inputs, spec, model):
        try:
            got = _hex(calc.calculate(b))
        except Exception as e:  # noqa: BLE001
            got = type(e).__name__
        ctx.case(("calc", b), nontrivial=len(b) > 0)
        if got != s:
            ctx.violation("crc-calculate", "calculate(%s) = %s but CRC-16/MODBUS (high byte first) is %s" % (_hex(b), got, s),
                          input=_hex(b), implementation_output=got, spec_verdict=s, model_output=m)
        if m is not None and m != got:
            ctx.tie_broken("correspondence:crc.calculate", "model %s != implementation %s on %s" % (m, got, _hex(b)),
                           input=_hex(b))
    ctx.count(tag, len(inputs))


def _compare_validate(ctx, n):
    calc = _impl()
    rng = ctx.rng
    cases = []
    for _ in range(n):
        ln = rng.choice([0, 1, 2, 6, 8, 10, 18, 40, 300])
        d = bytes(rng.randrange(256) for _ in range(ln))
        good = calc.calculate(d)
        kind = rng.randrange(6)
        if kind == 0:
            k = good
        elif kind == 1:
            i = rng.randrange(16)
            k = bytes([good[0] ^ ((1 << i) >> 8 & 0xFF), good[1] ^ ((1 << i) & 0xFF)])
        elif kind == 2:
            k = bytes(rng.randrange(256) for _ in range(2))
        elif kind == 3:
            k = bytes(rng.randrange(256) for _ in range(rng.choice([0, 1, 3, 4])))
        elif kind == 4 and ln:
            dd = bytearray(d)
            dd[rng.randrange(ln)] ^= 1 << rng.randrange(8)
            d, k = bytes(dd), good
        else:
            k = bytes(reversed(good))
        cases.append((d, k))
    lines = ["validate %s %s" % (_hex(d), _hex(k)) for d, k in cases]
    model = ctx.driver(lines) if ctx.driver_ok else [None] * len(lines)
    spec = ctx.oracle(["crc " + _hex(d) for d, _ in cases])
    for (d, k), m, s in zip(cases, model, spec):
        try:
            got = "true" if calc.validate(d, k) else "false"
        except ValueError:
            got = "ValueError"
        except Exception as e:  # noqa: BLE001
            got = type(e).__name__
        ctx.case(("val", d, k))
        ctx.count("validate:" + got)
        expect = "ValueError" if len(k) != 2 else ("true" if _hex(k) == s else "false")
        if got != expect:
            ctx.violation("crc-validate", "validate(%s, %s) = %s, the specification says %s" % (_hex(d), _hex(k), got, expect),
                          input=[_hex(d), _hex(k)], implementation_output=got, spec_verdict=expect, model_output=m)
        if m is not None and m != got:
            ctx.tie_broken("correspondence:crc.validate", "model %s != implementation %s on (%s,%s)" % (m, got, _hex(d), _hex(k)))
    ctx.sample({"validate": [_hex(cases[0][0]), _hex(cases[0][1])], "model": model[0]})


def run(ctx, deep=False):
    thorough = deep or ctx.tier == "thorough"
    ctx.coverage["rule"] = (
        "calculate(): every 0..2-byte string exhaustively (this exercises every (low register byte, data byte) pair "
        "of the table step), 3-byte strings (%s), seeded random strings up to 600 bytes; validate(): seeded cases with "
        "correct / single-bit-damaged / random / wrong-length / byte-swapped check values. distinct = distinct inputs; "
        "non-trivial = non-empty data. Receive path: frames written by the real send path are damaged (single bit at every covered / check position (sampled in quick), double bits, <=16-bit bursts inside the covered bytes, check-byte damage) and fed to the real socket: never delivered, connection re-established, a later intact frame delivered" % ("all 16.7 M" if thorough else "100 000 seeded"))
    one_two = [b""] + [bytes([a]) for a in range(256)] + [bytes([a, b]) for a in range(256) for b in range(256)]
    _compare_calculate(ctx, one_two, "calculate:len0-2")
    ctx.sample({"calculate": "80b0012b0000", "expected": "f52f (vendor example)"})
    _compare_calculate(ctx, [bytes.fromhex("80b0012b0000"), bytes.fromhex("80b0012a000401020000"), b"123456789"], "calculate:vendor")
    rng = ctx.rng
    if thorough:
        for a in range(256):
            chunk = [bytes([a, b, c]) for b in range(256) for c in range(256)]
            _compare_calculate(ctx, chunk, "calculate:len3")
        ctx.exhaustive = True
    else:
        _compare_calculate(ctx, [bytes(rng.randrange(256) for _ in range(3)) for _ in range(100000)], "calculate:len3")
    rnd = [bytes(rng.randrange(256) for _ in range(rng.choice([4, 6, 8, 10, 14, 22, 60, 300, 600]))) for _ in range(20000 if thorough else 3000)]
    _compare_calculate(ctx, rnd, "calculate:random")
    ctx.sample({"calculate": _hex(rnd[0])})
    _compare_validate(ctx, 20000 if thorough else 3000)
    _receive_path(ctx, thorough)
    _damaged_repeat(ctx, thorough)
    _damaged_echo(ctx, thorough)
    ctx.assumptions += [
        "bytes objects are modelled as lists of naturals < 256",
    ]


def _damage(frame, covered_from, rng, thorough):
    """single-bit, double-bit and <=16-bit burst damage confined to the covered bytes, and damage confined to the check bytes"""
    n = len(frame)
    out = []
    bits = [(i, b) for i in range(covered_from, n) for b in range(8)]
    singles = bits if thorough else rng.sample(bits, min(len(bits), 40))
    for i, b in singles:
        f = bytearray(frame); f[i] ^= 1 << b
        out.append(("single", bytes(f)))
    for _ in range(400 if thorough else 25):
        (i, b), (j, c) = rng.sample(bits, 2)
        f = bytearray(frame); f[i] ^= 1 << b; f[j] ^= 1 << c
        out.append(("double", bytes(f)))
    for _ in range(400 if thorough else 25):          # burst within the covered bytes
        start = rng.randrange(covered_from * 8, (n - 2) * 8 - 16) if (n - 2 - covered_from) * 8 > 16 else covered_from * 8
        pat = rng.randrange(1, 1 << 16)
        f = bytearray(frame)
        for k in range(16):
            pos = start + k
            if pat >> k & 1 and pos < (n - 2) * 8:
                f[pos // 8] ^= 1 << (pos % 8)
        if bytes(f) != frame:
            out.append(("burst16", bytes(f)))
    # damage confined to the length field (a <=16-bit burst): the receiver then cuts the frame at another place; in particular a
    # length damaged to zero makes the two bytes after the header the "check bytes" of an empty frame
    lp = covered_from + 4
    ln = frame[lp] << 8 | frame[lp + 1]
    for new_len in sorted({0, 1, 2, max(0, ln - 2), max(0, ln - 1), ln // 2} - {ln}):
        f = bytearray(frame); f[lp] = new_len >> 8; f[lp + 1] = new_len & 255
        out.append(("length", bytes(f)))
    for _ in range(60 if thorough else 10):           # damage confined to the check bytes
        f = bytearray(frame)
        f[n - 2] ^= rng.randrange(256); f[n - 1] ^= rng.randrange(256)
        if bytes(f) != frame:
            out.append(("check", bytes(f)))
    return out


def _crc_ref(data, reg=0xFFFF):
    """independent bitwise CRC-16/MODBUS register (reflected 0xA001)"""
    for b in data:
        reg ^= b
        for _ in range(8):
            reg = (reg >> 1) ^ 0xA001 if reg & 1 else reg >> 1
    return reg


_TAB = None


def _tab():
    global _TAB
    if _TAB is None:
        _TAB = [_crc_ref([i], 0) for i in range(256)]
    return _TAB


def _step(reg, b):
    return (reg >> 8) ^ _tab()[(reg ^ b) & 0xFF]


def _special_register_frames(gen, rng):
    """well-formed frames of an unregistered type whose CRC register after the six covered header bytes takes a special value
    (0x0000, 0xFFFF, 0x0001, 0x8000, 0xA001, 0x00FF, 0xFF00): intermediate register values that a wrong implementation is
    likely to mishandle. Found by searching packet id x unregistered type x length (about 2.6 million headers)."""
    specials = {0x0000, 0xFFFF, 0x0001, 0x8000, 0xA001, 0x00FF, 0xFF00}
    registered = {0x1F, 0x2A, 0x2B, 0x2C, 0x2D, 0x36, 0x37} if gen == 4 else {0x1F, 0xC0}
    out = {}
    r2 = _step(_step(0xFFFF, 0xB0), 0x80)
    for pid in range(256):
        r3 = _step(r2, pid)
        for mid in range(256):
            if mid in registered:
                continue
            r4 = _step(r3, mid)
            r5 = _step(r4, 0)
            for ln in range(41):
                reg = _step(r5, ln)
                if reg in specials and len(out.setdefault(reg, [])) < 6:
                    hdr6 = bytes([0xB0, 0x80, pid, mid, 0, ln])
                    payload = bytes(rng.randrange(256) for _ in range(ln))
                    crc = _crc_ref(payload, reg)
                    body = hdr6 + payload + bytes([crc >> 8, crc & 0xFF])
                    if gen == 4:
                        fr = b"\x55\x55" + body
                    else:
                        dl = 10 + ln + 2
                        fr = b"\x55\x55\x55\xab\x00\x00" + bytes([dl >> 8, dl & 0xFF]) * 2 + b"\x55\x55\x55\xaa" + body
                    out[reg].append(fr)
    res = []
    for reg in sorted(out):
        for fr in out[reg]:
            res.append((reg, fr))
    return res


def _status_frames(gen):
    """AC status of one AC, zone / group status of four, timer status: framed as a console frames them (to 0xB0 from 0x80)"""
    import consolesim as cs
    if gen == 4:
        import pyairtouch.at4.comms.registry as R
        import pyairtouch.at4.comms.hdr as HD
        H = HD.At4Header
        ops = [cs.at4_ac_status([dict(id=0)]), cs.at4_group_status([dict(id=i, sensor=1) for i in range(4)]), cs.at4_timer_status({0: ((7, 30), None)})]
    else:
        import pyairtouch.at5.comms.registry as R
        import pyairtouch.at5.comms.hdr as HD
        H = HD.At5Header
        ops = [cs.at5_ac_status([dict(id=0)]), cs.at5_zone_status([dict(id=i, sensor=1) for i in range(4)]), cs.at5_timer_status([(0, (7, 30), None)])]
    out = []
    for op in ops:
        _, mid, payload = op.split()
        mid, payload = int(mid, 16), bytes.fromhex(payload)
        eh = R.INSTANCE.header_encoder.encode(H(0xB0, 0x80, 7, mid, len(payload)))
        out.append(bytes(eh.header_bytes) + payload + bytes(R.INSTANCE.checksum_calculator.calculate(eh.checksum_data + payload)))
    return out


def _receive_path(ctx, thorough):
    """damaged frames through the real receive path: never delivered; the connection is re-established and a later intact frame is delivered"""
    import sockcheck
    import frame_try
    for gen in (4, 5):
        real = frame_try.Real(gen)
        cases = frame_try.gen_cases(real, ctx.rng, 8 if thorough else 3, ctx)
        frames = [bytes(b) for (tag, b) in cases if str(tag).startswith("sent") and 10 <= len(b) <= 80]
        ctx.rng.shuffle(frames)
        frames = _status_frames(gen) + frames      # status frames a console really sends (their empty form is a valid request)
        covered_from = 2 if gen == 4 else 14
        items, meta = [], []
        for fr in frames[: (16 if thorough else 7)]:
            for kind, dmg in _damage(fr, covered_from, ctx.rng, thorough):
                lenpos = (6, 7) if gen == 4 else (18, 19)
                sc = [("net", "accept"), ("open",), ("adv", 8), ("peerbytes", dmg.hex()), ("adv", 4)]
                if all(dmg[i] == fr[i] for i in lenpos):
                    # a console (or a bridge in between) that repeats the very same damaged frame on the connection the client
                    # re-establishes: it must be refused every time, not only the first time
                    for _ in range(ctx.rng.choice([0, 1, 2, 5, 9])):
                        sc += [("peerbytes", dmg.hex()), ("adv", ctx.rng.choice([1, 4, 17]))]
                if any(dmg[i] != fr[i] for i in lenpos):
                    # a damaged length field makes the receiver wait for bytes that never come (the stream is out of step):
                    # the console gives up on the connection, as it would after its own timeout
                    sc.append(("peer", "eof"))
                    sc.append(("adv", 4))
                items.append(("faults", sc + [("heal",)]))
                meta.append((kind, fr, dmg))
                if all(dmg[i] == fr[i] for i in lenpos) and ctx.rng.random() < 0.5:
                    # the damaged frame arrives, with an intact frame right behind it in the same segment, while ANOTHER task is in the
                    # middle of resetting the connection (an API reset / a failed write): nothing of that segment may be delivered
                    trigger = ctx.rng.choice([[("reset",)], [("failw", 1), ("send", 1, "ok", "idem")]])
                    sc2 = [("net", "accept"), ("open",), ("adv", 8)] + trigger + [("turn", ctx.rng.choice([0, 1, 2, 3])), ("peerbytes", (dmg + frames[0]).hex()),
                                                                                ("adv", 4), ("heal",)]
                    items.append(("faults", sc2))
                    meta.append((kind + "+follower-during-reset", fr, dmg))
        # the client is closed while it is still busy resetting the connection after a damaged frame, opened again later, and meets a
        # damaged frame again in the new session: refused and recovered from exactly as the first time
        for k in (0, 1, 2, 3, 5):
            f0 = bytearray(frames[0]); f0[-1] ^= 0x01
            items.append(("faults", [("net", "accept"), ("open",), ("adv", 8), ("peerbytes", bytes(f0).hex()), ("turn", k), ("close",), ("adv", 24), ("open",), ("adv", 8),
                                     ("peerbytes", bytes(f0).hex()), ("adv", 8), ("heal",)]))
            meta.append(("check-bytes, second session", frames[0], bytes(f0)))
        # ... and the same when the first session was closed while the console was unreachable (a retry was pending, or an attempt in flight)
        for t in (1, 3, 15, 16, 17):
            f0 = bytearray(frames[0]); f0[-1] ^= 0x01
            items.append(("faults", [("net", "refuse"), ("open",), ("adv", t), ("close",), ("net", "accept"), ("adv", 24), ("open",), ("adv", 8),
                                     ("peerbytes", bytes(f0).hex()), ("adv", 8), ("heal",)]))
            meta.append(("check-bytes, second session after an unreachable first", frames[0], bytes(f0)))
        # after the damaged frame the console accepts the reconnection but drops it at once (it has not released the old session yet): the
        # first write on it - made by the application's connection callback, as the API objects do - fails; the client tries again
        for k in (0, 1):
            f0 = bytearray(frames[k % len(frames)]); f0[-2] ^= 0x10
            items.append(("faults", [("net", "accept"), ("subsend", 50, "ok", "conn"), ("subsend", 51, "ok", "conn"), ("subsend", 52, "ok", "conn"), ("open",), ("adv", 8),
                                     ("failnext",), ("peerbytes", bytes(f0).hex()), ("adv", 24), ("heal",)]))
            meta.append(("check-bytes, half-open reconnection", frames[k % len(frames)], bytes(f0)))
        # special intermediate register values: the intact frame must be delivered, a check-byte-damaged one must not
        intact = []
        for reg, fr in _special_register_frames(gen, ctx.rng)[: (60 if thorough else 21)]:
            intact.append((reg, fr))
            f = bytearray(fr); f[-1] ^= 0x01; f[-2] ^= 0x80
            items.append(("faults", [("net", "accept"), ("open",), ("adv", 8), ("peerbytes", bytes(f).hex()), ("adv", 4), ("heal",)]))
            meta.append(("check@reg=%04x" % reg, fr, bytes(f)))
        intact_scripts = [[("net", "accept"), ("open",), ("adv", 8), ("peerbytes", fr.hex()), ("adv", 8)] for _, fr in intact]
        for (reg, fr), r in zip(intact, sockcheck.run_scripts(intact_scripts, gen=gen)):
            ctx.case(("rx-intact", gen, fr))
            ctx.count("rx:intact@special-register")
            if "error" in r:
                raise RuntimeError(r["error"])
            if len(r["delivered"]) != 1:
                ctx.violation("C06:intact-frame-rejected", "an intact frame whose CRC register after the header is 0x%04x was not delivered: %s" % (reg, fr.hex()),
                              kind="history", monitor="c06", script=[("net", "accept"), ("open",), ("adv", 8), ("peerbytes", fr.hex()), ("adv", 8)], gen=gen,
                              implementation_output=r["obs"], spec_verdict="delivered once")
        results = sockcheck.run_scripts([s for _, s in items], gen=gen)
        spec = ctx.oracle(["crc " + _hex(d[covered_from:-2]) for _, _, d in meta])
        obs_list = []
        for (kind, fr, dmg), r, (_, script), sp in zip(meta, results, items, spec):
            if "error" in r:
                raise RuntimeError(r["error"])
            ctx.case(("rx", gen, dmg))
            ctx.count("rx:" + kind)
            in_class = _hex(dmg[-2:]) != sp          # the Spec says the damaged frame does not validate
            # deliveries: the probe frame(s) only; the damaged frame (whatever it decodes to) must not appear before `heal`
            pre = []
            for line in r["obs"]:
                if line.startswith("heal"):
                    break
                if line.startswith("deliver"):
                    pre.append(line)
            if in_class and pre:
                ctx.violation("C06:damaged-frame-delivered", "a %s-damaged frame %s (check bytes do not match CRC-16/MODBUS) was delivered to subscribers" % (kind, dmg.hex()),
                              kind="history", monitor="c06", script=script, gen=gen, implementation_output=r["obs"], spec_verdict="not delivered")
            obs_list.append(r["obs"])
        verdicts = sockcheck.sockobs.judge_many(ctx, obs_list, ["c07a", "c07c"]) if obs_list else []
        for (kind, fr, dmg), (_, script), v, obs in zip(meta, items, verdicts, obs_list):
            if not (v["c07a"] and v["c07c"]):
                ctx.violation("C06:no-recovery", "after a damaged frame the client did not re-establish the connection / deliver a later intact frame (script %s)" % script,
                              kind="history", monitor="c07c", script=script, gen=gen, implementation_output=obs, spec_verdict="reconnect and deliver")
                break


def _damaged_repeat(ctx, thorough):
    """the console sends an intact frame, then the same frame again with covered bytes damaged on the way (its check bytes arrive as they
    were sent): the first is delivered, the second is not - whatever the client remembers of the first"""
    import sockcheck
    import frame_try
    for gen in (4, 5):
        real = frame_try.Real(gen)
        covered_from = 2 if gen == 4 else 14
        lenpos = (6, 7) if gen == 4 else (18, 19)
        frames = _status_frames(gen)
        scripts, meta = [], []
        for fr in frames[: (8 if thorough else 4)]:
            for kind, dmg in _damage(fr, covered_from, ctx.rng, thorough):
                if dmg[-2:] != fr[-2:] or len(dmg) != len(fr) or any(dmg[i] != fr[i] for i in lenpos) or dmg == fr:
                    continue
                for gap in ([("turn", 1)], [("adv", 2)], []):
                    scripts.append([("net", "accept"), ("open",), ("adv", 8), ("peerbytes", fr.hex())] + gap + [("peerbytes", dmg.hex()), ("adv", 8), ("heal",)])
                    meta.append((kind, fr, dmg))
        if len(scripts) > (4000 if thorough else 900):
            keep = sorted(ctx.rng.sample(range(len(scripts)), 4000 if thorough else 900))
            scripts, meta = [scripts[i] for i in keep], [meta[i] for i in keep]
        spec = ctx.oracle(["crc " + _hex(d[covered_from:-2]) for _, _, d in meta]) if meta else []
        for (kind, fr, dmg), script, r, sp in zip(meta, scripts, sockcheck.run_scripts(scripts, gen=gen), spec):
            if "error" in r:
                raise RuntimeError(r["error"])
            ctx.case(("rx-repeat", gen, fr, dmg, len(script)))
            ctx.count("rx:damaged-repeat-of-an-intact-frame")
            pre = []
            for line in r["obs"]:
                if line.startswith("heal"):
                    break
                if line.startswith("deliver"):
                    pre.append(line)
            if _hex(dmg[-2:]) != sp and len(pre) != 1:
                ctx.violation("C06:damaged-repeat-delivered", "an intact frame %s followed by its %s-damaged repeat %s (same check bytes, which do not match the CRC-16/MODBUS of the damaged "
                              "bytes): %d frames were delivered to subscribers before the connection was re-established" % (fr.hex(), kind, dmg.hex(), len(pre)),
                              kind="history", monitor="c06", script=script, gen=gen, implementation_output=r["obs"], spec_verdict="exactly the intact frame is delivered")
                break


def _damaged_echo(ctx, thorough):
    """the console returns the command the client has just written, one covered bit damaged on the way (its check bytes arrive as the client
    wrote them): nothing is delivered - whatever the client remembers of what it sent"""
    import sockcheck
    for gen in (4, 5):
        covered_from = 2 if gen == 4 else 14          # (the AirTouch 5 outer header and its lengths are not under the check value)
        scripts = []
        for j in range(48):
            for gap in ([("turn", 2)], [("adv", 2)]):
                scripts.append([("net", "accept"), ("open",), ("adv", 8), ("send", 1, "ok", "idem"), ("turn", 3)] + gap + [("peerecho", covered_from * 8 + j), ("adv", 8), ("heal",)])
        for script, r in zip(scripts, sockcheck.run_scripts(scripts, gen=gen)):
            if "error" in r:
                raise RuntimeError(r["error"])
            ctx.case(("rx-echo", gen, script[-3][1], script[5][0]))
            ctx.count("rx:damaged-echo-of-the-client's-own-frame")
            pre = []
            for line in r["obs"]:
                if line.startswith("heal"):
                    break
                if line.startswith("deliver"):
                    pre.append(line)
            if pre:
                ctx.violation("C06:damaged-echo-delivered", "the client's own frame returned by the peer with covered bit %d flipped (check bytes as written, which do not match the "
                              "CRC-16/MODBUS of the damaged bytes) was delivered to subscribers: %s" % (script[-3][1], pre[:2]),
                              kind="history", monitor="c06", script=script, gen=gen, implementation_output=r["obs"], spec_verdict="nothing is delivered")
                break


def search(ctx):
    if ctx.tier != "thorough":
        run(ctx, deep=True)


def replay(ctx, data):
    if "script" in data:
        import sockcheck
        return sockcheck.replay(ctx, data)
    calc = _impl()
    inp = data.get("input")
    if isinstance(inp, list):
        d, k = [bytes.fromhex(x) if x != "-" else b"" for x in inp]
        try:
            got = "true" if calc.validate(d, k) else "false"
        except ValueError:
            got = "ValueError"
        print("validate ->", got, "; specification:", data.get("spec_verdict"))
        return 1 if got != data.get("spec_verdict") else 0
    b = bytes.fromhex(inp) if inp != "-" else b""
    got = _hex(calc.calculate(b))
    print("calculate(%s) -> %s ; specification: %s" % (inp, got, data.get("spec_verdict")))
    return 1 if got != data.get("spec_verdict") else 0
