"""C17 — unknown and malformed input is tolerated, never misread."""
import sockcheck
import sockgen

LEAN_MODULES = ["PyAirtouch.Props.C17"]
LEVEL = "proof"
MONITORS = ["c07a", "c07b", "c07c"]


def _garbage_scripts(rng, n):
    out = []
    for _ in range(n):
        s = [("net", "accept"), ("lat", rng.choice([0, 1])), ("open",), ("adv", 8)]
        for _ in range(rng.randint(1, 4)):
            s.append(("peer", rng.choice(["garbage", "badcrc", "trunc", "badtext", "badenum", "short", "status", "status"])))
            s.append(("adv", rng.choice([1, 8, 17, 24])))
        s.append(("heal",))
        out.append(("faults", s))
    # the client is closed while it is still busy resetting the connection after bad input, opened again later, and meets bad input
    # again: it must recover exactly as the first time
    for what in ("garbage", "badcrc", "trunc", "badtext", "badenum", "short"):
        for k in range(0, 5):
            out.append(("faults", [("net", "accept"), ("open",), ("adv", 8), ("peer", what), ("turn", k), ("close",), ("adv", 24), ("open",), ("adv", 8),
                                   ("peer", what), ("adv", 8), ("heal",)]))
    # a console (or a noisy line) that produces nothing but bad input for a while: every single one is answered by a reconnection,
    # and after the twelfth the client recovers exactly as after the first
    for what in ("badcrc", "garbage", "badenum", "short"):
        for n_bad in (5, 6, 8, 12):
            for gap in (1, 4, 17):
                out.append(("faults", [("net", "accept"), ("open",), ("adv", 8)] + [x for _ in range(n_bad) for x in (("peer", what), ("adv", gap))] + [("heal",)]))
    return out


def run(ctx, deep=False):
    thorough = deep or ctx.tier == "thorough"
    import frame_try
    n = 1500 if thorough else 120
    ctx.coverage["rule"] = (
        "(a) whole-frame differential on both generations: frames from the real send path for every registered id, raw generated "
        "payloads behind their wrappers, every unregistered type byte / many unknown 0x1F sub-ids and 0xC0 sub-types with random "
        "payloads, mutated frames (bit flips with and without recomputed CRC, truncations, wrong length fields, wrong prefixes, AT5 "
        "outer-length mismatches, trailing bytes, two frames back to back), random bytes - the real _read_one_message outcome "
        "(delivered header+message / CRC reject / exception class / incomplete) against the Lean model's `parse`, and the re-sent bytes; "
        "(b) the real socket on the virtual clock with garbage / bad-CRC / truncated frames and intact frames with refused content (a name that is not UTF-8, an undefined enumeration value, a sub-message shorter than its fixed part) from the peer: no exception may escape a "
        "task of the client or reach the loop's exception handler, the connection is re-established and a later intact frame is "
        "delivered; every run replayed against the socket model; (c) AT4 group/AC status and AT5 zone/AC status payloads (all "
        "strides >= the known layout) whose independent vendor reading has only defined values must be decoded (same decoder "
        "instance for thousands of payloads), never rejected")
    total = 0
    for gen in (4, 5):
        total += frame_try.run_gen(ctx, gen, n)
    ctx.count("frames", total)
    unknown_ids(ctx, frame_try, thorough)
    misread(ctx, frame_try, thorough)
    inconsistent_lengths(ctx, frame_try, thorough)
    for gen in (4, 5):
        items = _garbage_scripts(ctx.rng, 600 if thorough else 120) + sockcheck.gen_scripts(ctx.seed * 53 + gen, [("faults", 1500 if thorough else 200)])
        good = sockcheck.judge_family(ctx, "C17", items, MONITORS, gen=gen)
        sockcheck.validate_against_model(ctx, good, "AT%d" % gen)
    # (c) fixed-layout status payloads whose vendor reading has only defined values (incl. strides larger than the known
    # record) must be decoded, not rejected - every time, not only the first time
    import sys
    sys.path.insert(0, __file__.rsplit("/", 1)[0])
    import c05
    keys = [(4, "2B"), (4, "2D"), (5, "C021"), (5, "C023")]
    tally = c05.judge_spec(ctx, keys, thorough=thorough)
    for cls, (count, example) in sorted(tally.notes.items()):
        if "implementation rejects" in cls and "only defined values" in cls:
            ctx.violation("C17:" + c05.slug(cls), "a status payload with only defined values is rejected instead of decoded from its known prefix: "
                          "%s (%d cases), e.g. %s" % (cls, count, example[:400]), kind="input", mismatch_class=cls, example=example,
                          implementation_output=example, spec_verdict="decoded to the vendor reading")
    ctx.assumptions += ["AirTouch 5 byte stuffing (a 0x00 after three 0x55) is not implemented by the package and not modelled (frames are unstuffed on both sides)"]


def misread(ctx, frame_try, thorough):
    """"never misread", on the implementation alone: a frame whose structure is intact (prefix, addresses, length field) but whose two
    check bytes are not the CRC-16/MODBUS of the covered bytes AS THE INDEPENDENT SPECIFICATION COMPUTES IT must not be delivered as a
    message - whichever way it is wrong: check bytes swapped, off by one, complemented, zeroed, or stale after one payload / header bit
    changed."""
    import codec
    rng = ctx.rng
    for gen in (4, 5):
        real = frame_try.Real(gen)
        frames = []
        for _ in range(400 if thorough else 80):
            mid = rng.choice([0x2B, 0x2D, 0x1F, 0xC0, 0x7E, rng.randrange(256)])
            frames.append(bytearray(real.raw_frame(mid, codec.rand_bytes(rng, rng.choice([0, 1, 2, 6, 8, 12, 30])), to=rng.choice([0xB0, 0x80, 0xB7]),
                                                   pid=rng.randrange(256))))
        want = ctx.oracle(["crc " + (codec.hx(bytes(f[real.cs_start:-2])) or "-") for f in frames])
        worst = None
        for f, w in zip(frames, want):
            good = bytes.fromhex(w)
            f[-2:] = good
            variants = [("the specification's check bytes", bytes(f), True)]
            wrong = [("check bytes swapped", good[::-1]), ("check value + 1", ((int.from_bytes(good, "big") + 1) & 0xFFFF).to_bytes(2, "big")),
                     ("check bytes complemented", bytes(b ^ 0xFF for b in good)), ("check bytes zero", b"\x00\x00"),
                     ("low check byte repeated", bytes([good[1], good[1]])), ("check value little/big-endian of CRC-16/CCITT style (xor 0xFFFF, swapped)",
                                                                              bytes(b ^ 0xFF for b in good[::-1]))]
            for what, cb in wrong:
                if cb != good:
                    variants.append((what, bytes(f[:-2]) + cb, False))
            body = [i for i in range(real.cs_start, len(f) - 2) if not (real.hlen - 2 <= i < real.hlen)]
            if body:
                g = bytearray(f)
                i = rng.choice(body)
                g[i] ^= 1 << rng.randrange(8)
                variants.append(("one covered bit changed, check bytes stale", bytes(g), False))
            for what, fr, ok in variants:
                txt, hm = real.read_one(fr)
                ctx.case(("misread", gen, fr))
                ctx.count("misread:%s:%s" % ("intact" if ok else "damaged", txt.split(" ")[0]))
                why = None
                # (an intact frame may still be refused because its random payload does not decode: counted, not judged here -
                # delivery of intact frames is what unknown_ids() and the frame differential judge)
                if not ok and hm is not None:
                    why = "a frame with wrong check bytes (%s; the CRC of the covered bytes is %s) is delivered as %s" % (what, w, txt[:160])
                if why and (worst is None or len(fr) < len(worst[0])):
                    worst = (fr, why, txt)
        if worst:
            fr, why, txt = worst
            ctx.violation("C17:%d:misread" % gen, "AirTouch %d receive path, stream %s: %s" % (gen, codec.hx(fr), why), kind="input", gen=gen, level="misread",
                          frame=codec.hx(fr), implementation_output=txt[:300], spec_verdict=why)


def inconsistent_lengths(ctx, frame_try, thorough):
    """"never misread": a status frame with intact check bytes whose own length fields do not account for its payload (surplus bytes behind
    the announced records - zeros or not -, a repeat length or record count that a single flipped bit made too small, a payload that
    is not a whole number of records) is not a message of the vendor protocol: the independent reader finds no message in it. The receive
    path must not hand the application a status message for it."""
    import spec_try
    rng = ctx.rng
    doc = {(4, "2B"): (0x2B, 6), (4, "2D"): (0x2D, 8), (5, "C021"): (0x21, 8), (5, "C023"): (0x23, 8)}
    for gen in (4, 5):
        real = frame_try.Real(gen)
        cases = []
        for key, (mid, rec) in doc.items():
            if key[0] != gen:
                continue
            for _ in range(120 if thorough else 30):
                n = rng.randint(1, 4)
                stride = rec if gen == 4 else rng.choice([rec, rec, rec + 2, rec + 4])
                recs = b""
                for i in range(n):
                    r = bytearray(spec_try.DOC_RECORD[key][:rec].ljust(rec, b"\0")) if key in spec_try.DOC_RECORD else bytearray(rec)
                    r[0] = (r[0] & 0xC0) | i if key != (5, "C023") else (r[0] & 0xF0) | i
                    recs += bytes(r) + bytes(stride - rec)
                surplus = rng.choice([bytes(k) for k in (1, 2, 4, 5, 7)] + [bytes([0, 0, 0, rng.randrange(1, 256)]), bytes(rng.randrange(256) for _ in range(3))])
                if gen == 4:
                    datas = [recs + surplus[:rng.choice([1, 2, 4, 5])]]
                else:
                    datas = [spec_try.sub_header(mid, 0, stride, n) + recs + surplus,                    # bytes behind the announced records
                             spec_try.sub_header(mid, 0, stride - 2, n) + recs,                          # the repeat length lost a bit
                             spec_try.sub_header(mid, 0, stride, n - 1) + recs if n > 1 else spec_try.sub_header(mid, 0, stride, n) + recs + bytes(3)]
                if gen == 5:
                    datas.append(spec_try.sub_header(mid, 0, 0, n))                 # n records of length 0 announced, nothing behind the sub-header
                    datas.append(spec_try.sub_header(mid, 0, 0, n) + bytes(2))
                for d in datas:
                    cases.append((key, d, real.raw_frame(mid if gen == 4 else 0xC0, d)))
        verdicts = ctx.oracle(["spec %d %s %s" % (k[0], k[1], spec_try.hx(d)) for k, d, _ in cases])
        worst = None
        for (key, d, fr), v in zip(cases, verdicts):
            txt, hm = real.read_one(fr)
            ctx.case(("inconsistent-lengths", gen, fr))
            ctx.count("inconsistent-lengths:%d/%s:spec-%s:%s" % (key[0], key[1], "none" if v == "none" else "reads", txt.split(" ")[0]))
            if v == "none" and hm is not None and "Unsupported" not in txt and (worst is None or len(fr) < len(worst[0])):
                worst = (fr, key, txt)
        if worst:
            fr, key, txt = worst
            why = ("the frame's own length fields do not account for its payload (the independent reader of the vendor layout finds no %d/%s message in it), "
                   "yet the receive path delivers %s" % (key[0], key[1], txt[:200]))
            ctx.violation("C17:%d:misread-inconsistent-lengths" % gen, "AirTouch %d receive path, stream %s: %s" % (gen, fr.hex(), why), kind="input", gen=gen,
                          level="misread", frame=fr.hex(), implementation_output=txt[:300], spec_verdict=why)


def subs0(known):
    return next(x for x in range(0xFF00, 0xFFFF) if x not in known)


def unknown_ids(ctx, frame_try, thorough):
    """the statement itself, on the implementation: a well-formed frame of an unregistered type / 0x1F sub-id / 0xC0 sub-type is
    delivered as an unsupported message carrying its payload unchanged, for every payload length from 0 (the bare echo of a
    request) upwards; nothing is left over"""
    import struct
    for gen in (4, 5):
        real = frame_try.Real(gen)
        reg = real.reg
        known_top = set()
        for mid in range(256):
            try:
                reg.get_decoder(mid)
                if type(reg.get_decoder(mid)).__name__ != "UnsupportedMessageDecoder":
                    known_top.add(mid)
            except Exception:  # noqa: BLE001
                pass
        x1f_known = set(frame_try._x1f_ids(real))
        cs_known = set(frame_try._cs_ids(real)) if gen == 5 else set()
        payloads = [b"", b"\x01", b"\x01\x02", bytes(range(5)), bytes([0x55, 0x55, 0x55, 0xAA, 0x80]), bytes(20)]
        cases = []
        tops = [m for m in range(256) if m not in known_top]
        for mid in (tops if thorough else tops[::9]):
            for pl in payloads:
                cases.append(("type 0x%02x" % mid, mid, pl, pl))
        # the length field is 16 bits wide: payloads of every size it can announce, up to the largest an AirTouch 4 / AirTouch 5 frame can carry
        top_len = 0xFFFF if gen == 4 else 0xFFFF - 12
        for size in (255, 256, 257, 1024, 4096, 8191, 8192, 8193, 9000, 32768, top_len):
            big = bytes((7 * i + size) & 0xFF for i in range(size))
            cases.append(("type 0x%02x" % tops[0], tops[0], big, big))
            cases.append(("0x1F sub-id 0x%04x" % subs0(x1f_known), 0x1F, struct.pack("!H", subs0(x1f_known)) + big[:size - 2], big[:size - 2]))
        subs = [x for x in list(range(0xFF00, 0xFF80)) + [0x0000, 0x1234, 0xFFFF] if x not in x1f_known]
        for sub in (subs if thorough else subs[::5]):
            for pl in payloads:
                cases.append(("0x1F sub-id 0x%04x" % sub, 0x1F, struct.pack("!H", sub) + pl, pl))
        if gen == 5:
            for sub in [x for x in range(256) if x not in cs_known][:: (1 if thorough else 7)]:
                for pl in payloads[:4]:
                    body = struct.pack("!BxHHH", sub, 0, len(pl), 1 if pl else 0) + pl
                    cases.append(("0xC0 sub-type 0x%02x" % sub, 0xC0, body, None))
                    # (the byte behind the sub-type is not described by the vendor document: an unknown sub-type may use it)
                    for second in (0x01, 0x80, 0xFF):
                        body = struct.pack("!BBHHH", sub, second, 0, len(pl), 1 if pl else 0) + pl
                        cases.append(("0xC0 sub-type 0x%02x (second sub-header byte 0x%02x)" % (sub, second), 0xC0, body, None))
        for what, mid, payload, inner in cases:
            fr = real.raw_frame(mid, payload, frm=0x90 if mid == 0x1F else 0x80)
            text, res = real.read_one(fr)
            ctx.case(("unknown-id", gen, what, len(payload)))
            ctx.count("unknown-id:%d:%s" % (gen, text.split(" ")[0] + (" " + text.split(" ")[1] if text.startswith("R") else "")))
            why = None
            if res is None:
                why = "the frame is %s instead of being delivered" % ("rejected (%s)" % text[2:] if text.startswith("R") else "not completed")
            else:
                h, m = res
                leaf = getattr(m, "sub_message", m)
                if "Unsupported" not in type(leaf).__name__:
                    why = "delivered as %s, not as an unsupported message" % type(leaf).__name__
                elif not text.endswith("|0"):
                    why = "bytes are left over after the frame"
                elif inner is not None and bytes(getattr(leaf, "raw_data", getattr(leaf, "data", b"")) or b"") != inner and inner not in bytes(str(leaf), "latin1", "ignore"):
                    got = getattr(leaf, "raw_data", getattr(leaf, "data", None))
                    if got is not None and bytes(got) != inner:
                        why = "the unsupported message carries %s, the frame's payload is %s" % (bytes(got).hex(), inner.hex())
            if why:
                ctx.violation("C17:%d:unknown-id" % gen, "AirTouch %d, well-formed frame of unregistered %s with a %d-byte payload (%s): %s" % (
                    gen, what, len(inner if inner is not None else payload), fr.hex() if len(fr) < 200 else fr[:60].hex() + "...", why), kind="input", gen=gen, frame=fr.hex(), implementation_output=text, spec_verdict="delivered as unsupported, payload unchanged")
                break


def search(ctx):
    if ctx.tier != "thorough":
        run(ctx, deep=True)


def replay(ctx, data):
    if "script" in data:
        return sockcheck.replay(ctx, data)
    if data.get("level") == "misread":
        import frame_try
        fr = bytes.fromhex(data["frame"])
        real = frame_try.Real(data["gen"])
        txt, hm = real.read_one(fr)
        spec = ctx.oracle(["crc " + fr[real.cs_start:-2].hex()])[0]
        print("stream %s\n  implementation: %s\n  check bytes on the wire %s, CRC-16/MODBUS of the covered bytes (specification) %s" % (fr.hex(), txt, fr[-2:].hex(), spec))
        return 1 if (hm is not None) != (fr[-2:].hex() == spec.lower()) else 0
    print(data.get("what"))
    return 1
