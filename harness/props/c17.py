"""C17 — unknown and malformed input is tolerated, never misread."""
import sockcheck
import sockgen

LEAN_MODULES = ["PyAirtouch.Props.C17"]
LEVEL = "proof"
MONITORS = ["c07a", "c07b", "c07c"]


def _garbage_scripts(rng, n):
    out = []
    for _ in range(n):
        s = [("net", "accept"), ("lat", rng.choice([0, 1])), ("open",), ("adv", 8)]
        for _ in range(rng.randint(1, 4)):
            s.append(("peer", rng.choice(["garbage", "badcrc", "trunc", "status", "status"])))
            s.append(("adv", rng.choice([1, 8, 17, 24])))
        s.append(("heal",))
        out.append(("faults", s))
    return out


def run(ctx, deep=False):
    thorough = deep or ctx.tier == "thorough"
    import frame_try
    n = 1500 if thorough else 120
    ctx.coverage["rule"] = (
        "(a) whole-frame differential on both generations: frames from the real send path for every registered id, raw generated "
        "payloads behind their wrappers, every unregistered type byte / many unknown 0x1F sub-ids and 0xC0 sub-types with random "
        "payloads, mutated frames (bit flips with and without recomputed CRC, truncations, wrong length fields, wrong prefixes, AT5 "
        "outer-length mismatches, trailing bytes, two frames back to back), random bytes - the real _read_one_message outcome "
        "(delivered header+message / CRC reject / exception class / incomplete) against the Lean model's `parse`, and the re-sent bytes; "
        "(b) the real socket on the virtual clock with garbage / bad-CRC / truncated frames from the peer: no exception may escape a "
        "task of the client or reach the loop's exception handler, the connection is re-established and a later intact frame is "
        "delivered; every run replayed against the socket model; (c) AT4 group/AC status and AT5 zone/AC status payloads (all "
        "strides >= the known layout) whose independent vendor reading has only defined values must be decoded (same decoder "
        "instance for thousands of payloads), never rejected")
    total = 0
    for gen in (4, 5):
        total += frame_try.run_gen(ctx, gen, n)
    ctx.count("frames", total)
    for gen in (4, 5):
        items = _garbage_scripts(ctx.rng, 600 if thorough else 120) + sockcheck.gen_scripts(ctx.seed * 53 + gen, [("faults", 1500 if thorough else 200)])
        good = sockcheck.judge_family(ctx, "C17", items, MONITORS, gen=gen)
        sockcheck.validate_against_model(ctx, good, "AT%d" % gen)
    # (c) fixed-layout status payloads whose vendor reading has only defined values (incl. strides larger than the known
    # record) must be decoded, not rejected - every time, not only the first time
    import sys
    sys.path.insert(0, __file__.rsplit("/", 1)[0])
    import c05
    keys = [(4, "2B"), (4, "2D"), (5, "C021"), (5, "C023")]
    tally = c05.judge_spec(ctx, keys, thorough=thorough)
    for cls, (count, example) in sorted(tally.notes.items()):
        if "implementation rejects" in cls and "only defined values" in cls:
            ctx.violation("C17:" + c05.slug(cls), "a status payload with only defined values is rejected instead of decoded from its known prefix: "
                          "%s (%d cases), e.g. %s" % (cls, count, example[:400]), kind="input", mismatch_class=cls, example=example,
                          implementation_output=example, spec_verdict="decoded to the vendor reading")
    ctx.assumptions += ["AirTouch 5 byte stuffing (a 0x00 after three 0x55) is not implemented by the package and not modelled (frames are unstuffed on both sides)"]


def search(ctx):
    if ctx.tier != "thorough":
        run(ctx, deep=True)


def replay(ctx, data):
    if "script" in data:
        return sockcheck.replay(ctx, data)
    print(data.get("what"))
    return 1
