"""C18 — discovery reports each answering console once, correctly, and terminates."""
import json

import discharness

LEAN_MODULES = ["PyAirtouch.Props.C18"]
LEVEL = "proof"

NAMES = [b"Home", b"My, Home", b"a,b,c", "Café".encode(), "\U0001F3E0 house".encode(), b"", b" ", b",", b"x" * 40,
         # user-chosen text that repeats the protocol's own marker words
         b"AirTouch5,Upstairs", b"Home,AirTouch5,Granny flat", b"AirTouch5", b"AirTouch4,old wing", b",AirTouch5,"]
HOSTS = [b"192.168.1.5", b"10.0.0.7", b"console.local", b"airtouch-console-livingroom.home.example.org", b"fe80::1ff:fe23:4567:890a%eth0", b"h" * 200]


def valid(gen, rng):
    host = rng.choice(HOSTS)
    serial = rng.choice([b"AT5SERIAL01", b"00:11:22:33:44:55", b"S", b"SERIAL-0123456789-ABCDEFGHIJKLMNOP", b"s" * 300, b"AirTouch%d" % gen])
    aid = rng.choice([b"12345678", b"ID", b"0", b"9" * 40])
    if gen == 4:
        return b",".join([host, serial, b"AirTouch4", aid])
    return b",".join([host, serial, b"AirTouch5", aid, rng.choice(NAMES)])


def datagram(gen, rng):
    r = rng.random()
    v = valid(gen, rng)
    if r < 0.45:
        return v
    if r < 0.52:
        return b"HF-A11ASSISTHREAD" if gen == 4 else b"::REQUEST-POLYAIRE-AIRTOUCH-DEVICE-INFO:;"      # echo of the request
    if r < 0.60:
        return valid(9 - gen, rng)                                    # the other generation's response
    if r < 0.68:
        parts = v.split(b",")
        i = rng.randrange(len(parts))
        return b",".join(parts[:i] + parts[i + 1:])                  # a part missing
    if r < 0.74:
        parts = v.split(b",")
        parts[2], parts[3] = parts[3], parts[2]                      # marker in the wrong place
        return b",".join(parts)
    if r < 0.82:
        b = bytearray(v)
        b[rng.randrange(len(b))] = rng.choice([0xFF, 0xC0, 0x80, 0xED])   # invalid UTF-8 somewhere
        return bytes(b)
    if r < 0.88:
        return b""
    if r < 0.94:
        return bytes(rng.randrange(256) for _ in range(rng.randint(1, 40)))
    return v + b"," + b"extra"


def scenario(gen, rng):
    n = rng.choice([0, 1, 1, 2, 3, 5])
    arr = []
    for _ in range(n):
        t = rng.choice([1, 2, 3, 5, 6, 7, 9, 10, 11, 13, 20])          # never exactly on a request instant (order unspecified)
        arr.append((t, datagram(gen, rng)))
    if arr and rng.random() < 0.3:
        arr.append((arr[0][0] + rng.choice([0, 1]), arr[0][1]))        # duplicate
    if arr and rng.random() < 0.25:
        # the same console answers again and ONE field differs (it was renamed on the touch screen between two requests; a second console
        # behind the same address; ...): a different answer, reported beside the first
        parts = arr[0][1].split(b",")
        k = rng.randrange(len(parts))
        if parts[k] not in (b"AirTouch4", b"AirTouch5"):
            parts[k] = parts[k] + rng.choice([b"2", b" East", b"x"])
            t2 = arr[0][0] + rng.choice([0, 1, 4])
            arr.append((t2 + 1 if t2 % 4 == 0 else t2, b",".join(parts)))      # (never exactly on a request / return instant)
    arr.sort(key=lambda a: a[0])
    return arr


def fmt(arr):
    return " ".join("%d:%s" % (t, d.hex() or "-") for t, d in arr)


def show(res):
    out = []
    for r in res:
        nm = getattr(r, "name", None)
        out.append("R(id=%s,name=%s,serial=%s,host=%s)" % (r.airtouch_id.encode().hex() or "-", "None" if nm is None else (nm.encode().hex() or "-"),
                                                            r.serial.encode().hex() or "-", r.host.encode().hex() or "-"))
    return out


def run(ctx, deep=False):
    thorough = deep or ctx.tier == "thorough"
    n = 6000 if thorough else 500
    ctx.coverage["rule"] = (
        "searches with 0..6 datagrams arriving at ticks around the three request instants (never exactly on one): grammar-generated "
        "valid responses (commas / multi-byte text / empty names / fields of 1..300 bytes), echoes of the request, the other generation's response, missing "
        "parts, marker misplaced, invalid UTF-8, empty and random datagrams, duplicates; broadcast and unicast; socket errors reported to the protocol (error_received) in 30 % of the searches; the real "
        "AirTouchDiscoverer.search() on the virtual clock with a fake UDP endpoint compared with the Lean model's search and judged by "
        "Spec.Discovery (request instants, return instant, exactly the valid distinct responses); factory.discover() clients checked "
        "for model, host, port 9004/9005, id, name, serial")
    rng = ctx.rng
    cases = []
    for _ in range(n):
        gen = rng.choice([4, 5])
        cases.append((gen, scenario(gen, rng), rng.choice([None, None, "192.168.1.5"])))
    cases.append((4, [], None))
    cases.append((5, [], "10.1.1.1"))
    # socket errors reported to the protocol during a search (an ICMP "port unreachable" for an earlier request while the console is still
    # booting, a refused send): not datagrams - the schedule and the consoles reported are those of the arrivals alone
    errs = [sorted(rng.choice([0, 1, 2, 3, 4, 5, 6, 9]) for _ in range(rng.choice([1, 1, 2, 3]))) if rng.random() < 0.3 else [] for _ in cases]
    ctx.count("searches with socket errors reported", sum(1 for e in errs if e))
    reals = [discharness.run_search(g, a, rh, e) for (g, a, rh), e in zip(cases, errs)]
    model = ctx.driver(["disc %d %s" % (g, fmt(a)) for g, a, rh in cases]) if ctx.driver_ok else [None] * len(cases)
    spec = ctx.oracle(["discspec %d %s" % (g, fmt(a)) for g, a, rh in cases])
    import re
    worst = None
    for (g, a, rh), er, r, m, s in zip(cases, errs, reals, model, spec):
        ctx.case(json.dumps([g, [(t, d.hex()) for t, d in a], rh]), nontrivial=len(a) > 0)
        got = "sent=%s ret=%d resp=[%s]" % (str(r["sent"]).replace(" ", "").replace(",", ", "), r["ret"], ",".join(sorted(show(r["responses"]))))
        ctx.count("responses:%d" % len(r["responses"]))
        sp = re.sub(r"resp=\[(.*)\]", lambda mm: "resp=[" + ",".join(sorted(x for x in re.findall(r"R\([^)]*\)", mm.group(1)))) + "]", s)
        why = None
        if got != sp:
            why = "search behaved %s, the specification says %s" % (got, sp)
        expect_dest = (rh or "255.255.255.255", 49004 if g == 4 else 49005)
        if any(d != expect_dest for d in r["dest"]):
            why = "request sent to %s, expected %s" % (r["dest"], expect_dest)
        import pyairtouch  # noqa: F401
        req = b"HF-A11ASSISTHREAD" if g == 4 else b"::REQUEST-POLYAIRE-AIRTOUCH-DEVICE-INFO:;"
        if any(d != req for d in r["data"]):
            why = "request datagram is %r" % (r["data"],)
        if not r["closed"] or r["pending"]:
            why = "endpoint not closed / tasks left after the search returned"
        if why and er:
            why += " (socket errors reported to the protocol at ticks %s)" % er
        if why and (worst is None or len(a) + len(er) < len(worst[1]) + len(worst[5])):
            worst = (g, a, rh, why, got, er)
        if m is not None:
            mm = re.sub(r",port=\d+,cname=[0-9a-f-]*", "", m)
            mm = re.sub(r"resp=\[(.*)\]", lambda x: "resp=[" + ",".join(sorted(re.findall(r"R\([^)]*\)", x.group(1)))) + "]", mm)
            if mm != got:
                ctx.tie_broken("correspondence:discovery.search", "model %s != implementation %s on %s" % (mm, got, fmt(a)), scenario=[g, fmt(a), rh])
    if worst:
        g, a, rh, why, got, er = worst
        ctx.violation("C18:search", "discovery (AirTouch %d): %s" % (g, why), kind="history", scenario=[g, fmt(a), rh] + ([er] if er else []),
                      implementation_output=got, spec_verdict=why)
    # the same discoverer object used again (an application that looks for consoles once more later): every search behaves as the first one
    # on a fresh object - same request instants, exactly the consoles that answer THIS search
    again = []
    for _ in range(60 if thorough else 12):
        gen = rng.choice([4, 5])
        again.append((gen, [scenario(gen, rng) for _ in range(rng.choice([2, 2, 3]))] + [[]], rng.choice([None, "192.168.1.5"])))
    spec2 = ctx.oracle(["discspec %d %s" % (g, fmt(a)) for g, rounds, rh in again for a in rounds])
    k = 0
    for g, rounds, rh in again:
        outs = discharness.run_searches(g, rounds, rh)
        for i, (a, r) in enumerate(zip(rounds, outs)):
            s_ = spec2[k]
            k += 1
            ctx.case(("again", g, i, json.dumps([(t, d.hex()) for t, d in a]), rh), nontrivial=i > 0)
            got = "sent=%s ret=%d resp=[%s]" % (str(r["sent"]).replace(" ", "").replace(",", ", "), r["ret"], ",".join(sorted(show(r["responses"]))))
            sp = re.sub(r"resp=\[(.*)\]", lambda mm: "resp=[" + ",".join(sorted(x for x in re.findall(r"R\([^)]*\)", mm.group(1)))) + "]", s_)
            if got != sp or not r["closed"] or r["pending"]:
                ctx.violation("C18:search-again", "discovery (AirTouch %d), search number %d on the same discoverer object behaved %s, the specification says %s%s" % (
                    g, i + 1, got, sp, "" if r["closed"] and not r["pending"] else "; endpoint not closed / tasks left"), kind="history",
                    scenario=[g, [fmt(x) for x in rounds], rh], implementation_output=got, spec_verdict=sp)
                break
        else:
            continue
        break
    # factory.connect(): a client for a known console - the given identity is kept, the right generation is built
    import asyncio
    import pyairtouch
    import pyairtouch.api as A

    async def _connect_cases():
        out = []
        for model, cls, port in ((A.AirTouchModel.AIRTOUCH_4, "AirTouch4", 9004), (A.AirTouchModel.AIRTOUCH_5, "AirTouch5", 9005)):
            for (aid, name, serial) in (("ID7", "Upstairs", "S-77"), ("", "", ""), (None, None, None), ("0", "My, Home", "a b")):
                at = pyairtouch.connect(model, "10.1.2.3", port, airtouch_id=aid, name=name, serial=serial)
                out.append((model.name, port, aid, name, serial, type(at).__name__, at.model.name, at.host, at.airtouch_id, at.name, at.serial,
                            getattr(getattr(at, "_socket", None), "port", None)))
        return out
    loop = asyncio.new_event_loop()
    try:
        connect_cases = loop.run_until_complete(_connect_cases())
    finally:
        loop.close()
    for (model, port, aid, name, serial, cls, m2, host, aid2, name2, serial2, sport) in connect_cases:
        ctx.case(("connect", model, aid, name, serial))
        why = None
        if cls != ("AirTouch4" if model == "AIRTOUCH_4" else "AirTouch5") or m2 != model:
            why = "a %s object reporting model %s" % (cls, m2)
        elif host != "10.1.2.3" or sport != port:
            why = "host %r port %r" % (host, sport)
        elif aid and aid2 != aid or name and name2 != name or serial and serial2 != serial:
            why = "identity (%r, %r, %r) became (%r, %r, %r)" % (aid, name, serial, aid2, name2, serial2)
        elif not aid2 or not name2 or not serial2:
            why = "a missing identity field is left empty (%r, %r, %r): the documentation promises generated values" % (aid2, name2, serial2)
        if why:
            ctx.violation("C18:connect", "pyairtouch.connect(%s, '10.1.2.3', %d, airtouch_id=%r, name=%r, serial=%r) returns %s" % (model, port, aid, name, serial, why),
                          kind="input", scenario=["connect", model, aid, name, serial], implementation_output=why, spec_verdict="the given identity, the model's class, host and port")
            break
    # factory: returned clients
    for k in range(60 if thorough else 16):
        a4 = [(rng.choice([1, 2, 5, 9]), valid(4, rng))] if rng.random() < 0.7 or k < 4 else []
        a5 = [(rng.choice([1, 2, 5, 9]), valid(5, rng))] if rng.random() < 0.7 or k < 4 else []
        # broadcast, or unicast to a known host (both generations are still asked, each on its own port, and may both answer)
        rh = rng.choice([None, None, "192.168.1.5"])
        f = discharness.run_factory(a4, a5, remote_host=rh)
        exp = []
        for t, d in a4:
            p = d.split(b",")
            exp.append(("AIRTOUCH_4", p[0].decode(), 9004, p[3].decode(), "AirTouch 4", p[1].decode()))
        for t, d in a5:
            p = d.split(b",", 4)
            exp.append(("AIRTOUCH_5", p[0].decode(), 9005, p[3].decode(), p[4].decode(), p[1].decode()))
        ctx.case(json.dumps(["factory", [x.hex() for _, x in a4 + a5]]))
        if sorted(f["clients"]) != sorted(exp):
            ctx.violation("C18:factory", "factory.discover(%s) returned %s, expected %s" % ("remote_host=%r" % rh if rh else "", f["clients"], exp), kind="input",
                          scenario=["factory", fmt(a4), fmt(a5)], implementation_output=str(f["clients"]), spec_verdict=str(exp))
    ctx.sample({"gen": cases[0][0], "arrivals": fmt(cases[0][1]), "search": {"sent": reals[0]["sent"], "ret": reals[0]["ret"]}})
    ctx.assumptions += ["real socket binding / broadcast is environment (socket.socket is replaced by a stub inside comms.discovery)",
                        "datagrams arriving exactly at a request instant are not generated (ordering unspecified)"]


def search(ctx):
    if ctx.tier != "thorough":
        run(ctx, deep=True)


def replay(ctx, data):
    sc = data["scenario"]
    if sc[0] == "factory":
        print("factory scenario:", sc)
        return 1
    g, arr, rh = sc[:3]
    a = [(int(x.split(":")[0]), bytes.fromhex(x.split(":")[1]) if x.split(":")[1] != "-" else b"") for x in arr.split()]
    r = discharness.run_search(g, a, rh, sc[3] if len(sc) > 3 else ())
    print(r["sent"], r["ret"], show(r["responses"]))
    print(ctx.oracle(["discspec %d %s" % (g, arr)])[0])
    return 1
