"""C10 — the object model always shows the console's latest report.

Independent judgement: real AirTouch4 / AirTouch5 objects (apiharness, stub socket) are initialised by a scripted console
(consolesim: frames built byte by byte from the vendor layouts) for generated installations, then fed long sequences of status
frames; after EVERY frame the whole public object model is read (`view`) and compared, attribute by attribute, with
`apiref.Ref` - a reference that only knows the vendor-document reading (Lean `oracle spec ...`) of the frames sent so far.
Tie: the same kind of scripts (apigen<g>.gen_script) through `apicheck.compare` (real object vs the Lean API model)."""
import importlib
import logging
import multiprocessing
import os
import random
import warnings
import zlib

import apicheck
import apiharness
import apiref
import consolesim as C

_HERE = os.path.dirname(os.path.abspath(__file__))
_PROPS = os.path.join(os.path.dirname(os.path.dirname(_HERE)), "lean", "PyAirtouch", "Props")


def lean_modules(prop):
    """the At5 theorems now; the At4 ones as soon as their file exists"""
    out = []
    for g in (5, 4):
        if g == 5 or os.path.exists(os.path.join(_PROPS, "%sAt%d.lean" % (prop, g))):
            out.append("PyAirtouch.Props.%sAt%d" % (prop, g))
    return out


LEAN_MODULES = lean_modules("C10")
LEVEL = "proof"


# ------------------------------------------------------------------------------------------------ running one script
class SafeApi(apiharness.Api):
    """an exception that escapes an op (e.g. a public getter raising inside `view`) becomes an `EXC <type>` output line"""

    def _subscriber(self, kind, sid, raises, flavour=None):
        # the harness hashes subscriber objects by a str tuple (randomised per process): a fixed hash keeps the order in which the
        # implementation's subscriber sets are walked - hence every run - the same for a given VERIF_SEED
        s = super()._subscriber(kind, sid, raises, flavour)
        h = zlib.crc32(("%s %s" % (kind, sid)).encode())
        type(s).__hash__ = lambda self, h=h: h
        return s

    async def op(self, words):
        try:
            await super().op(words)
        except KeyError:
            raise
        except Exception as e:  # noqa: BLE001
            self.out.append("EXC %s %s" % (words[0], type(e).__name__))


def run_real(gen, ops):
    logging.disable(logging.CRITICAL)
    with warnings.catch_warnings():
        warnings.simplefilter("ignore")
        return SafeApi(gen).run(ops)


def run_interleaved(gen, ops_a, ops_b):
    """two client objects of one generation alive in the same process (two consoles in one home), their scripts executed alternately,
    one op at a time -> (outputs of A, outputs of B), each in the format of run_real"""
    import asyncio
    logging.disable(logging.CRITICAL)
    apis = [SafeApi(gen), SafeApi(gen)]
    scripts = [list(ops_a), list(ops_b)]
    results = [[], []]

    async def one(api, line):
        api.out.clear()
        try:
            await api.op(line.split())
        except KeyError:
            api.out.append("RESULT KeyError")
        notes = sorted(x for x in api.out if x.startswith("NOTIFY"))
        return [x for x in api.out if not x.startswith("NOTIFY")] + notes

    with warnings.catch_warnings():
        warnings.simplefilter("ignore")
        try:
            for i in range(max(len(scripts[0]), len(scripts[1]))):
                for k in (0, 1):
                    if i < len(scripts[k]):
                        api = apis[k]
                        asyncio.set_event_loop(api.loop)
                        results[k].append(api.loop.run_until_complete(one(api, scripts[k][i])))
        finally:
            for api in apis:
                asyncio.set_event_loop(api.loop)
                try:
                    if api.init_task and not api.init_task.done():
                        api.init_task.cancel()
                    api.loop.run_until_complete(api.at.shutdown())
                except Exception:  # noqa: BLE001
                    pass
                api.loop.close()
            asyncio.set_event_loop(None)
    return results[0], results[1]


def handshake_partial(ctx, thorough):
    """during the handshake an unsolicited AC status frame that covers only SOME of the units arrives just before the console's answer to
    the AC status request (a console publishes such frames whenever a unit changes): after init() every unit shows what the console's
    latest frame about it said.  (The client cannot tell the unsolicited frame from the answer; it takes the first one as the answer and
    discards the real one - listed in known_findings.txt under this key.)"""
    import re
    rng = ctx.rng
    for gen in (4, 5):
        for k in range(6 if thorough else 2):
            fans = 0x7F if gen == 4 else 0xFF
            inst = dict(acs=[dict(id=0, modes=0x1F, fans=fans, lo=16, hi=30, zones=[0], mode=4, power=1, setpoint=24),
                             dict(id=1, modes=0x1F, fans=fans, lo=16, hi=30, zones=[1], mode=1, power=1, setpoint=21)],
                        zones={0: dict(sensor=True, ctrl=1), 1: dict(sensor=True, ctrl=1)})
            hs = C.handshake(gen, inst)
            idx = [i for i, o in enumerate(hs) if apiref.kind_of(gen, o) in ("2D", "C023")][0]
            partial = (C.at4_ac_status if gen == 4 else C.at5_ac_status)([dict(id=0, power=1, mode=4, fan=0, setpoint=(24 if gen == 4 else 140), temp=235)])
            ops = hs[:idx] + [partial] * (1 + k % 2) + hs[idx:] + ["view"]
            out = run_real(gen, ops)
            ctx.case(("handshake-partial", gen, k))
            view = next((x for x in out[-1] if x.startswith("VIEW")), "")
            shown = dict((int(a), (p, m)) for a, p, m in re.findall(r"AC\(ac_id=(\d+).*?power_state=(\w+),selected_mode=(\w+)", view))
            ok = shown.get(1) == ("ON", "HEAT") and shown.get(0) == ("ON", "COOL")
            ctx.count("handshake-partial:%s" % ("ok" if ok else "differs"))
            if not ok:
                ctx.violation("C10:handshake-partial-status-then-answer", "AirTouch %d: an unsolicited AC status frame for unit 0 alone arrives at the AC status step of the handshake, "
                              "then the console's answer (unit 0 ON / COOL, unit 1 ON / HEAT): after init() the units show %s" % (gen, shown), kind="history",
                              level="handshake-partial", gen=gen, ops=ops, implementation_output=str(shown), spec_verdict="{0: ('ON', 'COOL'), 1: ('ON', 'HEAT')}")
                break


def two_objects(ctx, thorough):
    """what one client object shows does not depend on another client object of the same generation living in the same process:
    each script's outputs, run alternately with another installation's script, equal its outputs when run alone"""
    rng = ctx.rng
    for gen in (4, 5):
        for k in range(12 if thorough else 4):
            ia, fa = random_script(rng, gen, 30)
            ib, fb = random_script(rng, gen, 30)
            oa = C.handshake(gen, ia) + ["view"] + with_views(fa)
            ob = C.handshake(gen, ib) + ["view"] + with_views(fb)
            solo_a, solo_b = run_real(gen, oa), run_real(gen, ob)
            both_a, both_b = run_interleaved(gen, oa, ob)
            ctx.case(("two-objects", gen, k))
            for name, ops, solo, both in (("first", oa, solo_a, both_a), ("second", ob, solo_b, both_b)):
                diff = next((i for i, (x, y) in enumerate(zip(solo, both)) if x != y), None)
                ctx.count("two-objects:%s" % ("same" if diff is None else "differs"))
                if diff is not None:
                    ctx.violation("C10:%d:two-objects" % gen, "AirTouch %d: two client objects in one process, scripts run alternately: the %s object's output for op %d `%s` is %s, "
                                  "run alone it is %s" % (gen, name, diff, ops[diff][:80], str(both[diff])[:300], str(solo[diff])[:300]), kind="history", level="two-objects",
                                  gen=gen, ops_a=oa, ops_b=ob, implementation_output=str(both[diff])[:600], spec_verdict=str(solo[diff])[:600])
                    return


def judge(gen, ops, readings, base):
    """run `ops` on the real object and on the reference -> (initialised ok, [(path, op index, expected, got)], counts)
    `readings`: op text -> oracle answer; `base`: number of handshake ops (frames before it are not judged for exceptions)"""
    out = run_real(gen, ops)
    ref = apiref.Ref(gen)
    bad, counts = [], {}
    seen_paths = set()
    init_ok = any(x == "RESULT init True" for o in out[:base] for x in o)
    cache = (None, None)
    for i, (op, o) in enumerate(zip(ops, out)):
        if op == "shutdown":
            ref = apiref.Ref(gen)          # a later init() rebuilds the model from scratch
        ref.feed(op, readings.get(op))
        if i < base:
            continue
        for x in o:
            if x.startswith(("UNDECODABLE", "SUBSCRIBER-EXC", "EXC", "RESULT KeyError")):
                p = "raises:" + x.split(" ")[0]
                if p not in seen_paths:
                    seen_paths.add(p)
                    bad.append((p, i, "a defined frame is taken without an exception", x))
        if op != "view":
            continue
        text = next((x for x in o if x.startswith("VIEW ")), None)
        if text is None:
            continue
        if cache[0] != text:
            cache = (text, apiref.parse_view(text))
        for path, e, g in apiref.compare(ref.view(), cache[1]):
            if path not in seen_paths:
                seen_paths.add(path)
                bad.append((path, i, str(e), str(g)))
        counts["views"] = counts.get("views", 0) + 1
    return init_ok, bad, counts


def _work(job):
    gen, label, ops, base, readings = job
    try:
        ok, bad, counts = judge(gen, ops, readings, base)
    except apiref.Unsupported as e:
        return label, False, [("generator", 0, "a script of defined values", "Unsupported: %s" % e)], {}
    return label, ok, bad, counts


# ------------------------------------------------------------------------------------------------ scripts
def small_install(rng, gen, n_zones=1):
    """one AC (any number), few zones: the sweeps' views stay short"""
    return C.random_install(rng, gen, n_acs=1, n_zones=n_zones)


def with_views(frames):
    ops = []
    for f in frames:
        ops += [f, "view"]
    return ops


def sweep_scripts(rng, gen, thorough):
    """systematic coverage: -> list of (label, inst, frames)"""
    d = C.DEFINED[gen]
    out = []
    flags = d["flags"]
    # 1. the full cross product power x mode x fan x flag bits of the AC status record
    combos = [(p, m, f, fl) for p in d["power"] for m in d["mode"] for f in d["fan"] for fl in range(1 << len(flags))]
    chunk = 520
    for k in range(0, len(combos), chunk):
        inst = small_install(rng, gen, n_zones=rng.choice([0, 1, 2]) if gen == 5 else rng.choice([1, 2]))
        con = C.Console(rng, gen, inst)
        ac = con.ac_ids[0]
        frames = []
        for p, m, f, fl in combos[k:k + chunk]:
            r = dict(con.ac[ac], power=p, mode=m, fan=f)
            for b, name in enumerate(flags):
                r[name] = (fl >> b) & 1
            frames.append(con.ac_frame([r]))
        out.append(("ac-cross-%d" % (k // chunk), inst, frames))
    # 2. every set-point code, temperatures (all 11-bit values in the thorough tier), error codes with and without texts
    inst = small_install(rng, gen)
    con = C.Console(rng, gen, inst)
    ac = con.ac_ids[0]
    frames = [con.ac_frame([dict(con.ac[ac], setpoint=s)]) for s in (range(64) if gen == 4 else range(256))]
    top = 1539 if gen == 4 else 1500
    temps = list(range(-500, top + 1, 1 if thorough else 13)) + [top, None, 0, -1, 1, 235]
    frames += [con.ac_frame([dict(con.ac[ac], temp=v)]) for v in temps]
    if gen == 5:
        frames += [con.ac_frame([dict(con.ac[ac], temp=v)]) for v in (1501, 1547)]       # VALUE 2001, 2047: 'not available'
    out.append(("ac-setpoint-temperature", inst, frames))
    inst = small_install(rng, gen)
    con = C.Console(rng, gen, inst)
    ac = con.ac_ids[0]
    frames = []
    for code in [1, 2, 5, 255, 256, 0x7FFF, 0xFFFE, 0xFFFF] + ([rng.randint(1, 0xFFFF) for _ in range(40)] if thorough else []):
        frames.append(con.ac_frame([dict(con.ac[ac], err=code)]))
        frames.append(C.err_info(gen, ac, b"ER: %04X" % code))
        frames.append(con.ac_frame([dict(con.ac[ac], err=code, temp=rng.randint(100, 300))]))     # same error, another field
        frames.append(C.err_info(gen, ac, rng.choice(C.ERR_TEXTS)))
        frames.append(con.ac_frame([dict(con.ac[ac], err=0)]))
        frames.append(con.ac_frame([dict(con.ac[ac], err=code)]))                                 # again: no stale text
        frames.append(con.ac_frame([dict(con.ac[ac], err=(code % 0xFFFF) + 1)]))                  # another error directly
        frames.append(con.ac_frame([dict(con.ac[ac], err=0)]))
    out.append(("ac-errors", inst, frames))
    # 3. the zone record: cross product of power x control x sensor x battery x spill (x turbo support), then every damper, set-point
    inst = small_install(rng, gen, n_zones=2)
    con = C.Console(rng, gen, inst)
    z = con.zone_ids[0]
    frames = []
    bits = ["ctrl", "sensor", "batt", "spill"] + (["turbo"] if gen == 4 else [])
    for p in d["zpower"]:
        for fl in range(1 << len(bits)):
            r = dict(con.zone[z], power=p, temp=rng.choice([225, 180, None]), setpoint=con.zone[z]["setpoint"])
            for b, name in enumerate(bits):
                r[name] = (fl >> b) & 1
            frames.append(con.zone_frame([r]))
    frames += [con.zone_frame([dict(con.zone[z], damper=v)]) for v in range(101)]
    frames += [con.zone_frame([dict(con.zone[z], setpoint=s, sensor=s % 2)]) for s in (range(64) if gen == 4 else range(256))]
    frames += [con.zone_frame([dict(con.zone[z], setpoint=s, sensor=1 - s % 2)]) for s in (range(64) if gen == 4 else range(256))]
    frames += [con.zone_frame([dict(con.zone[z], sensor=1, temp=v)]) for v in temps]
    out.append(("zone-sweep", inst, frames))
    # 4. quick timers: on / off x enabled / disabled x hours x minutes
    inst = C.random_install(rng, gen, n_acs=2, n_zones=1)
    con = C.Console(rng, gen, inst)
    a0, a1 = con.ac_ids
    hm = [(h, m) for h in range(24) for m in (range(60) if thorough else (0, 1, 29, 30, 59))]
    hm += [(h, m) for h in (0, 12, 23) for m in range(60)]
    frames = []
    for h, m in hm:
        frames.append(con.timer_frame({a0: ((h, m), con.timer[a0][1])}))
        frames.append(con.timer_frame({a0: (con.timer[a0][0], (m % 24, h))}))
        if m % 7 == 0:
            frames.append(con.timer_frame({a0: ((1, h, m), (m % 24, h)), a1: ((h, m), None)}))
            frames.append(con.timer_frame({a0: (None, None), a1: (None, (1, h, m))}))
    out.append(("timers", inst, frames))
    # 5. console version: update signs, one / two consoles
    inst = small_install(rng, gen)
    frames = [C.console_version(gen, u, v) for u in (0, 1, 2, 0, 128, 255, 0)
              for v in (["1.2.3"], ["1.2.3", "1.2.3"], ["2.0", "1.0.5"], ["10.20.30"], ["1.2.3"])]
    out.append(("versions", inst, frames))
    return out


def random_call(rng, inst):
    """a public control call: what the object model shows comes from the console's reports only, so a call changes nothing"""
    acs = [a["id"] for a in inst["acs"]]
    zs = sorted(z for ac in inst["acs"] for z in ac["zones"] if z in inst["zones"])      # (zones an application can reach: those of some AC)
    k = rng.random()
    a = rng.choice(acs)
    if k < 0.3:
        tt = rng.choice(["ON_TIMER", "OFF_TIMER"])
        return rng.choice(["call ac %d clear_quick_timer %s" % (a, tt), "call ac %d set_quick_timer %s time %d %d" % (a, tt, rng.randint(0, 23), rng.randint(0, 59)),
                           "call ac %d set_quick_timer %s duration %d" % (a, tt, rng.choice([60, 5400, 86340]))])
    if k < 0.45:
        return "call ac %d set_power %s" % (a, rng.choice(["TOGGLE", "TURN_OFF", "TURN_ON"]))
    if k < 0.6:
        return "call ac %d set_target_temperature %s" % (a, rng.choice(["18", "21.5", "26"]))
    if k < 0.7:
        return "call ac %d set_mode %s %d" % (a, rng.choice(["AUTO", "HEAT", "DRY", "FAN", "COOL"]), rng.choice([0, 1]))
    if zs and k < 0.85:
        return "call zone %d set_power %s" % (rng.choice(zs), rng.choice(["OFF", "ON", "TURBO"]))
    if zs:
        return rng.choice(["call zone %d set_damper_percentage %d" % (rng.choice(zs), rng.choice([0, 40, 100])),
                           "call zone %d set_target_temperature %d" % (rng.choice(zs), rng.randint(17, 29))])
    return "call at check_for_updates"


def random_script(rng, gen, n_frames):
    inst = C.random_install(rng, gen)
    con = C.Console(rng, gen, inst)
    frames = []
    for _ in range(n_frames):
        f = con.random_frame()
        if rng.random() < 0.12 and len(f.split()) == 3:
            # the console relays a status frame it addressed to another client (0xB1, 0xB7 ...): it reports the entity's state all the same
            f += " " + rng.choice(["b1", "b7", "b2", "00"])
        frames.append(f)
        if rng.random() < 0.1:
            frames.append(random_call(rng, inst))
    return inst, frames


def build_jobs(ctx, thorough):
    jobs = []
    for gen in (4, 5):
        for label, inst, frames in sweep_scripts(ctx.rng, gen, thorough):
            hs = C.handshake(gen, inst)
            jobs.append((gen, label, hs + ["view"] + with_views(frames), len(hs)))
        n, length = (640, 400) if thorough else (48, 200)
        for k in range(n):
            inst, frames = random_script(ctx.rng, gen, length)
            hs = C.handshake(gen, inst)
            if k % 3 == 1:
                # the console sends its (unchanged) names answer once more, early in the session - somebody opened the names page on the touch
                # screen: the reports that follow still reach the entities the object model shows
                frames = frames[:5] + [hs[3]] + frames[5:]
            jobs.append((gen, "random-%d" % k, hs + ["view"] + with_views(frames), len(hs)))
        # a second session on the same object: shutdown(), then init() against a console describing ANOTHER installation
        for k in range(24 if thorough else 6):
            inst1, frames1 = random_script(ctx.rng, gen, 12)
            inst2, frames2 = random_script(ctx.rng, gen, 40)
            hs1, hs2 = C.handshake(gen, inst1), C.handshake(gen, inst2)
            jobs.append((gen, "second-session-%d" % k, hs1 + with_views(frames1) + ["shutdown"] + hs2 + ["view"] + with_views(frames2), len(hs1)))
    return jobs


def read_all(ctx, jobs):
    """one oracle call for all frames of all scripts -> {gen: {op text: vendor reading}}"""
    want = {}
    for gen, _, ops, _ in jobs:
        for i, line in apiref.spec_requests(gen, ops):
            want.setdefault((gen, ops[i]), line)
    keys = list(want)
    ans = ctx.oracle([want[k] for k in keys]) if keys else []
    table = {4: {}, 5: {}}
    for (gen, op), a in zip(keys, ans):
        table[gen][op] = a
    return table


def pool_map(jobs):
    n = min(16, os.cpu_count() or 1, max(1, len(jobs)))
    if n <= 1:
        return [_work(j) for j in jobs]
    with multiprocessing.get_context("fork").Pool(n) as p:
        return p.map(_work, jobs, chunksize=1)


# ------------------------------------------------------------------------------------------------ shrinking
def fails(ctx, gen, ops, base, path, cache):
    missing = {ops[i]: line for i, line in apiref.spec_requests(gen, ops) if ops[i] not in cache}
    if missing:
        for op, a in zip(missing, ctx.oracle(list(missing.values()))):
            cache[op] = a
    try:
        ok, bad, _ = judge(gen, ops, cache, base)
    except Exception:  # noqa: BLE001
        return None
    for b in bad:
        if b[0] == path:
            return b
    return None


def shrink(ctx, gen, ops, base, idx, path, cache, budget=120):
    """delete frames (with their `view`) while the same attribute still disagrees; -> (ops, the mismatch)"""
    ops = ops[:idx + 1]
    if ops[-1] != "view":
        ops = ops + ["view"]
    best = fails(ctx, gen, ops, base, path, cache)
    if best is None:
        return ops, None
    head, body = ops[:base], ops[base:]
    # body = ["view"]? + (frame, view)*: work on frames only, one final view
    frames = [o for o in body if o != "view"]

    def attempt(fr):
        cand = head + fr + ["view"]
        return cand, fails(ctx, gen, cand, base, path, cache)
    cand, b = attempt(frames)
    if b is None:
        return ops, best
    ops, best = cand, b
    # halves first, then single frames from the front
    n = len(frames)
    while n > 1 and budget > 0:
        n = (n + 1) // 2
        changed = True
        while changed and budget > 0:
            changed = False
            for s in range(0, len(frames), n):
                if len(frames) <= 1:
                    break
                trial = frames[:s] + frames[s + n:]
                if not trial:
                    continue
                budget -= 1
                cand, b = attempt(trial)
                if b is not None:
                    frames, ops, best, changed = trial, cand, b, True
                    break
                if budget <= 0:
                    break
    return ops, best


# ------------------------------------------------------------------------------------------------ the tie
def generations_with_model(ctx):
    out = []
    for g in (5, 4):
        try:
            mod = importlib.import_module("apigen%d" % g)
        except ImportError:
            continue
        if ctx.driver_ok:
            try:
                if ctx.driver(["api-new %d" % g])[0].strip() != "ok":
                    continue
            except Exception:  # noqa: BLE001
                continue
        out.append((g, mod))
    return out


def tie(ctx, prop, n, first=0):
    """real object vs Lean API model on generated scripts, for every generation that has a generator and a model"""
    logging.disable(logging.CRITICAL)
    for g, mod in generations_with_model(ctx):
        rng = random.Random(ctx.seed * 7919 + g * 101 + int(prop[1:]))
        broken = 0
        for i in range(first, first + n):
            name, ops = mod.gen_script(rng, i)
            _, bad = apicheck.compare(ctx, g, ops, label=name)
            ctx.traces_validated += 1
            ctx.count("tie:%d:%s" % (g, name))
            if bad and not broken:
                broken += 1
                ctx.tie_broken("%s:model-vs-implementation:at%d" % (prop, g),
                               "script %s #%d op %d %r: implementation %s, model %s" % (name, i, bad["index"], bad["op"], bad["implementation"], bad["model"]),
                               gen=g, ops=ops[:bad["index"] + 1])
    if not ctx.driver_ok:
        ctx.notes.append("Lean driver unavailable: the model comparison was skipped")


# ------------------------------------------------------------------------------------------------ entry points
RULE = (
    "both generations; installations: 1..4 ACs with any AC numbers, AirTouch 5 0..16 zones contiguous per AC, AirTouch 4 1..16 groups spread by "
    "the display bitmap, random abilities / limits / names (UTF-8, full-width, empty); after the handshake (a) sweep scripts: the full cross "
    "product power x mode x fan x flag bits of the AC record (AT5 5x7x13x16, AT4 2x7x7x4), every set-point code, temperatures over the 11-bit "
    "range incl. 'not available', error codes with / without / stale / changed texts, zone cross product power x control x sensor x battery x "
    "spill (x turbo support), every damper 0..100 and set-point code with and without sensor, quick timers on/off x enabled/disabled x hours x "
    "minutes, version frames (update signs 0/1/2/128/255, one or two consoles); (b) random histories of AC / zone / timer / error-text / version "
    "frames: any entity order, subsets, the same entity twice in a frame, unknown AC / zone numbers, byte-identical repeats, record strides "
    "8/10/12. `view` after every frame; every attribute of the AirTouch, each AC and each zone is compared with the reference computed from the "
    "vendor reading (oracle spec) of the frames so far. distinct = distinct (generation, script, frame index)")


def run(ctx, deep=False):
    thorough = deep or ctx.tier == "thorough"
    ctx.coverage["rule"] = RULE
    ctx.assumptions += apiref.ASSUMPTIONS
    jobs = build_jobs(ctx, thorough)
    table = read_all(ctx, jobs)
    full = [(gen, label, ops, base, {o: table[gen][o] for o in set(ops) if o in table[gen]}) for gen, label, ops, base in jobs]
    results = pool_map(full)
    worst = {}
    by_label = {(j[0], j[1]): j for j in jobs}
    for (gen, label, ops, base), (lab, ok, bad, counts) in zip(jobs, results):
        kind = label.split("-")[0] if label.startswith("random") else label
        ctx.count("%d:script:%s" % (gen, kind))
        ctx.count("%d:frames" % gen, (len(ops) - base) // 2)
        ctx.count("%d:views-compared" % gen, counts.get("views", 0))
        for i in range(base, len(ops), 2):
            ctx.case((gen, label, i))
        for o in ops[base:]:
            k = apiref.kind_of(gen, o)
            if k:
                ctx.count("%d:frame:%s" % (gen, k))
        if not ok:
            ctx.tie_broken("C10:console-script", "the scripted console no longer initialises the AirTouch %d object (script %s): %s" % (gen, label, ops[:base]))
            continue
        for path, idx, e, g in bad:
            key = "C10:%d:%s" % (gen, path)
            # the smallest script first: failing frame + handshake (installation) size, then the earliest
            rank = ((len(ops[idx - 1]) if idx > base else 0) + sum(len(o) for o in ops[:base]), idx - base)
            if key not in worst or rank < worst[key][6]:
                worst[key] = (ops, idx, base, e, g, label, rank)
    for key in sorted(worst):
        ops, idx, base, e, g, label, _ = worst[key]
        gen = int(key.split(":")[1])
        path = key.split(":", 2)[2]
        small, b = shrink(ctx, gen, ops, base, idx, path, dict(table[gen]))
        if b is not None:
            e, g = b[2], b[3]
        frames = [o for o in small[base:] if o != "view"]
        ctx.violation(key, "AirTouch %d %s: the object shows %s, the console's latest report reads %s (script %s; %s)"
                      % (gen, path, g, e, label, ("after the handshake of %d ops: " % base + " ; ".join(frames[-6:])) if frames else
                         "right after the handshake: " + " ; ".join(small[2:base])), kind="history", gen=gen, ops=small, base=base, path=path,
                      implementation_output=g, spec_verdict=e)
    if jobs:
        gen, label, ops, base = jobs[0]
        ctx.sample({"script": label, "gen": gen, "ops": ops[base:base + 6]})
    two_objects(ctx, thorough)
    handshake_partial(ctx, thorough)
    tie(ctx, "C10", 400 if thorough else 40)


def search(ctx):
    if ctx.tier != "thorough" and not ctx.violations:
        jobs = build_jobs(ctx, True)
        table = read_all(ctx, jobs)
        full = [(gen, label, ops, base, {o: table[gen][o] for o in set(ops) if o in table[gen]}) for gen, label, ops, base in jobs]
        for (gen, label, ops, base), (lab, ok, bad, counts) in zip(jobs, pool_map(full)):
            for path, idx, e, g in bad[:1]:
                small, b = shrink(ctx, gen, ops, base, idx, path, dict(table[gen]))
                ctx.violation("C10:%d:%s" % (gen, path), "AirTouch %d %s: the object shows %s, the console's latest report reads %s" % (gen, path, g, e),
                              kind="history", gen=gen, ops=small, base=base, path=path)
                return


def replay(ctx, data):
    if data.get("level") == "handshake-partial":
        out = run_real(data["gen"], data["ops"])
        print(next((x for x in out[-1] if x.startswith("VIEW")), "")[:600])
        print("expected units:", data.get("spec_verdict"))
        return 1
    if data.get("level") == "two-objects":
        gen, oa, ob = data["gen"], data["ops_a"], data["ops_b"]
        solo = (run_real(gen, oa), run_real(gen, ob))
        both = run_interleaved(gen, oa, ob)
        for name, s1, s2, ops in (("first", solo[0], both[0], oa), ("second", solo[1], both[1], ob)):
            d = next((i for i, (x, y) in enumerate(zip(s1, s2)) if x != y), None)
            print("%s object: %s" % (name, "same outputs alone and side by side" if d is None else "op %d `%s`: side by side %s, alone %s" % (d, ops[d][:80], s2[d], s1[d])))
            if d is not None:
                return 1
        return 0
    gen, ops, base, path = data["gen"], data["ops"], data.get("base", 0), data.get("path")
    cache = {}
    reqs = apiref.spec_requests(gen, ops)
    for (i, line), a in zip(reqs, ctx.oracle([line for _, line in reqs]) if reqs else []):
        cache[ops[i]] = a
    ok, bad, _ = judge(gen, ops, cache, base)
    for o in ops[base:]:
        print("  ", o)
    hit = [b for b in bad if path is None or b[0] == path]
    for p, idx, e, g in hit:
        print("op %d: %s shows %s, the console's latest report reads %s" % (idx, p, g, e))
    if not hit:
        print("the object model follows the reference on this script")
    return 1 if hit else 0
