"""C08 — heartbeat detects a dead link, and only a dead link."""
import json
import random
import warnings

import fullstack
import hbharness

LEAN_MODULES = ["PyAirtouch.Props.C08", "PyAirtouch.Props.C08At4", "PyAirtouch.Props.C08At5", "PyAirtouch.Props.C08Overflow"]
LEVEL = "proof"


def _scenario(rng, interval, timeout):
    """answer patterns over N consecutive heartbeats, silence onsets, outages"""
    n = rng.randint(1, 6)
    t0 = rng.choice([0, 3, 17])
    ins = [("conn", 1, 0), ("start", t0)]
    t = t0
    late_choices = [1, 8, timeout - interval - 1, timeout - interval + 1, timeout - interval + 9, None]
    events = []
    for k in range(n):
        beat = t0 + k * interval
        d = rng.choice(late_choices)
        if d is not None and d > 0:
            events.append(("resp", beat + d))
        if rng.random() < 0.15:
            events.append(("resp", beat + rng.randint(1, interval - 1)))        # unsolicited extra response
        if rng.random() < 0.15:
            a = beat + rng.randint(1, interval - 2)
            events.append(("conn", 0, a))
            events.append(("conn", 1, a + rng.choice([1, 40, interval, timeout + 5])))
    events.sort(key=lambda e: e[-1])
    end = t0 + n * interval + rng.choice([1, timeout + 7, 2 * timeout + 3])
    events = [e for e in events if e[-1] < end]
    r = rng.random()
    if r < 0.1:
        s = rng.randint(t0 + 1, end - 1)
        events = [e for e in events if e[-1] < s] + [("stop", s)]
    elif r < 0.25:
        # stop and start again (shutdown followed by a later init): monitoring must work as on a fresh manager
        s = rng.randint(t0 + 1, end - 2)
        s2 = s + rng.choice([1, 7, interval])
        events = [e for e in events if e[-1] < s] + [("stop", s), ("start", s2)]
        if rng.random() < 0.5:
            events.append(("resp", s2 + 2))
        end = s2 + 2 * timeout + 9
    ins += events + [("finish", end)]
    # drop events that coincide with a deadline/beat instant of an idealised run (ordering at equal times is unspecified)
    return ins


def _fixed(interval, timeout):
    out = []
    out.append([("conn", 1, 0), ("start", 0), ("finish", 3 * timeout + 50)])                      # silent from the first heartbeat
    out.append([("conn", 1, 0), ("start", 0), ("resp", 2), ("finish", 3 * timeout + 50)])          # silent after a response
    out.append([("conn", 1, 0), ("start", 5)] + [("resp", 5 + k * interval + 3) for k in range(6)] + [("finish", 5 + 6 * interval)])
    out.append([("conn", 0, 0), ("start", 0), ("conn", 1, timeout + 10), ("finish", 3 * timeout)])   # down at the first expiry
    out.append([("conn", 1, 0), ("start", 0), ("resp", 3), ("stop", 50), ("start", 60), ("finish", 60 + 2 * timeout + 5)])   # restart
    for d in (-1, 1):
        out.append([("conn", 1, 0), ("start", 0), ("resp", 1), ("resp", 1 + timeout + d), ("finish", 2 * timeout + interval)])
    return out


# ------------------------------------------------------------------------------------------------ refused heartbeats
# marks ("refuse", t) / ("refusedrop", t): see hbharness.py.  They stand at the front of the input list.
def _refused_fixed(i, t):
    """(kind, inputs[, the input that deliberately coincides with the refusal])"""
    up = [("conn", 1, 0), ("start", 0)]
    out = []
    # at the first heartbeat: silent console / answered console / start later than 0
    out.append(("first", [("refuse", 0)] + up + [("finish", 3 * t + 50)]))
    out.append(("first", [("refuse", 0)] + up + [("resp", k * i + 3) for k in (1, 2, 3)] + [("finish", 4 * i + 9)]))
    out.append(("first", [("refuse", 5), ("conn", 1, 0), ("start", 5), ("resp", 5 + i + 2), ("finish", 5 + 2 * i + t + 9)]))
    # at a later one, every other heartbeat answered: one reset `timeout` after the last response, heartbeats go on
    out.append(("later", [("refuse", 2 * i)] + up + [("resp", k * i + 3) for k in (0, 1, 3, 4, 5)] + [("finish", 6 * i + 9)]))
    out.append(("later", [("refuse", i)] + up + [("resp", 3), ("finish", 3 * t + 50)]))
    # ... and a stray response in time: no reset at all
    out.append(("later-stray-response", [("refuse", i)] + up + [("resp", 3), ("resp", i + 5), ("resp", 2 * i + 3), ("finish", 3 * i + 9)]))
    # the shape of the residual finding: the link is lost before a heartbeat instant and is back just before it, buffer full
    out.append(("after-outage", [("refuse", i)] + up + [("resp", 3), ("conn", 0, i - 6), ("conn", 1, i - 1), ("resp", 2 * i + 3),
                                                    ("resp", 3 * i + 3), ("finish", 4 * i + 9)]))
    # several in a row
    out.append(("row", [("refuse", 0), ("refuse", i), ("refuse", 2 * i)] + up + [("resp", 3 * i + 3), ("finish", 5 * i + t)]))
    out.append(("row", [("refuse", k * i) for k in (1, 2, 3, 4)] + up + [("resp", 3), ("resp", 5 * i + 3), ("finish", 7 * i + 9)]))
    out.append(("row", [("refuse", k * i) for k in range(8)] + up + [("finish", 8 * i + 9)]))                 # for ever
    # a refusal, then stop / start again: a fresh manager; a mark that falls on no heartbeat of the new phase refuses nothing
    out.append(("restart", [("refuse", i), ("refuse", 2 * i)] + up + [("resp", 3), ("stop", i + 9), ("start", i + 17), ("resp", i + 19),
                                                                 ("finish", i + 17 + 2 * t + 9)]))
    out.append(("restart", [("refuse", 0), ("refuse", 17 + i)] + up + [("stop", 9), ("start", 17), ("finish", 17 + 2 * t + 9)]))
    # a mark while the link is down: nothing is sent, nothing is refused
    out.append(("down", [("refuse", i)] + up + [("resp", 3), ("conn", 0, i - 6), ("conn", 1, i + 7), ("finish", 3 * i + 9)]))
    # a refusal and a disconnection at the same instant, the refusal first (the stub reports the link down inside send())
    out.append(("drop", [("refusedrop", i)] + up + [("resp", 3), ("conn", 1, i + 7), ("finish", 3 * i + t)]))
    out.append(("drop", [("refusedrop", 0)] + up + [("conn", 1, 9), ("resp", i + 3), ("finish", 2 * i + t + 9)]))
    out.append(("drop", [("refusedrop", i), ("refuse", 2 * i)] + up + [("resp", 3), ("finish", 2 * t + 9)]))   # stays down
    # ... and as two events of the same instant whose order the event loop decides: either order is right
    out.append(("coincide", [("refuse", i)] + up + [("resp", 3), ("conn", 0, i), ("conn", 1, i + 7), ("finish", 3 * i + 9)], ("conn", 0, i)))
    out.append(("coincide", [("refuse", 0)] + up + [("conn", 0, 0), ("conn", 1, 7), ("finish", 2 * i + 9)], ("conn", 0, 0)))
    return out


def _refused_scenario(rng, i, t):
    """a scenario of `_scenario` plus marks on instants at which a phase of the heartbeat loop has an iteration"""
    ins = _scenario(rng, i, t)
    starts = [e[1] for e in ins if e[0] == "start"]
    end = ins[-1][-1]
    grid = sorted({s + k * i for s in starts for k in range(0, 10) if s + k * i < end})
    r = rng.random()
    if r < 0.35:
        marks = [rng.choice(grid)]
    elif r < 0.7:
        a = rng.randrange(len(grid))
        marks = grid[a:a + rng.randint(2, 4)]                       # several in a row
    else:
        marks = rng.sample(grid, min(len(grid), rng.randint(2, 5)))
    marks = sorted(set(marks))
    out = [("refuse", m) for m in marks]
    if rng.random() < 0.25:
        m = rng.choice(marks)
        out = [x for x in out if x[1] != m] + [("refusedrop", m)]
        back = m + rng.choice([1, 7, i + 3, t + 5])
        if back < end and rng.random() < 0.8:
            body = ins[:-1] + [("conn", 1, back)]
            body.sort(key=lambda e: e[-1])                          # stable: equal instants keep their order
            ins = body + [ins[-1]]
    return "random", out + ins


def _is_mark(e):
    return e[0] in ("refuse", "refusedrop")


def _beats_missing_after_refusal(i, ins, real):
    """Read from the property text, not from the model: while monitoring is started and the link is up a request is emitted every
    `interval`.  After the last refusal of the record, at R, the iterations of that phase of the heartbeat loop fall on R + k*interval;
    those at which (by the record itself) monitoring has been running without a stop / start since R, the link has been up since before
    the instant and nothing else happens at the instant must show a `beat`.  Returns the instants that do not."""
    evs = []
    for e in real:
        k, *a = e.split()
        if k != "raised":
            evs.append((k, [int(x) for x in a]))
    refs = [a[0] for k, a in evs if k == "refused"]
    if not refs:
        return []
    R = refs[-1]
    end = [e for e in ins if not _is_mark(e)][-1][-1]
    missing = []
    T = R + i
    while T < end:
        if any(k in ("stop", "start") and R <= a[-1] <= T for k, a in evs):
            break
        up = None
        for k, a in evs:
            if k == "conn" and a[-1] < T:
                up = bool(a[0])
        busy = any(k in ("conn", "resp") and a[-1] == T for k, a in evs)
        if up and not busy and ("beat %d" % T) not in real:
            missing.append(T)
        T += i
    return missing


def refused_level(ctx, thorough, cfgs, fmt):
    """differential only: real HeartbeatManager with a refusing stub socket against the Lean model extended by `beatRefused`"""
    rng = random.Random(ctx.seed * 7919 + 8)        # its own stream: the scenarios of the other levels stay what they were
    n = 2500 if thorough else 300
    cases = []
    for (i, t) in cfgs:
        for item in _refused_fixed(i, t):
            cases.append((i, t, 1, item[0], item[1], item[2] if len(item) > 2 else None))
    for _ in range(n):
        i, t = rng.choice(cfgs)
        kind, ins = _refused_scenario(rng, i, t)
        cases.append((i, t, rng.choice([1, 9]), kind, ins, None))
    reals = [_run(ctx, i, t, rt, ins) for (i, t, rt, kind, ins, co) in cases]
    lines = []
    where = []
    for (i, t, rt, kind, ins, co) in cases:
        where.append(len(lines))
        lines.append("hbx %d %d %d %s" % (i, t, rt, fmt(ins)))
        if co is not None:
            # the other order of the two coinciding events: the refusal first, then the link goes down
            alt = [("refusedrop", e[1]) if (e[0] == "refuse" and e[1] == co[-1]) else e for e in ins if e != co]
            lines.append("hbx %d %d %d %s" % (i, t, rt, fmt(alt)))
    answers = ctx.driver(lines) if ctx.driver_ok else None
    worst = None
    for idx, ((i, t, rt, kind, ins, co), real) in enumerate(zip(cases, reals)):
        ctx.case(json.dumps(["refused", i, t, rt, ins]), nontrivial=True)
        nref = sum(1 for e in real if e.startswith("refused "))
        ctx.count("refused:kind:%s" % kind)
        ctx.count("refused:refusals-in-run:%s" % (nref if nref < 4 else "4+"))
        if nref:
            last = max(int(e.split()[1]) for e in real if e.startswith("refused "))
            ctx.count("refused:%s" % ("beats-after-the-last-refusal" if any(e.startswith("beat ") and int(e.split()[1]) > last for e in real)
                                      else "no-beat-after-the-last-refusal"))
            ctx.count("refused:resets-after-a-refusal", sum(1 for e in real if e.startswith("reset ") and int(e.split()[1]) > last))
        if kind not in ("random", "down", "coincide") and nref == 0:
            ctx.tie_broken("correspondence:heartbeat-refused:stub", "the stub socket refused no send() in the fixed scenario %s (interval %d, timeout %d): %s" % (
                ins, i, t, real), scenario=[i, t, rt, ins])
        timed = [e for e in ins if not _is_mark(e)]
        missing = _beats_missing_after_refusal(i, ins, real)
        if missing and (worst is None or len(ins) < len(worst[3])):
            worst = (i, t, rt, ins, real, missing)
        if answers is None:
            continue
        ms = []
        for a in answers[where[idx]:where[idx] + (2 if co is not None else 1)]:
            tr, _, ex = a.partition(" | ")
            ms.append((tr.split(" ; ") if tr else [], [int(x) for x in ex.split()]))
        if _equal_time_hazard([e for e in timed if e != co], ms[0][0], ms[0][1], rt, sync={e[1] for e in timed if e[0] == "start"}):
            ctx.count("refused:skipped:input-coincides-with-deadline")
            continue
        if real not in [m for m, _ in ms]:
            ctx.tie_broken("correspondence:heartbeat-refused", "model (Heartbeat.stepX, beatRefused) %s != implementation %s on %s" % (
                " or ".join(str(m) for m, _ in ms), real, ins), scenario=[i, t, rt, ins])
        elif co is not None:
            ctx.count("refused:coincide:%s" % ("refusal-first" if real == ms[1][0] and real != ms[0][0] else "disconnection-first"))
    if worst is not None:
        i, t, rt, ins, real, missing = worst
        ctx.violation("C08:refused-heartbeat-ends-requests", "after a heartbeat that the socket refused (send buffer full) no request is emitted at %s although monitoring "
                      "is started and the link is up (interval %d, timeout %d ticks): %s" % (missing, i, t, real),
                      kind="history", judgement="beats-after-refusal", scenario=[i, t, rt, ins], implementation_output=real)
    ctx.coverage["rule"] += (
        " Refused heartbeats (the stub socket's send() raises the package's QueueOverflowError at marked instants): at the first heartbeat, at a "
        "later one, after an outage that ends just before a heartbeat instant, several in a row, for ever, before a stop / start, with the link "
        "going down at the very instant of the refusal (after it: forced by the stub; as an independent event of that instant: either order "
        "accepted), a mark while the link is down, and marks scattered over the random scenarios above; the recorded events (with `refused t`) "
        "compared with the Lean model extended by the label beatRefused (Model/HeartbeatX.lean, driver command hbx). These runs are NOT judged "
        "by the Spec monitor c08: it rejects every run in which a heartbeat is due while connected and none is sent, and for a full send buffer "
        "that is the residual known finding C08:api:skipped-beat-full-buffer, judged at API level below. The only independent judgement here is "
        "read from the property text: after the last refusal of a record the requests must go on every interval while monitoring is started "
        "and the link is up.")


def _run(ctx, interval, timeout, rt, ins):
    with warnings.catch_warnings():
        warnings.simplefilter("ignore")
        real = hbharness.run_scenario(interval, timeout, ins, reset_ticks=rt)
    return real


def _equal_time_hazard(ins, model_out, expiries, rt=0, sync=()):
    """responses/conn changes that land exactly on a model deadline or beat instant are order-dependent
    (`sync`: instants of `start` inputs - the first iteration of the heartbeat loop runs inside the handling of that input, so its
    order relative to the other inputs of the instant is the order of the input list)"""
    times = set(expiries)
    for ev in model_out:
        k, *a = ev.split()
        if k in ("beat", "refused") and int(a[-1]) in sync:
            continue
        if k in ("reset", "beat", "resetDone", "refused"):
            times.add(int(a[-1]))
        if k == "reset":
            times.add(int(a[-1]) + rt)        # the instant at which that reset completes
    return any(i[0] in ("resp", "conn", "stop", "finish") and i[-1] in times for i in ins)


def run(ctx, deep=False):
    thorough = deep or ctx.tier == "thorough"
    n = 4000 if thorough else 400
    cfgs = [(2400, 2640), (80, 120), (40, 48), (40, 104)]     # (the last: a timeout that tolerates a lost response, more than two intervals)
    ctx.coverage["rule"] = (
        "answer patterns over 1..6 consecutive heartbeats (answered after 1 tick / 1 s / just below / just above / well above the "
        "30 s margin / never), extra responses, outages, stop in the middle, three (interval, timeout) configurations incl. the "
        "defaults 300 s / 330 s, reset durations 1 and 9 ticks; the real HeartbeatManager on the virtual clock with a stub socket; "
        "its recorded events compared with the Lean model's simulation of the same inputs and judged by the Spec monitor c08. "
        "Scenarios where an input coincides with a deadline are skipped for the comparison (order unspecified), still judged.")
    rng = ctx.rng
    cases = []
    for (i, t) in cfgs:
        for ins in _fixed(i, t):
            cases.append((i, t, 1, ins))
    for _ in range(n):
        i, t = rng.choice(cfgs)
        cases.append((i, t, rng.choice([1, 9]), _scenario(rng, i, t)))
    reals = [_run(ctx, i, t, rt, ins) for (i, t, rt, ins) in cases]
    fmt = lambda ins: " ; ".join(" ".join(str(x) for x in e) for e in ins)
    models = ctx.driver(["hb %d %d %d %s" % (i, t, rt, fmt(ins)) for (i, t, rt, ins) in cases]) if ctx.driver_ok else [None] * len(cases)
    verdicts = ctx.oracle(["hbmon %d %d %s" % (i, t, " ; ".join(r)) for (i, t, rt, ins), r in zip(cases, reals)])
    worst = None
    for (i, t, rt, ins), real, model, v in zip(cases, reals, models, verdicts):
        ctx.case(json.dumps([i, t, rt, ins]), nontrivial=len(ins) > 3)
        ctx.count("resets", sum(1 for e in real if e.startswith("reset ")))
        ctx.count("beats", sum(1 for e in real if e.startswith("beat")))
        hazard = False
        m = None
        if model is not None:
            tr, _, ex = model.partition(" | ")
            m = tr.split(" ; ") if tr else []
            hazard = _equal_time_hazard(ins, m, [int(x) for x in ex.split()], rt)
        if hazard:
            ctx.count("skipped:input-coincides-with-deadline")
            continue
        if v != "1":
            if worst is None or len(ins) < len(worst[3]):
                worst = (i, t, rt, ins, real)
        if m is not None:
            if m != real:
                ctx.tie_broken("correspondence:heartbeat", "model %s != implementation %s on %s" % (m, real, ins), scenario=[i, t, rt, ins])
    if worst is not None:
        i, t, rt, ins, real = worst
        ctx.violation("C08:c08", "Spec.Heartbeat.c08 rejects the recorded heartbeat run (interval %d, timeout %d ticks): %s" % (i, t, real),
                      kind="history", scenario=[i, t, rt, ins], implementation_output=real, spec_verdict="c08 = false")
    refused_level(ctx, thorough, cfgs, fmt)
    api_level(ctx, thorough)
    ctx.sample({"interval": cases[0][0], "timeout": cases[0][1], "inputs": cases[0][3], "recorded": reals[0]})
    ctx.assumptions += ["timers fire when due (virtual clock)", "socket.send()/reset_connection() of the stub return promptly / after a fixed delay"]


# ------------------------------------------------------------------------------------------------ API level (wiring)
DELAYS = [1, 8, 239, 245, 300, None]      # no two of them differ by exactly timeout - interval (a response exactly on a deadline)


def _api_scenario(rng):
    n = rng.randint(2, 6)
    pattern = [rng.choice(DELAYS) for _ in range(n)]
    r = rng.random()
    if r < 0.25:
        pattern = pattern[:rng.randint(0, n - 1)] + [None]                 # the console stops answering for good
    elif r < 0.45:
        pattern = [rng.choice([1, 8, 239]) for _ in range(n)]              # every heartbeat answered within 30 s
    sc = dict(inst=fullstack.INST, version_answers=pattern, horizon=2400 * (n + 3) + rng.choice([7, 250, 1300]))
    if rng.random() < 0.5:
        sc["chatter"] = rng.choice([97, 701, 1999])       # unsolicited status frames: they are not heartbeat responses
    if rng.random() < 0.3:
        t = rng.randrange(50, 2400 * n) | 1
        if t % 2400 in (0, 240):
            t += 2
        sc["faults"] = [(t, rng.choice(["eof", "eof", "reset", "timeout", "unreach"]))]   # the link is lost once: it does not stay up
        if rng.random() < 0.5:
            sc["faults"] = [(t - 1, "refuse"), (t, "eof"), (t + rng.choice([9, 333, 2705]), "accept")]
    return sc


def _api_fmt(evs):
    return " ; ".join(" ".join(str(x) for x in e) for e in evs)


def _skipped_beat_shape(sc, evs):
    """exactly this history: the send buffer is full (10 commands accepted during an outage) when the connection comes back AT a heartbeat
    instant; that one heartbeat is not sent, the heartbeat loop goes on (later heartbeats are sent and answered), and the only reset is the
    one 330 s after the last response"""
    if len(sc.get("calls", [])) != 10 or sc.get("version_answers"):
        return False
    start = next((e[1] for e in evs if e[0] == "start"), None)
    if start is None:
        return False
    beats = [e[1] for e in evs if e[0] == "beat"]
    resps = [e[1] for e in evs if e[0] == "resp"]
    resets = [e[1] for e in evs if e[0] == "reset"]
    back = [e[2] for e in evs if e[0] == "conn" and e[1] == 1 and e[2] > start]
    if not back or (back[0] - start) % 2400 != 0:
        return False
    T = back[0]
    missing = [t for t in range(start, max(beats + [T]) + 1, 2400) if t not in beats]
    last_resp_before = max([r for r in resps if r < T] + [start])
    return missing == [T] and resets == [last_resp_before + 2640] and any(b > T for b in beats) and all(any(0 <= r - b <= 240 for r in resps) for b in beats)


def _started_once(evs):
    """None of these scenarios shuts the object down: from the application's point of view monitoring is started once, at the end of the
    handshake, and runs until the end of the run. A stop / start of the manager in between is the package's own doing and gives it no
    fresh timeout: such pairs are removed before the run is judged."""
    out, dropped = [], False
    for k, e in enumerate(evs):
        if e[0] == "stop" and k != len(evs) - 1:
            dropped = True
            continue
        if e[0] == "start" and dropped:
            dropped = False
            continue
        out.append(e)
    return out


def api_level(ctx, thorough):
    """the real AirTouch4/5 object over the real socket: which frame is the heartbeat, what counts as its response,
    when the connection is reset - judged by the same Spec monitor with the default 300 s / 330 s configuration"""
    rng = ctx.rng
    n = 120 if thorough else 16
    cases = []
    fixed = [dict(inst=fullstack.INST, version_answers=[None], horizon=8000),                # silent from the first heartbeat
             dict(inst=fullstack.INST, version_answers=[None], horizon=8000, chatter=301),   # ... while status traffic goes on
             dict(inst=fullstack.INST, version_answers=[1, None], horizon=8000),             # silent after a response
             dict(inst=fullstack.INST, version_answers=[239], horizon=2400 * 5 + 100),       # always answered just within 30 s
             # the console is unreachable for longer than init() waits: the handshake completes later, in the background -
             # "once initialised" the heartbeat must run all the same
             dict(inst=fullstack.INST, refuse_until=56, version_answers=[1, None], horizon=8000),
             dict(inst=fullstack.INST, refuse_until=200, version_answers=[None], horizon=8000, chatter=301)]
    # the application's commands pile up during an outage (up to the buffer's capacity) and the connection comes back AT a heartbeat
    # instant (attempts are 2 s apart: the loss instant E decides whether one of them lands on 300 s): the console answers everything,
    # the link stays up afterwards - heartbeats go on every 300 s and the connection is never reset
    for E in (2350, 2351, 2352, 2353):
        for ncalls in (9, 10):
            fixed.append(dict(inst=fullstack.INST, horizon=8000, faults=[(2300, "refuse"), (E, "eof"), (2399, "accept")],
                              calls=[(E + 1 + i // 3, ["power", "zone", "toggle"][i % 3]) for i in range(ncalls)]))
    # a congested link around a heartbeat instant: the write of the heartbeat is held up for 5 s .. 4 min (the console still gets the
    # request and answers; the link stays up): heartbeats go on every 300 s, no reset
    for t0, hold in ((2399, 40), (2399, 360), (2390, 1900), (4799, 360), (2400, 240)):
        fixed.append(dict(inst=fullstack.INST, horizon=10000, faults=[(t0, "block"), (t0 + hold, "unblock")]))
    # the application asks for updates of its own every 200 s .. 320 s while the console has gone silent: its requests are not heartbeat
    # responses - the dead link is reset 330 s after the last response all the same
    for pattern, first in (([None], 100), ([1, None], 2500), ([1, 8, None], 5001)):
        for every in (1600, 2560):
            fixed.append(dict(inst=fullstack.INST, version_answers=pattern, horizon=first + 9000, calls=[(first + k * every + 1, "updates") for k in range(6)]))
    for gen in (4, 5):
        for sc in fixed + [_api_scenario(rng) for _ in range(n)]:
            cases.append((gen, sc))
    # an AirTouch 5 system without zones finishes its handshake through the echoed zone status request: the heartbeat runs there too
    cases.append((5, dict(inst=fullstack.INST0, version_answers=[None], horizon=8000)))
    cases.append((5, dict(inst=fullstack.INST0, version_answers=[1, 239, None], horizon=12000, chatter=701)))
    lines = []
    runs = []
    for gen, sc in cases:
        b = fullstack.run(gen, sc)
        evs = b["hb_events"]
        if "initialised=True" in b["view"] and not any(e[0] == "start" for e in evs):
            # the object reports initialised, yet the heartbeat manager was never started: a heartbeat is due at once
            evs = [("conn", 1, 0), ("start", b.get("init_done_at") or 0)] + evs
        evs = _started_once([e for e in evs if e[0] != "appreq"])
        runs.append(evs)
        lines.append("hbmon 2400 2640 %s" % _api_fmt(evs))
    verdicts = ctx.oracle(lines)
    worst = None
    for (gen, sc), evs, v in zip(cases, runs, verdicts):
        ctx.case(("api", gen, json.dumps({k: sc[k] for k in sc if k != "inst"}, sort_keys=True)))
        ctx.count("api:resets", sum(1 for e in evs if e[0] == "reset"))
        ctx.count("api:beats", sum(1 for e in evs if e[0] == "beat"))
        ctx.count("api:%s" % ("link-faults" if sc.get("faults") else "link-up"))
        if not any(e[0] == "start" for e in evs):
            ctx.tie_broken("C08:api-console-script", "the scripted console no longer brings the AirTouch %d object to the initialised state" % gen)
            continue
        if v != "1" and _skipped_beat_shape(sc, evs):
            # the one history listed in known_findings.txt: its own key, so that any other rejected run is still reported
            ctx.violation("C08:api:skipped-beat-full-buffer", "AirTouch %d over the real socket: %s" % (gen, _api_fmt(evs)), kind="history", level="api", gen=gen,
                          scenario={k: sc[k] for k in sc if k != "inst"}, implementation_output=[list(e) for e in evs], spec_verdict="c08 = false")
            continue
        if v != "1" and (worst is None or len(evs) < len(worst[2])):
            worst = (gen, sc, evs)
    if worst is not None:
        gen, sc, evs = worst
        ctx.violation("C08:api:%d" % gen, "AirTouch %d over the real socket: Spec.Heartbeat.c08 (300 s / 330 s) rejects the recorded run %s (console answers to heartbeats: %s, faults %s)" % (
            gen, _api_fmt(evs), sc.get("version_answers"), sc.get("faults")), kind="history", level="api", gen=gen,
            scenario={k: sc[k] for k in sc if k != "inst"}, implementation_output=[list(e) for e in evs], spec_verdict="c08 = false")
    ctx.coverage["rule"] += (
        " API level: the real AirTouch4 / AirTouch5 object over the real socket against a scripted console whose answers to the heartbeat "
        "requests follow a pattern (delay 1 / 8 / 239 / 245 / 300 ticks or never, per heartbeat), with and without a console-side close and a "
        "refusing network for a while, and with the application's commands filling the send buffer during an outage that ends at a heartbeat instant, and with a congested link holding up the heartbeat's write for up to 4 min; events start / conn / beat (a console-version request written after initialisation) / resp (the console's "
        "version answer) / reset (reset_connection called by the heartbeat manager) judged by the Spec monitor with the package's default configuration.")


def search(ctx):
    if ctx.tier != "thorough":
        run(ctx, deep=True)


def replay(ctx, data):
    if data.get("level") == "api":
        sc = dict(data["scenario"], inst=fullstack.INST)
        if sc.get("faults"):
            sc["faults"] = [tuple(f) for f in sc["faults"]]
        if sc.get("calls"):
            sc["calls"] = [tuple(c) for c in sc["calls"]]
        evs = _started_once([e for e in fullstack.run(data["gen"], sc)["hb_events"] if e[0] != "appreq"])
        v = ctx.oracle(["hbmon 2400 2640 %s" % _api_fmt(evs)])[0]
        print(evs, "-> c08 =", v)
        return 0 if v == "1" else 1
    i, t, rt, ins = data["scenario"]
    if data.get("judgement") == "beats-after-refusal":
        ins = [tuple(x) for x in ins]
        real = hbharness.run_scenario(i, t, ins, reset_ticks=rt)
        missing = _beats_missing_after_refusal(i, ins, real)
        print(real, "-> no request at", missing)
        return 1 if missing else 0
    real = hbharness.run_scenario(i, t, [tuple(x) for x in ins], reset_ticks=rt)
    v = ctx.oracle(["hbmon %d %d %s" % (i, t, " ; ".join(real))])[0]
    print(real, "-> c08 =", v)
    return 0 if v == "1" else 1
