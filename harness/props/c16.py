"""C16 — pending-message buffer is bounded and overflow is explicit."""
import sockcheck
import sockgen

LEAN_MODULES = ["PyAirtouch.Props.C16"]
LEVEL = "proof"
MONITORS = ["c16", "c02b", "c01a"]


def _exact_cases():
    """deterministic members around the capacity: 9..12 sends, with and without an expiring entry"""
    out = []
    for n in (9, 10, 11, 12, 13):
        out.append(("outage", sockgen.outage_exact(n, ["idem"], [0], 24)))
        out.append(("outage", sockgen.outage_exact(n, ["conn", "idem", "nonidem"], [0, 1, 0], 24)))
        out.append(("outage", sockgen.outage_exact(n, ["conn", "idem"], [3, 3, 3], 24)))     # 'conn' entries expire on the way
        out.append(("outage", sockgen.outage_exact(n, ["idem"], [0, 0, 0, 0, 0, 0, 0, 0, 0, 241], 24)))
    out.append(("outage", [("send", 1, "ok", "idem"), ("open",), ("send", 2, "ok", "idem"), ("adv", 8)]))   # send before open
    # the same through the second public entry point send_with_header() (ids 3, 7, 11, ... use it): before the first open, and
    # after a close - refused with not-open, nothing held, nothing transmitted once the socket is opened
    out.append(("outage", [("send", 3, "ok", "idem"), ("net", "accept"), ("open",), ("adv", 8), ("send", 7, "ok", "idem"), ("adv", 8)]))
    out.append(("outage", [("net", "refuse"), ("open",), ("adv", 4), ("send", 3, "ok", "idem"), ("close",), ("adv", 4), ("send", 7, "ok", "idem"), ("send", 11, "ok", "conn"),
                           ("net", "accept"), ("open",), ("adv", 24)]))
    # held messages flushed onto a congested link: the first write blocks in drain() while the clock moves on, so entries held
    # behind it expire DURING the flush - they must be discarded when their turn comes, not transmitted late
    for wait in (3, 5, 6, 7, 8, 9, 12, 40):
        for lat in (1, 2):
            out.append(("outage", [("net", "accept"), ("lat", lat), ("blockfirst", 1), ("open",), ("send", 1, "ok", "idem"), ("send", 2, "ok", "conn"),
                                   ("send", 3, "ok", "idem"), ("send", 4, "ok", "conn"), ("adv", lat + wait), ("blockfirst", 0), ("block", 0), ("adv", 16)]))
            # ... and with the short-lived message at the head: it is written at once when the connection comes up (the congestion only
            # holds up the flush that follows the write), never after its lifetime
            out.append(("outage", [("net", "accept"), ("lat", lat), ("blockfirst", 1), ("open",), ("send", 1, "ok", "conn"), ("send", 2, "ok", "idem"),
                                   ("adv", lat + wait), ("blockfirst", 0), ("block", 0), ("adv", 16)]))
    # a held message survives a failed flush (the write fails on a connection that has died, it goes back for a retry), the link then
    # stays down past the lifetime its sender asked for, and the buffer is filled: the old message has expired - it occupies no slot
    # (the tenth fresh message is accepted) and is not transmitted on the next connection
    for k in (1, 5, 12):
        for fresh in (9, 10, 11):
            for pol in ("idem", "nonidem"):
                # connecting takes 2 ticks; attempt k starts at 18k and ends at 18k+2: that one is accepted but its first write fails, the
                # immediate next attempt (ending at 18k+4) and all later ones are refused until the end
                sc = [("net", "refuse"), ("lat", 2), ("open",), ("adv", 1), ("send", 1, "ok", pol), ("adv", 18 * k), ("failfirst", 1), ("net", "accept"), ("adv", 2),
                      ("net", "refuse"), ("failfirst", 0), ("adv", 250 - (18 * k + 3))]
                sc += [("send", 2 + i, "ok", "idem") for i in range(fresh)]
                sc += [("net", "accept"), ("adv", 40)]
                out.append(("outage", sc))
    # lifetimes of the caller's own choosing, through both entry points (ids 3, 7, 11 use send_with_header): a message that is expired on
    # arrival (lifetime 0) never occupies a slot once the next message is queued and is never transmitted
    for pol in ("zero", "brief", "long"):
        for n in (9, 10, 11):
            sc = [("net", "refuse"), ("open",), ("adv", 1)] + [("send", i, "ok", pol) for i in range(1, n + 1)] + [("adv", 2)]
            sc += [("send", 20 + i, "ok", "idem") for i in range(10)] + [("net", "accept"), ("adv", 24)]
            out.append(("outage", sc))
    # a connection subscriber that sends from inside its `connected` notification (as the API objects do: version / status requests):
    # at that moment the socket calls itself connected while the held messages are still in the buffer.  Expired ones among them must
    # be discarded first, exactly as for a send made while the link is down - the subscriber's message is accepted
    for n_long, n_short in ((4, 6), (0, 10), (9, 1), (5, 5)):
        for gap in (9, 40):
            sc = [("subsend", 50, "ok", "conn"), ("net", "refuse"), ("open",), ("adv", 1)]
            sc += [("send", 1 + i, "ok", "idem") for i in range(n_long)] + [("send", 20 + i, "ok", "conn") for i in range(n_short)]
            sc += [("adv", gap), ("net", "accept"), ("adv", 24)]
            out.append(("outage", sc))
    # two sessions: messages held when the client is closed are not held (and not transmitted) in the next session - the buffer of a
    # re-opened client is empty, so ten new messages are accepted and exactly those are flushed
    for held in (1, 5, 10):
        for again in (1, 10, 11):
            sc = [("net", "refuse"), ("open",), ("adv", 1)] + [("send", i, "ok", "idem") for i in range(1, held + 1)]
            sc += [("close",), ("adv", 4), ("open",), ("adv", 1)] + [("send", 20 + i, "ok", "idem") for i in range(again)] + [("net", "accept"), ("adv", 24)]
            out.append(("outage", sc))
    return out


def _requeued_then_expired(ctx, gen):
    """a message that is in flight on a congested link when another one expires and a further send discards that one; the link then dies,
    the in-flight message comes back for a retry, the outage lasts beyond ITS lifetime, and the buffer is filled: it has expired - it
    occupies no slot (ten fresh messages are accepted, the eleventh is refused) and is not transmitted on the next connection.
    (Write faults are outside the bounded-FIFO monitor's histories: judged here directly and by the loss / expiry monitors.)"""
    import json
    scripts = []
    for wait in (9, 20):
        for fresh in (9, 10, 11):
            sc = [("net", "refuse"), ("open",), ("adv", 1), ("send", 1, "ok", "idem"), ("send", 2, "ok", "conn"), ("blockfirst", 1), ("net", "accept"), ("adv", 16 + wait),
                  ("send", 3, "ok", "idem"), ("turn", 2), ("net", "refuse"), ("blockfirst", 0), ("peer", "reset"), ("adv", 245 - (17 + wait))]
            sc += [("send", 20 + i, "ok", "idem") for i in range(fresh)] + [("net", "accept"), ("adv", 24)]
            scripts.append((fresh, sc))
    for (fresh, sc), r in zip(scripts, sockcheck.run_scripts([s_ for _, s_ in scripts], gen=gen)):
        if "error" in r:
            raise RuntimeError("socket harness failed on %r: %s" % (sc, r["error"]))
        ctx.case(("requeued-then-expired", gen, json.dumps(sc)))
        acc = [int(l.split()[1]) for l in r["obs"] if l.startswith("accept ")]
        rej = [int(l.split()[1]) for l in r["obs"] if l.startswith("reject ")]
        late = [l for l in r["obs"] if l.startswith("wire ") and int(l.split()[2]) == 1 and int(l.split()[3]) > 241]
        want_acc = [20 + i for i in range(min(fresh, 10 - 1))]          # message 3 (lifetime until 26x) still holds one slot
        why = None
        if late:
            why = "message 1 (accepted at tick 1, lifetime 30 s) was transmitted at tick %s" % late[0].split()[3]
        elif [a for a in acc if a >= 20] != want_acc:
            why = "with one unexpired message held, %d fresh messages were accepted (%s), %d refused; nine find room" % (len([a for a in acc if a >= 20]), [a for a in acc if a >= 20], len(rej))
        if why:
            ctx.violation("C16:requeued-then-expired", "script %s: %s" % (json.dumps(sc), why), kind="history", monitor="c16", script=sc, gen=gen,
                          implementation_output=r["obs"], spec_verdict=why)
            return


def _full_buffer_reset_window(ctx, gen):
    """ten messages are held when the link comes up; the connection is half-open (its first write fails, the message goes back for a
    retry, the client resets the connection and connects again); another task sends an eleventh message k loop passes into all that.
    It is refused for as long as ten unexpired messages are held - none of them has been written or discarded yet (the instant in which
    the failed message is on its way back to the buffer is left out: O19)."""
    import json
    scripts = []
    for k in range(0, 14):
        for lat in (0, 1):
            sc = [("net", "refuse"), ("lat", lat), ("open",), ("adv", 1)] + [("send", i, "ok", "idem") for i in range(1, 11)]
            sc += [("failnext",), ("net", "accept"), ("adv", 15), ("turn", k), ("send", 11, "ok", "idem"), ("adv", 40)]
            scripts.append(sc)
    for sc, r in zip(scripts, sockcheck.run_scripts(scripts, gen=gen)):
        if "error" in r:
            raise RuntimeError("socket harness failed on %r: %s" % (sc, r["error"]))
        ctx.case(("full-buffer-reset-window", gen, json.dumps(sc)))
        held = set()
        in_flight = False       # between the failing write and the disconnected notification the failed message is on its way back to the
                                # buffer (in flight, O19): what is accepted in that instant is not judged
        for l in r["obs"]:
            w = l.split()
            if w[0] == "writeFault":
                in_flight = True
            elif w[0] == "notify" and w[1] == "0":
                in_flight = False
            if w[0] == "accept":
                if int(w[1]) == 11 and len(held) >= 10 and not in_flight:
                    why = "an eleventh message was accepted while ten unexpired messages were held (%s), none of them written or discarded yet" % sorted(held)
                    ctx.violation("C16:full-buffer-reset-window", "script %s: %s" % (json.dumps(sc), why), kind="history", monitor="c16", script=sc, gen=gen,
                                  implementation_output=r["obs"], spec_verdict=why)
                    return
                held.add(int(w[1]))
            elif w[0] == "wire":
                held.discard(int(w[2]))
            elif w[0] == "qdrop":
                held.discard(int(w[1]))
        ctx.count("full-buffer-reset-window:%s" % ("eleventh-refused" if any(l.startswith("reject 11 ") for l in r["obs"]) else "eleventh-accepted-after-flush"))


def _nontrivial(script, r):
    return sum(1 for op in script if op[0] == "send") >= 2


def run(ctx, deep=False):
    thorough = deep or ctx.tier == "thorough"
    n = 15000 if thorough else 1000
    ctx.coverage["rule"] = (
        "scripts of the property's quantifier: sends with mixed lifetimes (1 s / 30 s) and clock advances while every "
        "connection attempt is refused, then a connection; run on the real AirTouchSocket (AT4 and AT5 registries) on a "
        "virtual clock; judged by the Spec bounded-FIFO monitor (accept / overflow / not-open decisions and the frames finally "
        "written) and replayed block by block against the Lean model. distinct = distinct scripts; non-trivial = at least two sends")
    for gen in (4, 5):
        items = _exact_cases() + sockcheck.gen_scripts(ctx.seed * 31 + gen, [("outage", n)])
        good = sockcheck.judge_family(ctx, "C16", items, MONITORS, gen=gen, nontrivial=_nontrivial)
        sockcheck.validate_against_model(ctx, good, "AT%d" % gen)
        # the buffer holds MORE than its nominal capacity when in-flight commands come back for a retry: nothing may fall off the other
        # end silently (overflow is explicit or it does not happen) - the scripts of C01's full-buffer family, judged for silent loss
        _requeued_then_expired(ctx, gen)
        _full_buffer_reset_window(ctx, gen)
        from props import c01
        good = sockcheck.judge_family(ctx, "C16", c01._full_buffer_requeue(), ["c01a", "c01d"], gen=gen, nontrivial=_nontrivial)
        # open_socket() called again on a client that is open already (an application that calls init() once more after it returned False):
        # "leaves the held ones untouched" - they are transmitted when the connection comes up
        sockcheck.judge_family(ctx, "C16", c01._redundant_open(), ["c01a", "c01c", "c01d"], gen=gen, nontrivial=_nontrivial)
        sockcheck.validate_against_model(ctx, good, "AT%d" % gen)
    ctx.assumptions += ["the in-memory transport stands in for the kernel's TCP stack", "times are multiples of 1/8 s"]


def search(ctx):
    if ctx.tier != "thorough":
        run(ctx, deep=True)


def replay(ctx, data):
    return sockcheck.replay(ctx, data)
