"""C01 — accepted commands reach the wire once each, in order, unsubstituted."""
import json

import sockcheck
import sockgen

LEAN_MODULES = ["PyAirtouch.Props.C01", "PyAirtouch.Props.C01Order", "PyAirtouch.Props.C01Loss", "PyAirtouch.Props.C01Cancel"]
LEVEL = "proof"
MONITORS = ["c01a", "c01b", "c01c", "c01d", "c02a", "c02b"]


def _long_run(n):
    s = [("net", "accept"), ("open",), ("adv", 8)]
    for i in range(n):
        s.append(("send", i + 1, "ok", ["idem", "nonidem", "conn"][i % 3]))
        if i % 7 == 0:
            s.append(("turn", 1))
        if i % 50 == 49:
            s.append(("adv", 1))
    s.append(("adv", 8))
    return s


def _reset_window():
    """a command accepted while ANOTHER task is in the middle of resetting the connection (API reset, a frame the read loop
    rejects, a write fault of another message): no write of this command fails, a connection exists again at once, so it
    must be transmitted"""
    out = []
    for trigger in ([("reset",)], [("peer", "badcrc")], [("peer", "garbage")], [("peer", "eof")], [("failw", 1), ("send", 50, "ok", "idem")]):
        for k in range(0, 6):
            for pol in ("idem", "nonidem"):
                out.append(("faults", [("net", "accept"), ("open",), ("adv", 8), ("turn", 3)] + trigger
                            + [("turn", k), ("send", 1, "ok", pol), ("send", 2, "ok", "idem"), ("adv", 8), ("heal",)]))
    return out


def _full_buffer_requeue():
    """the buffer is full (10 held during an outage) when the link comes up congested: the first flush blocks, further commands are
    accepted into the room the flush made and block too, then the connection fails and every in-flight command with retries left
    goes back to the HEAD of the buffer, which thereby holds more than its nominal capacity.  Nothing may fall off the other end:
    every accepted command is written on the next connection, is dropped with a reason, or is still held."""
    out = []
    for extra in (1, 2, 3):
        for fail in ([("peer", "reset")], [("peer", "eof")], [("peer", "timeout")]):
            for k in (0, 1, 3):
                sc = [("net", "refuse"), ("open",), ("adv", 1)] + [("send", i, "ok", "idem") for i in range(1, 11)]
                sc += [("blockfirst", 1), ("net", "accept"), ("adv", 17)]
                for j in range(extra):
                    sc += [("send", 11 + j, "ok", "idem"), ("turn", 1)]
                sc += [("turn", k)] + fail + [("blockfirst", 0), ("adv", 40), ("heal",)]
                out.append(("faults", sc))
    return out


def _redundant_open():
    """open_socket() on a client that is already open is a no-op: messages accepted before it (held for a down link, or in flight) are
    still transmitted, once, in order"""
    out = []
    for before in (1, 2, 5):
        for mode in ("refuse", "latency"):
            sc = [("net", "refuse")] if mode == "refuse" else [("net", "accept"), ("lat", 6)]
            sc += [("open",), ("adv", 1)] + [("send", i, "ok", "idem") for i in range(1, before + 1)] + [("open",), ("turn", 1), ("send", 20, "ok", "idem"), ("open",)]
            sc += [("net", "accept"), ("adv", 24), ("heal",)]
            out.append(("faults", sc))
    out.append(("faults", [("net", "accept"), ("open",), ("adv", 8), ("block", 1), ("send", 1, "ok", "idem"), ("send", 2, "ok", "idem"), ("open",), ("turn", 2), ("block", 0), ("adv", 8), ("heal",)]))
    return out


def _cancel_window(ctx, gen):
    """the caller of one send() gives up (its task is cancelled, as a timeout around the call does) while the link is congested
    and other commands are in flight: the connection stays up and no write fails, so every OTHER accepted command is still
    transmitted exactly once and in order, promptly once the congestion clears, and the cancelled one is never written twice"""
    import sockobs
    scripts = []
    for k in range(0, 5):
        for j in range(0, 4):
            scripts.append([("net", "accept"), ("open",), ("adv", 8), ("send", 1, "ok", "idem"), ("adv", 1), ("block", 1), ("send", 2, "ok", "idem"), ("turn", k),
                            ("send", 3, "ok", "nonidem"), ("send", 5, "ok", "idem"), ("turn", j), ("cancel", 2), ("turn", 2), ("block", 0), ("adv", 8),
                            ("send", 6, "ok", "idem"), ("adv", 8)])
            scripts.append([("net", "accept"), ("open",), ("adv", 8), ("block", 1), ("send", 1, "ok", "idem"), ("turn", k), ("send", 2, "ok", "idem"), ("turn", j),
                            ("cancel", 1), ("turn", 1), ("block", 0), ("adv", 40)])
    results = sockcheck.run_scripts(scripts, gen=gen)
    for sc, r in zip(scripts, results):
        if "error" in r:
            raise RuntimeError("socket harness failed on %r: %s" % (sc, r["error"]))
    # the tie: every recorded run, the cancellation included (`vl cancel <task>` = label `cancel` of Sock.stepX, Model/SockX.lean),
    # is replayed block by block against the Lean model
    sockcheck.validate_against_model(ctx, [("cancel-window", sc, r) for sc, r in zip(scripts, results)], "AT%d cancel-window" % gen)
    ctx.count("cancel_labels_replayed", sum(1 for r in results for l in sockobs.validation_lines(r) if l.startswith("vl cancel ")))
    for sc, r in zip(scripts, results):
        ctx.case(("cancel-window", gen, json.dumps(sc)))
        cancelled = [op[1] for op in sc if op[0] == "cancel"]
        accepted = [int(l.split()[1]) for l in r["obs"] if l.startswith("accept ")]
        wires = [int(l.split()[2]) for l in r["obs"] if l.startswith("wire ")]
        why = None
        for sid in accepted:
            n = wires.count(sid)
            if sid in cancelled:
                if n > 1:
                    why = "the cancelled command %d was transmitted %d times" % (sid, n)
            elif n != 1:
                why = "command %d was accepted, the connection stayed up and no write failed, yet it was transmitted %d times by the end of the run" % (sid, n)
        order = [s for s in wires if s not in cancelled]
        if why is None and order != [s for s in accepted if s in order]:
            why = "commands reached the wire in the order %s, accepted in the order %s" % (order, accepted)
        if why:
            ctx.violation("C01:cancel-window", "a caller of send() was cancelled on a congested link (script %s): %s" % (json.dumps(sc), why), kind="history",
                          monitor="cancel-window", script=sc, gen=gen, implementation_output=r["obs"], spec_verdict=why)
            return


def _cancel_reset_window():
    """the caller of a send() is cancelled while it is tearing the connection down after a failed write (inside the shielded wait for
    the transport to close, inside the disconnect notification) or while another task resets / the peer ends the connection: safety
    (nothing unsubmitted, at most once and in order without a fault, every drop justified) must hold whatever the caller does, and the
    Lean model must follow the recording, cancellation included"""
    out = []
    for k in range(0, 7):
        out.append(("cancel", [("net", "accept"), ("open",), ("adv", 8), ("failw", 1), ("send", 1, "ok", "idem"), ("turn", k), ("cancel", 1), ("adv", 40),
                               ("send", 2, "ok", "idem"), ("adv", 8)]))
        out.append(("cancel", [("net", "accept"), ("open",), ("adv", 8), ("failw", 1), ("send", 1, "ok", "nonidem"), ("send", 3, "ok", "idem"), ("turn", k), ("cancel", 3),
                               ("turn", 1), ("cancel", 1), ("adv", 40), ("send", 2, "ok", "idem"), ("adv", 8)]))
        for trigger in ([("peer", "reset")], [("peer", "eof")], [("reset",)]):
            out.append(("cancel", [("net", "accept"), ("open",), ("adv", 8), ("block", 1), ("send", 1, "ok", "idem"), ("turn", 1)] + trigger
                        + [("turn", k), ("cancel", 1), ("adv", 40), ("send", 2, "ok", "idem"), ("adv", 8)]))
    return out


def _nontrivial(script, r):
    return sum(1 for op in script if op[0] == "send") >= 2


def run(ctx, deep=False):
    thorough = deep or ctx.tier == "thorough"
    k = 20 if thorough else 4
    ctx.coverage["rule"] = (
        "script families: outage (1..14 sends of mixed policies queued while refused, then a connection), steady (sends from "
        "several tasks while connected, connect latency 0..3 ticks), a run of 300+ sends past the 256-value packet counter, and "
        "fault scripts; real AirTouchSocket with AT4 and AT5 registries; wire bytes matched against the frame of each accepted "
        "send; reset-window scripts (a command accepted k = 0..5 loop passes after another task started resetting the connection); monitors "
        "wireOnlySubmitted / onceInOrderWithoutFault / deliveredWhenPossible / noSilentLoss (every drop has a true reason; after the network heals every "
        "accepted message has been written, has failed a write or was dropped); every run replayed block by block "
        "against the Lean model, including the cancel-window runs (a caller of send() cancelled while blocked in drain() on a congested link, "
        "while tearing the connection down after a failed write, or while another task resets it): the harness's cancellation is followed by the "
        "label `cancel` of the extended model. distinct = distinct scripts; non-trivial = at least two sends")
    plan = [("outage", 150 * k), ("steady", 100 * k), ("faults", 100 * k)]
    for gen in (4, 5):
        items = sockcheck.gen_scripts(ctx.seed * 131 + gen, plan)
        items.append(("steady", _long_run(320 if not thorough else 1000)))
        items += _reset_window()
        items += _full_buffer_requeue()
        items += _redundant_open()
        good = sockcheck.judge_family(ctx, "C01", items, MONITORS, gen=gen, nontrivial=_nontrivial)
        sockcheck.validate_against_model(ctx, good, "AT%d" % gen)
        _cancel_window(ctx, gen)
        good = sockcheck.judge_family(ctx, "C01", _cancel_reset_window(), ["c01a", "c01b", "c01d"], gen=gen, nontrivial=_nontrivial)
        sockcheck.validate_against_model(ctx, good, "AT%d cancel-reset-window" % gen)
    ctx.assumptions += ["cancellation is modelled for callers suspended inside the socket (label `cancel` of Model/SockX.lean, theorems Props/C01Cancel.lean) and "
                        "exercised for callers of send(); a caller cancelled before its coroutine has started has not called the socket",
                        "partial writes / the kernel send buffer are below the model (owned by asyncio's transport)"]


def search(ctx):
    if ctx.tier != "thorough":
        run(ctx, deep=True)


def replay(ctx, data):
    return sockcheck.replay(ctx, data)
