"""C03 — every message frames and parses back identically, lengths agree."""
import codec
import codeccheck

LEAN_MODULES = ["PyAirtouch.Props.C03", "PyAirtouch.Props.C03Frame"]
LEVEL = "proof"


def run(ctx, deep=False):
    thorough = deep or ctx.tier == "thorough"
    n = 6000 if thorough else 500
    ctx.coverage["rule"] = (
        "for each of the 22 message modules (all 36 message / request classes): every byte value at every position of one "
        "record over 5 base patterns, %s structured payloads from the module's grammar-aware generator (0..16 records, "
        "both AT4 ability formats, multi-byte UTF-8 names, strides >= known size, truncated / mis-announced lengths)%s; the real "
        "decoder's outcome (canonical message text or exception class) is compared with the Lean model's, the real encoder's "
        "size()/encode() on every decoded message with the model's, and for every *well-formed* decoded message (wfBool, proved "
        "equivalent to WF) the implementation's own round trip is judged: announced length == bytes produced, "
        "decode(encode(m)) == m, nothing left over. distinct = distinct (module, payload, header) triples"
        % (n, ", every 16-bit value of adjacent byte pairs" if thorough else ""))
    for mod in codec.MODULES:
        mod.load()
        codeccheck.run_module(ctx, mod, n, prop="C03", pairs=thorough)
    import frame_try
    total = 0
    for gen in (4, 5):
        total += frame_try.run_gen(ctx, gen, 800 if thorough else 100)
    ctx.count("whole-frames", total)
    constructed_texts(ctx, frame_try)
    special_header_registers(ctx, frame_try)
    # several messages of varying size accepted while the link is down and flushed together (each is sized when accepted, encoded
    # when flushed): every frame on the wire is the frame of its own message
    import sockcheck
    for gen in (4, 5):
        items = []
        for n_msgs in (2, 3, 5):
            for start in (5, 12, 3):
                sids = [start + 7 * i for i in range(n_msgs)] + [start + 1, start + 2]
                items.append(("outage", [("net", "refuse"), ("open",), ("adv", 1)] + [("send", s_, "ok", "idem") for s_ in sids] + [("net", "accept"), ("adv", 24)]))
        sockcheck.judge_family(ctx, "C03", items, ["c01a", "c01b"], gen=gen)
    ctx.assumptions += ["float arithmetic of the temperature conversions is bridged by the exhaustive comparison over all raw values, not proved",
                        "whole-frame path (header factory, wrappers, CRC, receive path) is covered by the frame differential (frame_try: real send path and real _read_one_message against the model's frameOf / parse; whole-frame round trip judged for well-formed messages)"]


def constructed_texts(ctx, frame_try):
    """messages built by an application (not obtained from a decoder) whose length-prefixed text fields hold awkward texts - among them
    texts that end in, or consist of, NUL characters: through the real send path and back through the real receive path the message
    arrives as it was sent (fixed-width fields, where trailing NULs are padding, are not in this family)"""
    import importlib
    texts = [t.decode() for t in codec.AWKWARD_TEXTS] + ["Den\x00\x00", "\x00", "a\x00", "", "Kitchen", "\x00x"]
    for gen in (4, 5):
        real = frame_try.Real(gen)
        msgs = []
        ver = importlib.import_module("pyairtouch.at%d.comms.x1FFF30_console_ver" % gen)
        ext = importlib.import_module("pyairtouch.at%d.comms.x1F_ext" % gen)
        for t in texts:
            if "," not in t and "|" not in t:
                msgs.append(("console version", ver.ConsoleVersionMessage(update_available=False, versions=[t, "1.0"] if t else ["1.0"])))
        if gen == 5:
            zn = importlib.import_module("pyairtouch.at5.comms.x1FFF13_zone_names")
            for i, t in enumerate(texts):
                msgs.append(("zone names", zn.ZoneNamesMessage(zone_names={i % 16: t, (i + 1) % 16: "Bed"})))
        for what, m in msgs:
            wire, data = real.send(ext.ExtendedMessage(m), 7)
            ctx.case(("constructed-text", gen, what, repr(m)))
            if data is None:
                ctx.count("constructed-text:%s:%s" % (what, wire.split(":")[1] if ":" in wire else wire))
                continue
            txt, hm = real.read_one(data)
            ctx.count("constructed-text:%s:%s" % (what, "back" if hm is not None else txt.split(" ")[0]))
            if hm is None or hm[1] != ext.ExtendedMessage(m):
                ctx.violation("C03:%d:constructed-text" % gen, "AirTouch %d %s message %r: sent as %s, received as %s" % (gen, what, m, data.hex(), txt[:300]), kind="input",
                              gen=gen, implementation_output=txt[:300], spec_verdict="the message that was sent")
                break


def special_header_registers(ctx, frame_try):
    """frames whose CRC register has a special value (0x0000, 0xFFFF, 0x00FF, 0xFF00) when the header section has been covered and the
    payload is about to be: the real send path must still produce the check bytes of the whole covered section (judged by the independent
    CRC of the Spec) and the real receive path must hand the message back. About one header in 16000 is of this kind: packet id and
    message length are searched for (console version messages of 0..250 characters, all 256 packet ids)."""
    import dataclasses
    import importlib
    for gen in (4, 5):
        real = frame_try.Real(gen)
        ver = importlib.import_module("pyairtouch.at%d.comms.x1FFF30_console_ver" % gen)
        ext = importlib.import_module("pyairtouch.at%d.comms.x1F_ext" % gen)
        mk = lambda n: ext.ExtendedMessage(ver.ConsoleVersionMessage(update_available=False, versions=["v" * n]))
        wire, data = real.send(mk(1), 0)
        if data is None:
            ctx.tie_broken("C03:send-path", "the send path no longer transmits a console version message: %s" % wire)
            continue
        h0 = real.read_one(data)[1][0]
        base = h0.message_length - 1
        hits = []
        for n in range(0, 251):          # (the text length is one byte)
            for pid in range(256):
                eh = real.reg.header_encoder.encode(dataclasses.replace(h0, packet_id=pid, message_length=base + n))
                if real.crc(bytes(eh.checksum_data)) in (b"\x00\x00", b"\xff\xff", b"\x00\xff", b"\xff\x00"):
                    hits.append((n, pid))
        sent = []
        for n, pid in hits[:40]:
            m = mk(n)
            wire, data = real.send(m, pid)
            sent.append((n, pid, m, data, wire))
        want = ctx.oracle(["crc " + (codec.hx(bytes(d[real.cs_start:-2])) if d else "-") for _, _, _, d, _ in sent]) if sent else []
        for (n, pid, m, data, wire), w in zip(sent, want):
            ctx.case(("special-header-register", gen, n, pid))
            ctx.count("special-header-register:%d" % gen)
            why = None
            if data is None:
                ctx.count("special-header-register:unencodable")
                continue
            if data[-2:].hex() != w.lower():
                why = "the frame ends in check bytes %s, the CRC-16/MODBUS of the covered bytes is %s" % (data[-2:].hex(), w)
            else:
                txt, hm = real.read_one(data)
                if hm is None or hm[1] != m:
                    why = "the receive path answers %s" % txt[:120]
            if why:
                ctx.violation("C03:%d:special-header-register" % gen, "AirTouch %d console version message of %d characters sent with packet id %d (the CRC register is 0x0000 / 0xFFFF / "
                              "0x00FF / 0xFF00 after the header section): %s" % (gen, n, pid, why), kind="input", gen=gen, chars=n, packet_id=pid,
                              implementation_output=why, spec_verdict="check bytes of the whole covered section; the message comes back")
                break


def search(ctx):
    if ctx.tier != "thorough":
        run(ctx, deep=True)


def replay(ctx, data):
    if "script" in data:
        import sockcheck
        return sockcheck.replay(ctx, data)
    if str(data.get("key", "")).endswith("constructed-text"):
        import frame_try
        n = len(ctx.violations)
        constructed_texts(ctx, frame_try)
        for v in ctx.violations[n:]:
            print(v.get("what") if isinstance(v, dict) else v)
        return 1 if len(ctx.violations) > n else 0
    return codeccheck.replay_roundtrip(ctx, data)
