"""C03 — every message frames and parses back identically, lengths agree."""
import codec
import codeccheck

LEAN_MODULES = ["PyAirtouch.Props.C03", "PyAirtouch.Props.C03Frame"]
LEVEL = "proof"


def run(ctx, deep=False):
    thorough = deep or ctx.tier == "thorough"
    n = 6000 if thorough else 500
    ctx.coverage["rule"] = (
        "for each of the 22 message modules (all 36 message / request classes): every byte value at every position of one "
        "record over 5 base patterns, %s structured payloads from the module's grammar-aware generator (0..16 records, "
        "both AT4 ability formats, multi-byte UTF-8 names, strides >= known size, truncated / mis-announced lengths)%s; the real "
        "decoder's outcome (canonical message text or exception class) is compared with the Lean model's, the real encoder's "
        "size()/encode() on every decoded message with the model's, and for every *well-formed* decoded message (wfBool, proved "
        "equivalent to WF) the implementation's own round trip is judged: announced length == bytes produced, "
        "decode(encode(m)) == m, nothing left over. distinct = distinct (module, payload, header) triples"
        % (n, ", every 16-bit value of adjacent byte pairs" if thorough else ""))
    for mod in codec.MODULES:
        mod.load()
        codeccheck.run_module(ctx, mod, n, prop="C03", pairs=thorough)
    import frame_try
    total = 0
    for gen in (4, 5):
        total += frame_try.run_gen(ctx, gen, 800 if thorough else 100)
    ctx.count("whole-frames", total)
    # several messages of varying size accepted while the link is down and flushed together (each is sized when accepted, encoded
    # when flushed): every frame on the wire is the frame of its own message
    import sockcheck
    for gen in (4, 5):
        items = []
        for n_msgs in (2, 3, 5):
            for start in (5, 12, 3):
                sids = [start + 7 * i for i in range(n_msgs)] + [start + 1, start + 2]
                items.append(("outage", [("net", "refuse"), ("open",), ("adv", 1)] + [("send", s_, "ok", "idem") for s_ in sids] + [("net", "accept"), ("adv", 24)]))
        sockcheck.judge_family(ctx, "C03", items, ["c01a", "c01b"], gen=gen)
    ctx.assumptions += ["float arithmetic of the temperature conversions is bridged by the exhaustive comparison over all raw values, not proved",
                        "whole-frame path (header factory, wrappers, CRC, receive path) is covered by the frame differential (frame_try: real send path and real _read_one_message against the model's frameOf / parse; whole-frame round trip judged for well-formed messages)"]


def search(ctx):
    if ctx.tier != "thorough":
        run(ctx, deep=True)


def replay(ctx, data):
    if "script" in data:
        import sockcheck
        return sockcheck.replay(ctx, data)
    return codeccheck.replay_roundtrip(ctx, data)
