"""C02 — retry discipline: bounded attempts, none after expiry, non-idempotent once."""
import warnings

import apiharness
import consolesim
import sockcheck

LEAN_MODULES = ["PyAirtouch.Props.C02", "PyAirtouch.Props.C02Retry", "PyAirtouch.Props.C02At4", "PyAirtouch.Props.C02At5"]
LEVEL = "proof"
MONITORS = ["c02a", "c02b", "c02c", "c02d", "c01a", "c01d"]


def _boundary_cases():
    out = []
    # 1 s policy: connection comes up at tick 16; expiry lands at 15 / 16 / 17
    for k in (-1, 0, 1):
        out.append(("outage", [("net", "refuse"), ("open",), ("adv", 8 + k), ("send", 1, "ok", "conn"), ("net", "accept"), ("adv", 24)]))
    # 30 s policy: attempts at 3, 19, ..., 243; expiry lands at 243 / 244
    for k in (0, 1):
        out.append(("outage", [("adv", 3), ("net", "refuse"), ("open",), ("adv", k), ("send", 1, "ok", "idem"),
                               ("adv", 232 - k), ("net", "accept"), ("adv", 24)]))
    # a write fault on the n-th write, then a refusal period shorter / longer than the remaining lifetime
    for n in range(1, 5):
        for pol in ("idem", "nonidem", "conn"):
            for outage in (0, 16, 248):
                s = [("net", "accept"), ("open",), ("adv", 8)]
                for i in range(1, n):
                    s.append(("send", i, "ok", "idem"))
                s += [("turn", 2), ("failw", 1, n + (1 if outage else 0)), ("net", "refuse" if outage else "accept"), ("send", n, "ok", pol), ("adv", outage or 1),
                      ("net", "accept"), ("adv", 40)]
                out.append(("faults", s))
    # a failed write late in the lifetime: the message sits in a blocked drain until `off` ticks before its expiry, the peer
    # resets, and the reconnection completes just before / at / just after the expiry (incl. the last 2 s = one retry delay)
    for off in (17, 16, 15, 9, 2, 1):
        for lat in sorted({1, max(1, off - 1), off, off + 1}):
            out.append(("faults", [("net", "accept"), ("open",), ("adv", 8), ("block", 1), ("send", 1, "ok", "idem"),
                                   ("adv", 240 - off), ("lat", lat), ("peer", "reset"), ("adv", 40 + lat)]))
    # a single transient write failure of every kind a failing send() can report (peer gone: EPIPE, ECONNRESET; path gone:
    # ETIMEDOUT, EHOSTUNREACH), then the network behaves: the idempotent command must come first on the next connection
    for kind in range(4):
        for pol in ("idem", "nonidem"):
            for pre in (0, 2):
                s = [("net", "accept"), ("open",), ("adv", 8)]
                s += [("send", 10 + i, "ok", "idem") for i in range(pre)]
                s += [("turn", 3), ("failw", 1, kind), ("send", 1, "ok", pol), ("send", 2, "ok", "idem"), ("adv", 3), ("heal",)]
                out.append(("faults", s))
    # the transport is lost on the read side (reset / timed out / unreachable) and a command is sent before the read task has
    # dealt with it: the write fails with the error the transport was lost with
    for what in ("reset", "timeout", "unreach"):
        for turns in (0, 1):
            out.append(("faults", [("net", "accept"), ("open",), ("adv", 8), ("turn", 3), ("peer", what), ("turn", turns),
                                   ("send", 1, "ok", "idem"), ("adv", 3), ("heal",)]))
    # one write fault, and further commands sent by other tasks while the client is still busy resetting that connection: the
    # failed command's retries must not be used up on the connection that is already known to be lost
    for kind in (0, 1, 2):
        for k in range(0, 5):
            for extra in (1, 2, 3):
                out.append(("faults", [("net", "accept"), ("open",), ("adv", 8), ("turn", 3), ("failw", 1, kind), ("send", 1, "ok", "idem"), ("turn", k)]
                            + [("send", 2 + i, "ok", "idem") for i in range(extra)] + [("adv", 3), ("heal",)]))
    # messages held while the link is down are flushed onto a congested link: the first write blocks in drain() while the clock moves
    # on, so a short-lived message behind it expires DURING the flush and must be discarded, not transmitted late
    for wait in (3, 6, 7, 8, 9, 12, 40):
        for lat in (1, 2):
            out.append(("outage", [("net", "accept"), ("lat", lat), ("blockfirst", 1), ("open",), ("send", 1, "ok", "idem"), ("send", 2, "ok", "conn"),
                                   ("send", 3, "ok", "idem"), ("adv", lat + wait), ("blockfirst", 0), ("block", 0), ("adv", 16)]))
    # ... and the application keeps sending while that flush is held up: an entry expires in the buffer during the block, a further
    # command is accepted (its acceptance discards the expired entry), then the congestion clears - every command once, in order
    for wait in (9, 12, 40):
        for later in (1, 2):
            for pol in ("idem", "nonidem"):
                out.append(("outage", [("net", "accept"), ("lat", 1), ("blockfirst", 1), ("open",), ("send", 1, "ok", "idem"), ("send", 2, "ok", "conn"),
                                       ("send", 3, "ok", pol), ("send", 4, "ok", "idem"), ("adv", 1 + wait)]
                            + [("send", 5 + i, "ok", "idem") for i in range(later)] + [("turn", 2), ("blockfirst", 0), ("block", 0), ("adv", 16)]))
    # the same loss noticed by TWO parties - the sender whose flush is held up and the read loop - while the application's connection
    # callback takes a few loop passes: the command (retries left) goes out again on the new connection, before anything newer
    for slow in (0, 1, 3, 6):
        for k in (0, 1, 2, 4):
            for fail in ("reset", "timeout", "eof"):
                out.append(("faults", [("net", "accept"), ("subslow", slow), ("open",), ("adv", 8), ("block", 1), ("send", 1, "ok", "idem"), ("turn", k),
                                       ("peer", fail), ("turn", 2), ("send", 2, "ok", "idem"), ("adv", 40), ("heal",)]))
    for slow in (1, 2, 3, 6):
        for kind in (0, 1, 2):
            for k in (0, 1, 2, 3, 5):
                out.append(("faults", [("net", "accept"), ("subslow", slow), ("open",), ("adv", 8), ("turn", 3), ("failw", 1, kind), ("send", 1, "ok", "idem"), ("turn", k),
                                       ("send", 2, "ok", "idem"), ("adv", 40), ("heal",)]))
    # peer reset while a drain is blocked, entry with / without retries
    for pol in ("idem", "nonidem"):
        out.append(("faults", [("net", "accept"), ("open",), ("adv", 8), ("block", 1), ("send", 1, "ok", pol), ("turn", 2),
                               ("peer", "reset"), ("adv", 40)]))
    # ... and the reconnection takes a while (ordinary connect latency): the read loop has taken the connection down, no new one is up
    # yet, and only then does the held-up flush fail - the failed write still counts as an attempt (a command without retries is
    # not transmitted again on the next connection; one with retries is, once)
    for pol in ("idem", "nonidem", "conn"):
        for lat in (1, 2, 17):
            for k in (0, 1, 2, 4):
                for fail in ("reset", "timeout", "eof"):
                    out.append(("faults", [("net", "accept"), ("open",), ("adv", 8), ("lat", lat), ("block", 1), ("send", 1, "ok", pol), ("turn", k),
                                           ("peer", fail), ("turn", 2), ("send", 2, "ok", "idem"), ("adv", 40 + lat), ("heal",)]))
    return out


def _nontrivial(script, r):
    return any(op[0] == "send" for op in script)


def run(ctx, deep=False):
    thorough = deep or ctx.tier == "thorough"
    n = 15000 if thorough else 1500
    ctx.coverage["rule"] = (
        "boundary scripts (a connection coming up exactly one tick before / at / after the expiry of a 1 s and of a 30 s message; a "
        "write fault on the n-th write for n <= 4 with each retry policy and outages shorter / longer than the lifetime; peer reset "
        "under a blocked drain) plus seeded outage and fault families, on the real socket (AT4 and AT5); monitors: attempts <= 1 + "
        "retries, every write attempt strictly before expiry, a failed idempotent write is re-sent first on the next connection; "
        "every run replayed block by block against the Lean model")
    for gen in (4, 5):
        items = _boundary_cases() + sockcheck.gen_scripts(ctx.seed * 41 + gen, [("faults", n), ("outage", n // 2)])
        from props import c01
        items = items + c01._full_buffer_requeue()          # a full buffer, a congested flush, a failing link: every command with retries left is kept
        good = sockcheck.judge_family(ctx, "C02", items, MONITORS, gen=gen, nontrivial=_nontrivial)
        sockcheck.validate_against_model(ctx, good, "AT%d" % gen)
    api_level(ctx, thorough)
    full_stack(ctx, thorough)
    ctx.assumptions += ["at the API layer the retry policy of every message the real objects send is judged against the vendor reading of that message "
                        "(accumulating commands: no retry; own-initiative requests: 1 s lifetime; other commands: the idempotent policy)"]


ACCUMULATING = ("toggle", "change", "next", "increase", "decrease")


def api_level(ctx, thorough):
    """every message the real AirTouch4 / AirTouch5 object sends (handshake, refresh after reconnect, every public call with every
    enum argument) with the retry policy it was given; whether a command accumulates is read off its frame by the vendor reader"""
    import pyairtouch.api as A
    import pyairtouch.comms.socket as S
    from props import c04
    spec_lines, metas = [], []
    for gen in (4, 5):
        for inst in consolesim.installs(gen, thorough):
            calls = []
            for ac in inst["acs"]:
                i = ac["id"]
                calls += ["call ac %d set_power %s" % (i, p.name) for p in A.AcPowerControl]
                calls += ["call ac %d set_mode %s %d" % (i, m.name, po) for m in A.AcMode for po in (0, 1)]
                calls += ["call ac %d set_fan_speed %s" % (i, f.name) for f in A.AcFanSpeed]
                calls += ["call ac %d set_target_temperature %s" % (i, t) for t in ("21", "22.5", "16", "30")]
                calls += ["call ac %d set_quick_timer %s duration 5400" % (i, t.name) for t in A.AcTimerType]
                calls += ["call ac %d clear_quick_timer %s" % (i, t.name) for t in A.AcTimerType]
            for z in sorted(inst["zones"]):
                calls += ["call zone %d set_power %s" % (z, p.name) for p in A.ZonePowerState]
                calls += ["call zone %d set_damper_percentage %d" % (z, d) for d in (0, 35, 100)]
                calls += ["call zone %d set_target_temperature %s" % (z, t) for t in ("20", "23.4")]
            calls.append("call at check_for_updates")
            hs = consolesim.handshake(gen, inst)
            # what the client sends on its own initiative because of what the console REPORTS (an AC error appearing / changing makes it
            # ask for the error text), not only at connection time
            con = consolesim.Console(ctx.rng, gen, inst)
            reports = []
            for code in (5, 7, 0, 5):
                for a in con.ac_ids:
                    reports.append(con.ac_frame([dict(con.ac[a], err=code)]))
            reports += [con.random_frame() for _ in range(12)]
            ops = hs + reports + calls + ["conn 0", "conn 1"] + reports[:len(con.ac_ids)]
            api = apiharness.Api(gen)
            import logging
            logging.disable(logging.CRITICAL)          # the package logs every unknown entity of the random status frames
            try:
                with warnings.catch_warnings():
                    warnings.simplefilter("ignore")
                    api.run(ops)
            finally:
                logging.disable(logging.NOTSET)
            for idx, op in enumerate(ops):
                for (msg, pol) in api.op_sent[idx]:
                    own = not op.startswith("call")
                    try:
                        hb, mb, crc, hdr = c04.frame_of(api, msg)
                    except Exception:  # noqa: BLE001
                        ctx.count("api:unencodable")
                        continue
                    kind = {(4, 0x2A): "2A", (4, 0x2C): "2C"}.get((gen, hdr.message_id))
                    if gen == 5 and hdr.message_id == 0xC0 and mb[:1] in (b"\x20", b"\x22"):
                        kind = "C020" if mb[0] == 0x20 else "C022"
                    spec_lines.append("spec %d %s %s" % (gen, kind, mb.hex()) if kind else "crc -")
                    metas.append((gen, op, own, pol, kind, type(msg).__name__))
    readings = ctx.oracle(spec_lines) if spec_lines else []
    worst = {}

    class Doc:
        """the documented policies (values, not the package's module-level objects: a call that alters one of those objects must show)"""
        def __init__(self, r, l):
            self.max_retries, self.max_lifetime = r, l
    S = type("Documented", (), {"RETRY_CONNECTED": Doc(0, 1.0), "RETRY_NON_IDEMPOTENT": Doc(0, 30.0), "RETRY_IDEMPOTENT": Doc(2, 30.0)})
    for (gen, op, own, pol, kind, mname), r in zip(metas, readings):
        ctx.case(("api-policy", gen, op, mname))
        if own:
            want, why = S.RETRY_CONNECTED, "a request sent on the client's own initiative (handshake / refresh / heartbeat) is discarded unless a connection exists within one second"
        elif kind and any(("=" + w) in r.split(" changes=")[0] or ("=" + w + "(") in r for w in ACCUMULATING):
            want, why = S.RETRY_NON_IDEMPOTENT, "the frame reads as an accumulating command (%s): it must be transmitted at most once" % r.split(" changes=")[0][:120]
        else:
            want, why = S.RETRY_IDEMPOTENT, "an idempotent command keeps its retries"
        ctx.count("api:policy:%s" % ("own-initiative" if own else ("accumulating" if want is S.RETRY_NON_IDEMPOTENT else "idempotent")))
        if (pol.max_retries, pol.max_lifetime) != (want.max_retries, want.max_lifetime):
            key = "C02:api:%d:%s" % (gen, "own" if own else mname)
            if key not in worst:
                worst[key] = (gen, op, mname, pol, want, why)
    for key, (gen, op, mname, pol, want, why) in worst.items():
        ctx.violation(key, "AirTouch %d op `%s`: %s sent with retry policy (retries %s, lifetime %s s) but %s (expected retries %s, lifetime %s s)" % (
            gen, op, mname, pol.max_retries, pol.max_lifetime, why, want.max_retries, want.max_lifetime), kind="input", level="api", gen=gen, op=op,
            implementation_output=[pol.max_retries, pol.max_lifetime], spec_verdict=why)
    ctx.coverage["rule"] += (" API level: every message the real AirTouch4 / AirTouch5 objects send during the handshake, after a reconnection, in reaction to status reports (AC errors appearing / changing / clearing, random status frames) and for every public "
                             "call with every enum argument, with the retry policy given to the socket; a command is accumulating iff the vendor reading of its "
                             "frame says toggle / change / next / increase / decrease.")


def _fs_seen(gen, b, kind):
    key = {"ac": (0x2C, None) if gen == 4 else (0xC0, 0x22), "zone": (0x2A, None) if gen == 4 else (0xC0, 0x20)}[kind]
    return [(r[0], r[1]) for r in b["requests"] if r[2] == key]


def full_stack(ctx, thorough):
    """the real API object over the real socket and the in-memory transport, with the loop's default and with its EAGER task factory (under
    which the read loop completes the disconnect before the task whose flush was held up is told of the loss - an order of events the
    block-by-block recordings of the socket harness, which need their own task class, do not produce): one control call whose write is
    held up on a congested link, then the link is lost.  An accumulating command (no retries) is on the wire at most once; any command at
    most 1 + retries times, each time on another connection; a command with retries left whose held-up write failed with the link is
    sent again on the next connection."""
    import fullstack
    ctx.coverage["rule"] += ("; full stack (real API object, real socket, in-memory transport, default and eager task factory): a control call held up on a "
                             "congested link, the link lost 1..4 ticks later (reset / timed out / end of stream), reconnection latency 0..17 ticks - the "
                             "console counts the control frames it receives per connection")
    worst = None
    for gen in (4, 5):
        for eager in (False, True):
            for lat in ((0, 1, 2, 17) if thorough else (0, 2)):
                for k in ((1, 2, 3, 4) if thorough else (1, 3)):
                    for what in ("reset", "timeout", "eof"):
                        for call, kind, limit in (("toggle", "ac", 1), ("power", "ac", 6), ("zone", "zone", 6)):
                            sc = dict(inst=fullstack.INST, horizon=200, eager=eager, latency=lat, faults=[(60, "block"), (61 + k, what)], calls=[(61, call)])
                            b = fullstack.run(gen, sc)
                            ctx.case(("full-stack", gen, eager, lat, k, what, call))
                            if b.get("init_result") is not True:
                                ctx.tie_broken("C02:console-script", "the full-stack console no longer initialises the AirTouch %d object" % gen)
                                continue
                            made = [c for c in b["call_log"] if c[1] == call and c[2] == "called"]
                            seen = _fs_seen(gen, b, kind)
                            ctx.count("full-stack:%s:frames=%d" % (call, len(seen)))
                            why = None
                            if len(made) == 1 and len(seen) > limit:
                                why = "one %s call was put on the wire %d times (its policy allows %d attempt(s))" % (call, len(seen), limit)
                            elif len(made) == 1 and len(set(c for _, c in seen)) < len(seen):
                                why = "one %s call was written more than once on the same connection" % call
                            elif len(made) == 1 and limit > 1 and what != "eof" and len(seen) < 2:
                                # (a link lost with an error makes the held-up write fail; one lost by an orderly end of stream lets it return normally)
                                why = ("the write of one %s call failed with the link (retries left, 30 s lifetime, reconnected at once) and the command was not "
                                       "sent again on the next connection" % call)
                            if why and worst is None:
                                worst = (gen, sc, why, seen)
    if worst:
        gen, sc, why, seen = worst
        sc = {k: v for k, v in sc.items() if k != "inst"}
        ctx.violation("C02:full-stack", "AirTouch %d, %s task factory, link congested at tick 60 and lost (%s) at %d, reconnection latency %d ticks: %s; control frames at the "
                      "console (tick, connection): %s" % (gen, "eager" if sc["eager"] else "default", sc["faults"][1][1], sc["faults"][1][0], sc["latency"], why, seen),
                      kind="history", level="full-stack", gen=gen, scenario=sc, implementation_output=str(seen), spec_verdict=why)


def search(ctx):
    if ctx.tier != "thorough":
        run(ctx, deep=True)


def replay(ctx, data):
    if data.get("level") == "api":
        print(data.get("op"), data.get("spec_verdict"))
        return 1
    if data.get("level") == "full-stack":
        import fullstack
        sc = dict(data["scenario"], inst=fullstack.INST)
        sc["faults"] = [tuple(f) for f in sc["faults"]]
        sc["calls"] = [tuple(c) for c in sc["calls"]]
        b = fullstack.run(data["gen"], sc)
        print("calls:", b["call_log"], "control frames at the console (tick, connection):", _fs_seen(data["gen"], b, "ac"), _fs_seen(data["gen"], b, "zone"))
        return 1
    return sockcheck.replay(ctx, data)
