"""C02 — retry discipline: bounded attempts, none after expiry, non-idempotent once."""
import sockcheck

LEAN_MODULES = ["PyAirtouch.Props.C02"]
LEVEL = "proof"
MONITORS = ["c02a", "c02b", "c02c", "c01a"]


def _boundary_cases():
    out = []
    # 1 s policy: connection comes up at tick 16; expiry lands at 15 / 16 / 17
    for k in (-1, 0, 1):
        out.append(("outage", [("net", "refuse"), ("open",), ("adv", 8 + k), ("send", 1, "ok", "conn"), ("net", "accept"), ("adv", 24)]))
    # 30 s policy: attempts at 3, 19, ..., 243; expiry lands at 243 / 244
    for k in (0, 1):
        out.append(("outage", [("adv", 3), ("net", "refuse"), ("open",), ("adv", k), ("send", 1, "ok", "idem"),
                               ("adv", 232 - k), ("net", "accept"), ("adv", 24)]))
    # a write fault on the n-th write, then a refusal period shorter / longer than the remaining lifetime
    for n in range(1, 5):
        for pol in ("idem", "nonidem", "conn"):
            for outage in (0, 16, 248):
                s = [("net", "accept"), ("open",), ("adv", 8)]
                for i in range(1, n):
                    s.append(("send", i, "ok", "idem"))
                s += [("turn", 2), ("failw", 1), ("net", "refuse" if outage else "accept"), ("send", n, "ok", pol), ("adv", outage or 1),
                      ("net", "accept"), ("adv", 40)]
                out.append(("faults", s))
    # a failed write late in the lifetime: the message sits in a blocked drain until `off` ticks before its expiry, the peer
    # resets, and the reconnection completes just before / at / just after the expiry (incl. the last 2 s = one retry delay)
    for off in (17, 16, 15, 9, 2, 1):
        for lat in sorted({1, max(1, off - 1), off, off + 1}):
            out.append(("faults", [("net", "accept"), ("open",), ("adv", 8), ("block", 1), ("send", 1, "ok", "idem"),
                                   ("adv", 240 - off), ("lat", lat), ("peer", "reset"), ("adv", 40 + lat)]))
    # peer reset while a drain is blocked, entry with / without retries
    for pol in ("idem", "nonidem"):
        out.append(("faults", [("net", "accept"), ("open",), ("adv", 8), ("block", 1), ("send", 1, "ok", pol), ("turn", 2),
                               ("peer", "reset"), ("adv", 40)]))
    return out


def _nontrivial(script, r):
    return any(op[0] == "send" for op in script)


def run(ctx, deep=False):
    thorough = deep or ctx.tier == "thorough"
    n = 15000 if thorough else 1500
    ctx.coverage["rule"] = (
        "boundary scripts (a connection coming up exactly one tick before / at / after the expiry of a 1 s and of a 30 s message; a "
        "write fault on the n-th write for n <= 4 with each retry policy and outages shorter / longer than the lifetime; peer reset "
        "under a blocked drain) plus seeded outage and fault families, on the real socket (AT4 and AT5); monitors: attempts <= 1 + "
        "retries, every write attempt strictly before expiry, a failed idempotent write is re-sent first on the next connection; "
        "every run replayed block by block against the Lean model")
    for gen in (4, 5):
        items = _boundary_cases() + sockcheck.gen_scripts(ctx.seed * 41 + gen, [("faults", n), ("outage", n // 2)])
        good = sockcheck.judge_family(ctx, "C02", items, MONITORS, gen=gen, nontrivial=_nontrivial)
        sockcheck.validate_against_model(ctx, good, "AT%d" % gen)
    ctx.assumptions += ["the policy chosen by each public API command is checked at the API layer (policy table)"]


def search(ctx):
    if ctx.tier != "thorough":
        run(ctx, deep=True)


def replay(ctx, data):
    return sockcheck.replay(ctx, data)
